// Command c11 drives the real goa evaluation engine (eval.Register, eval.Context.Roots,
// eval.RunDSL) with instrumented roots and expressions built from program
// descriptions, writes what it observed as Coq terms (to be compared with the Eval
// model inside Coq) and evaluates the laws of property C11 directly on the recorded
// callback trace (result.json: failures found by the direct oracle).
package main

import (
	"encoding/json"
	"errors"
	"flag"
	"fmt"
	"math/big"
	"os"
	"path/filepath"
	"sort"
	"strings"

	"goa.design/goa/v3/codegen"
	"goa.design/goa/v3/codegen/generator"
	"goa.design/goa/v3/eval"

	"verifharness/vh"
)

// ---------------------------------------------------------------- program descriptions

type ActD struct {
	Kind string `json:"kind"` // append | register | error
	Set  int    `json:"set,omitempty"`
	Expr *ExprD `json:"expr,omitempty"`
	Root int    `json:"root,omitempty"`
}

type ExprD struct {
	ID   int    `json:"id"`
	Src  bool   `json:"src"`
	Acts []ActD `json:"acts,omitempty"`
	Prep bool   `json:"prep,omitempty"`
	Val  int    `json:"val,omitempty"` // 0 no Validator, 1 Validate returns nil, 2 Validate returns an error
	Fin  bool   `json:"fin,omitempty"`
}

type RootD struct {
	Deps []int     `json:"deps"`
	Sets [][]ExprD `json:"sets"`
	Prep bool      `json:"prep,omitempty"`
	Val  int       `json:"val,omitempty"`
	Fin  bool      `json:"fin,omitempty"`
}

type Program struct {
	Roots  []RootD `json:"roots"`
	Regs   []int   `json:"regs"`
	Stream string  `json:"stream,omitempty"`
	// Names gives the EvalName of every root (default "root-<index>"); names only
	// matter to code that looks at them (duplicate detection, any sorting by name).
	Names []string `json:"names,omitempty"`
}

// GraphCase is a Roots()-only case: DependsOn table and registration order.
type GraphCase struct {
	N    int     `json:"n"`
	Deps [][]int `json:"deps"`
	Regs []int   `json:"regs"`
}

const (
	phExec = iota
	phPrepare
	phValidate
	phFinalize
)
const (
	kCall = iota
	kReport
	kFail
)

var phName = []string{"Exec", "Prepare", "Validate", "Finalize"}

type Event struct {
	Ph, Root, Who, Kind int // Who = -1: the root itself
}

type Ident struct{ Root, Who int }

type ErrEntry struct {
	Valid bool    `json:"valid"` // false: ReportError entry, true: ValidationErrors of one set
	IDs   []Ident `json:"ids"`
}

type Outcome struct {
	Class string     `json:"class"` // none | cycle | toomany | errors | other
	Errs  []ErrEntry `json:"errs,omitempty"`
	Msg   string     `json:"msg,omitempty"`
}

type RootsObs struct {
	Cycle bool  `json:"cycle"`
	Order []int `json:"order"`
}

// ---------------------------------------------------------------- test doubles

type run struct {
	prog       *Program
	roots      []*tRoot
	ifaces     []eval.Root
	trace      []Event
	walks      []walkEv
	registered []int
	insts      []*tExpr
	byName     map[string]int
	regAt      map[int]int // number of WalkSets calls made when the root got registered
}

type walkEv struct{ root, at int }

type tRoot struct {
	run  *run
	idx  int
	def  *RootD
	sets [][]eval.Expression
}

func (r *tRoot) EvalName() string {
	if r.idx < len(r.run.prog.Names) {
		return r.run.prog.Names[r.idx]
	}
	return fmt.Sprintf("root-%d", r.idx)
}
func (r *tRoot) Packages() []string { return nil }
func (r *tRoot) DependsOn() []eval.Root {
	var out []eval.Root
	for _, d := range r.def.Deps {
		if d >= 0 && d < len(r.run.ifaces) {
			out = append(out, r.run.ifaces[d])
		}
	}
	return out
}

// WalkSets hands the sets out one after the other; each set is read when the
// walker reaches it (the way expr.RootExpr.WalkSets builds its sets).
func (r *tRoot) WalkSets(w eval.SetWalker) {
	r.run.walks = append(r.run.walks, walkEv{r.idx, len(r.run.trace)})
	for k := 0; k < len(r.sets); k++ {
		w(eval.ExpressionSet(r.sets[k]))
	}
}
func (r *tRoot) emit(ph, kind int) {
	r.run.trace = append(r.run.trace, Event{ph, r.idx, -1, kind})
}

type rPrep struct{ r *tRoot }
type rVal struct{ r *tRoot }
type rFin struct{ r *tRoot }

func (m rPrep) Prepare() { m.r.emit(phPrepare, kCall) }
func (m rVal) Validate() error {
	if m.r.def.Val == 2 {
		m.r.emit(phValidate, kFail)
		return fmt.Errorf("V")
	}
	m.r.emit(phValidate, kCall)
	return nil
}
func (m rFin) Finalize() { m.r.emit(phFinalize, kCall) }

type r000 struct{ *tRoot }
type r100 struct {
	*tRoot
	rPrep
}
type r010 struct {
	*tRoot
	rVal
}
type r110 struct {
	*tRoot
	rPrep
	rVal
}
type r001 struct {
	*tRoot
	rFin
}
type r101 struct {
	*tRoot
	rPrep
	rFin
}
type r011 struct {
	*tRoot
	rVal
	rFin
}
type r111 struct {
	*tRoot
	rPrep
	rVal
	rFin
}

func rootIface(r *tRoot) eval.Root {
	p, v, f := rPrep{r}, rVal{r}, rFin{r}
	m := 0
	if r.def.Prep {
		m |= 4
	}
	if r.def.Val != 0 {
		m |= 2
	}
	if r.def.Fin {
		m |= 1
	}
	switch m {
	case 0:
		return r000{r}
	case 4:
		return r100{r, p}
	case 2:
		return r010{r, v}
	case 6:
		return r110{r, p, v}
	case 1:
		return r001{r, f}
	case 5:
		return r101{r, p, f}
	case 3:
		return r011{r, v, f}
	}
	return r111{r, p, v, f}
}

type tExpr struct {
	run   *run
	root  *tRoot
	def   *ExprD
	set   int // set it lives in
	from  int // set of the expression whose DSL appended it, -1: present from the start
	execs int
	preps int
	vals  int
	fins  int
}

func (e *tExpr) EvalName() string { return fmt.Sprintf("expr-%d-%d", e.root.idx, e.def.ID) }
func (e *tExpr) emit(ph, kind int) {
	e.run.trace = append(e.run.trace, Event{ph, e.root.idx, e.def.ID, kind})
}

type eSrc struct{ e *tExpr }
type ePrep struct{ e *tExpr }
type eVal struct{ e *tExpr }
type eFin struct{ e *tExpr }

func (m eSrc) DSL() func() { return m.e.dsl }
func (m ePrep) Prepare()   { m.e.preps++; m.e.emit(phPrepare, kCall) }
func (m eVal) Validate() error {
	m.e.vals++
	if m.e.def.Val == 2 {
		m.e.emit(phValidate, kFail)
		return fmt.Errorf("V")
	}
	m.e.emit(phValidate, kCall)
	return nil
}
func (m eFin) Finalize() { m.e.fins++; m.e.emit(phFinalize, kCall) }

func (e *tExpr) dsl() {
	e.execs++
	e.emit(phExec, kCall)
	for i := range e.def.Acts {
		a := &e.def.Acts[i]
		switch a.Kind {
		case "append":
			if a.Set >= 0 && a.Set < len(e.root.sets) && a.Expr != nil {
				ne := e.run.newExpr(e.root, a.Expr, a.Set, e.set)
				e.root.sets[a.Set] = append(e.root.sets[a.Set], ne)
			}
		case "register":
			if a.Root >= 0 && a.Root < len(e.run.ifaces) {
				if err := eval.Register(e.run.ifaces[a.Root]); err == nil {
					e.run.registered = append(e.run.registered, a.Root)
					e.run.regAt[a.Root] = len(e.run.walks)
				}
			}
		case "error":
			e.emit(phExec, kReport)
			eval.ReportError("X %d %d", e.root.idx, e.def.ID)
		}
	}
}

type identer interface{ ident() Ident }

func (e *tExpr) ident() Ident { return Ident{e.root.idx, e.def.ID} }
func (r *tRoot) ident() Ident { return Ident{r.idx, -1} }

type (
	e0000 struct{ *tExpr }
	e1000 struct {
		*tExpr
		eSrc
	}
	e0100 struct {
		*tExpr
		ePrep
	}
	e1100 struct {
		*tExpr
		eSrc
		ePrep
	}
	e0010 struct {
		*tExpr
		eVal
	}
	e1010 struct {
		*tExpr
		eSrc
		eVal
	}
	e0110 struct {
		*tExpr
		ePrep
		eVal
	}
	e1110 struct {
		*tExpr
		eSrc
		ePrep
		eVal
	}
	e0001 struct {
		*tExpr
		eFin
	}
	e1001 struct {
		*tExpr
		eSrc
		eFin
	}
	e0101 struct {
		*tExpr
		ePrep
		eFin
	}
	e1101 struct {
		*tExpr
		eSrc
		ePrep
		eFin
	}
	e0011 struct {
		*tExpr
		eVal
		eFin
	}
	e1011 struct {
		*tExpr
		eSrc
		eVal
		eFin
	}
	e0111 struct {
		*tExpr
		ePrep
		eVal
		eFin
	}
	e1111 struct {
		*tExpr
		eSrc
		ePrep
		eVal
		eFin
	}
)

func (rn *run) newExpr(root *tRoot, d *ExprD, set, from int) eval.Expression {
	e := &tExpr{run: rn, root: root, def: d, set: set, from: from}
	rn.insts = append(rn.insts, e)
	s, p, v, f := eSrc{e}, ePrep{e}, eVal{e}, eFin{e}
	m := 0
	if d.Src {
		m |= 8
	}
	if d.Prep {
		m |= 4
	}
	if d.Val != 0 {
		m |= 2
	}
	if d.Fin {
		m |= 1
	}
	switch m {
	case 0:
		return e0000{e}
	case 8:
		return e1000{e, s}
	case 4:
		return e0100{e, p}
	case 12:
		return e1100{e, s, p}
	case 2:
		return e0010{e, v}
	case 10:
		return e1010{e, s, v}
	case 6:
		return e0110{e, p, v}
	case 14:
		return e1110{e, s, p, v}
	case 1:
		return e0001{e, f}
	case 9:
		return e1001{e, s, f}
	case 5:
		return e0101{e, p, f}
	case 13:
		return e1101{e, s, p, f}
	case 3:
		return e0011{e, v, f}
	case 11:
		return e1011{e, s, v, f}
	case 7:
		return e0111{e, p, v, f}
	}
	return e1111{e, s, p, v, f}
}

// curRun is the run whose roots are registered in eval.Context.
var curRun *run

func rootIdx(r eval.Root) int {
	if i, ok := curRun.byName[r.EvalName()]; ok {
		return i
	}
	return -1
}

func build(p *Program) *run {
	rn := &run{prog: p, byName: map[string]int{}, regAt: map[int]int{}}
	curRun = rn
	for i := range p.Roots {
		rn.roots = append(rn.roots, &tRoot{run: rn, idx: i, def: &p.Roots[i]})
		rn.byName[rn.roots[i].EvalName()] = i
	}
	for _, r := range rn.roots {
		rn.ifaces = append(rn.ifaces, rootIface(r))
	}
	for _, r := range rn.roots {
		r.sets = make([][]eval.Expression, len(r.def.Sets))
		for k := range r.def.Sets {
			for j := range r.def.Sets[k] {
				r.sets[k] = append(r.sets[k], rn.newExpr(r, &r.def.Sets[k][j], k, -1))
			}
		}
	}
	eval.Reset()
	for _, q := range p.Regs {
		if q >= 0 && q < len(rn.ifaces) {
			if err := eval.Register(rn.ifaces[q]); err == nil {
				rn.registered = append(rn.registered, q)
				rn.regAt[q] = 0
			}
		}
	}
	return rn
}

func observeRoots() RootsObs {
	rs, err := eval.Context.Roots()
	if err != nil {
		return RootsObs{Cycle: true}
	}
	o := RootsObs{Order: []int{}}
	for _, r := range rs {
		o.Order = append(o.Order, rootIdx(r))
	}
	return o
}

func classify(err error) Outcome {
	if err == nil {
		return Outcome{Class: "none"}
	}
	var me eval.MultiError
	if errors.As(err, &me) {
		o := Outcome{Class: "errors"}
		for _, e := range me {
			if ve, ok := e.GoError.(*eval.ValidationErrors); ok {
				en := ErrEntry{Valid: true}
				for _, x := range ve.Expressions {
					if id, ok := x.(identer); ok {
						en.IDs = append(en.IDs, id.ident())
					} else {
						en.IDs = append(en.IDs, Ident{-1, -1})
					}
				}
				o.Errs = append(o.Errs, en)
				continue
			}
			var r, i int
			if n, _ := fmt.Sscanf(e.GoError.Error(), "X %d %d", &r, &i); n == 2 {
				o.Errs = append(o.Errs, ErrEntry{IDs: []Ident{{r, i}}})
			} else {
				return Outcome{Class: "other", Msg: e.GoError.Error()}
			}
		}
		return o
	}
	msg := err.Error()
	switch {
	case strings.Contains(msg, "dependency cycle"):
		return Outcome{Class: "cycle"}
	case strings.Contains(msg, "too many generated roots"):
		return Outcome{Class: "toomany"}
	}
	return Outcome{Class: "other", Msg: msg}
}

// ---------------------------------------------------------------- Coq printing

func coqVal(v int) string {
	switch v {
	case 1:
		return "(Some false)"
	case 2:
		return "(Some true)"
	}
	return "None"
}

func coqExpr(e *ExprD) string {
	acts := make([]string, len(e.Acts))
	for i := range e.Acts {
		a := &e.Acts[i]
		switch a.Kind {
		case "append":
			acts[i] = fmt.Sprintf("AAppend %d %s", a.Set, coqExpr(a.Expr))
		case "register":
			acts[i] = fmt.Sprintf("ARegister %d", a.Root)
		default:
			acts[i] = "AError"
		}
	}
	return fmt.Sprintf("(E %d %s %s %s %s %s)", e.ID, vh.CoqBool(e.Src), vh.CoqList(acts), vh.CoqBool(e.Prep), coqVal(e.Val), vh.CoqBool(e.Fin))
}

func coqProgram(p *Program) string {
	rs := make([]string, len(p.Roots))
	for i := range p.Roots {
		r := &p.Roots[i]
		sets := make([]string, len(r.Sets))
		for k := range r.Sets {
			es := make([]string, len(r.Sets[k]))
			for j := range r.Sets[k] {
				es[j] = coqExpr(&r.Sets[k][j])
			}
			sets[k] = vh.CoqList(es)
		}
		rs[i] = fmt.Sprintf("R %s %s %s %s %s", vh.CoqNatList(r.Deps), vh.CoqList(sets), vh.CoqBool(r.Prep), coqVal(r.Val), vh.CoqBool(r.Fin))
	}
	return fmt.Sprintf("(P %s %s)", vh.CoqList(rs), vh.CoqNatList(p.Regs))
}

func coqWho(w int) string {
	if w < 0 {
		return "None"
	}
	return fmt.Sprintf("(Some %d)", w)
}

// coqTrace writes one number per event (decoded by Run.decode_ev):
// ((root*256 + who)*3 + kind)*4 + phase, who = 0 for the root, identity+1 otherwise.
func coqTrace(t []Event) string {
	ss := make([]string, len(t))
	for i, e := range t {
		if e.Who >= 255 {
			panic("expression identity too large for the trace encoding")
		}
		ss[i] = fmt.Sprintf("%d", ((e.Root*256+e.Who+1)*3+e.Kind)*4+e.Ph)
	}
	return "[" + strings.Join(ss, ";") + "]%N"
}

func coqIdent(i Ident) string { return fmt.Sprintf("(%d, %s)", i.Root, coqWho(i.Who)) }

func coqOutcome(o Outcome) string {
	switch o.Class {
	case "none":
		return "Done"
	case "cycle":
		return "CycleErr"
	case "toomany":
		return "TooManyRoots"
	case "errors":
		es := make([]string, len(o.Errs))
		for i, e := range o.Errs {
			if e.Valid {
				ids := make([]string, len(e.IDs))
				for j, id := range e.IDs {
					ids[j] = coqIdent(id)
				}
				es[i] = "VErr " + vh.CoqList(ids)
			} else {
				es[i] = "XErr " + coqIdent(e.IDs[0])
			}
		}
		return "(Errs " + vh.CoqList(es) + ")"
	}
	return "Stuck" // an error of no modelled class: never equal to the model's outcome
}

func coqRoots(o RootsObs) string {
	if o.Cycle {
		return "Cycle"
	}
	return "(Ok " + vh.CoqNatList(o.Order) + ")"
}

// ---------------------------------------------------------------- direct oracle

// reach computes the roots reachable from r through DependsOn (r included).
func reach(p *Program, r int) map[int]bool {
	seen := map[int]bool{r: true}
	stack := []int{r}
	for len(stack) > 0 {
		x := stack[len(stack)-1]
		stack = stack[:len(stack)-1]
		for _, d := range p.Roots[x].Deps {
			if d >= 0 && d < len(p.Roots) && !seen[d] {
				seen[d] = true
				stack = append(stack, d)
			}
		}
	}
	return seen
}

// strictReach: roots reachable from r by at least one edge.
func strictReach(p *Program, r int) map[int]bool {
	out := map[int]bool{}
	for _, d := range p.Roots[r].Deps {
		if d >= 0 && d < len(p.Roots) {
			for x := range reach(p, d) {
				out[x] = true
			}
		}
	}
	return out
}

// cyclic: some registered root depends on itself or two distinct registered roots
// depend on each other, directly or not.
func cyclic(p *Program, regs []int) bool {
	for _, r := range regs {
		for _, d := range p.Roots[r].Deps {
			if d == r {
				return true
			}
		}
	}
	for _, a := range regs {
		ra := reach(p, a)
		for _, b := range regs {
			if a != b && ra[b] && reach(p, b)[a] {
				return true
			}
		}
	}
	return false
}

// onCycle: r can reach itself through at least one edge.
func onCycle(p *Program, r int) bool { return strictReach(p, r)[r] }

type oracleOut struct {
	sig, what string
}

func oracle(p *Program, rn *run, pre RootsObs, o Outcome) []oracleOut {
	var out []oracleOut
	fail := func(sig, what string, a ...any) { out = append(out, oracleOut{sig, fmt.Sprintf(what, a...)}) }
	if o.Class == "other" {
		fail("unexpected-error", "RunDSL returned an error of no expected class: %s", o.Msg)
		return out
	}
	tr := rn.trace
	regsInit := []int{}
	seenReg := map[int]bool{}
	for _, q := range p.Regs {
		if q >= 0 && q < len(p.Roots) && !seenReg[q] {
			seenReg[q] = true
			regsInit = append(regsInit, q)
		}
	}
	regsFinal := rn.registered
	isReg := map[int]bool{}
	for _, q := range regsFinal {
		isReg[q] = true
	}

	// (1) phase barrier
	for i := 1; i < len(tr); i++ {
		if tr[i].Ph < tr[i-1].Ph {
			fail("phase-barrier", "a %s callback (root %d, expression %d) ran after a %s callback (root %d, expression %d)",
				phName[tr[i].Ph], tr[i].Root, tr[i].Who, phName[tr[i-1].Ph], tr[i-1].Root, tr[i-1].Who)
			break
		}
	}
	// (2) cycles are reported, and only cycles
	if cyclic(p, regsInit) {
		if !pre.Cycle {
			fail("cycle-not-reported", "Roots() accepted registered roots %v although they contain a dependency cycle", regsInit)
		}
		if o.Class != "cycle" {
			self := false
			for _, r := range regsInit {
				for _, d := range p.Roots[r].Deps {
					self = self || d == r
				}
			}
			if self {
				fail("self-dependency-not-reported", "RunDSL did not report the dependency cycle of a root that depends on itself (registered %v)", regsInit)
			} else {
				fail("cycle-not-reported", "RunDSL did not report the dependency cycle among the registered roots %v", regsInit)
			}
		} else if len(tr) > 0 {
			fail("callbacks-despite-cycle", "%d callbacks ran although the registered roots contain a dependency cycle", len(tr))
		}
	} else {
		if pre.Cycle {
			fail("spurious-cycle", "Roots() reported a cycle for acyclic registered roots %v", regsInit)
		}
		if cyclic(p, regsFinal) && o.Class != "cycle" && o.Class != "toomany" {
			fail("cycle-not-reported", "RunDSL did not report the dependency cycle among the roots registered at the end %v", regsFinal)
		}
		if o.Class == "cycle" && !cyclic(p, regsFinal) {
			fail("spurious-cycle", "RunDSL reported a cycle but the registered roots %v have none", regsFinal)
		}
	}
	// Roots() itself: every registered root listed once, dependencies first
	if !pre.Cycle {
		pos := map[int]int{}
		for i, r := range pre.Order {
			if _, dup := pos[r]; dup {
				fail("roots-duplicate", "Roots() lists root %d twice: %v", r, pre.Order)
			}
			pos[r] = i
		}
		for _, r := range regsInit {
			if _, ok := pos[r]; !ok {
				fail("roots-missing", "Roots() does not list registered root %d: %v", r, pre.Order)
			}
		}
		if !cyclic(p, regsInit) {
			for _, r := range regsInit {
				for d := range strictReach(p, r) {
					if d == r || (!seenReg[d] && onCycle(p, d)) {
						continue
					}
					pd, ok := pos[d]
					if !ok || pd > pos[r] {
						fail("roots-order", "Roots() = %v: root %d depends on root %d which does not come before it", pre.Order, r, d)
					}
				}
			}
		}
	}
	stoppedInLoop := o.Class == "cycle" || o.Class == "toomany"
	// walk rounds: n-th WalkSets call of a root = phase n
	nwalk := map[int]int{}
	firstWalk := [4][]int{}
	for _, w := range rn.walks {
		n := nwalk[w.root]
		nwalk[w.root]++
		if n < 4 {
			firstWalk[n] = append(firstWalk[n], w.root)
		} else {
			fail("too-many-walks", "WalkSets of root %d called %d times", w.root, n+1)
		}
	}
	walkAt := map[int]int{} // index of the first WalkSets call of every root
	for i, w := range rn.walks {
		if _, ok := walkAt[w.root]; !ok {
			walkAt[w.root] = i
		}
	}
	// (3) every dependency is processed before its dependant, in every phase
	if !stoppedInLoop {
		for ph := 0; ph < 4; ph++ {
			pos := map[int]int{}
			for i, r := range firstWalk[ph] {
				pos[r] = i
			}
			for _, r := range firstWalk[ph] {
				if !isReg[r] {
					continue
				}
				for d := range strictReach(p, r) {
					if d == r || !isReg[d] {
						continue
					}
					pd, ok := pos[d]
					if ph == phExec && ok && pd > pos[r] && walkAt[r] < rn.regAt[r] {
						// r ran as a mere dependency of a registered root, before its own registration
						fail("dependency-order-of-root-executed-before-registration", "Exec phase: root %d, executed as a dependency before it was registered, ran before root %d it depends on (walk order %v)", r, d, firstWalk[ph])
					} else if !ok || pd > pos[r] {
						fail("dependency-order", "%s phase: root %d was walked before root %d it depends on (walk order %v)", phName[ph], r, d, firstWalk[ph])
					}
				}
			}
		}
	}
	// (4) errors: all returned, later phases skipped
	var reports, fails []Ident
	count := [4]int{}
	for _, e := range tr {
		count[e.Ph]++
		if e.Kind == kReport {
			reports = append(reports, Ident{e.Root, e.Who})
		}
		if e.Kind == kFail {
			fails = append(fails, Ident{e.Root, e.Who})
		}
	}
	if !stoppedInLoop {
		switch {
		case len(reports) > 0:
			if count[phPrepare]+count[phValidate]+count[phFinalize] > 0 {
				fail("later-phase-after-execution-error", "%d prepare, %d validate, %d finalize callbacks ran although the DSL reported %d error(s)",
					count[phPrepare], count[phValidate], count[phFinalize], len(reports))
			}
			var got []Ident
			ok := o.Class == "errors"
			for _, e := range o.Errs {
				ok = ok && !e.Valid
				got = append(got, e.IDs...)
			}
			if !ok || fmt.Sprint(got) != fmt.Sprint(reports) {
				fail("execution-errors-not-returned", "the DSL reported errors %v, RunDSL returned class %q with %v", reports, o.Class, got)
			}
		case len(fails) > 0:
			if count[phFinalize] > 0 {
				fail("finalize-after-validation-error", "%d finalize callbacks ran although %d validation(s) failed", count[phFinalize], len(fails))
			}
			var got []Ident
			ok := o.Class == "errors"
			for _, e := range o.Errs {
				ok = ok && e.Valid
				got = append(got, e.IDs...)
			}
			if !ok || fmt.Sprint(got) != fmt.Sprint(fails) {
				fail("validation-errors-not-returned", "validations failed for %v, RunDSL returned class %q with %v", fails, o.Class, got)
			}
		default:
			if o.Class != "none" {
				fail("spurious-error", "RunDSL returned class %q although no callback reported an error", o.Class)
			}
		}
	}
	// (5)(6) every root registered at the end was walked once per phase reached, every
	// expression present at the end went through every phase reached exactly once
	if !stoppedInLoop && len(regsFinal) > 0 {
		reached := 1
		if len(reports) == 0 {
			reached = 3
			if len(fails) == 0 {
				reached = 4
			}
		}
		late := map[int]bool{}
		for _, q := range regsFinal {
			late[q] = !seenReg[q]
		}
		for _, q := range regsFinal {
			if nwalk[q] != reached {
				if nwalk[q] < reached && late[q] {
					fail("late-root-not-executed", "root %d, registered while the DSL ran, was walked %d times while %d phases ran (its DSL never ran)", q, nwalk[q], reached)
				} else {
					fail("root-walk-count", "root %d was walked %d times while %d phases ran", q, nwalk[q], reached)
				}
			}
		}
		walked := map[int]bool{}
		for r := range nwalk {
			walked[r] = true
		}
		for _, e := range rn.insts {
			if !walked[e.root.idx] {
				continue
			}
			if e.def.Src && e.execs != 1 {
				switch {
				case late[e.root.idx] && nwalk[e.root.idx] < reached:
					// already reported as late-root-not-executed
				case e.execs == 0 && e.from >= 0 && e.set == e.from:
					fail("appended-to-current-set-not-executed", "expression %d of root %d was appended to set %d by the DSL of an expression of the same set: its DSL never ran", e.def.ID, e.root.idx, e.set)
				case e.execs == 0 && e.from >= 0 && e.set < e.from:
					fail("appended-to-earlier-set-not-executed", "expression %d of root %d was appended to set %d by the DSL of an expression of set %d: its DSL never ran", e.def.ID, e.root.idx, e.set, e.from)
				default:
					fail("expression-exec-count", "DSL of expression %d of root %d (set %d) ran %d times", e.def.ID, e.root.idx, e.set, e.execs)
				}
			}
			if !e.def.Src && e.execs != 0 {
				fail("expression-exec-count", "DSL of non-source expression %d ran", e.def.ID)
			}
			want := func(has bool, ph int) int {
				if has && reached > ph {
					return 1
				}
				return 0
			}
			if e.preps != want(e.def.Prep, phPrepare) {
				fail("expression-prepare-count", "expression %d of root %d prepared %d times, expected %d", e.def.ID, e.root.idx, e.preps, want(e.def.Prep, phPrepare))
			}
			if e.vals != want(e.def.Val != 0, phValidate) {
				fail("expression-validate-count", "expression %d of root %d validated %d times, expected %d", e.def.ID, e.root.idx, e.vals, want(e.def.Val != 0, phValidate))
			}
			if e.fins != want(e.def.Fin, phFinalize) {
				fail("expression-finalize-count", "expression %d of root %d finalized %d times, expected %d", e.def.ID, e.root.idx, e.fins, want(e.def.Fin, phFinalize))
			}
		}
		// the roots themselves
		rc := map[Ident]int{}
		for _, e := range tr {
			if e.Who < 0 {
				rc[Ident{e.Root, e.Ph}]++
			}
		}
		for _, q := range regsFinal {
			d := p.Roots[q]
			chk := func(has bool, ph int) {
				w := 0
				if has && reached > ph {
					w = 1
				}
				if rc[Ident{q, ph}] != w {
					fail("root-"+strings.ToLower(phName[ph])+"-count", "root %d: %s ran %d times, expected %d", q, phName[ph], rc[Ident{q, ph}], w)
				}
			}
			chk(d.Prep, phPrepare)
			chk(d.Val != 0, phValidate)
			chk(d.Fin, phFinalize)
		}
		// within one root: Prepare before Validate before Finalize is implied by (1)
	}
	return out
}

// ---------------------------------------------------------------- generators

type gen struct {
	r      *vh.RNG
	nextID int
}

func (g *gen) expr(nsets, k, depth int, mode string, lateRoots []int, errDen int) ExprD {
	e := ExprD{ID: g.nextID, Src: g.r.Chance(5, 6), Prep: g.r.Chance(2, 3), Fin: g.r.Chance(2, 3)}
	g.nextID++
	switch v := g.r.Intn(12); {
	case v < 3:
		e.Val = 0
	case v == 3 && errDen > 0 && g.r.Chance(4, errDen):
		e.Val = 2
	default:
		e.Val = 1
	}
	nact := 0
	if depth < 3 {
		nact = []int{0, 0, 0, 1, 1, 2, 3}[g.r.Intn(7)]
	}
	for i := 0; i < nact; i++ {
		switch c := g.r.Intn(10); {
		case c < 6:
			var target int
			switch mode {
			case "later":
				if k+1 >= nsets {
					continue
				}
				target = k + 1 + g.r.Intn(nsets-k-1)
			default: // any: current, earlier or later
				target = g.r.Intn(nsets)
			}
			ne := g.expr(nsets, target, depth+1, mode, lateRoots, errDen)
			e.Acts = append(e.Acts, ActD{Kind: "append", Set: target, Expr: &ne})
		case c < 8:
			if len(lateRoots) > 0 {
				e.Acts = append(e.Acts, ActD{Kind: "register", Root: vh.Pick(g.r, lateRoots)})
			}
		default:
			if errDen > 0 && g.r.Chance(3, errDen) {
				e.Acts = append(e.Acts, ActD{Kind: "error"})
			}
		}
	}
	return e
}

// program: n roots, the first ninit (in a shuffled naming) registered up front, the
// others registered by DSL functions. mode "later": appends target later sets only.
// Envelope of the main stream: whenever Roots() is called every dependency of a
// registered root is registered too - roots registered up front depend on such roots
// only, a root registered by the DSL depends only on roots registered up front and on
// the roots whose DSL leads to its registration (its hosts, registered before it).
// With lateCycle one host additionally depends on the late root it leads to, which
// closes a cycle as soon as that root is registered.
func (g *gen) program(mode string, cyclesOK bool) Program {
	g.nextID = 0
	n := 1 + g.r.Intn(6)
	perm := g.r2perm(n)
	ninit := 1 + g.r.Intn(n)
	if g.r.Chance(1, 2) {
		ninit = n
	}
	isInit := map[int]bool{}
	var regs, late []int
	for i, r := range perm {
		if i < ninit {
			regs = append(regs, r)
			isInit[r] = true
		} else {
			late = append(late, r)
		}
	}
	// host of every late root: a root registered up front or an earlier late root
	host := map[int]int{}
	anc := map[int]map[int]bool{}
	for i, q := range late {
		h := vh.Pick(g.r, append(append([]int{}, regs...), late[:i]...))
		host[q] = h
		anc[q] = map[int]bool{h: true}
		for a := range anc[h] {
			anc[q][a] = true
		}
	}
	rank := map[int]int{} // random topological rank for acyclic graphs
	for i, r := range g.r2perm(n) {
		rank[r] = i
	}
	acyclic := !cyclesOK || g.r.Chance(7, 8)
	errDen := []int{0, 12, 40, 40}[g.r.Intn(4)]
	p := Program{Roots: make([]RootD, n), Regs: regs}
	if g.r.Chance(3, 4) {
		// names in no relation to the dependency order
		pool := append([]string{}, namePool...)
		for i := len(pool) - 1; i > 0; i-- {
			j := g.r.Intn(i + 1)
			pool[i], pool[j] = pool[j], pool[i]
		}
		p.Names = pool[:n]
	}
	dens := 1 + g.r.Intn(3)
	free := append([]int{}, regs...) // roots that may be registered at any time
	for r := 0; r < n; r++ {
		d := &p.Roots[r]
		d.Deps = []int{}
		onlyInit := true
		for t := 0; t < n; t++ {
			if !g.r.Chance(dens, 5) {
				continue
			}
			if isInit[r] {
				if !isInit[t] || (acyclic && rank[t] >= rank[r]) {
					continue
				}
			} else if !isInit[t] && !anc[r][t] {
				continue
			}
			if !isInit[t] {
				onlyInit = false
			}
			d.Deps = append(d.Deps, t)
		}
		if g.r.Chance(1, 6) && len(d.Deps) > 0 {
			d.Deps = append(d.Deps, d.Deps[0]) // duplicate entry
		}
		if !isInit[r] && onlyInit {
			free = append(free, r)
		}
	}
	if cyclesOK && len(late) > 0 && g.r.Chance(1, 10) {
		q := vh.Pick(g.r, late)
		h := host[q]
		p.Roots[q].Deps = append(p.Roots[q].Deps, h)
		p.Roots[h].Deps = append(p.Roots[h].Deps, q)
		free = regs
	}
	for r := 0; r < n; r++ {
		d := &p.Roots[r]
		d.Prep, d.Fin = g.r.Chance(1, 2), g.r.Chance(1, 2)
		d.Val = []int{0, 1, 1, 1}[g.r.Intn(4)]
		if errDen > 0 && g.r.Chance(2, errDen) {
			d.Val = 2
		}
		ns := g.r.Intn(4)
		d.Sets = make([][]ExprD, ns)
		for k := 0; k < ns; k++ {
			ne := g.r.Intn(4)
			d.Sets[k] = []ExprD{}
			for j := 0; j < ne; j++ {
				var lr []int
				if g.r.Chance(1, 3) {
					lr = free
				}
				d.Sets[k] = append(d.Sets[k], g.expr(ns, k, 0, mode, lr, errDen))
			}
		}
	}
	// every late root is registered by an expression that is certain to run: a source
	// expression present from the start in its host
	for _, q := range late {
		d := &p.Roots[host[q]]
		if len(d.Sets) == 0 {
			d.Sets = [][]ExprD{{}}
		}
		k := g.r.Intn(len(d.Sets))
		d.Sets[k] = append(d.Sets[k], ExprD{ID: g.nextID + q, Src: true, Val: 1, Prep: true, Acts: []ActD{{Kind: "register", Root: q}}})
	}
	return p
}

var namePool = []string{"design", "generated result types", "cors", "zeta", "alpha", "goa", "m", "a1", "Z", "root-9", "otel", "Design"}

func (g *gen) r2perm(n int) []int {
	p := make([]int, n)
	for i := range p {
		p[i] = i
	}
	for i := n - 1; i > 0; i-- {
		j := g.r.Intn(i + 1)
		p[i], p[j] = p[j], p[i]
	}
	return p
}

func perms(xs []int) [][]int {
	if len(xs) <= 1 {
		return [][]int{append([]int{}, xs...)}
	}
	var out [][]int
	for i := range xs {
		rest := append(append([]int{}, xs[:i]...), xs[i+1:]...)
		for _, p := range perms(rest) {
			out = append(out, append([]int{xs[i]}, p...))
		}
	}
	return out
}

func graphDeps(n int, code int) [][]int {
	deps := make([][]int, n)
	for i := 0; i < n; i++ {
		deps[i] = []int{}
		for j := 0; j < n; j++ {
			if code&(1<<(i*n+j)) != 0 {
				deps[i] = append(deps[i], j)
			}
		}
	}
	return deps
}

func graphProgram(gc GraphCase) Program {
	p := Program{Roots: make([]RootD, gc.N), Regs: gc.Regs, Stream: "graph"}
	for i := range p.Roots {
		p.Roots[i] = RootD{Deps: gc.Deps[i], Sets: [][]ExprD{}}
	}
	return p
}

func src(id int, acts ...ActD) ExprD {
	return ExprD{ID: id, Src: true, Prep: true, Val: 1, Fin: true, Acts: acts}
}
func appendAct(set int, e ExprD) ActD { return ActD{Kind: "append", Set: set, Expr: &e} }
func regAct(r int) ActD               { return ActD{Kind: "register", Root: r} }

// chain: root i registers root i+1 (n roots); exercises the 100-round limit
func chain(n int) Program {
	p := Program{Regs: []int{0}, Stream: "hostile"}
	for i := 0; i < n; i++ {
		e := src(i)
		if i+1 < n {
			e.Acts = []ActD{regAct(i + 1)}
		}
		p.Roots = append(p.Roots, RootD{Deps: []int{}, Sets: [][]ExprD{{e}}})
	}
	return p
}

func corpus() []Program {
	one := func(sets [][]ExprD) Program {
		return Program{Roots: []RootD{{Deps: []int{}, Sets: sets, Prep: true, Val: 1, Fin: true}}, Regs: []int{0}, Stream: "corpus"}
	}
	late := Program{Stream: "corpus", Regs: []int{0}, Roots: []RootD{
		{Deps: []int{}, Sets: [][]ExprD{{src(1, regAct(1))}}, Prep: true, Val: 1, Fin: true},
		{Deps: []int{0}, Sets: [][]ExprD{{src(2)}, {src(3, regAct(2))}}, Prep: true, Val: 1, Fin: true},
		{Deps: []int{1, 0}, Sets: [][]ExprD{{src(4)}}, Prep: true, Val: 1, Fin: true}}}
	self := Program{Stream: "corpus", Regs: []int{0}, Roots: []RootD{{Deps: []int{0}, Sets: [][]ExprD{{src(1)}}}}}
	two := Program{Stream: "corpus", Regs: []int{0, 1}, Roots: []RootD{{Deps: []int{1}, Sets: [][]ExprD{{src(1)}}}, {Deps: []int{0}, Sets: [][]ExprD{{src(2)}}}}}
	lateCycle := Program{Stream: "corpus", Regs: []int{0}, Roots: []RootD{
		{Deps: []int{}, Sets: [][]ExprD{{src(1, regAct(1), regAct(2))}}},
		{Deps: []int{2}, Sets: [][]ExprD{{src(2)}}},
		{Deps: []int{1}, Sets: [][]ExprD{{src(3)}}}}}
	errs := Program{Stream: "corpus", Regs: []int{1, 0}, Roots: []RootD{
		{Deps: []int{}, Sets: [][]ExprD{{src(1, ActD{Kind: "error"}), src(2)}, {src(3, ActD{Kind: "error"}, ActD{Kind: "error"})}}, Prep: true, Val: 1, Fin: true},
		{Deps: []int{0}, Sets: [][]ExprD{{src(4, ActD{Kind: "error"})}}, Prep: true, Val: 1, Fin: true}}}
	vfail := Program{Stream: "corpus", Regs: []int{1, 0}, Roots: []RootD{
		{Deps: []int{}, Sets: [][]ExprD{{{ID: 1, Src: true, Val: 2, Fin: true}, {ID: 2, Val: 2, Prep: true}}, {{ID: 3, Val: 1, Fin: true}, {ID: 4, Val: 2}}}, Prep: true, Val: 2, Fin: true},
		{Deps: []int{0}, Sets: [][]ExprD{{{ID: 5, Src: true, Val: 2, Fin: true}}}, Prep: true, Val: 1, Fin: true}}}
	diamond := Program{Stream: "corpus", Regs: []int{3, 2, 1, 0}, Roots: []RootD{
		{Deps: []int{}, Sets: [][]ExprD{{src(1)}}, Prep: true, Val: 1, Fin: true},
		{Deps: []int{0}, Sets: [][]ExprD{{src(2)}}, Prep: true, Val: 1, Fin: true},
		{Deps: []int{0}, Sets: [][]ExprD{{src(3)}}, Prep: true, Val: 1, Fin: true},
		{Deps: []int{1, 2}, Sets: [][]ExprD{{src(4)}}, Prep: true, Val: 1, Fin: true}}}
	plugin := Program{Stream: "corpus", Regs: []int{1, 0, 2}, Names: []string{"design", "cors", "generated result types"}, Roots: []RootD{
		{Deps: []int{2}, Sets: [][]ExprD{{src(1)}}, Prep: true, Val: 1, Fin: true},
		{Deps: []int{0}, Sets: [][]ExprD{{src(2)}}, Prep: true, Val: 1, Fin: true},
		{Deps: []int{}, Sets: [][]ExprD{{src(3)}}, Fin: true}}}
	// root 0 registers root 1 which depends on 2 which depends on 3; the DSL of root 3
	// registers 2 and 3: roots 2 and 3 run as dependencies before they are registered (3 first)
	w3 := Program{Stream: "corpus", Regs: []int{0}, Roots: []RootD{
		{Deps: []int{}, Sets: [][]ExprD{{src(1, regAct(1))}}, Prep: true, Val: 1, Fin: true},
		{Deps: []int{2}, Sets: [][]ExprD{{src(2)}}, Prep: true, Val: 1, Fin: true},
		{Deps: []int{3}, Sets: [][]ExprD{{src(3)}}, Prep: true, Val: 1, Fin: true},
		{Deps: []int{}, Sets: [][]ExprD{{src(4, regAct(2), regAct(3))}}, Prep: true, Val: 1, Fin: true}}}
	w4 := Program{Stream: "corpus", Regs: []int{4, 0}, Names: []string{"design", "zeta", "m", "alpha", "cors"}, Roots: []RootD{
		{Deps: []int{}, Sets: [][]ExprD{{src(1)}, {src(2, regAct(1))}}, Fin: true},
		{Deps: []int{0, 2}, Sets: [][]ExprD{{src(3)}}, Prep: true},
		{Deps: []int{3, 0}, Sets: [][]ExprD{{src(4, regAct(2))}}, Val: 1},
		{Deps: []int{0}, Sets: [][]ExprD{{}, {src(5, regAct(3))}}, Fin: true},
		{Deps: []int{0}, Sets: [][]ExprD{{src(6)}}, Prep: true, Val: 1, Fin: true}}}
	return []Program{
		w3, w4, // dependencies executed before their own registration
		plugin, // a plugin root named before the root it depends on
		one([][]ExprD{{src(1, appendAct(1, src(2))), src(3)}, {src(4)}}), // later set: executed
		late, self, two, lateCycle, errs, vfail, diamond,
		{Stream: "corpus", Regs: []int{}, Roots: []RootD{{Deps: []int{}, Sets: [][]ExprD{{src(1)}}}}},                // nothing registered
		{Stream: "corpus", Regs: []int{0, 0}, Roots: []RootD{{Deps: []int{}, Sets: [][]ExprD{{src(1)}}, Fin: true}}}, // duplicate registration
	}
}

// witnesses re-demonstrate the recorded findings on every run
func witnesses() []Program {
	w1 := Program{Stream: "witness", Regs: []int{0}, Roots: []RootD{{Deps: []int{}, Prep: true, Val: 1, Fin: true,
		Sets: [][]ExprD{{src(1, appendAct(0, src(2)))}}}}}
	w2 := Program{Stream: "witness", Regs: []int{0}, Roots: []RootD{{Deps: []int{}, Prep: true, Val: 1, Fin: true,
		Sets: [][]ExprD{{src(1)}, {src(2, appendAct(0, src(3)))}}}}}
	return []Program{w1, w2}
}

// hostile: inputs outside the generator's envelope; model and code are compared, the
// oracle laws that presuppose registered dependencies are not applied
func hostile(g *gen, n int) []Program {
	out := []Program{chain(101), chain(103)}
	// dependencies on roots that are never registered
	out = append(out,
		Program{Stream: "hostile", Regs: []int{0}, Roots: []RootD{{Deps: []int{1}, Sets: [][]ExprD{{src(1)}}, Fin: true}, {Deps: []int{0}, Sets: [][]ExprD{{src(2)}}, Fin: true}}},
		Program{Stream: "hostile", Regs: []int{0}, Roots: []RootD{{Deps: []int{1}, Sets: [][]ExprD{{src(1)}}}, {Deps: []int{2}, Sets: [][]ExprD{{src(2)}}}, {Deps: []int{1}, Sets: [][]ExprD{{src(3)}}}}},
		Program{Stream: "hostile", Regs: []int{0}, Roots: []RootD{{Deps: []int{1, 7}, Sets: [][]ExprD{{src(1, regAct(9), appendAct(5, src(2)))}}}, {Deps: []int{1}, Sets: [][]ExprD{}}}},
	)
	for i := 0; i < n; i++ {
		p := g.program("any", true)
		p.Stream = "hostile"
		// unconstrained dependencies and registrations
		for r := range p.Roots {
			if g.r.Chance(1, 3) {
				p.Roots[r].Deps = append(p.Roots[r].Deps, g.r.Intn(len(p.Roots)))
			}
		}
		if g.r.Chance(1, 2) && len(p.Regs) > 1 {
			p.Regs = p.Regs[:len(p.Regs)-1]
		}
		out = append(out, p)
	}
	return out
}

// ---------------------------------------------------------------- driver

type progObs struct {
	Pre     RootsObs `json:"roots_before"`
	Outcome Outcome  `json:"outcome"`
	Events  int      `json:"events"`
}

func runProgram(p *Program) (*run, RootsObs, Outcome, RootsObs) {
	rn := build(p)
	pre := observeRoots()
	err := eval.RunDSL()
	return rn, pre, classify(err), observeRoots()
}

// ---- the generation entry point: generator.Generate calls Context.Roots() on the
// context RunDSL left behind and hands the roots to the plugin prepare functions, the
// generators and the plugin generate functions. An observer plugin and an observer
// generator, registered for a command of their own, record what they are given.

const genCmd = "c11-observe"

type Handover struct {
	Error      bool    `json:"error"` // Generate failed before reaching any consumer
	Msg        string  `json:"msg,omitempty"`
	Prepare    []int   `json:"plugin_prepare"`
	Generators []int   `json:"generators"`
	Generate   []int   `json:"plugin_generate"`
	called     [3]bool `json:"-"`
}

var curHandover *Handover

func idxList(roots []eval.Root) []int {
	out := make([]int, len(roots))
	for i, r := range roots {
		out[i] = rootIdx(r)
	}
	return out
}

func initGenerate() {
	codegen.RegisterPlugin("c11-observer", genCmd,
		func(_ string, roots []eval.Root) error {
			curHandover.Prepare, curHandover.called[0] = idxList(roots), true
			return nil
		},
		func(_ string, roots []eval.Root, files []*codegen.File) ([]*codegen.File, error) {
			curHandover.Generate, curHandover.called[2] = idxList(roots), true
			return files, nil
		})
	generator.Generators = func(cmd string) ([]generator.Genfunc, error) {
		if cmd != genCmd {
			return nil, fmt.Errorf("unexpected command %q", cmd)
		}
		return []generator.Genfunc{func(_ string, roots []eval.Root) ([]*codegen.File, error) {
			curHandover.Generators, curHandover.called[1] = idxList(roots), true
			return nil, nil
		}}, nil
	}
}

// observeGenerate runs generator.Generate on the current context. dir lives inside the
// harness module (Generate asks the go tool for the import path of dir/gen).
func observeGenerate(dir string) Handover {
	h := Handover{}
	curHandover = &h
	_, err := generator.Generate(dir, genCmd)
	if err != nil {
		h.Error, h.Msg = true, err.Error()
		if !strings.Contains(h.Msg, "dependency cycle") {
			panic("generator.Generate failed for a reason outside the property: " + h.Msg)
		}
		return h
	}
	if !h.called[0] || !h.called[1] || !h.called[2] {
		panic(fmt.Sprintf("generator.Generate did not reach every consumer: %v", h.called))
	}
	return h
}

func coqHandover(h Handover) string {
	if h.Error {
		return "None"
	}
	return "(Some " + vh.CoqList([]string{vh.CoqNatList(h.Prepare), vh.CoqNatList(h.Generators), vh.CoqNatList(h.Generate)}) + ")"
}

// handoverOracle: every consumer of Generate gets every registered root once, each after
// the roots it depends on, in the order Context.Roots() reports.
func handoverOracle(p *Program, rn *run, post RootsObs, h Handover) []oracleOut {
	var out []oracleOut
	fail := func(sig, what string, a ...any) { out = append(out, oracleOut{sig, fmt.Sprintf(what, a...)}) }
	if h.Error != post.Cycle {
		fail("generate-cycle-mismatch", "Generate error=%v (%s) while Context.Roots() cycle=%v", h.Error, h.Msg, post.Cycle)
		return out
	}
	if h.Error {
		return out
	}
	isReg := map[int]bool{}
	for _, q := range rn.registered {
		isReg[q] = true
	}
	for _, c := range []struct {
		who   string
		roots []int
	}{{"plugin prepare functions", h.Prepare}, {"generators", h.Generators}, {"plugin generate functions", h.Generate}} {
		pos := map[int]int{}
		for i, r := range c.roots {
			if _, dup := pos[r]; dup || r < 0 {
				fail("handover-not-the-roots", "%s got roots %v (registered %v)", c.who, c.roots, rn.registered)
			}
			pos[r] = i
		}
		for _, q := range rn.registered {
			if _, ok := pos[q]; !ok {
				fail("handover-not-the-roots", "%s got roots %v, registered root %d is missing", c.who, c.roots, q)
			}
		}
		for _, r := range c.roots {
			if r < 0 || !isReg[r] {
				continue
			}
			for d := range strictReach(p, r) {
				if d == r || !isReg[d] {
					continue
				}
				if pd, ok := pos[d]; !ok || pd > pos[r] {
					fail("handover-dependency-order", "%s got roots %v (names %v): root %d comes before root %d it depends on", c.who, c.roots, rootNames(p, c.roots), r, d)
				}
			}
		}
	}
	return out
}

func rootNames(p *Program, idx []int) []string {
	out := make([]string, len(idx))
	for i, r := range idx {
		if r >= 0 && r < len(p.Names) {
			out[i] = p.Names[r]
		} else {
			out[i] = fmt.Sprintf("root-%d", r)
		}
	}
	return out
}

func features(p *Program, rn *run, o Outcome) []string {
	f := []string{"outcome=" + o.Class, fmt.Sprintf("roots=%d", len(p.Roots))}
	if len(rn.registered) > 0 && len(rn.registered) > len(p.Regs) {
		f = append(f, "late-registration")
	}
	apps := 0
	for _, e := range rn.insts {
		if e.from >= 0 {
			apps++
		}
	}
	if apps > 0 {
		f = append(f, "appended-expressions")
	}
	if o.Class == "errors" && len(o.Errs) > 0 {
		if o.Errs[0].Valid {
			f = append(f, "validation-errors")
		} else {
			f = append(f, "execution-errors")
		}
	}
	return f
}

// failures are recorded at most 4 times per signature so that a flood of one class
// cannot push another class out of the result file; the totals go to the distribution
var perSig = map[string]int{}

func record(res *vh.Result, sig, what string, input any) {
	perSig[sig]++
	res.Dist["failures:"+sig]++
	if perSig[sig] <= 4 {
		res.Fail(sig, what, input)
	}
}

func main() {
	seed := flag.Uint64("seed", 1, "")
	tier := flag.String("tier", "quick", "")
	out := flag.String("out", ".", "")
	replay := flag.String("replay", "", "")
	gendir := flag.String("gendir", "", "directory inside the harness module for generator.Generate (absolute)")
	flag.Parse()
	if abs, err := filepath.Abs(*out); err == nil {
		*out = abs
	}
	rng := vh.NewRNG(*seed)
	res := vh.NewResult()
	distinct := vh.Distinct{}

	var graphs []GraphCase
	var progs []Program
	graph4 := false

	if *replay != "" {
		b, err := os.ReadFile(*replay)
		if err != nil {
			panic(err)
		}
		var rp struct {
			Input json.RawMessage `json:"input"`
		}
		if err := json.Unmarshal(b, &rp); err != nil || rp.Input == nil {
			fmt.Println("replay file has no input")
			os.Exit(2)
		}
		var p Program
		var gc GraphCase
		if json.Unmarshal(rp.Input, &p) == nil && p.Roots != nil {
			progs = append(progs, p)
		} else if json.Unmarshal(rp.Input, &gc) == nil && gc.Deps != nil {
			graphs = append(graphs, gc)
		} else {
			fmt.Println("replay input is neither a program nor a dependency graph")
			os.Exit(2)
		}
	} else {
		// every digraph (self loops included) on <= 3 roots x every registration order of
		// every non-empty subset of the roots
		for n := 1; n <= 3; n++ {
			ids := make([]int, n)
			for i := range ids {
				ids[i] = i
			}
			var orders [][]int
			for mask := 1; mask < 1<<n; mask++ {
				var sub []int
				for i := 0; i < n; i++ {
					if mask&(1<<i) != 0 {
						sub = append(sub, i)
					}
				}
				orders = append(orders, perms(sub)...)
			}
			for code := 0; code < 1<<(n*n); code++ {
				deps := graphDeps(n, code)
				for _, o := range orders {
					graphs = append(graphs, GraphCase{n, deps, o})
				}
			}
		}
		graph4 = *tier == "thorough"
		nrand, nhost, nwit := 2000, 300, 60
		if *tier == "thorough" {
			nrand, nhost, nwit = 20000, 3000, 600
		}
		progs = append(progs, corpus()...)
		progs = append(progs, witnesses()...)
		g := &gen{r: rng.Fork()}
		for i := 0; i < nrand; i++ {
			p := g.program("later", true)
			p.Stream = "main"
			progs = append(progs, p)
		}
		gw := &gen{r: rng.Fork()}
		for i := 0; i < nwit; i++ {
			p := gw.program("any", false)
			p.Stream = "witness"
			progs = append(progs, p)
		}
		progs = append(progs, hostile(&gen{r: rng.Fork()}, nhost)...)
	}

	// ---- Roots() on dependency graphs
	var v strings.Builder
	for i, gc := range graphs {
		p := graphProgram(gc)
		build(&p)
		o := observeRoots()
		fmt.Fprintf(&v, "(%d%%N, %d, %s, %s, %s)\n", i, gc.N, coqDeps(gc.Deps), vh.CoqNatList(gc.Regs), coqRoots(o))
		all := len(gc.Regs) == gc.N
		if all {
			// direct oracle for closed graphs
			for _, f := range graphOracle(&p, o) {
				record(res, f.sig, f.what, gc)
			}
		}
		res.Count(fmt.Sprintf("graph_roots=%d", gc.N))
		if o.Cycle {
			res.Count("graph_cycle")
		}
		edges := 0
		for _, d := range gc.Deps {
			edges += len(d)
		}
		if edges > 0 && len(gc.Regs) > 1 {
			distinct.Add(fmt.Sprint("g", gc))
		}
		if i%997 == 3 {
			res.Sample(map[string]any{"graph": gc, "roots": o}, 3)
		}
	}
	must(os.WriteFile(filepath.Join(*out, "cases_roots.txt"), []byte(v.String()), 0o644))
	v.Reset()

	// ---- all digraphs on 4 roots x 24 orders (thorough): compact encoding
	n4 := 0
	if graph4 {
		ords := perms([]int{0, 1, 2, 3})
		code := map[string]int{}
		for i, o := range ords {
			code[fmt.Sprint(o)] = i
		}
		for g := 0; g < 1<<16; g++ {
			deps := graphDeps(4, g)
			cs := make([]int64, len(ords))
			for k, o := range ords {
				gc := GraphCase{4, deps, o}
				p := graphProgram(gc)
				build(&p)
				ob := observeRoots()
				for _, f := range graphOracle(&p, ob) {
					record(res, f.sig, f.what, gc)
				}
				c := 25
				if ob.Cycle {
					c = 24
				} else if x, ok := code[fmt.Sprint(ob.Order)]; ok {
					c = x
				}
				cs[k] = int64(c)
				n4++
			}
			packed := new(big.Int)
			for k := len(cs) - 1; k >= 0; k-- {
				packed.Mul(packed, big.NewInt(27))
				packed.Add(packed, big.NewInt(cs[k]))
			}
			fmt.Fprintf(&v, "(%d%%N, %s%%N)\n", g, packed.String())
		}
		res.Dist["graph_roots=4"] = n4
	}
	must(os.WriteFile(filepath.Join(*out, "cases_graph4.txt"), []byte(v.String()), 0o644))
	v.Reset()

	// ---- RunDSL on programs
	var gv strings.Builder
	ngen, maxGen := 0, 400
	if *tier == "thorough" {
		maxGen = 4000
	}
	if *replay != "" {
		maxGen = 5
	}
	if *gendir == "" {
		maxGen = 0
	} else {
		must(os.MkdirAll(*gendir, 0o755))
		defer os.RemoveAll(*gendir)
		for _, kv := range [][2]string{{"GOFLAGS", "-mod=mod"}, {"GOPROXY", "off"}, {"GOSUMDB", "off"}, {"GOTOOLCHAIN", "local"}} {
			os.Setenv(kv[0], kv[1])
		}
		must(os.Chdir(*gendir))
		initGenerate()
	}
	for i := range progs {
		p := &progs[i]
		rn, pre, o, post := runProgram(p)
		fmt.Fprintf(&v, "(%d%%N, %s, %s, %s, %s, %s)\n", i, coqProgram(p), coqTrace(rn.trace), coqOutcome(o), coqRoots(pre), coqRoots(post))
		// the generation entry point, for runs RunDSL accepted (the go tool is consulted
		// by every Generate call, hence a bounded number of them)
		if o.Class == "none" && len(rn.registered) > 0 && ngen < maxGen && p.Stream != "witness" {
			h := observeGenerate(*gendir)
			fmt.Fprintf(&gv, "(%d%%N, %s, %s)\n", i, coqProgram(p), coqHandover(h))
			for _, f := range handoverOracle(p, rn, post, h) {
				record(res, f.sig, f.what, p)
			}
			ngen++
			res.Count("generate_handover")
			if len(h.Generators) > 1 {
				distinct.Add(fmt.Sprint("h", i))
			}
		}
		if p.Stream != "hostile" {
			for _, f := range oracle(p, rn, pre, o) {
				record(res, f.sig, f.what, p)
			}
		} else if o.Class == "other" {
			record(res, "unexpected-error", "RunDSL returned an error of no expected class: "+o.Msg, p)
		}
		res.Count("stream=" + p.Stream)
		for _, f := range features(p, rn, o) {
			res.Count(f)
		}
		if len(rn.trace) > 2 {
			b, _ := json.Marshal(p)
			distinct.Add(string(b))
		}
		if i%211 == 17 {
			res.Sample(map[string]any{"program": p, "observed": progObs{pre, o, len(rn.trace)}}, 6)
		}
		res.Cases = append(res.Cases, nil)
	}
	must(os.WriteFile(filepath.Join(*out, "cases_run.txt"), []byte(v.String()), 0o644))
	must(os.WriteFile(filepath.Join(*out, "cases_generate.txt"), []byte(gv.String()), 0o644))

	// replayable descriptions of the cases (programs only; graph cases are regenerated by index)
	res.Cases = res.Cases[:0]
	if len(progs) <= 5000 {
		for i := range progs {
			res.Cases = append(res.Cases, progs[i])
		}
	}
	res.Extra["graph_cases"] = len(graphs)
	res.Extra["graph4_cases"] = n4
	res.Extra["program_cases"] = len(progs)
	if len(graphs) <= 10000 {
		gs := make([]any, len(graphs))
		for i := range graphs {
			gs[i] = graphs[i]
		}
		res.Extra["graphs"] = gs
	}
	res.Evaluations = len(graphs) + n4 + len(progs) + ngen
	res.Distinct = len(distinct)
	res.Rule = "Roots(): every digraph with self loops on 1-3 roots x every registration order of every non-empty subset (exhaustive; thorough adds all 65536 digraphs on 4 roots x 24 orders); RunDSL(): fixed corpus + witnesses of the recorded findings + seed-driven random programs on 1-6 roots (0-3 sets, 0-3 expressions per set, nested appends to later sets, late registration, duplicate registration, errors in the execute and validate phases, 1/8 cyclic) + hostile stream (appends to any set, dependencies on unregistered roots, 101/103-root registration chains); root names drawn without relation to the dependency order (3/4 of the random programs); Context.Roots() observed before and after every run; generator.Generate (observer plugin + observer generator) on the first 400 (thorough 4000) programs RunDSL accepted: roots handed to plugin prepare functions, generators, plugin generate functions; non-trivial = graph with an edge and >= 2 registered roots, program with >= 3 callbacks; distinct = distinct canonical JSON"
	must(res.Write(filepath.Join(*out, "result.json")))
}

func coqDeps(d [][]int) string {
	ss := make([]string, len(d))
	for i := range d {
		ss[i] = vh.CoqNatList(d[i])
	}
	return vh.CoqList(ss)
}

// graphOracle: the laws of Roots() on a graph whose roots are all registered.
func graphOracle(p *Program, o RootsObs) []oracleOut {
	var out []oracleOut
	fail := func(sig, what string, a ...any) { out = append(out, oracleOut{sig, fmt.Sprintf(what, a...)}) }
	regs := p.Regs
	cyc := cyclic(p, regs)
	if cyc != o.Cycle {
		if cyc {
			self := false
			for _, r := range regs {
				for _, d := range p.Roots[r].Deps {
					self = self || d == r
				}
			}
			if self {
				fail("self-dependency-not-reported", "Roots() accepted a root that depends on itself")
			} else {
				fail("cycle-not-reported", "Roots() accepted a dependency cycle")
			}
		} else {
			fail("spurious-cycle", "Roots() reported a cycle in an acyclic graph")
		}
		return out
	}
	if cyc {
		return out
	}
	if len(o.Order) != len(regs) {
		fail("roots-not-permutation", "Roots() = %v for registered %v", o.Order, regs)
		return out
	}
	pos := map[int]int{}
	for i, r := range o.Order {
		pos[r] = i
	}
	if len(pos) != len(regs) {
		fail("roots-not-permutation", "Roots() = %v for registered %v", o.Order, regs)
		return out
	}
	for _, r := range regs {
		for _, d := range p.Roots[r].Deps {
			if pos[d] >= pos[r] {
				fail("roots-order", "Roots() = %v: root %d depends on %d which does not come before it", o.Order, r, d)
			}
		}
	}
	s := append([]int{}, o.Order...)
	sort.Ints(s)
	t := append([]int{}, regs...)
	sort.Ints(t)
	if fmt.Sprint(s) != fmt.Sprint(t) {
		fail("roots-not-permutation", "Roots() = %v for registered %v", o.Order, regs)
	}
	return out
}

func must(err error) {
	if err != nil {
		panic(err)
	}
}
