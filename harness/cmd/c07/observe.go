package main

import (
	"bytes"
	"encoding/json"
	"fmt"
	"net/http"
	"regexp"
	"runtime/debug"
	"sort"
	"strconv"
	"strings"

	"goa.design/goa/v3/codegen/generator"
	"goa.design/goa/v3/eval"
	"goa.design/goa/v3/expr"
	httpcodegen "goa.design/goa/v3/http/codegen"
	"gopkg.in/yaml.v3"
)

// Param is one request parameter: wire name, location, required flag.
type Param struct {
	Name     string `json:"name"`
	In       string `json:"in"` // path | query | header | cookie
	Required bool   `json:"required"`
}

// Op is one operation as seen on either side (server mount table or document).
type Op struct {
	Method        string     `json:"method"`
	Path          string     `json:"path"` // wildcards normalised to {name}
	RawPath       string     `json:"raw_path,omitempty"`
	Params        []Param    `json:"params"`
	HasBody       bool       `json:"has_body"`
	Statuses      []int      `json:"statuses"`
	Security      [][]string `json:"security"` // per requirement: sorted scheme keys, scopes appended as "key#scope"
	Endpoint      string     `json:"endpoint,omitempty"`
	File          bool       `json:"file,omitempty"`
	Service       string     `json:"service,omitempty"`
	FileOf        string     `json:"file_of,omitempty"` // "service#index" of the file server
	Basic         bool       `json:"basic,omitempty"`   // server side: the decoder reads basic-auth credentials
	BasicRequired bool       `json:"basic_required,omitempty"`
}

func (o Op) Key() string { return o.Method + " " + o.Path }

var wildRe = regexp.MustCompile(`/{\*?([a-zA-Z0-9_]+)}`)

// normPath rewrites {*name} to {name} (the harness' own statement of the
// normalisation; it does not call goa's regex).
func normPath(p string) string {
	segs := strings.Split(p, "/")
	for i, s := range segs {
		if strings.HasPrefix(s, "{*") && strings.HasSuffix(s, "}") {
			segs[i] = "{" + s[2:]
		}
	}
	return strings.Join(segs, "/")
}

func sortParams(ps []Param) {
	sort.Slice(ps, func(i, j int) bool {
		if ps[i].In != ps[j].In {
			return ps[i].In < ps[j].In
		}
		if ps[i].Name != ps[j].Name {
			return ps[i].Name < ps[j].Name
		}
		return !ps[i].Required && ps[j].Required
	})
}

func uniqInts(xs []int) []int {
	sort.Ints(xs)
	var out []int
	for i, x := range xs {
		if i == 0 || x != xs[i-1] {
			out = append(out, x)
		}
	}
	return out
}

// statusConst maps the Go expression goa's server templates use for a status
// code back to the number.
var statusConst = func() map[string]int {
	m := map[string]int{}
	names := map[int]string{
		100: "StatusContinue", 101: "StatusSwitchingProtocols", 102: "StatusProcessing", 103: "StatusEarlyHints",
		200: "StatusOK", 201: "StatusCreated", 202: "StatusAccepted", 203: "StatusNonAuthoritativeInfo", 204: "StatusNoContent",
		205: "StatusResetContent", 206: "StatusPartialContent", 207: "StatusMultiStatus", 208: "StatusAlreadyReported", 226: "StatusIMUsed",
		300: "StatusMultipleChoices", 301: "StatusMovedPermanently", 302: "StatusFound", 303: "StatusSeeOther", 304: "StatusNotModified",
		305: "StatusUseProxy", 307: "StatusTemporaryRedirect", 308: "StatusPermanentRedirect",
		400: "StatusBadRequest", 401: "StatusUnauthorized", 402: "StatusPaymentRequired", 403: "StatusForbidden", 404: "StatusNotFound",
		405: "StatusMethodNotAllowed", 406: "StatusNotAcceptable", 407: "StatusProxyAuthRequired", 408: "StatusRequestTimeout",
		409: "StatusConflict", 410: "StatusGone", 411: "StatusLengthRequired", 412: "StatusPreconditionFailed",
		413: "StatusRequestEntityTooLarge", 414: "StatusRequestURITooLong", 415: "StatusUnsupportedMediaType",
		416: "StatusRequestedRangeNotSatisfiable", 417: "StatusExpectationFailed", 418: "StatusTeapot", 421: "StatusMisdirectedRequest",
		422: "StatusUnprocessableEntity", 423: "StatusLocked", 424: "StatusFailedDependency", 425: "StatusTooEarly",
		426: "StatusUpgradeRequired", 428: "StatusPreconditionRequired", 429: "StatusTooManyRequests",
		431: "StatusRequestHeaderFieldsTooLarge", 451: "StatusUnavailableForLegalReasons",
		500: "StatusInternalServerError", 501: "StatusNotImplemented", 502: "StatusBadGateway", 503: "StatusServiceUnavailable",
		504: "StatusGatewayTimeout", 505: "StatusHTTPVersionNotSupported", 506: "StatusVariantAlsoNegotiates",
		507: "StatusInsufficientStorage", 508: "StatusLoopDetected", 510: "StatusNotExtended", 511: "StatusNetworkAuthenticationRequired",
	}
	for c, n := range names {
		if http.StatusText(c) == "" {
			panic("bad status table")
		}
		m["http."+n] = c
	}
	return m
}()

func statusOf(s string) (int, bool) {
	if c, ok := statusConst[s]; ok {
		return c, true
	}
	c, err := strconv.Atoi(s)
	return c, err == nil
}

// Generated holds what the real generators produced for the design in expr.Root.
type Generated struct {
	Docs      map[string][]byte // openapi.json, openapi.yaml, openapi3.json, openapi3.yaml
	Mounted   []Op              // (method, path) pairs of the mux.Handle calls in the rendered server code
	ServerOps []Op              // from http/codegen ServicesData (routes, decoder parameters, responses, requirements)
	Problems  []string
}

// schemeTypes records the kind of every scheme met in the requirements of the current design.
var schemeTypes = map[string]string{}

var handleRe = regexp.MustCompile(`mux\.Handle\("([A-Za-z]+)", "([^"]*)"`)

// generate runs goa's generators in the order `goa gen` does (service, transport,
// openapi), renders the server files and the four OpenAPI files in memory.
func generate() (g *Generated, stage string, err error) {
	defer func() {
		if r := recover(); r != nil {
			err = fmt.Errorf("panic in generators: %v\n%s", r, debug.Stack())
		}
	}()
	g = &Generated{Docs: map[string][]byte{}}
	roots := []eval.Root{expr.Root}
	stage = "service"
	if _, err := generator.Service("tb/gen", roots); err != nil {
		return nil, stage, err
	}
	stage = "transport"
	tfiles, err := generator.Transport("tb/gen", roots)
	if err != nil {
		return nil, stage, err
	}
	for _, f := range tfiles {
		p := strings.ReplaceAll(f.Path, "\\", "/")
		if !strings.HasSuffix(p, "/server/server.go") || !strings.Contains(p, "/http/") {
			continue
		}
		var buf bytes.Buffer
		for _, s := range f.SectionTemplates {
			if s.Name == "source-header" {
				continue
			}
			if err := s.Write(&buf); err != nil {
				return nil, stage, fmt.Errorf("render %s/%s: %w", p, s.Name, err)
			}
		}
		for _, m := range handleRe.FindAllStringSubmatch(buf.String(), -1) {
			g.Mounted = append(g.Mounted, Op{Method: m[1], Path: normPath(m[2]), RawPath: m[2]})
		}
	}
	stage = "openapi"
	ofiles, err := generator.OpenAPI("tb/gen", roots)
	if err != nil {
		return nil, stage, err
	}
	for _, f := range ofiles {
		var buf bytes.Buffer
		for _, s := range f.SectionTemplates {
			if err := s.Write(&buf); err != nil {
				return nil, stage, fmt.Errorf("render %s: %w", f.Path, err)
			}
		}
		name := f.Path[strings.LastIndexAny(f.Path, "/\\")+1:]
		g.Docs[name] = buf.Bytes()
	}
	for _, hs := range expr.Root.API.HTTP.Services {
		sd := httpcodegen.HTTPServices.Get(hs.Name())
		if sd == nil {
			g.Problems = append(g.Problems, "no service data for "+hs.Name())
			continue
		}
		g.ServerOps = append(g.ServerOps, serverOps(sd)...)
	}
	return g, stage, nil
}

// serverOps reads the operations the generated server of one service mounts, and
// for each the parameters its request decoder reads, whether it decodes a body,
// the status codes its encoders write and the schemes of its requirements.
func serverOps(sd *httpcodegen.ServiceData) []Op {
	var ops []Op
	for _, ed := range sd.Endpoints {
		var ps []Param
		hasBody := false
		if ed.Payload != nil && ed.Payload.Request != nil {
			rq := ed.Payload.Request
			for _, p := range rq.PathParams {
				ps = append(ps, Param{p.HTTPName, "path", true})
			}
			for _, p := range rq.QueryParams {
				n := p.HTTPName
				if p.MapQueryParams != nil {
					n = "*map*" // the decoder reads the whole query string
				}
				ps = append(ps, Param{n, "query", p.Required})
			}
			for _, p := range rq.Headers {
				ps = append(ps, Param{p.HTTPName, "header", p.Required})
			}
			for _, p := range rq.Cookies {
				ps = append(ps, Param{p.HTTPName, "cookie", p.Required})
			}
			hasBody = rq.ServerBody != nil
		}
		if ed.MultipartRequestDecoder != nil {
			hasBody = true
		}
		sortParams(ps)
		var sts []int
		bad := ""
		if ed.Result != nil {
			for _, r := range ed.Result.Responses {
				if c, ok := statusOf(r.StatusCode); ok {
					sts = append(sts, c)
				} else {
					bad = r.StatusCode
				}
			}
		}
		for _, g := range ed.Errors {
			for _, e := range g.Errors {
				if c, ok := statusOf(e.Response.StatusCode); ok {
					sts = append(sts, c)
				} else {
					bad = e.Response.StatusCode
				}
			}
		}
		if bad != "" {
			sts = append(sts, -1)
		}
		sts = uniqInts(sts)
		var sec [][]string
		for _, rq := range ed.Requirements {
			var ks []string
			for _, s := range rq.Schemes {
				ks = append(ks, s.SchemeName)
				schemeTypes[s.SchemeName] = s.Type
				if s.Type == "OAuth2" || s.Type == "JWT" {
					for _, sc := range rq.Scopes {
						ks = append(ks, s.SchemeName+"#"+sc)
					}
				}
			}
			sort.Strings(ks)
			sec = append(sec, ks)
		}
		basic := ed.BasicScheme != nil
		basicReq := basic && ed.BasicScheme.UsernameRequired
		for _, rt := range ed.Routes {
			ops = append(ops, Op{Method: rt.Verb, Path: normPath(rt.Path), RawPath: rt.Path, Params: ps, HasBody: hasBody,
				Statuses: sts, Security: sec, Endpoint: sd.Service.Name + "." + ed.Method.Name, Service: sd.Service.Name, Basic: basic, BasicRequired: basicReq})
		}
	}
	for fi, fs := range sd.FileServers {
		fof := fmt.Sprintf("%s#%d", sd.Service.Name, fi)
		for _, p := range fs.RequestPaths {
			if fs.IsDir {
				// file_server.go.tpl: two mounts, the directory itself and everything below
				base := p
				if base != "/" {
					base += "/"
				}
				ops = append(ops, Op{Method: "GET", Path: base, RawPath: base, File: true, Statuses: []int{200}, Service: sd.Service.Name, FileOf: fof},
					Op{Method: "GET", Path: base + "{" + fs.PathParam + "}", RawPath: base + "{*" + fs.PathParam + "}", File: true,
						Params: []Param{{fs.PathParam, "path", true}}, Statuses: []int{200, 404}})
			} else {
				ops = append(ops, Op{Method: "GET", Path: p, RawPath: p, File: true, Statuses: []int{200}, Service: sd.Service.Name, FileOf: fof})
			}
		}
	}
	return ops
}

// ---- document side ----

func asMap(v any) map[string]any {
	m, _ := v.(map[string]any)
	return m
}

func asList(v any) []any {
	l, _ := v.([]any)
	return l
}

func asString(v any) string {
	s, _ := v.(string)
	return s
}

var docMethods = []string{"get", "put", "post", "delete", "options", "head", "patch", "trace"}

// docOps lists the operations of a parsed OpenAPI document (v2 or v3): every
// method field of every path item. The path keeps what the document says (RawPath)
// and its normal form.
func docOps(doc map[string]any, v2 bool) (ops []Op, problems []string) {
	base := ""
	if v2 {
		base = asString(doc["basePath"])
	}
	paths := asMap(doc["paths"])
	keys := make([]string, 0, len(paths))
	for k := range paths {
		keys = append(keys, k)
	}
	sort.Strings(keys)
	for _, k := range keys {
		if strings.HasPrefix(k, "x-") {
			continue
		}
		item := asMap(paths[k])
		if item == nil {
			problems = append(problems, "path item is not an object: "+k)
			continue
		}
		full := k
		if base != "" && base != "/" {
			full = strings.TrimSuffix(base, "/") + k
		}
		nops := 0
		for _, m := range docMethods {
			o := asMap(item[m])
			if o == nil {
				continue
			}
			nops++
			op := Op{Method: strings.ToUpper(m), Path: full, RawPath: full}
			for _, p := range asList(o["parameters"]) {
				pm := asMap(p)
				in := asString(pm["in"])
				if in == "body" || in == "formData" {
					op.HasBody = true
					continue
				}
				req, _ := pm["required"].(bool)
				op.Params = append(op.Params, Param{asString(pm["name"]), in, req})
			}
			sortParams(op.Params)
			if _, ok := o["requestBody"]; ok {
				op.HasBody = true
			}
			for code := range asMap(o["responses"]) {
				c, err := strconv.Atoi(code)
				if err != nil {
					c = -1
				}
				op.Statuses = append(op.Statuses, c)
			}
			op.Statuses = uniqInts(op.Statuses)
			if sl, ok := o["security"]; ok {
				for _, rq := range asList(sl) {
					var ks []string
					rm := asMap(rq)
					for name, scopes := range rm {
						ks = append(ks, name)
						for _, sc := range asList(scopes) {
							ks = append(ks, name+"#"+asString(sc))
						}
					}
					sort.Strings(ks)
					op.Security = append(op.Security, ks)
				}
			}
			ops = append(ops, op)
		}
		if nops == 0 {
			problems = append(problems, "empty-path-item:"+k)
		}
	}
	return ops, problems
}

// ---- JSON / YAML trees ----

// canon normalises a generic tree: every number becomes float64, maps get string keys.
func canon(v any) any {
	switch x := v.(type) {
	case map[string]any:
		m := make(map[string]any, len(x))
		for k, e := range x {
			m[k] = canon(e)
		}
		return m
	case map[any]any:
		m := make(map[string]any, len(x))
		for k, e := range x {
			m[fmt.Sprint(k)] = canon(e)
		}
		return m
	case []any:
		l := make([]any, len(x))
		for i, e := range x {
			l[i] = canon(e)
		}
		return l
	case int:
		return float64(x)
	case int64:
		return float64(x)
	case uint64:
		return float64(x)
	case float32:
		return float64(x)
	case json.Number:
		f, _ := x.Float64()
		return f
	}
	return v
}

func parseJSON(b []byte) (map[string]any, error) {
	var v any
	if err := json.Unmarshal(b, &v); err != nil {
		return nil, err
	}
	m := asMap(canon(v))
	if m == nil {
		return nil, fmt.Errorf("top level is not an object")
	}
	return m, nil
}

func parseYAML(b []byte) (map[string]any, error) {
	var v any
	if err := yaml.Unmarshal(b, &v); err != nil {
		return nil, err
	}
	m := asMap(canon(v))
	if m == nil {
		return nil, fmt.Errorf("top level is not a mapping")
	}
	return m, nil
}
