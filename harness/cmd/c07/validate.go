package main

import (
	"context"
	"fmt"
	"regexp"
	"sort"
	"strings"

	"github.com/getkin/kin-openapi/openapi3"
)

// kinValidate is the named test oracle for "valid OpenAPI 3.0": kin-openapi
// v0.128.0 loads the document and validates it. Example values are not checked
// against their schemas (the specification words that as SHOULD).
func kinValidate(b []byte) error {
	l := openapi3.NewLoader()
	doc, err := l.LoadFromData(b)
	if err != nil {
		return fmt.Errorf("load: %w", err)
	}
	return doc.Validate(context.Background(), openapi3.DisableExamplesValidation())
}

// kinValidateExamples also checks examples against schemas (informational).
func kinValidateExamples(b []byte) error {
	l := openapi3.NewLoader()
	doc, err := l.LoadFromData(b)
	if err != nil {
		return err
	}
	return doc.Validate(context.Background())
}

var (
	tmplVar  = regexp.MustCompile(`\{([^{}/]*)\}`)
	codeRe   = regexp.MustCompile(`^[1-5][0-9][0-9]$`)
	v2ItemOK = map[string]bool{"get": true, "put": true, "post": true, "delete": true, "options": true, "head": true, "patch": true, "parameters": true, "$ref": true}
	v2In     = map[string]bool{"query": true, "header": true, "path": true, "formData": true, "body": true}
	v2Types  = map[string]bool{"string": true, "number": true, "integer": true, "boolean": true, "array": true, "file": true}
	v2Scheme = map[string]bool{"http": true, "https": true, "ws": true, "wss": true}
)

// validateV2 is a structural validator for Swagger 2.0 documents: required fields,
// well-formed path items, operations, parameters and responses, path template
// variables bound to path parameters, unique operation ids, resolvable references,
// defined security schemes. It returns rule names ("rule: detail").
func validateV2(doc map[string]any) []string {
	var errs []string
	bad := func(rule, detail string) { errs = append(errs, rule+": "+detail) }
	if asString(doc["swagger"]) != "2.0" {
		bad("swagger-version", fmt.Sprint(doc["swagger"]))
	}
	info := asMap(doc["info"])
	if info == nil {
		bad("info-missing", "")
	} else {
		if _, ok := info["title"].(string); !ok {
			bad("info-title-missing", "")
		}
		if _, ok := info["version"].(string); !ok {
			bad("info-version-missing", "")
		}
	}
	if bp, ok := doc["basePath"]; ok {
		if s := asString(bp); s != "" && !strings.HasPrefix(s, "/") {
			bad("basepath-no-leading-slash", s)
		}
	}
	paths, ok := doc["paths"].(map[string]any)
	if !ok {
		bad("paths-missing", "")
		return errs
	}
	defs := asMap(doc["definitions"])
	secdefs := asMap(doc["securityDefinitions"])
	topParams := asMap(doc["parameters"])
	opIDs := map[string]string{}
	keys := make([]string, 0, len(paths))
	for k := range paths {
		keys = append(keys, k)
	}
	sort.Strings(keys)
	for _, k := range keys {
		if strings.HasPrefix(k, "x-") {
			continue
		}
		if !strings.HasPrefix(k, "/") {
			bad("path-no-leading-slash", k)
		}
		item := asMap(paths[k])
		if item == nil {
			bad("path-item-not-object", k)
			continue
		}
		var tvars []string
		for _, m := range tmplVar.FindAllStringSubmatch(k, -1) {
			tvars = append(tvars, m[1])
			if !isName(m[1]) {
				bad("path-template-variable-malformed", k)
			}
		}
		if strings.Count(k, "{") != len(tvars) || strings.Count(k, "}") != len(tvars) {
			bad("path-template-malformed", k)
		}
		for f, v := range item {
			if strings.HasPrefix(f, "x-") {
				continue
			}
			if !v2ItemOK[f] {
				bad("path-item-unknown-field", k+" "+f)
				continue
			}
			if f == "parameters" || f == "$ref" {
				continue
			}
			op := asMap(v)
			if op == nil {
				bad("operation-not-object", k+" "+f)
				continue
			}
			where := strings.ToUpper(f) + " " + k
			if id := asString(op["operationId"]); id != "" {
				if prev, dup := opIDs[id]; dup {
					bad("operation-id-duplicate", id+" ("+prev+", "+where+")")
				}
				opIDs[id] = where
			}
			resps := asMap(op["responses"])
			if len(resps) == 0 {
				bad("responses-missing", where)
			}
			for code, r := range resps {
				if code != "default" && !codeRe.MatchString(code) && !strings.HasPrefix(code, "x-") {
					bad("response-code-malformed", where+" "+code)
				}
				rm := asMap(r)
				if rm == nil {
					bad("response-not-object", where+" "+code)
					continue
				}
				if _, ok := rm["description"].(string); !ok {
					bad("response-description-missing", where+" "+code)
				}
			}
			seen := map[string]bool{}
			nbody := 0
			pathParams := map[string]bool{}
			for _, p := range asList(op["parameters"]) {
				pm := asMap(p)
				if pm == nil {
					bad("parameter-not-object", where)
					continue
				}
				if ref := asString(pm["$ref"]); ref != "" {
					if !strings.HasPrefix(ref, "#/parameters/") || topParams[strings.TrimPrefix(ref, "#/parameters/")] == nil {
						bad("ref-unresolved", where+" "+ref)
					}
					continue
				}
				name, in := asString(pm["name"]), asString(pm["in"])
				if _, ok := pm["name"].(string); !ok {
					bad("parameter-name-missing", where)
				}
				if !v2In[in] {
					bad("parameter-in-invalid", where+" "+name+" in="+in)
					continue
				}
				if seen[in+":"+name] {
					if in == "header" && name == "Authorization" {
						bad("parameter-duplicate:authorization-header", where)
					} else {
						bad("parameter-duplicate", where+" "+in+":"+name)
					}
				}
				seen[in+":"+name] = true
				switch in {
				case "body":
					nbody++
					if asMap(pm["schema"]) == nil {
						bad("body-parameter-without-schema", where+" "+name)
					}
				default:
					t := asString(pm["type"])
					if !v2Types[t] {
						switch {
						case t == "" && in == "formData" && asMap(pm["schema"]) != nil:
							bad("parameter-type-invalid:formdata-with-schema", where+" "+name)
						case t == "map":
							bad("parameter-type-invalid:map", where+" "+name)
						default:
							bad("parameter-type-invalid", where+" "+name+" type="+t)
						}
					}
					if t == "array" && asMap(pm["items"]) == nil {
						bad("array-parameter-without-items", where+" "+name)
					}
					if t == "file" && in != "formData" {
						bad("file-parameter-not-formdata", where+" "+name)
					}
					if in == "path" {
						pathParams[name] = true
						if req, _ := pm["required"].(bool); !req {
							bad("path-parameter-not-required", where+" "+name)
						}
					}
				}
			}
			if nbody > 1 {
				bad("several-body-parameters", where)
			}
			for _, tv := range tvars {
				if !pathParams[tv] {
					bad("path-template-variable-without-parameter", where+" {"+tv+"}")
				}
			}
			for pp := range pathParams {
				found := false
				for _, tv := range tvars {
					found = found || tv == pp
				}
				if !found {
					bad("path-parameter-not-in-template", where+" "+pp)
				}
			}
			for _, s := range asList(op["schemes"]) {
				if !v2Scheme[asString(s)] {
					bad("scheme-invalid", where+" "+asString(s))
				}
			}
			for _, rq := range asList(op["security"]) {
				for name := range asMap(rq) {
					if secdefs[name] == nil {
						bad("security-scheme-undefined", where+" "+name)
					}
				}
			}
		}
	}
	for name, sd := range secdefs {
		t := asString(asMap(sd)["type"])
		if t != "basic" && t != "apiKey" && t != "oauth2" {
			bad("security-definition-type-invalid", name+" "+t)
		}
		if t == "apiKey" {
			in := asString(asMap(sd)["in"])
			if in != "query" && in != "header" {
				bad("security-definition-apikey-in-invalid", name+" in="+in)
			}
			if asString(asMap(sd)["name"]) == "" {
				bad("security-definition-apikey-name-missing", name)
			}
		}
	}
	// every $ref resolves
	var walk func(v any)
	walk = func(v any) {
		switch x := v.(type) {
		case map[string]any:
			if r, ok := x["$ref"].(string); ok {
				switch {
				case strings.HasPrefix(r, "#/definitions/"):
					if defs[strings.TrimPrefix(r, "#/definitions/")] == nil {
						bad("ref-unresolved", r)
					}
				case strings.HasPrefix(r, "#/parameters/"):
					if topParams[strings.TrimPrefix(r, "#/parameters/")] == nil {
						bad("ref-unresolved", r)
					}
				default:
					bad("ref-unresolved", r)
				}
			}
			for k, e := range x {
				if k == "example" || k == "examples" || k == "default" || k == "enum" {
					continue
				}
				walk(e)
			}
		case []any:
			for _, e := range x {
				walk(e)
			}
		}
	}
	walk(doc)
	sort.Strings(errs)
	return errs
}

// checkV3Refs: every security requirement names a defined scheme (kin-openapi does
// not check this), every operationId is unique, every path template variable is a
// declared path parameter.
func checkV3Extra(doc map[string]any) []string {
	var errs []string
	comps := asMap(asMap(doc["components"])["securitySchemes"])
	check := func(where string, sl any) {
		for _, rq := range asList(sl) {
			for name := range asMap(rq) {
				if comps[name] == nil {
					errs = append(errs, "security-scheme-undefined: "+where+" "+name)
				}
			}
		}
	}
	check("top", doc["security"])
	ids := map[string]string{}
	for k, it := range asMap(doc["paths"]) {
		for _, m := range docMethods {
			op := asMap(asMap(it)[m])
			if op == nil {
				continue
			}
			where := strings.ToUpper(m) + " " + k
			check(where, op["security"])
			if id := asString(op["operationId"]); id != "" {
				if prev, dup := ids[id]; dup {
					errs = append(errs, "operation-id-duplicate: "+id+" ("+prev+", "+where+")")
				}
				ids[id] = where
			}
		}
	}
	sort.Strings(errs)
	return errs
}
