package main

import (
	"encoding/base64"
	"fmt"
	"sort"
	"strings"
)

// Finding is one way the property fails on one design.
type Finding struct {
	Sig  string `json:"signature"`
	What string `json:"what"`
}

type ctx struct {
	absSvc   map[string]bool // services whose own HTTP path is absolute ("//...") in a design with an API base path
	hidden   map[string]bool // (method, pattern) of the mounted operations the description marks openapi:generate=false
	md       *MDesign
	findings []Finding
	counts   map[string]int
}

func (c *ctx) fail(sig, what string) {
	c.findings = append(c.findings, Finding{sig, what})
}

// swagger2Verbs are the operations a Swagger 2.0 path item can hold; openapi3Verbs
// those of an OpenAPI 3.0 path item. These are the harness' statement of the two
// specifications, independent of goa's switch statements.
var swagger2Verbs = map[string]bool{"GET": true, "PUT": true, "POST": true, "DELETE": true, "OPTIONS": true, "HEAD": true, "PATCH": true}
var openapi3Verbs = map[string]bool{"GET": true, "PUT": true, "POST": true, "DELETE": true, "OPTIONS": true, "HEAD": true, "PATCH": true, "TRACE": true}

func isAuthHeader(p Param) bool {
	return p.In == "header" && strings.ToLower(p.Name) == "authorization"
}

// defaulted reports whether the endpoint's header/cookie with that wire name is
// both required and defaulted in the design (classifier of one finding).
func (c *ctx) requiredWithDefault(endpoint string, p Param) bool {
	for _, s := range c.md.Services {
		for _, e := range s.Endpoints {
			if s.Name+"."+e.Name != endpoint {
				continue
			}
			list := e.Headers
			if p.In == "cookie" {
				list = e.Cookies
			}
			for _, m := range list {
				if m.Wire == p.Name && m.Required && m.HasDef {
					return true
				}
			}
		}
	}
	return false
}

// expectedParams derives what the document of the given version must list from the
// parameters the server's decoder reads.
func expectedParams(ver string, s Op) []Param {
	var out []Param
	for _, p := range s.Params {
		switch ver {
		case "openapi3":
			// credentials carried by the Authorization header are described by the
			// security requirement, not as a parameter
			if isAuthHeader(p) && len(s.Security) > 0 {
				continue
			}
		case "openapi2":
			if p.In == "cookie" {
				continue // Swagger 2.0 has no cookie location (recorded finding, witness stream)
			}
		}
		out = append(out, p)
	}
	if ver == "openapi2" && s.Basic {
		out = append(out, Param{"Authorization", "header", s.BasicRequired})
	}
	sortParams(out)
	return out
}

func secString(s [][]string) string { return fmt.Sprint(s) }

func expectedSecurity(ver string, s Op) [][]string {
	var out [][]string
	for _, rq := range s.Security {
		var ks []string
		for _, k := range rq {
			if i := strings.Index(k, "#"); i >= 0 && ver == "openapi2" && schemeTypes[k[:i]] != "OAuth2" {
				continue // Swagger 2.0 scopes exist for oauth2 only
			}
			ks = append(ks, k)
		}
		sort.Strings(ks)
		out = append(out, ks)
	}
	return out
}

func mapDocSecurity(o Op, schemes []string) [][]string {
	var out [][]string
	for _, rq := range o.Security {
		var ks []string
		for _, k := range rq {
			if i := strings.Index(k, "#"); i >= 0 {
				ks = append(ks, schemeOf(k[:i], schemes)+k[i:])
			} else {
				ks = append(ks, schemeOf(k, schemes))
			}
		}
		sort.Strings(ks)
		out = append(out, ks)
	}
	return out
}

// compareOps is the direct oracle for "the document lists exactly the operations
// the server mounts, with the same parameters, body, status codes and schemes".
// cookiesToo: compare cookies for OpenAPI 2 as well (witness stream).
func (c *ctx) compareOps(ver string, doc, srv []Op, strictV2 bool) {
	dm := map[string]Op{}
	for _, o := range doc {
		dm[o.Method+" "+o.RawPath] = o
	}
	sm := map[string][]Op{}
	for _, s := range srv {
		sm[s.Key()] = append(sm[s.Key()], s)
	}
	expressible := openapi3Verbs
	if ver == "openapi2" {
		expressible = swagger2Verbs
	}
	for _, s := range srv {
		if _, ok := dm[s.Key()]; ok {
			continue
		}
		switch {
		case !expressible[s.Method] && (ver == "openapi3" || strictV2):
			c.fail(ver+"-op-missing:"+s.Method, fmt.Sprintf("%s %s is mounted by the generated server and absent from %s", s.Method, s.Path, ver))
		case !expressible[s.Method]:
			c.counts["openapi2_inexpressible_verb_skipped"]++
		case s.File && (strings.Contains(s.RawPath, "{*") || strings.HasSuffix(s.RawPath, "/") && s.RawPath != "/"):
			c.fail(ver+"-op-missing:file-server-directory", fmt.Sprintf("file server mount %s %s is absent from %s", s.Method, s.RawPath, ver))
		case ver == "openapi2" && c.absSvc[s.Service]:
			c.fail(ver+"-op-missing:absolute-service-path-under-kept-basepath", fmt.Sprintf("%s %s (service with an absolute path) is mounted; openapi2 keeps basePath and writes the key in full, so it resolves elsewhere", s.Method, s.Path))
		default:
			c.fail(ver+"-op-missing", fmt.Sprintf("%s %s is mounted by the generated server and absent from %s", s.Method, s.Path, ver))
		}
	}
	for _, o := range doc {
		if _, ok := sm[o.Key()]; ok {
			continue
		}
		if c.hidden[o.Key()] {
			c.fail(ver+"-op-listed-despite-openapi-generate-false", fmt.Sprintf("%s lists %s %s although its service, method or file server carries openapi:generate=false", ver, o.Method, o.RawPath))
		} else if strings.Contains(o.RawPath, "{*") {
			c.fail(ver+"-op-extra:wildcard-kept-in-path-key", fmt.Sprintf("%s lists %s %s: the path key keeps the {*name} form, which is not a path template", ver, o.Method, o.RawPath))
		} else if ver == "openapi2" && len(c.absSvc) > 0 && c.md.APIBase != "" && strings.HasPrefix(o.RawPath, strings.TrimSuffix(c.md.APIBase, "/")+"/") {
			c.fail(ver+"-op-extra:absolute-service-path-under-kept-basepath", fmt.Sprintf("openapi2 resolves to %s %s (basePath + full key of a service with an absolute path), which the generated server does not mount", o.Method, o.RawPath))
		} else {
			c.fail(ver+"-op-extra", fmt.Sprintf("%s lists %s %s which the generated server does not mount", ver, o.Method, o.RawPath))
		}
	}
	for key, ss := range sm {
		o, ok := dm[key]
		if !ok {
			continue
		}
		s := ss[len(ss)-1] // a later endpoint on the same method and path replaces the earlier one on both sides
		where := fmt.Sprintf("%s %s (%s)", ver, key, s.Endpoint)
		// parameters
		exp := expectedParams(ver, s)
		if strictV2 && ver == "openapi2" {
			for _, p := range s.Params {
				if p.In == "cookie" {
					c.fail("openapi2-param-missing:cookie", fmt.Sprintf("%s: the server reads cookie %q, Swagger 2.0 has no cookie parameters and the document omits it", where, p.Name))
				}
			}
		}
		em := map[string]Param{}
		for _, p := range exp {
			em[p.In+":"+p.Name] = p
		}
		gm := map[string]Param{}
		for _, p := range o.Params {
			gm[p.In+":"+p.Name] = p
		}
		for k, p := range em {
			g, ok := gm[k]
			switch {
			case !ok:
				c.fail(ver+"-param-missing:"+p.In, fmt.Sprintf("%s: the server reads %s parameter %q, the document does not list it", where, p.In, p.Name))
			case g.Required != p.Required:
				if (p.In == "header" || p.In == "cookie") && p.Required && !g.Required && c.requiredWithDefault(s.Endpoint, p) {
					c.fail(ver+"-param-required-mismatch:"+p.In+"-required-with-default", fmt.Sprintf("%s: %s %q is required by the server (missing_field when absent) and optional in the document", where, p.In, p.Name))
				} else {
					c.fail(ver+"-param-required-mismatch:"+p.In, fmt.Sprintf("%s: %s parameter %q required=%v on the server, %v in the document", where, p.In, p.Name, p.Required, g.Required))
				}
			}
		}
		for k, g := range gm {
			if _, ok := em[k]; !ok {
				c.fail(ver+"-param-extra:"+g.In, fmt.Sprintf("%s: the document lists %s parameter %q which the server does not read", where, g.In, g.Name))
			}
		}
		if len(o.Params) != len(gm) {
			cnt := map[string]int{}
			for _, p := range o.Params {
				cnt[p.In+":"+p.Name]++
			}
			sig := ver + "-param-duplicate"
			if len(o.Params)-len(gm) == cnt["header:Authorization"]-1 {
				sig += ":authorization-header"
			}
			c.fail(sig, where+": the document lists a parameter twice")
		}
		if o.HasBody != s.HasBody {
			c.fail(ver+"-body-mismatch", fmt.Sprintf("%s: server decodes a body=%v, document has a request body=%v", where, s.HasBody, o.HasBody))
		}
		if fmt.Sprint(o.Statuses) != fmt.Sprint(s.Statuses) {
			c.fail(ver+"-status-mismatch", fmt.Sprintf("%s: server writes %v, document lists %v", where, s.Statuses, o.Statuses))
		}
		ds := mapDocSecurity(o, c.md.Schemes)
		es := expectedSecurity(ver, s)
		if secString(ds) != secString(es) {
			if s.File && len(es) == 0 {
				c.fail(ver+"-security-mismatch:file-server-api-requirements", fmt.Sprintf("%s: the document lists the API level requirements %v on a file server the generated server mounts without any check", where, ds))
			} else {
				c.fail(ver+"-security-mismatch", fmt.Sprintf("%s: server enforces %v, document lists %v", where, es, ds))
			}
		}
	}
}

// ---- JSON vs YAML ----

// treeDiffs collects every difference between two canonical trees as (path, class).
func treeDiffs(a, b any, at string, out *[][2]string) {
	switch x := a.(type) {
	case map[string]any:
		y, ok := b.(map[string]any)
		if !ok {
			*out = append(*out, [2]string{at, "other"})
			return
		}
		ks := map[string]bool{}
		for k := range x {
			ks[k] = true
		}
		for k := range y {
			ks[k] = true
		}
		for k := range ks {
			xv, xo := x[k]
			yv, yo := y[k]
			if !xo || !yo {
				*out = append(*out, [2]string{at + "/" + k, "other"})
				continue
			}
			treeDiffs(xv, yv, at+"/"+k, out)
		}
	case []any:
		y, ok := b.([]any)
		if !ok || len(x) != len(y) {
			*out = append(*out, [2]string{at, "other"})
			return
		}
		for i := range x {
			treeDiffs(x[i], y[i], fmt.Sprintf("%s[%d]", at, i), out)
		}
	case string:
		// encoding/json writes []byte as base64, yaml.v3 as a sequence of integers
		if y, ok := b.([]any); ok {
			if raw, err := base64.StdEncoding.DecodeString(x); err == nil && len(raw) == len(y) {
				same := true
				for i := range raw {
					f, ok := y[i].(float64)
					same = same && ok && f == float64(raw[i])
				}
				if same {
					*out = append(*out, [2]string{at, "bytes-base64-vs-integer-list"})
					return
				}
			}
		}
		if x != b {
			if fmt.Sprint(a) == fmt.Sprint(b) {
				return
			}
			if ys, ok := b.(string); ok && x == "\n"+ys {
				// yaml.v3 writes a literal block without the leading empty line
				*out = append(*out, [2]string{at, "leading-newline-lost-in-yaml"})
				return
			}
			*out = append(*out, [2]string{at, "other"})
		}
	default:
		if a != b && fmt.Sprint(a) != fmt.Sprint(b) {
			*out = append(*out, [2]string{at, "other"})
		}
	}
}

func (c *ctx) compareRenderings(ver string, j, y map[string]any) {
	var ds [][2]string
	treeDiffs(j, y, "", &ds)
	seen := map[string]bool{}
	sort.Slice(ds, func(i, k int) bool { return ds[i][0] < ds[k][0] })
	for _, d := range ds {
		if seen[d[1]] {
			continue
		}
		seen[d[1]] = true
		c.fail(ver+"-json-yaml-differ:"+d[1], fmt.Sprintf("%s: the JSON and YAML renderings differ at %s", ver, d[0]))
	}
}

// classifyKin turns a kin-openapi verdict into a signature.
func classifyKin(err error) string {
	m := err.Error()
	switch {
	case strings.Contains(m, "exclusiveMinimum of type bool") || strings.Contains(m, "exclusiveMaximum of type bool"):
		return "openapi3-invalid:exclusive-bound-written-as-number"
	case strings.Contains(m, "{*") && strings.Contains(m, "must contain exactly one of content and schema"):
		return "openapi3-invalid:file-server-wildcard-parameter-without-schema"
	}
	return "openapi3-invalid"
}
