// Command c07 builds goa designs through the real DSL, runs goa's generators in
// process (service data, server files, OpenAPI 2 and 3 documents), and checks that
// the documents are valid (kin-openapi for 3.0, a structural validator for 2.0),
// that their JSON and YAML renderings hold the same content, and that they list
// exactly the operations the generated server mounts with the same parameters,
// request body, status codes and security schemes (direct oracle). It writes the
// finalized design and what both sides produced as Coq terms for the OpenAPI engine.
package main

import (
	"encoding/json"
	"flag"
	"fmt"
	"os"
	"os/exec"
	"path/filepath"
	"runtime"
	"sort"
	"strings"

	dg "verifharness/designgen"
	"verifharness/vh"
)

type caseInfo struct {
	Index  int        `json:"index"`
	Stream string     `json:"stream"`
	Design *dg.Design `json:"design"`
	Meta   *MetaSpec  `json:"meta,omitempty"`
}

type runner struct {
	res      *vh.Result
	cases    []caseInfo
	lines    strings.Builder
	distinct vh.Distinct
	nOps     int
	nModel   int
	ordinal  int
	sigs     map[string]int
	meta     *MetaSpec // metadata of the design being run (nil: none)
}

// fail records a failing design. At most five designs per signature and worker are
// kept in full (all are counted), so that a new signature is never crowded out by the
// many reproductions of the recorded ones.
func (r *runner) fail(stream string, d *dg.Design, f Finding) {
	ms := r.meta
	r.res.Count("failure_sig=" + f.Sig)
	if r.sigs == nil {
		r.sigs = map[string]int{}
	}
	r.sigs[f.Sig]++
	if r.sigs[f.Sig] > 5 {
		return
	}
	r.res.Failures = append(r.res.Failures, vh.Failure{Signature: f.Sig, What: f.What, Input: map[string]any{"stream": stream, "ordinal": r.ordinal, "design": d, "meta": ms}})
}

// run evaluates one design. strict: witness stream (nothing filtered before comparing).
func (r *runner) run(stream string, d *dg.Design, ms *MetaSpec, strict bool) {
	r.res.Count("designs_" + stream)
	if ms.empty() {
		ms = nil
	}
	r.meta = ms
	out := d.EvalHooked(ms.hook(d))
	switch {
	case out.Panic != "":
		r.res.Count("eval_panic_" + stream)
		if stream == "cover" {
			r.fail(stream, d, Finding{"covering-design-lost:dsl-panic", "a hand-written covering design, which goa accepted and generated from, now makes the DSL evaluation panic: " + trunc(out.Panic, 300)})
		}
		return
	case !out.Accepted:
		r.res.Count("rejected_by_dsl_" + stream)
		if stream == "cover" {
			r.fail(stream, d, Finding{"covering-design-lost:rejected", "a hand-written covering design, which goa accepted and generated from, is now rejected: " + trunc(fmt.Sprint(out.Err), 300)})
		}
		return
	}
	for k := range schemeTypes {
		delete(schemeTypes, k)
	}
	g, stage, err := generate()
	if err != nil {
		if stage != "openapi" {
			// the service / transport generators fail before any document is built: not this
			// property's business (accepted designs that do not generate belong to C01)
			r.res.Count("not_generated_" + stage + "_stage_" + stream)
			if stream == "cover" {
				// ... except for the hand-written covering designs: they are known to generate, and
				// without generated code there is neither a server nor a document to compare
				r.fail(stream, d, Finding{"covering-design-lost:not-generated-" + stage + "-stage", "goa's " + stage + " generator now fails on a hand-written covering design: " + trunc(err.Error(), 300)})
			}
			return
		}
		r.res.Count("openapi_generator_error_" + stream)
		sig := "openapi-generator-error"
		if m := err.Error(); strings.Contains(m, "reflect.Set: value of type int is not assignable to type") && strings.Contains(m, "expr.(*Array).MakeSlice") {
			sig += ":enum-int-literal-on-sized-int-array-element"
		}
		r.fail(stream, d, Finding{sig, "goa's OpenAPI generator fails on an accepted design: " + trunc(err.Error(), 300)})
		return
	}
	r.res.Count("accepted_" + stream)
	md := extractModel()
	c := &ctx{md: md, counts: r.res.Dist, hidden: map[string]bool{}}
	c.absSvc = map[string]bool{}
	if d.BasePath != "" && d.BasePath != "/" {
		for _, sv := range d.Services {
			if strings.HasPrefix(sv.BasePath, "//") {
				c.absSvc[sv.Name] = true
			}
		}
	}
	// what the documents must list: the mounted operations the description does not mark
	// openapi:generate=false (decided from the description, not from goa's expressions)
	var visible []Op
	for _, o := range g.ServerOps {
		if ms.excluded(o) {
			c.hidden[o.Key()] = true
			r.res.Count("op_marked_openapi_generate_false")
		} else {
			visible = append(visible, o)
		}
	}
	for _, o := range visible {
		delete(c.hidden, o.Key())
	}
	// hypotheses of the partial theorems that goa itself is expected to enforce
	for _, s := range md.Services {
		for _, e := range s.Endpoints {
			r.res.Count("endpoints")
			for _, rt := range e.Routes {
				for _, p := range rt.Paths {
					if b := md.APIBase; !rt.Abs && !s.Abs && b != "" && b != "/" && p != b && !strings.HasPrefix(p, strings.TrimSuffix(b, "/")+"/") {
						r.res.Count("hypothesis_rooted_violated")
					}
				}
			}
			if e.Multipart && !e.Body {
				r.res.Count("hypothesis_multipart_has_body_violated")
			}
			all := map[string]bool{}
			for _, rt := range e.Routes {
				for _, p := range rt.Paths {
					for _, m := range wildRe.FindAllStringSubmatch(p, -1) {
						all[m[1]] = true
					}
				}
			}
			for _, rt := range e.Routes {
				for _, p := range rt.Paths {
					if len(wildRe.FindAllStringSubmatch(p, -1)) != len(all) {
						r.res.Count("hypothesis_uniform_wildcards_violated")
					}
				}
			}
		}
	}

	// the rendered Mount functions and the service data list the same routes
	mk := func(ops []Op) []string {
		ks := make([]string, len(ops))
		for i, o := range ops {
			ks[i] = o.Method + " " + o.RawPath
		}
		sort.Strings(ks)
		return ks
	}
	if a, b := mk(g.Mounted), mk(g.ServerOps); strings.Join(a, "|") != strings.Join(b, "|") {
		c.fail("harness-mount-table-mismatch", fmt.Sprintf("mux.Handle calls of the rendered server %v differ from the service data routes %v", a, b))
	}
	for _, p := range g.Problems {
		c.fail("harness-problem", p)
	}

	type parsed struct{ j, y map[string]any }
	docs := map[string]parsed{}
	for _, ver := range []string{"openapi", "openapi3"} {
		name := map[string]string{"openapi": "openapi2", "openapi3": "openapi3"}[ver]
		jb, yb := g.Docs[ver+".json"], g.Docs[ver+".yaml"]
		if jb == nil || yb == nil {
			c.fail(name+"-file-missing", "the generator did not produce "+ver+".json/.yaml")
			continue
		}
		j, err := parseJSON(jb)
		if err != nil {
			c.fail(name+"-json-unparsable", err.Error())
			continue
		}
		y, err := parseYAML(yb)
		if err != nil {
			c.fail(name+"-yaml-unparsable", err.Error())
			continue
		}
		docs[name] = parsed{j, y}
		c.compareRenderings(name, j, y)
	}
	var ops3, ops2 []Op
	if p, ok := docs["openapi3"]; ok {
		for _, kind := range []string{"json", "yaml"} {
			if err := kinValidate(g.Docs["openapi3."+kind]); err != nil {
				c.fail(classifyKin(err), "kin-openapi refuses openapi3."+kind+": "+trunc(err.Error(), 300))
				break
			}
		}
		for _, e := range checkV3Extra(p.j) {
			sig := "openapi3-invalid:" + strings.SplitN(e, ":", 2)[0]
			if strings.HasPrefix(e, "security-scheme-undefined") && apiLevelKey(md, e[strings.LastIndex(e, " ")+1:]) {
				// the API level requirement is written with the key of a scheme that has no location yet
				sig += ":api-level-requirement"
			}
			c.fail(sig, "openapi3.json: "+e)
		}
		var pr []string
		ops3, pr = docOps(p.j, false)
		for _, x := range pr {
			if strings.HasPrefix(x, "empty-path-item:") {
				r.res.Count("openapi3_empty_path_item")
			} else {
				c.fail("openapi3-malformed", x)
			}
		}
		c.compareOps("openapi3", ops3, visible, strict)
		if strict {
			if err := kinValidateExamples(g.Docs["openapi3.json"]); err != nil && strings.Contains(err.Error(), "invalid example") {
				r.res.Count("info_openapi3_example_not_matching_its_schema")
			}
		}
	}
	if p, ok := docs["openapi2"]; ok {
		for _, e := range validateV2(p.j) {
			c.fail("openapi2-invalid:"+strings.SplitN(e, ": ", 2)[0], "openapi.json: "+e)
		}
		var pr []string
		ops2, pr = docOps(p.j, true)
		for _, x := range pr {
			if strings.HasPrefix(x, "empty-path-item:") {
				r.res.Count("openapi2_empty_path_item")
			} else {
				c.fail("openapi2-malformed", x)
			}
		}
		c.compareOps("openapi2", ops2, visible, strict)
	}

	// one failure per signature and design
	seen := map[string]bool{}
	for _, f := range c.findings {
		if !seen[f.Sig] {
			seen[f.Sig] = true
			r.fail(stream, d, f)
		}
	}

	// distribution and distinctness
	r.nOps += len(g.ServerOps)
	for _, o := range g.ServerOps {
		r.res.Count("verb=" + o.Method)
		if o.File {
			r.res.Count("op_file_server")
		}
		if o.HasBody {
			r.res.Count("op_with_body")
			r.res.Count("body_verb=" + o.Method)
		} else if !o.File {
			r.res.Count("nobody_verb=" + o.Method)
		}
		for _, p := range o.Params {
			r.res.Count("param_in=" + p.In)
		}
		if len(o.Security) > 0 {
			r.res.Count("op_with_security")
		}
		if strings.Contains(o.RawPath, "{*") {
			r.res.Count("op_with_wildcard")
		}
	}
	for _, f := range d.Features {
		r.res.Count("feature=" + f)
	}
	mj, _ := json.Marshal(md)
	if len(g.ServerOps) > 0 {
		r.distinct.Add(string(mj))
	}

	// model case
	unmodelled := ""
	for _, s := range md.Services {
		for _, e := range s.Endpoints {
			if e.Unmodelled != "" {
				unmodelled = e.Unmodelled
			}
		}
	}
	if unmodelled != "" || docs["openapi3"].j == nil || docs["openapi2"].j == nil {
		r.res.Count("not_sent_to_model:" + unmodelled)
		return
	}
	in := newInterner()
	dt, ok1 := in.coqDesign(md)
	st, ok2 := in.coqOps(g.ServerOps, md.Schemes, false)
	t3, ok3 := in.coqOps(ops3, md.Schemes, true)
	t2, ok4 := in.coqOps(ops2, md.Schemes, true)
	wt, ok5 := in.coqWritten(docs["openapi2"].j)
	if !(ok1 && ok2 && ok3 && ok4 && ok5) {
		r.res.Count("not_sent_to_model:outside_tokenisation")
		return
	}
	idx := r.ordinal
	r.cases = append(r.cases, caseInfo{idx, stream, d, ms})
	fmt.Fprintf(&r.lines, "(%d%%nat, %s, %s, %s, %s, %s)\n", idx, dt, st, t3, t2, wt)
	r.nModel++
	if idx%37 == 3 {
		r.res.Sample(map[string]any{"stream": stream, "model_design": md, "server_ops": g.ServerOps, "openapi3_ops": ops3}, 3)
	}
}

// apiLevelKey: the key names a scheme of an API level requirement and carries no
// parameter name yet (SchemeName_In_ with an empty name).
func apiLevelKey(md *MDesign, key string) bool {
	if !strings.HasSuffix(key, "_") {
		return false
	}
	sn := schemeOf(key, md.Schemes)
	for _, rq := range md.APIReqs {
		for _, s := range rq {
			if s == sn {
				return true
			}
		}
	}
	return false
}

func trunc(s string, n int) string {
	if len(s) > n {
		return s[:n] + "..."
	}
	return s
}

type job struct {
	stream string
	d      *dg.Design
	strict bool
	meta   *MetaSpec
}

// jobs walks every design of the run in order and calls f(ordinal, job) for the
// ordinals selected by own (nil: all); the ordinal of a job is its case index. Designs
// that are not selected are not built (one draw of the generator is skipped instead,
// which is what Fork costs), so a worker only materialises its share.
func jobs(seed uint64, n int, res *vh.Result, own func(int) bool, f func(int, job)) {
	rng := vh.NewRNG(seed)
	ord := 0
	emit := func(mk func() job) {
		if own == nil || own(ord) {
			f(ord, mk())
		}
		ord++
	}
	for _, d := range coveringDesigns() {
		d := d
		emit(func() job { return job{"cover", d, false, coveringMeta(d)} })
	}
	opts := dg.DefaultOptions()
	opts.ExoticVerbs = true
	hand := witnessDesigns()
	kept := func(i int) int { return len(coveringDesigns()) + n + len(hand) + i/10 } // ordinal of the unsanitised copy of random design i
	var keep []struct {
		ord int
		d   *dg.Design
	}
	for i := 0; i < n; i++ {
		mainOwn := own == nil || own(ord)
		keepOwn := i%10 == 0 && (own == nil || own(kept(i)))
		if !mainOwn && !keepOwn && res == nil {
			rng.Next() // what rng.Fork() would have drawn
			ord++
			continue
		}
		d := dg.Random(rng.Fork(), opts, i)
		if keepOwn {
			keep = append(keep, struct {
				ord int
				d   *dg.Design
			}{kept(i), d})
		}
		if mainOwn || res != nil {
			sd, cnt := sanitize(d)
			if i%3 == 1 {
				sd = vary(sd, i/3)
			}
			if i%2 == 0 {
				sd = reverb(sd, vh.NewRNG(seed*1000003+uint64(i)))
			}
			if res != nil {
				for k, v := range cnt {
					res.Dist["sanitized_"+k] += v
				}
			}
			var ms *MetaSpec
			if i%4 >= 2 {
				// openapi:* metadata at every level the DSL offers, drawn independently
				sd, ms = randomMeta(sd, vh.NewRNG(seed*7000003+uint64(i)))
			}
			if mainOwn {
				f(ord, job{"main", sd, false, ms})
			}
		}
		ord++
	}
	// witness stream: the hand-written witnesses of the recorded findings, then one
	// random design in ten exactly as generated
	for _, d := range hand {
		d := d
		emit(func() job { return job{"witness", d, true, nil} })
	}
	for _, k := range keep {
		f(k.ord, job{"witness", k.d, true, nil})
	}
}

type shardOut struct {
	Result   *vh.Result `json:"result"`
	Distinct []string   `json:"distinct"`
	Ops      int        `json:"ops"`
	Model    int        `json:"model"`
	Lines    string     `json:"lines"`
}

func main() {
	seed := flag.Uint64("seed", 1, "")
	tier := flag.String("tier", "quick", "")
	out := flag.String("out", ".", "")
	replay := flag.String("replay", "", "")
	nflag := flag.Int("n", 0, "number of random designs (0: tier default)")
	workers := flag.Int("workers", 0, "worker processes (0: number of CPUs - 2)")
	worker := flag.Int("worker", -1, "internal: index of this worker")
	flag.Parse()
	r := &runner{res: vh.NewResult(), distinct: vh.Distinct{}}
	n := 800
	if *tier == "thorough" {
		n = 10000
	}
	if *nflag > 0 {
		n = *nflag
	}
	if *workers <= 0 {
		*workers = runtime.NumCPU() - 2
		if *workers < 1 {
			*workers = 1
		}
	}

	switch {
	case *replay != "":
		b, err := os.ReadFile(*replay)
		if err != nil {
			panic(err)
		}
		var rp struct {
			Input struct {
				Stream string     `json:"stream"`
				Design *dg.Design `json:"design"`
				Meta   *MetaSpec  `json:"meta"`
			} `json:"input"`
		}
		if err := json.Unmarshal(b, &rp); err != nil || rp.Input.Design == nil {
			fmt.Println("replay file has no design input")
			os.Exit(2)
		}
		r.ordinal = 0
		fixInts(rp.Input.Design)
		r.run("replay", rp.Input.Design, rp.Input.Meta, rp.Input.Stream == "witness")
	case *worker >= 0:
		// goa keeps the design in package level state: one design at a time per process
		jobs(*seed, n, nil, func(i int) bool { return i%*workers == *worker }, func(i int, j job) {
			r.ordinal = i
			r.run(j.stream, j.d, j.meta, j.strict)
		})
		so := shardOut{Result: r.res, Ops: r.nOps, Model: r.nModel, Lines: r.lines.String()}
		for k := range r.distinct {
			so.Distinct = append(so.Distinct, k)
		}
		for _, c := range r.cases {
			r.res.Cases = append(r.res.Cases, c)
		}
		b, _ := json.Marshal(so)
		if err := os.WriteFile(filepath.Join(*out, fmt.Sprintf("shard_%d.json", *worker)), b, 0o644); err != nil {
			panic(err)
		}
		return
	default:
		jobs(*seed, n, r.res, func(int) bool { return false }, func(int, job) {}) // sanitising counts
		errs := make(chan error, *workers)
		for w := 0; w < *workers; w++ {
			go func(w int) {
				cmd := exec.Command(os.Args[0], "-seed", fmt.Sprint(*seed), "-tier", *tier, "-out", *out, "-n", fmt.Sprint(n),
					"-workers", fmt.Sprint(*workers), "-worker", fmt.Sprint(w))
				cmd.Stderr = os.Stderr
				errs <- cmd.Run()
			}(w)
		}
		for w := 0; w < *workers; w++ {
			if err := <-errs; err != nil {
				fmt.Fprintln(os.Stderr, "worker failed:", err)
				os.Exit(1)
			}
		}
		var lines []string
		for w := 0; w < *workers; w++ {
			b, err := os.ReadFile(filepath.Join(*out, fmt.Sprintf("shard_%d.json", w)))
			if err != nil {
				panic(err)
			}
			var so shardOut
			if err := json.Unmarshal(b, &so); err != nil {
				panic(err)
			}
			os.Remove(filepath.Join(*out, fmt.Sprintf("shard_%d.json", w)))
			for k, v := range so.Result.Dist {
				r.res.Dist[k] += v
			}
			r.res.Failures = append(r.res.Failures, so.Result.Failures...)
			r.res.Cases = append(r.res.Cases, so.Result.Cases...)
			if w == 0 {
				r.res.Samples = so.Result.Samples
			}
			for _, k := range so.Distinct {
				r.distinct.Add(k)
			}
			r.nOps += so.Ops
			r.nModel += so.Model
			if so.Lines != "" {
				lines = append(lines, strings.Split(strings.TrimSuffix(so.Lines, "\n"), "\n")...)
			}
		}
		sort.Slice(lines, func(i, j int) bool { return caseIndex(lines[i]) < caseIndex(lines[j]) })
		sort.SliceStable(r.res.Failures, func(i, j int) bool { return failOrdinal(r.res.Failures[i]) < failOrdinal(r.res.Failures[j]) })
		r.lines.Reset()
		for _, l := range lines {
			r.lines.WriteString(l + "\n")
		}
	}

	r.res.Evaluations = r.nOps
	r.res.Distinct = len(r.distinct)
	r.res.Extra["model_cases"] = r.nModel
	r.res.Extra["random_designs"] = n
	r.res.Rule = "designs: 10 hand-written covering designs (every verb x {no payload, payload over path/query/header/cookie/body, primitive body} x {one route, two routes with different verbs}, other verbs on a file server path, all verbs, wildcards, absolute routes, base paths, every parameter location x required/optional/default, every body shape, tagged responses and errors, the four scheme kinds at service/method level, single-file servers), then designgen.Random(ExoticVerbs) designs, every second one with verbs re-drawn independently of body presence (uniform over the eight verbs, second route with another verb), sanitised into the partial hypotheses (exclusive bounds made inclusive, Bytes made String, API level security pushed down to the services, scopes kept on OAuth2-only requirements, one credential in the Authorization header, map typed query parameters made arrays), then the witness designs and every tenth random design exactly as generated; evaluations = operations mounted by the generated servers, each compared with both documents; distinct = distinct finalized HTTP descriptions (routes, parameters, bodies, responses, requirements) with at least one operation"
	if *worker < 0 && *replay != "" {
		for _, c := range r.cases {
			r.res.Cases = append(r.res.Cases, c)
		}
	}
	if err := os.WriteFile(filepath.Join(*out, "cases_ops.txt"), []byte(r.lines.String()), 0o644); err != nil {
		panic(err)
	}
	if err := r.res.Write(filepath.Join(*out, "result.json")); err != nil {
		panic(err)
	}
}

func caseIndex(l string) int {
	var i int
	fmt.Sscanf(l, "(%d%%nat,", &i)
	return i
}

func failOrdinal(f vh.Failure) int {
	if m, ok := f.Input.(map[string]any); ok {
		if o, ok := m["ordinal"].(float64); ok {
			return int(o)
		}
	}
	return 0
}
