// Command c07 builds goa designs through the real DSL, runs goa's generators in
// process (service data, server files, OpenAPI 2 and 3 documents), and checks that
// the documents are valid (kin-openapi for 3.0, a structural validator for 2.0),
// that their JSON and YAML renderings hold the same content, and that they list
// exactly the operations the generated server mounts with the same parameters,
// request body, status codes and security schemes (direct oracle). It writes the
// finalized design and what both sides produced as Coq terms for the OpenAPI engine.
package main

import (
	"encoding/json"
	"flag"
	"fmt"
	"os"
	"path/filepath"
	"sort"
	"strings"

	dg "verifharness/designgen"
	"verifharness/vh"
)

type caseInfo struct {
	Index  int        `json:"index"`
	Stream string     `json:"stream"`
	Design *dg.Design `json:"design"`
}

type runner struct {
	res      *vh.Result
	cases    []caseInfo
	lines    strings.Builder
	distinct vh.Distinct
	nOps     int
	nModel   int
}

func (r *runner) fail(stream string, d *dg.Design, f Finding) {
	r.res.Fail(f.Sig, f.What, map[string]any{"stream": stream, "design": d})
	r.res.Count("failure_sig=" + f.Sig)
}

// run evaluates one design. strict: witness stream (nothing filtered before comparing).
func (r *runner) run(stream string, d *dg.Design, strict bool) {
	r.res.Count("designs_" + stream)
	out := d.Eval()
	switch {
	case out.Panic != "":
		r.res.Count("eval_panic_" + stream)
		return
	case !out.Accepted:
		r.res.Count("rejected_by_dsl_" + stream)
		return
	}
	for k := range schemeTypes {
		delete(schemeTypes, k)
	}
	g, err := generate()
	if err != nil {
		r.res.Count("generator_error_" + stream)
		r.fail(stream, d, Finding{"generator-error", "goa's generators fail on an accepted design: " + err.Error()})
		return
	}
	r.res.Count("accepted_" + stream)
	md := extractModel()
	c := &ctx{md: md, counts: r.res.Dist}

	// the rendered Mount functions and the service data list the same routes
	mk := func(ops []Op) []string {
		ks := make([]string, len(ops))
		for i, o := range ops {
			ks[i] = o.Method + " " + o.RawPath
		}
		sort.Strings(ks)
		return ks
	}
	if a, b := mk(g.Mounted), mk(g.ServerOps); strings.Join(a, "|") != strings.Join(b, "|") {
		c.fail("harness-mount-table-mismatch", fmt.Sprintf("mux.Handle calls of the rendered server %v differ from the service data routes %v", a, b))
	}
	for _, p := range g.Problems {
		c.fail("harness-problem", p)
	}

	type parsed struct{ j, y map[string]any }
	docs := map[string]parsed{}
	for _, ver := range []string{"openapi", "openapi3"} {
		name := map[string]string{"openapi": "openapi2", "openapi3": "openapi3"}[ver]
		jb, yb := g.Docs[ver+".json"], g.Docs[ver+".yaml"]
		if jb == nil || yb == nil {
			c.fail(name+"-file-missing", "the generator did not produce "+ver+".json/.yaml")
			continue
		}
		j, err := parseJSON(jb)
		if err != nil {
			c.fail(name+"-json-unparsable", err.Error())
			continue
		}
		y, err := parseYAML(yb)
		if err != nil {
			c.fail(name+"-yaml-unparsable", err.Error())
			continue
		}
		docs[name] = parsed{j, y}
		c.compareRenderings(name, j, y)
	}
	var ops3, ops2 []Op
	if p, ok := docs["openapi3"]; ok {
		for _, kind := range []string{"json", "yaml"} {
			if err := kinValidate(g.Docs["openapi3."+kind]); err != nil {
				c.fail(classifyKin(err), "kin-openapi refuses openapi3."+kind+": "+trunc(err.Error(), 300))
				break
			}
		}
		for _, e := range checkV3Extra(p.j) {
			sig := "openapi3-invalid:" + strings.SplitN(e, ":", 2)[0]
			if strings.HasPrefix(e, "security-scheme-undefined") && len(md.APIReqs) > 0 && hasFiles(md) {
				sig += ":file-server-api-requirements"
			}
			c.fail(sig, "openapi3.json: "+e)
		}
		var pr []string
		ops3, pr = docOps(p.j, false)
		for _, x := range pr {
			if strings.HasPrefix(x, "empty-path-item:") {
				r.res.Count("openapi3_empty_path_item")
			} else {
				c.fail("openapi3-malformed", x)
			}
		}
		c.compareOps("openapi3", ops3, g.ServerOps, strict)
		if strict {
			if err := kinValidateExamples(g.Docs["openapi3.json"]); err != nil && strings.Contains(err.Error(), "invalid example") {
				r.res.Count("info_openapi3_example_not_matching_its_schema")
			}
		}
	}
	if p, ok := docs["openapi2"]; ok {
		for _, e := range validateV2(p.j) {
			c.fail("openapi2-invalid:"+strings.SplitN(e, ":", 2)[0], "openapi.json: "+e)
		}
		var pr []string
		ops2, pr = docOps(p.j, true)
		for _, x := range pr {
			if strings.HasPrefix(x, "empty-path-item:") {
				r.res.Count("openapi2_empty_path_item")
			} else {
				c.fail("openapi2-malformed", x)
			}
		}
		c.compareOps("openapi2", ops2, g.ServerOps, strict)
	}

	// one failure per signature and design
	seen := map[string]bool{}
	for _, f := range c.findings {
		if !seen[f.Sig] {
			seen[f.Sig] = true
			r.fail(stream, d, f)
		}
	}

	// distribution and distinctness
	r.nOps += len(g.ServerOps)
	for _, o := range g.ServerOps {
		r.res.Count("verb=" + o.Method)
		if o.File {
			r.res.Count("op_file_server")
		}
		if o.HasBody {
			r.res.Count("op_with_body")
		}
		for _, p := range o.Params {
			r.res.Count("param_in=" + p.In)
		}
		if len(o.Security) > 0 {
			r.res.Count("op_with_security")
		}
		if strings.Contains(o.RawPath, "{*") {
			r.res.Count("op_with_wildcard")
		}
	}
	for _, f := range d.Features {
		r.res.Count("feature=" + f)
	}
	mj, _ := json.Marshal(md)
	if len(g.ServerOps) > 0 {
		r.distinct.Add(string(mj))
	}

	// model case
	unmodelled := ""
	for _, s := range md.Services {
		for _, e := range s.Endpoints {
			if e.Unmodelled != "" {
				unmodelled = e.Unmodelled
			}
		}
	}
	if unmodelled != "" || docs["openapi3"].j == nil || docs["openapi2"].j == nil {
		r.res.Count("not_sent_to_model:" + unmodelled)
		return
	}
	in := newInterner()
	dt, ok1 := in.coqDesign(md)
	st, ok2 := in.coqOps(g.ServerOps, md.Schemes, false)
	t3, ok3 := in.coqOps(ops3, md.Schemes, true)
	t2, ok4 := in.coqOps(ops2, md.Schemes, true)
	if !(ok1 && ok2 && ok3 && ok4) {
		r.res.Count("not_sent_to_model:outside_tokenisation")
		return
	}
	idx := len(r.cases)
	r.cases = append(r.cases, caseInfo{idx, stream, d})
	fmt.Fprintf(&r.lines, "(%d, %s, %s, %s, %s)\n", idx, dt, st, t3, t2)
	r.nModel++
	if idx%37 == 3 {
		r.res.Sample(map[string]any{"stream": stream, "model_design": md, "server_ops": g.ServerOps, "openapi3_ops": ops3}, 3)
	}
}

func hasFiles(md *MDesign) bool {
	for _, s := range md.Services {
		if len(s.Files) > 0 {
			return true
		}
	}
	return false
}

func trunc(s string, n int) string {
	if len(s) > n {
		return s[:n] + "..."
	}
	return s
}

func main() {
	seed := flag.Uint64("seed", 1, "")
	tier := flag.String("tier", "quick", "")
	out := flag.String("out", ".", "")
	replay := flag.String("replay", "", "")
	nflag := flag.Int("n", 0, "number of random designs (0: tier default)")
	flag.Parse()
	rng := vh.NewRNG(*seed)
	r := &runner{res: vh.NewResult(), distinct: vh.Distinct{}}

	if *replay != "" {
		b, err := os.ReadFile(*replay)
		if err != nil {
			panic(err)
		}
		var rp struct {
			Input struct {
				Stream string     `json:"stream"`
				Design *dg.Design `json:"design"`
			} `json:"input"`
		}
		if err := json.Unmarshal(b, &rp); err != nil || rp.Input.Design == nil {
			fmt.Println("replay file has no design input")
			os.Exit(2)
		}
		r.run("replay", rp.Input.Design, rp.Input.Stream == "witness")
	} else {
		n := 400
		if *tier == "thorough" {
			n = 12000
		}
		if *nflag > 0 {
			n = *nflag
		}
		for _, d := range coveringDesigns() {
			r.run("cover", d, false)
		}
		opts := dg.DefaultOptions()
		opts.ExoticVerbs = true
		var keep []*dg.Design
		for i := 0; i < n; i++ {
			d := dg.Random(rng.Fork(), opts, i)
			if i%10 == 0 {
				keep = append(keep, d)
			}
			sd, cnt := sanitize(d)
			for k, v := range cnt {
				r.res.Dist["sanitized_"+k] += v
			}
			r.run("main", sd, false)
		}
		// witness stream: the hand-written witnesses of the recorded findings, then one
		// random design in ten as generated (exclusive bounds, Bytes, API security
		// next to file servers left in)
		for _, d := range witnessDesigns() {
			r.run("witness", d, true)
		}
		for _, d := range keep {
			r.run("witness", d, true)
		}
	}

	r.res.Evaluations = r.nOps
	r.res.Distinct = len(r.distinct)
	r.res.Extra["model_cases"] = r.nModel
	r.res.Rule = "designs: 7 hand-written covering designs (all verbs, wildcards, absolute routes, base paths, every parameter location x required/optional/default, every body shape, tagged responses and errors, the four scheme kinds at API/service/method level, single-file servers), then designgen.Random(ExoticVerbs) designs sanitised into the partial hypotheses (exclusive bounds made inclusive, Bytes made String, file servers dropped under API-level security), then the witness designs and every tenth random design unsanitised; evaluations = operations mounted by the generated servers, each compared with both documents; distinct = distinct finalized HTTP descriptions (routes, parameters, bodies, responses, requirements) with at least one operation"
	for _, c := range r.cases {
		r.res.Cases = append(r.res.Cases, c)
	}
	if err := os.WriteFile(filepath.Join(*out, "cases_ops.txt"), []byte(r.lines.String()), 0o644); err != nil {
		panic(err)
	}
	if err := r.res.Write(filepath.Join(*out, "result.json")); err != nil {
		panic(err)
	}
}
