package main

import (
	"fmt"
	"sort"
	"strings"

	"goa.design/goa/v3/expr"
	"verifharness/vh"
)

// The model's view of a finalized design: what Model.v's `design` record holds,
// read back from expr after goa evaluated (and generated from) the design.

type MParam struct {
	Attr     string `json:"attr"`
	Wire     string `json:"wire"`
	Required bool   `json:"required"`
	HasDef   bool   `json:"has_default"`
	Auth     bool   `json:"auth"` // header named Authorization (any case)
}

type MRoute struct {
	Verb  string   `json:"verb"`
	Abs   bool     `json:"absolute"` // RouteExpr.IsAbsolute: the route path starts with "//"
	Paths []string `json:"paths"`
}

type MEndpoint struct {
	Name       string     `json:"name"`
	Routes     []MRoute   `json:"routes"`
	Params     []MParam   `json:"params"`
	Headers    []MParam   `json:"headers"`
	Cookies    []MParam   `json:"cookies"`
	Body       bool       `json:"body"`
	Multipart  bool       `json:"multipart"`
	Basic      *bool      `json:"basic,omitempty"` // payload carries a basic-auth username: its required flag
	Responses  []int      `json:"responses"`
	Errors     []int      `json:"errors"`
	Reqs       [][]string `json:"reqs"`
	Unmodelled string     `json:"unmodelled,omitempty"`
	Gen        bool       `json:"generate"` // false: openapi:generate=false on the method or its HTTP endpoint
}

type MFile struct {
	Paths []string `json:"paths"`
	Gen   bool     `json:"generate"`
}

type MService struct {
	Name      string      `json:"name"`
	Abs       bool        `json:"absolute_path"` // a service HTTP path starts with "//"
	Gen       bool        `json:"generate"`
	Endpoints []MEndpoint `json:"endpoints"`
	Files     []MFile     `json:"files"`
}

type MDesign struct {
	APIBase  string     `json:"api_base"` // root.API.HTTP.Path
	Services []MService `json:"services"`
	APIReqs  [][]string `json:"api_reqs"`
	Schemes  []string   `json:"schemes"`
}

func mapped(ma *expr.MappedAttributeExpr, header bool) []MParam {
	var out []MParam
	if ma == nil {
		return nil
	}
	for _, nat := range *expr.AsObject(ma.Type) {
		el := ma.ElemName(nat.Name)
		out = append(out, MParam{Attr: nat.Name, Wire: el, Required: ma.IsRequired(nat.Name), HasDef: ma.GetDefault(nat.Name) != nil,
			Auth: header && strings.ToLower(el) == "authorization"})
	}
	return out
}

func reqNames(rs []*expr.SecurityExpr) [][]string {
	var out [][]string
	for _, r := range rs {
		var ns []string
		for _, s := range r.Schemes {
			ns = append(ns, s.SchemeName)
		}
		out = append(out, ns)
	}
	return out
}

// marked reads the mark Meta("openapi:generate", "false") (or swagger:generate) leaves
// on an expression: the last value wins.
func marked(metas ...expr.MetaExpr) bool {
	for _, m := range metas {
		for _, k := range []string{"openapi:generate", "swagger:generate"} {
			if v, ok := m.Last(k); ok && v == "false" {
				return true
			}
		}
	}
	return false
}

// extractModel reads the finalized design from expr.Root.
func extractModel() *MDesign {
	md := &MDesign{APIReqs: reqNames(expr.Root.API.Requirements), APIBase: expr.Root.API.HTTP.Path}
	for _, s := range expr.Root.Schemes {
		md.Schemes = append(md.Schemes, s.SchemeName)
	}
	for _, hs := range expr.Root.API.HTTP.Services {
		ms := MService{Name: hs.Name(), Gen: !marked(hs.Meta, hs.ServiceExpr.Meta)}
		for _, sp := range hs.Paths {
			ms.Abs = ms.Abs || strings.HasPrefix(sp, "//")
		}
		for _, e := range hs.HTTPEndpoints {
			me := MEndpoint{Name: e.Name(), Body: e.Body.Type != expr.Empty, Multipart: e.MultipartRequest, Gen: !marked(e.Meta, e.MethodExpr.Meta)}
			for _, r := range e.Routes {
				me.Routes = append(me.Routes, MRoute{Verb: strings.ToUpper(r.Method), Abs: r.IsAbsolute(), Paths: r.FullPaths()})
			}
			me.Params = mapped(e.Params, false)
			me.Headers = mapped(e.Headers, true)
			me.Cookies = mapped(e.Cookies, false)
			if att := expr.TaggedAttribute(e.MethodExpr.Payload, "security:username"); att != "" {
				b := e.MethodExpr.Payload.IsRequired(att)
				me.Basic = &b
			}
			for _, r := range e.Responses {
				me.Responses = append(me.Responses, r.StatusCode)
			}
			for _, er := range e.HTTPErrors {
				me.Errors = append(me.Errors, er.Response.StatusCode)
			}
			me.Reqs = reqNames(e.Requirements)
			switch {
			case e.MapQueryParams != nil:
				me.Unmodelled = "MapParams"
			case e.MethodExpr.IsStreaming():
				me.Unmodelled = "streaming"
			case e.SkipRequestBodyEncodeDecode:
				me.Unmodelled = "SkipRequestBodyEncodeDecode"
			case e.Redirect != nil:
				me.Unmodelled = "Redirect"
			}
			ms.Endpoints = append(ms.Endpoints, me)
		}
		for _, f := range hs.FileServers {
			ms.Files = append(ms.Files, MFile{Paths: append([]string(nil), f.RequestPaths...), Gen: !marked(f.Meta)})
		}
		md.Services = append(md.Services, ms)
	}
	return md
}

// ---- Coq printing ----

type interner struct {
	ids map[string]int
}

func newInterner() *interner { return &interner{ids: map[string]int{"": 0}} }

func (in *interner) id(s string) int {
	if v, ok := in.ids[s]; ok {
		return v
	}
	v := len(in.ids)
	in.ids[s] = v
	return v
}

func isName(s string) bool {
	if s == "" {
		return false
	}
	for _, c := range s {
		if !(c >= 'a' && c <= 'z' || c >= 'A' && c <= 'Z' || c >= '0' && c <= '9' || c == '_') {
			return false
		}
	}
	return true
}

func coqNList(xs []int) string {
	ss := make([]string, len(xs))
	for i, x := range xs {
		ss[i] = fmt.Sprint(x)
	}
	return "[" + strings.Join(ss, "; ") + "]"
}

func (in *interner) names(ns []string) string {
	xs := make([]int, len(ns))
	for i, n := range ns {
		xs[i] = in.id(n)
	}
	return coqNList(xs)
}

func (in *interner) reqs(rs [][]string) string {
	ss := make([]string, len(rs))
	for i, r := range rs {
		ss[i] = in.names(r)
	}
	return "[" + strings.Join(ss, "; ") + "]"
}

func (in *interner) mparams(ps []MParam) string {
	ss := make([]string, len(ps))
	for i, p := range ps {
		ss[i] = fmt.Sprintf("mkm %d %d %s %s %s", in.id(p.Attr), in.id(p.Wire), vh.CoqBool(p.Required), vh.CoqBool(p.HasDef), vh.CoqBool(p.Auth))
	}
	return "[" + strings.Join(ss, "; ") + "]"
}

// coqDesign prints the model's design term. ok=false if some path is outside the tokenisation.
func (in *interner) coqDesign(md *MDesign) (string, bool) {
	ok := true
	var svcs []string
	for _, s := range md.Services {
		var eps []string
		for _, e := range s.Endpoints {
			var rts []string
			for _, r := range e.Routes {
				var ps []string
				for _, p := range r.Paths {
					// wildcard names are attribute names
					t, o := in.pathAttr(p)
					ok = ok && o
					ps = append(ps, t)
				}
				rts = append(rts, fmt.Sprintf("mkr %s %s [%s]", r.Verb, vh.CoqBool(r.Abs), strings.Join(ps, "; ")))
			}
			basic := "None"
			if e.Basic != nil {
				basic = fmt.Sprintf("(Some (%d, %s))", in.id("Authorization"), vh.CoqBool(*e.Basic))
			}
			eps = append(eps, fmt.Sprintf("mkme (mke [%s] %s %s %s %s %s %s %s %s %s) %s", strings.Join(rts, "; "), in.mparams(e.Params), in.mparams(e.Headers), in.mparams(e.Cookies),
				vh.CoqBool(e.Body), vh.CoqBool(e.Multipart), basic, coqNList(e.Responses), coqNList(e.Errors), in.reqs(e.Reqs), vh.CoqBool(e.Gen)))
		}
		var fss []string
		for _, f := range s.Files {
			var ps []string
			for _, p := range f.Paths {
				t, o := in.pathAttr(p)
				ok = ok && o
				ps = append(ps, t)
			}
			fss = append(fss, "mkmf (mkf ["+strings.Join(ps, "; ")+"]) "+vh.CoqBool(f.Gen))
		}
		svcs = append(svcs, fmt.Sprintf("mkms [%s] [%s] %s %s", strings.Join(eps, "; "), strings.Join(fss, "; "), vh.CoqBool(s.Gen), vh.CoqBool(s.Abs)))
	}
	bt, bok := in.basePath(md.APIBase)
	return fmt.Sprintf("(mkmd [%s] %s %s)", strings.Join(svcs, "; "), in.reqs(md.APIReqs), bt), ok && bok
}

// basePath tokenises a base path: "" is the empty path.
func (in *interner) basePath(p string) (string, bool) {
	if p == "" {
		return "[]", true
	}
	return in.pathAttr(p)
}

// coqWritten prints openapi.json as written: its basePath and its (method, path key) pairs.
func (in *interner) coqWritten(doc map[string]any) (string, bool) {
	bt, ok := in.basePath(asString(doc["basePath"]))
	var ks []string
	for k, it := range asMap(doc["paths"]) {
		if strings.HasPrefix(k, "x-") {
			continue
		}
		for _, m := range docMethods {
			if asMap(asMap(it)[m]) == nil {
				continue
			}
			kt, kok := in.pathAttr(k)
			ok = ok && kok
			ks = append(ks, fmt.Sprintf("(%s, %s)", strings.ToUpper(m), kt))
		}
	}
	sort.Strings(ks)
	return fmt.Sprintf("(%s, [%s])", bt, strings.Join(ks, "; ")), ok
}

// pathAttr tokenises a path whose wildcard names are attribute names.
func (in *interner) pathAttr(p string) (string, bool) {
	ok := strings.HasPrefix(p, "/")
	segs := strings.Split(strings.TrimPrefix(p, "/"), "/")
	out := make([]string, len(segs))
	for i, s := range segs {
		switch {
		case strings.HasPrefix(s, "{*") && strings.HasSuffix(s, "}") && isName(s[2:len(s)-1]):
			out[i] = fmt.Sprintf("Star %d", in.id(s[2:len(s)-1]))
		case strings.HasPrefix(s, "{") && strings.HasSuffix(s, "}") && isName(s[1:len(s)-1]):
			out[i] = fmt.Sprintf("Var %d", in.id(s[1:len(s)-1]))
		default:
			if strings.ContainsAny(s, "{}") {
				ok = false
			}
			if s == "" {
				out[i] = "Lit 0"
			} else {
				out[i] = fmt.Sprintf("Lit %d", in.id(s))
			}
		}
	}
	return "[" + strings.Join(out, "; ") + "]", ok
}

var locName = map[string]string{"path": "InPath", "query": "InQuery", "header": "InHeader", "cookie": "InCookie"}

// schemeOf maps a document security key (SchemeName_In_Name) to the design's scheme name.
func schemeOf(key string, schemes []string) string {
	best := ""
	for _, s := range schemes {
		if strings.HasPrefix(key, s+"_") && len(s) > len(best) {
			best = s
		}
	}
	if best == "" {
		return "?" + key
	}
	return best
}

// coqOps prints observed operations. docKeys=true: security entries are document keys.
func (in *interner) coqOps(ops []Op, schemes []string, docKeys bool) (string, bool) {
	ok := true
	ss := make([]string, 0, len(ops))
	for _, o := range ops {
		pt, pok := in.pathAttr(o.RawPath)
		ok = ok && pok
		var ps []string
		for _, p := range o.Params {
			l, lok := locName[p.In]
			if !lok {
				ok = false
				l = "InQuery"
			}
			auth := p.In == "header" && strings.ToLower(p.Name) == "authorization"
			ps = append(ps, fmt.Sprintf("mkp %d %s %s %s", in.id(p.Name), l, vh.CoqBool(p.Required), vh.CoqBool(auth)))
		}
		var sec []string
		for _, rq := range o.Security {
			var ns []string
			seen := map[string]bool{}
			for _, k := range rq {
				if strings.Contains(k, "#") {
					continue
				}
				n := k
				if docKeys {
					n = schemeOf(k, schemes)
				}
				if !seen[n] {
					seen[n] = true
					ns = append(ns, n)
				}
			}
			sort.Strings(ns)
			sec = append(sec, in.names(ns))
		}
		sts := make([]int, 0, len(o.Statuses))
		for _, s := range o.Statuses {
			if s < 0 {
				ok = false
				s = 0
			}
			sts = append(sts, s)
		}
		if _, vok := verbs[o.Method]; !vok {
			ok = false
			continue
		}
		ss = append(ss, fmt.Sprintf("mko %s %s [%s] %s %s [%s]", o.Method, pt, strings.Join(ps, "; "), vh.CoqBool(o.HasBody), coqNList(sts), strings.Join(sec, "; ")))
	}
	return "[" + strings.Join(ss, "; ") + "]", ok
}

var verbs = map[string]bool{"GET": true, "HEAD": true, "POST": true, "PUT": true, "DELETE": true, "CONNECT": true, "OPTIONS": true, "TRACE": true, "PATCH": true}
