package main

import (
	"fmt"
	"sort"
	"strings"

	"goa.design/goa/v3/dsl"
	"goa.design/goa/v3/eval"
	"goa.design/goa/v3/expr"
	dg "verifharness/designgen"
	"verifharness/vh"
)

// MetaSpec holds the openapi:* metadata of a design that designgen's description has no
// field for: Meta(...) calls in the DSL of the API, of a service (ServiceExpr) and of
// its HTTP(...) block (HTTPServiceExpr), of a method and of its HTTP(...) block
// (HTTPEndpointExpr), of a file server. Attribute level metadata lives in the design
// description itself (Attr.Meta). Every entry is [key, values...].
type MetaSpec struct {
	API     [][]string            `json:"api,omitempty"`
	Service map[string][][]string `json:"service,omitempty"`      // by service name
	HTTPSvc map[string][][]string `json:"http_service,omitempty"` // by service name
	Method  map[string][][]string `json:"method,omitempty"`       // by "service.method"
	HTTPEp  map[string][][]string `json:"http_endpoint,omitempty"`
	File    map[string][][]string `json:"file,omitempty"` // by "service#index"
}

func (ms *MetaSpec) empty() bool {
	return ms == nil || len(ms.API)+len(ms.Service)+len(ms.HTTPSvc)+len(ms.Method)+len(ms.HTTPEp)+len(ms.File) == 0
}

func applyMetas(ms [][]string) {
	for _, m := range ms {
		if len(m) > 0 {
			dsl.Meta(m[0], m[1:]...)
		}
	}
}

// hook returns the function handed to Design.EvalHooked: it appends the Meta calls to
// the DSL of the expressions concerned, as if they had been written there. The calls
// themselves are goa's dsl.Meta, run by goa's evaluation in the right context.
func (ms *MetaSpec) hook(d *dg.Design) func() {
	if ms.empty() {
		return nil
	}
	return func() {
		if len(ms.API) > 0 && expr.Root.API != nil {
			api := expr.Root.API
			old := api.DSLFunc
			api.DSLFunc = func() {
				if old != nil {
					old()
				}
				applyMetas(ms.API)
			}
		}
		for _, s := range d.Services {
			s := s
			need := len(ms.Service[s.Name])+len(ms.HTTPSvc[s.Name]) > 0
			for _, m := range s.Methods {
				need = need || len(ms.Method[s.Name+"."+m.Name])+len(ms.HTTPEp[s.Name+"."+m.Name]) > 0
			}
			for i := range s.Files {
				need = need || len(ms.File[fmt.Sprintf("%s#%d", s.Name, i)]) > 0
			}
			if !need {
				continue
			}
			// a second Service(name, ...) call: goa runs it after the first one
			dsl.Service(s.Name, func() {
				applyMetas(ms.Service[s.Name])
				se, ok := eval.Current().(*expr.ServiceExpr)
				if !ok || expr.Root.API == nil || expr.Root.API.HTTP == nil {
					return
				}
				// a second HTTP(...) call would replace the first one: append to its DSL instead
				hs := expr.Root.API.HTTP.ServiceFor(se)
				if hm := ms.HTTPSvc[s.Name]; len(hm) > 0 {
					oldh := hs.DSLFunc
					hs.DSLFunc = func() {
						if oldh != nil {
							oldh()
						}
						applyMetas(hm)
					}
				}
				for _, me := range se.Methods {
					key := s.Name + "." + me.Name
					mm, hm := ms.Method[key], ms.HTTPEp[key]
					if len(mm)+len(hm) == 0 {
						continue
					}
					me := me
					old := me.DSLFunc
					me.DSLFunc = func() {
						if old != nil {
							old()
						}
						applyMetas(mm)
						if len(hm) > 0 {
							ep := hs.EndpointFor(me.Name, me)
							oldh := ep.DSLFunc
							ep.DSLFunc = func() {
								if oldh != nil {
									oldh()
								}
								applyMetas(hm)
							}
						}
					}
				}
				for i, f := range hs.FileServers {
					if fm := ms.File[fmt.Sprintf("%s#%d", s.Name, i)]; len(fm) > 0 {
						eval.Execute(func() { applyMetas(fm) }, f)
					}
				}
			})
		}
	}
}

func noGenerate(ms [][]string) bool {
	v := ""
	for _, m := range ms {
		if len(m) >= 2 && (m[0] == "openapi:generate" || m[0] == "swagger:generate") {
			v = m[len(m)-1]
		}
	}
	return v == "false"
}

// excluded says, from the description alone, whether the documents are asked to leave
// the operation out (openapi:generate=false on its service, method, HTTP endpoint or file server).
func (ms *MetaSpec) excluded(o Op) bool {
	if ms == nil {
		return false
	}
	svc := o.Service
	if noGenerate(ms.Service[svc]) || noGenerate(ms.HTTPSvc[svc]) {
		return true
	}
	if o.File {
		return noGenerate(ms.File[o.FileOf])
	}
	return noGenerate(ms.Method[o.Endpoint]) || noGenerate(ms.HTTPEp[o.Endpoint])
}

// metaMenu: the openapi:* keys that do not change which operations are listed.
func metaMenu(r *vh.RNG, level string, key string) [][]string {
	var out [][]string
	pick := func(num, den int, m ...string) {
		if r.Chance(num, den) {
			out = append(out, m)
		}
	}
	switch level {
	case "api":
		pick(1, 3, "openapi:tag:Top")
		pick(1, 3, "openapi:tag:Top:desc", "top level tag")
		pick(1, 4, "openapi:operationId", "{method}@{service}(#{routeIndex})")
		pick(1, 4, "openapi:summary", "{path}")
		pick(1, 4, "openapi:extension:x-c07", `{"k":[1,2],"s":"v"}`)
		pick(1, 6, "openapi:example", "false")
		pick(1, 6, "openapi:json:indent", "  ")
	case "service":
		pick(1, 3, "openapi:tag:Svc")
		pick(1, 4, "openapi:tag:Svc:desc", "service tag")
		pick(1, 4, "openapi:summary", "service summary")
		pick(1, 4, "openapi:extension:x-svc", `"plain"`)
	case "method":
		pick(1, 3, "openapi:tag:Op")
		pick(1, 3, "openapi:summary", "method summary")
		pick(1, 4, "openapi:deprecated", "true")
		if r.Bool() {
			pick(1, 3, "openapi:operationId", "{service}.{method}(#{routeIndex})")
		} else {
			// a literal id (no placeholder), distinct for each method: goa must still keep the ids
			// of the routes of one endpoint apart
			pick(1, 3, "openapi:operationId", "op_"+strings.ReplaceAll(key, ".", "_"))
		}
		pick(1, 4, "openapi:extension:x-op", `{"n":1}`)
	case "file":
		pick(1, 3, "openapi:tag:Files")
		pick(1, 3, "openapi:summary", "file summary")
		pick(1, 4, "openapi:extension:x-file", `true`)
	}
	return out
}

var noGen = [][]string{{"openapi:generate", "false"}, {"swagger:generate", "false"}}

// randomMeta draws the metadata of a design: each placement the DSL offers, each with
// its own probability, independent of everything else in the design. Attribute level
// metadata is written into the (cloned) design; the rest is returned.
func randomMeta(d *dg.Design, r *vh.RNG) (*dg.Design, *MetaSpec) {
	c := d.Clone()
	fixInts(c)
	ms := &MetaSpec{Service: map[string][][]string{}, HTTPSvc: map[string][][]string{}, Method: map[string][][]string{}, HTTPEp: map[string][][]string{}, File: map[string][][]string{}}
	feat := map[string]bool{}
	add := func(m map[string][][]string, k string, v ...[]string) {
		if len(v) > 0 {
			m[k] = append(m[k], v...)
		}
	}
	ms.API = metaMenu(r, "api", "")
	attrMeta := func(a *dg.Attr, num, den int, what string) {
		if r.Chance(num, den) {
			a.Meta = append(a.Meta, vh.Pick(r, noGen))
			feat["meta_nogen_"+what] = true
		}
		if r.Chance(1, 10) {
			a.Meta = append(a.Meta, []string{"openapi:extension:x-attr", `{"a":true}`})
			feat["meta_extension_attr"] = true
		}
	}
	for _, s := range c.Services {
		if r.Chance(1, 12) {
			add(ms.Service, s.Name, vh.Pick(r, noGen))
			feat["meta_nogen_service"] = true
		}
		if r.Chance(1, 12) {
			add(ms.HTTPSvc, s.Name, vh.Pick(r, noGen))
			feat["meta_nogen_http_service"] = true
		}
		add(ms.Service, s.Name, metaMenu(r, "service", s.Name)...)
		for _, m := range s.Methods {
			key := s.Name + "." + m.Name
			if r.Chance(1, 8) {
				add(ms.Method, key, vh.Pick(r, noGen))
				feat["meta_nogen_method"] = true
			}
			if r.Chance(1, 8) {
				add(ms.HTTPEp, key, vh.Pick(r, noGen))
				feat["meta_nogen_http_endpoint"] = true
			}
			if r.Bool() {
				add(ms.Method, key, metaMenu(r, "method", key)...)
			} else {
				add(ms.HTTPEp, key, metaMenu(r, "method", key)...)
			}
			if m.Payload != nil {
				// one more body shape designgen.Random never draws: when exactly one payload
				// attribute is left for the body, send it as the whole body (Body("attr"))
				if m.HTTP != nil && m.HTTP.Body == nil && !m.HTTP.Multipart && m.Payload.T.Kind == "object" && r.Chance(1, 2) {
					used := map[string]bool{}
					for _, l := range [][]dg.MapEntry{m.HTTP.Params, m.HTTP.Headers, m.HTTP.Cookies} {
						for _, e := range l {
							used[e.Attr] = true
						}
					}
					for _, rt := range m.HTTP.Routes {
						for _, w := range wildRe.FindAllStringSubmatch(rt.Path, -1) {
							used[w[1]] = true
						}
					}
					var left []string
					for _, f := range m.Payload.T.Attrs {
						if !used[f.Name] {
							left = append(left, f.Name)
						}
						if f.A.Sec != nil {
							left = append(left, "", "") // credentials: goa places them, keep the default body
						}
					}
					if len(left) == 1 {
						m.HTTP.Body = &dg.BodySpec{Attr: left[0]}
						feat["body_is_one_attribute"] = true
					}
				}
				bodyAttr := ""
				if m.HTTP != nil && m.HTTP.Body != nil {
					bodyAttr = m.HTTP.Body.Attr
				}
				if m.Payload.T.Kind == "object" {
					for _, f := range m.Payload.T.Attrs {
						if f.A.Sec != nil {
							continue
						}
						if f.Name == bodyAttr {
							attrMeta(&f.A, 1, 2, "body_attribute")
						} else {
							attrMeta(&f.A, 1, 8, "payload_attribute")
						}
					}
				}
				attrMeta(m.Payload, 1, 6, "payload")
			}
			if m.Result != nil && m.Result.T.Kind == "object" {
				for _, f := range m.Result.T.Attrs {
					attrMeta(&f.A, 1, 12, "result_attribute")
				}
			}
		}
		for i := range s.Files {
			key := fmt.Sprintf("%s#%d", s.Name, i)
			if r.Chance(1, 4) {
				add(ms.File, key, vh.Pick(r, noGen))
				feat["meta_nogen_file_server"] = true
			}
			add(ms.File, key, metaMenu(r, "file", key)...)
		}
	}
	for _, m := range [][][]string{ms.API} {
		for _, e := range m {
			feat["meta_"+e[0]] = true
		}
	}
	for _, mm := range []map[string][][]string{ms.Service, ms.HTTPSvc, ms.Method, ms.HTTPEp, ms.File} {
		for _, es := range mm {
			for _, e := range es {
				if e[0] != "openapi:generate" && e[0] != "swagger:generate" {
					feat["meta_"+e[0]] = true
				}
			}
		}
	}
	ks := make([]string, 0, len(feat))
	for k := range feat {
		ks = append(ks, k)
	}
	sort.Strings(ks)
	c.Features = append(c.Features, ks...)
	return c, ms
}
