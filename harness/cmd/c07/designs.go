package main

import (
	"strings"

	dg "verifharness/designgen"
	"verifharness/vh"
)

// ---- sanitising: keep a random design inside the hypotheses of the _partial theorems ----

func walkType(t *dg.Type, f func(*dg.Attr)) {
	if t == nil {
		return
	}
	if t.Elem != nil {
		walkAttr(t.Elem, f)
	}
	if t.Key != nil {
		walkAttr(t.Key, f)
	}
	for _, fl := range t.Attrs {
		walkAttr(&fl.A, f)
	}
}

func walkAttr(a *dg.Attr, f func(*dg.Attr)) {
	if a == nil {
		return
	}
	f(a)
	walkType(&a.T, f)
}

func walkDesign(d *dg.Design, f func(*dg.Attr), fv func(*dg.Validation), ft func(*dg.Type)) {
	errs := func(es []dg.ErrorDef) {
		for i := range es {
			if es[i].T != nil {
				ft(es[i].T)
				walkType(es[i].T, f)
			}
		}
	}
	for _, ut := range d.Types {
		if ut.V != nil {
			fv(ut.V)
		}
		ft(&ut.Base)
		walkType(&ut.Base, f)
	}
	errs(d.Errors)
	for _, s := range d.Services {
		errs(s.Errors)
		for _, m := range s.Methods {
			walkAttr(m.Payload, f)
			walkAttr(m.Result, f)
			walkAttr(m.StreamingPayload, f)
			walkAttr(m.StreamingResult, f)
			errs(m.Errors)
		}
	}
}

var intPrims = map[string]bool{"Int": true, "Int32": true, "Int64": true, "UInt": true, "UInt32": true, "UInt64": true}

// fixInts restores Go ints in the enum values of integer typed attributes after a
// JSON round trip (Design.Clone, replay files), which turns every number into a
// float64; goa treats Enum(1.0) on an Int attribute differently from Enum(1).
func fixInts(d *dg.Design) {
	conv := func(v *dg.Validation, t *dg.Type) {
		if v == nil || t.Kind != "prim" || !intPrims[t.Prim] {
			return
		}
		for i, e := range v.Enum {
			if f, ok := e.(float64); ok && f == float64(int(f)) {
				v.Enum[i] = int(f)
			}
		}
	}
	walkDesign(d, func(a *dg.Attr) { conv(a.V, &a.T) }, func(*dg.Validation) {}, func(*dg.Type) {})
	for _, ut := range d.Types {
		conv(ut.V, &ut.Base)
	}
}

// sanitize returns a copy of the design inside the main stream's envelope, i.e.
// inside the hypotheses of the _partial theorems / outside the recorded findings:
//   - exclusive bounds become inclusive bounds (openapi3 writes them as numbers);
//   - Bytes become String (yaml renders []byte examples as integer lists, json as base64);
//   - API level Security is pushed down to the services that declare none (the
//     effective requirements of every method stay the same; the OpenAPI 3 top level
//     `security` and file server operations would name an undefined scheme);
//   - scopes are kept on OAuth2 schemes and on requirements made of OAuth2 schemes
//     only (OpenAPI 2 writes the others into a description whose leading newline
//     yaml.v3 drops);
//   - at most one credential travels in the Authorization header (OpenAPI 2 would
//     list the header twice): the others get headers of their own;
//   - map typed query parameters become arrays (OpenAPI 2 writes `type: map`).
func sanitize(d *dg.Design) (*dg.Design, map[string]int) {
	c := d.Clone()
	fixInts(c)
	n := map[string]int{}
	fixV := func(v *dg.Validation) {
		if v == nil {
			return
		}
		if v.ExclMin != nil {
			if v.Min == nil {
				v.Min = v.ExclMin
			}
			v.ExclMin = nil
			n["excl_to_incl"]++
		}
		if v.ExclMax != nil {
			if v.Max == nil {
				v.Max = v.ExclMax
			}
			v.ExclMax = nil
			n["excl_to_incl"]++
		}
	}
	fixT := func(t *dg.Type) {
		if t.Kind == "prim" && t.Prim == "Bytes" {
			t.Prim = "String"
			n["bytes_to_string"]++
		}
	}
	walkDesign(c, func(a *dg.Attr) { fixV(a.V); fixT(&a.T) }, fixV, fixT)
	if len(c.Security) > 0 {
		for _, s := range c.Services {
			if len(s.Security) == 0 {
				s.Security = c.Security
			}
		}
		c.Security = nil
		n["api_security_pushed_down"]++
	}
	kind := map[string]string{}
	for i, s := range c.Schemes {
		kind[s.Name] = s.Kind
		if s.Kind != "oauth2" && len(s.Scopes) > 0 {
			c.Schemes[i].Scopes = nil
			n["non_oauth2_scheme_scopes_dropped"]++
		}
	}
	fixReqs := func(rs []dg.Requirement) {
		for i := range rs {
			for _, sn := range rs[i].Schemes {
				if kind[sn] != "oauth2" && len(rs[i].Scopes) > 0 {
					rs[i].Scopes = nil
					n["non_oauth2_scopes_dropped"]++
				}
			}
		}
	}
	for _, s := range c.Services {
		fixReqs(s.Security)
		for _, m := range s.Methods {
			fixReqs(m.Security)
			if m.HTTP == nil || m.Payload == nil || m.Payload.T.Kind != "object" {
				continue
			}
			mappedAlready := map[string]bool{}
			for _, l := range [][]dg.MapEntry{m.HTTP.Headers, m.HTTP.Params, m.HTTP.Cookies} {
				for _, e := range l {
					mappedAlready[e.Attr] = true
				}
			}
			hasBasic, first := false, true
			for _, f := range m.Payload.T.Attrs {
				if f.A.Sec != nil && f.A.Sec.Fn == "Username" {
					hasBasic = true
				}
			}
			for _, f := range m.Payload.T.Attrs {
				if f.A.Sec == nil || mappedAlready[f.Name] {
					continue
				}
				wire := map[string]string{"APIKey": "X-Api-Key", "Token": "X-Jwt", "AccessToken": "X-Access-Token"}[f.A.Sec.Fn]
				if wire == "" {
					continue
				}
				if first && !hasBasic {
					first = false
					continue
				}
				m.HTTP.Headers = append(m.HTTP.Headers, dg.MapEntry{Attr: f.Name, Wire: wire})
				n["credential_moved_off_authorization"]++
			}
			for _, e := range m.HTTP.Params {
				for _, f := range m.Payload.T.Attrs {
					if f.Name == e.Attr && f.A.T.Kind == "map" {
						f.A.T = dg.ArrayOf(dg.A(dg.Prim("String")))
						f.A.V, f.A.HasDef, f.A.Default = nil, false, nil
						n["map_query_param_to_array"]++
					}
				}
			}
		}
	}
	return c, n
}

// vary rewrites the routes of a random design to reach path shapes designgen.Random
// never draws: a trailing {*name} wildcard, an absolute route ("//..."), a trailing
// slash, HEAD next to GET. k selects the variation.
func vary(d *dg.Design, k int) *dg.Design {
	c := d.Clone()
	fixInts(c)
	if k%4 == 1 && (k/4)%4 != 0 && c.BasePath == "" {
		c.BasePath = "/api"
	}
	base := c.BasePath
	for _, s := range c.Services {
		for _, m := range s.Methods {
			if m.HTTP == nil || len(m.HTTP.Routes) == 0 {
				continue
			}
			rs := m.HTTP.Routes
			switch k % 4 {
			case 0:
				for i := range rs {
					if j := strings.LastIndex(rs[i].Path, "/{"); j >= 0 && strings.HasSuffix(rs[i].Path, "}") && !strings.Contains(rs[i].Path[j+2:], "/") {
						rs[i].Path = rs[i].Path[:j] + "/{*" + rs[i].Path[j+2:]
					}
				}
			case 1:
				// an absolute route, in each relation to the API base path: unrelated, under it,
				// sharing only a string prefix with it, and every route of the endpoint absolute
				// and under it
				switch (k / 4) % 4 {
				case 0:
					m.HTTP.Routes = append(rs, dg.Route{Verb: rs[0].Verb, Path: "//abs/" + s.Name + rs[0].Path})
				case 1:
					m.HTTP.Routes = append(rs, dg.Route{Verb: rs[0].Verb, Path: "/" + base + "/abs-" + s.Name + rs[0].Path})
				case 2:
					m.HTTP.Routes = append(rs, dg.Route{Verb: rs[0].Verb, Path: "/" + base + "x/" + s.Name + rs[0].Path})
				case 3:
					for i := range rs {
						rs[i].Path = "/" + base + "/" + s.Name + rs[i].Path
					}
				}
			case 2:
				if !strings.HasSuffix(rs[0].Path, "}") {
					rs[0].Path += "/"
				}
			case 3:
				if rs[0].Verb == "GET" && m.Result == nil {
					m.HTTP.Routes = append(rs, dg.Route{Verb: "HEAD", Path: rs[0].Path})
				}
			}
		}
	}
	c.Features = append(c.Features, []string{"vary_wildcard", "vary_absolute_route", "vary_trailing_slash", "vary_head"}[k%4])
	return c
}

// docVerbs are the verbs of goa's DSL that both kinds of checks expect in the main
// stream (CONNECT lives in the witness stream).
var docVerbs = []string{"GET", "HEAD", "POST", "PUT", "DELETE", "OPTIONS", "TRACE", "PATCH"}

// headOK: goa refuses HEAD routes whose responses (success or error) carry a body.
func headOK(d *dg.Design, s *dg.Service, m *dg.Method) bool {
	return m.Result == nil && len(m.Errors) == 0 && len(s.Errors) == 0 && len(d.Errors) == 0
}

// reverb makes the verb an axis of its own: designgen.Random derives the verb from
// the presence of a body (POST/PUT/PATCH with, GET/DELETE/... without). Here every
// endpoint gets, whatever its payload, body and parameters are, with probability 2/3
// a verb drawn uniformly from the eight verbs, and with probability 1/3 a further
// route on the same path with another verb (so one method is exposed through two
// verbs). The draws come from their own generator (seeded by the design index).
func reverb(d *dg.Design, r *vh.RNG) *dg.Design {
	c := d.Clone()
	fixInts(c)
	feat := map[string]bool{}
	draw := func(s *dg.Service, m *dg.Method, not string) string {
		for {
			v := vh.Pick(r, docVerbs)
			if v == not || (v == "HEAD" && !headOK(c, s, m)) {
				continue
			}
			return v
		}
	}
	for _, s := range c.Services {
		for _, m := range s.Methods {
			if m.HTTP == nil || len(m.HTTP.Routes) == 0 {
				continue
			}
			if r.Chance(2, 3) {
				v := draw(s, m, "")
				for i := range m.HTTP.Routes {
					m.HTTP.Routes[i].Verb = v
				}
				feat["reverb_"+v] = true
			}
			if r.Chance(1, 3) {
				first := m.HTTP.Routes[0]
				w := draw(s, m, first.Verb)
				m.HTTP.Routes = append(m.HTTP.Routes, dg.Route{Verb: w, Path: first.Path})
				feat["second_verb_"+w] = true
			}
		}
	}
	for k := range feat {
		c.Features = append(c.Features, k)
	}
	return c
}

// ---- hand-written designs ----

func obj(fs ...*dg.Field) *dg.Attr { a := dg.A(dg.Obj(fs...)); return &a }
func prim(p string) *dg.Attr       { a := dg.A(dg.Prim(p)); return &a }
func attrOf(t dg.Type) *dg.Attr    { a := dg.A(t); return &a }
func me(a, w string) dg.MapEntry   { return dg.MapEntry{Attr: a, Wire: w} }
func rt(v, p string) dg.Route      { return dg.Route{Verb: v, Path: p} }
func str(n string) *dg.Field       { return dg.F(n, dg.Prim("String")) }
func rstr(n string) *dg.Field      { return dg.Req(n, dg.Prim("String")) }
func sec(fn, scheme string) *dg.SecAttrKind {
	return &dg.SecAttrKind{Fn: fn, Scheme: scheme}
}
func secField(name, fn, scheme string, required bool) *dg.Field {
	return &dg.Field{Name: name, A: dg.Attr{T: dg.Prim("String"), Sec: sec(fn, scheme)}, Required: required}
}

// coveringDesigns is the fixed, seed independent set run first: every verb the
// documents can express, wildcards, absolute routes, trailing slashes, base paths,
// several routes per endpoint, each parameter location with each required/default
// combination allowed by the partial hypotheses, each body shape, responses and
// errors, each security scheme kind at each level, file servers.
func coveringDesigns() []*dg.Design {
	var ds []*dg.Design
	add := func(d *dg.Design) { ds = append(ds, d) }

	// c0: every verb of the OpenAPI 3 path item on one path and on distinct paths
	{
		var ms []*dg.Method
		for i, v := range []string{"GET", "PUT", "POST", "DELETE", "OPTIONS", "HEAD", "PATCH", "TRACE"} {
			ms = append(ms, &dg.Method{Name: "m" + string(rune('a'+i)), HTTP: &dg.HTTPMap{Routes: []dg.Route{rt(v, "/same"), rt(v, "/own/"+v)}}})
		}
		add(&dg.Design{Name: "cover_verbs", Services: []*dg.Service{{Name: "verbs", Methods: ms}}})
	}
	// c1: wildcards, absolute routes, trailing slashes, API + service base paths
	add(&dg.Design{Name: "cover_paths", BasePath: "/api/v1", Services: []*dg.Service{
		{Name: "tree", BasePath: "/tree", Methods: []*dg.Method{
			{Name: "walk", Payload: obj(rstr("rest"), str("depth")),
				HTTP: &dg.HTTPMap{Routes: []dg.Route{rt("GET", "/walk/{*rest}"), rt("HEAD", "/walk/{*rest}")}, Params: []dg.MapEntry{me("depth", "")}}},
			{Name: "node", Payload: obj(rstr("id"), rstr("sub")),
				HTTP: &dg.HTTPMap{Routes: []dg.Route{rt("GET", "/node/{id}/sub/{sub}"), rt("GET", "//abs/node/{id}/{sub}"), rt("DELETE", "/node/{id}/{sub}/")}}},
			{Name: "root", HTTP: &dg.HTTPMap{Routes: []dg.Route{rt("GET", "/"), rt("GET", "//")}}},
			{Name: "slash", HTTP: &dg.HTTPMap{Routes: []dg.Route{rt("POST", "/slash/")}}},
		}},
		{Name: "flat", Methods: []*dg.Method{
			{Name: "one", Payload: prim("Int"), HTTP: &dg.HTTPMap{Routes: []dg.Route{rt("GET", "/one/{n}"), rt("PUT", "/one/{n}")}}},
		}},
	}})
	// c2: parameters in each location with required / optional / default
	add(&dg.Design{Name: "cover_params", Services: []*dg.Service{{Name: "par", Methods: []*dg.Method{
		{Name: "all", Payload: obj(
			rstr("p1"), dg.Req("p2", dg.Prim("Int")),
			rstr("q_req"), str("q_opt"), dg.F("q_def", dg.Prim("Int")).Def(7), dg.F("q_arr", dg.ArrayOf(dg.A(dg.Prim("String")))), dg.Req("q_arr_req", dg.ArrayOf(dg.A(dg.Prim("Int")))),
			rstr("h_req"), str("h_opt"), str("h_def").Def("d"), dg.F("h_arr", dg.ArrayOf(dg.A(dg.Prim("Float64")))), dg.Req("h_int", dg.Prim("Int64")),
			rstr("c_req"), str("c_opt"), str("c_def").Def("cd"),
			str("b1"), dg.Req("b2", dg.Prim("Boolean"))),
			HTTP: &dg.HTTPMap{Routes: []dg.Route{rt("POST", "/all/{p1}/{p2}"), rt("PUT", "/all2/{p2}/x/{p1}")},
				Params:  []dg.MapEntry{me("q_req", ""), me("q_opt", "Q-Opt"), me("q_def", ""), me("q_arr", "arr"), me("q_arr_req", "")},
				Headers: []dg.MapEntry{me("h_req", "X-Req"), me("h_opt", "X-Opt"), me("h_def", "X-Def"), me("h_arr", "X-Arr"), me("h_int", "X-Int")},
				Cookies: []dg.MapEntry{me("c_req", "creq"), me("c_opt", "copt"), me("c_def", "cdef")}}},
		{Name: "noBody", Payload: obj(rstr("id"), str("q")),
			HTTP: &dg.HTTPMap{Routes: []dg.Route{rt("GET", "/nb/{id}")}, Params: []dg.MapEntry{me("q", "")}}},
		{Name: "primPath", Payload: prim("String"), HTTP: &dg.HTTPMap{Routes: []dg.Route{rt("DELETE", "/pp/{name}")}}},
		{Name: "primQuery", Payload: prim("UInt32"), HTTP: &dg.HTTPMap{Routes: []dg.Route{rt("GET", "/pq")}, Params: []dg.MapEntry{me("n", "")}}},
		{Name: "primHeader", Payload: prim("String"), HTTP: &dg.HTTPMap{Routes: []dg.Route{rt("GET", "/ph")}, Headers: []dg.MapEntry{me("h", "X-Prim")}}},
		{Name: "arrQuery", Payload: attrOf(dg.ArrayOf(dg.A(dg.Prim("String")))), HTTP: &dg.HTTPMap{Routes: []dg.Route{rt("GET", "/aq")}, Params: []dg.MapEntry{me("items", "")}}},
	}}}})
	// c3: body shapes
	add(&dg.Design{Name: "cover_bodies", Types: []*dg.UserType{
		{Name: "Item", Base: dg.Obj(rstr("name"), dg.F("qty", dg.Prim("Int")), dg.F("child", dg.Ref("Item")))},
	}, Services: []*dg.Service{{Name: "bod", Methods: []*dg.Method{
		{Name: "none", HTTP: &dg.HTTPMap{Routes: []dg.Route{rt("POST", "/none")}}},
		{Name: "primBody", Payload: prim("String"), HTTP: &dg.HTTPMap{Routes: []dg.Route{rt("POST", "/prim")}}},
		{Name: "intBody", Payload: prim("Int"), HTTP: &dg.HTTPMap{Routes: []dg.Route{rt("PUT", "/int")}}},
		{Name: "arrBody", Payload: attrOf(dg.ArrayOf(dg.A(dg.Ref("Item")))), HTTP: &dg.HTTPMap{Routes: []dg.Route{rt("POST", "/arr")}}},
		{Name: "mapBody", Payload: attrOf(dg.MapOf(dg.A(dg.Prim("String")), dg.A(dg.Prim("Int")))), HTTP: &dg.HTTPMap{Routes: []dg.Route{rt("POST", "/map")}}},
		{Name: "userBody", Payload: attrOf(dg.Ref("Item")), HTTP: &dg.HTTPMap{Routes: []dg.Route{rt("PATCH", "/user")}}},
		{Name: "attrBodyOpt", Payload: obj(str("id"), dg.F("item", dg.Ref("Item"))),
			HTTP: &dg.HTTPMap{Routes: []dg.Route{rt("POST", "/attr-opt/{id}")}, Body: &dg.BodySpec{Attr: "item"}}},
		{Name: "attrBodyReq", Payload: obj(str("id"), dg.Req("item", dg.Ref("Item"))),
			HTTP: &dg.HTTPMap{Routes: []dg.Route{rt("POST", "/attr-req/{id}")}, Body: &dg.BodySpec{Attr: "item"}}},
		{Name: "listBody", Payload: obj(rstr("id"), str("a"), str("b"), str("q")),
			HTTP: &dg.HTTPMap{Routes: []dg.Route{rt("POST", "/list/{id}")}, Params: []dg.MapEntry{me("q", "")}, Body: &dg.BodySpec{Attrs: []string{"a", "b"}}}},
		{Name: "allInParams", Payload: obj(rstr("id"), str("q")),
			HTTP: &dg.HTTPMap{Routes: []dg.Route{rt("POST", "/aip/{id}")}, Params: []dg.MapEntry{me("q", "")}}},
	}}}})
	// c4: responses and errors
	{
		cust := dg.Obj(rstr("name"), dg.F("code", dg.Prim("Int")))
		add(&dg.Design{Name: "cover_responses", Errors: []dg.ErrorDef{{Name: "api_err", Timeout: true}}, HTTPErrs: []dg.ErrResponse{{Name: "api_err", R: dg.Response{Status: 504}}},
			Services: []*dg.Service{{Name: "resp", Errors: []dg.ErrorDef{{Name: "svc_err"}}, HTTPErrs: []dg.ErrResponse{{Name: "svc_err", R: dg.Response{Status: 503}}},
				Methods: []*dg.Method{
					{Name: "tagged", Result: obj(rstr("kind"), str("v"), str("hdr")), Errors: []dg.ErrorDef{{Name: "not_found"}, {Name: "gone"}, {Name: "custom", T: &cust}},
						HTTP: &dg.HTTPMap{Routes: []dg.Route{rt("GET", "/tagged")},
							Responses: []dg.Response{{Status: 202, Tag: []string{"kind", "acc"}}, {Status: 206, Tag: []string{"kind", "part"}, Headers: []dg.MapEntry{me("hdr", "X-Hdr")}}, {Status: 200}},
							Errors:    []dg.ErrResponse{{Name: "not_found", R: dg.Response{Status: 404}}, {Name: "gone", R: dg.Response{Status: 404}}, {Name: "custom", R: dg.Response{Status: 409}}}}},
					{Name: "empty", HTTP: &dg.HTTPMap{Routes: []dg.Route{rt("DELETE", "/empty")}, Responses: []dg.Response{{Status: 204}}}},
					{Name: "created", Result: prim("String"), HTTP: &dg.HTTPMap{Routes: []dg.Route{rt("POST", "/created")}, Responses: []dg.Response{{Status: 201}}}},
					{Name: "defaults", Result: obj(str("a")), Errors: []dg.ErrorDef{{Name: "bad"}}, HTTP: &dg.HTTPMap{Routes: []dg.Route{rt("GET", "/defaults")}}},
					{Name: "ck", Result: obj(str("a"), str("sid")), HTTP: &dg.HTTPMap{Routes: []dg.Route{rt("GET", "/ck")}, Responses: []dg.Response{{Status: 200, Cookies: []dg.MapEntry{me("sid", "SID")}}}}},
				}}}})
	}
	// c5: security of every kind at every level, custom credential locations
	{
		schemes := []dg.Scheme{{Kind: "basic", Name: "basic_sch"}, {Kind: "apikey", Name: "key_sch"}, {Kind: "jwt", Name: "jwt_sch"},
			{Kind: "oauth2", Name: "oauth_sch", Scopes: []string{"api:read", "api:write"}}}
		add(&dg.Design{Name: "cover_security", Schemes: schemes,
			Services: []*dg.Service{
				{Name: "sec", Security: []dg.Requirement{{Schemes: []string{"jwt_sch"}}}, Methods: []*dg.Method{
					{Name: "inherit", Payload: obj(secField("token", "Token", "", true), str("x")), HTTP: &dg.HTTPMap{Routes: []dg.Route{rt("POST", "/inherit")}}},
					{Name: "basic", Security: []dg.Requirement{{Schemes: []string{"basic_sch"}}},
						Payload: obj(secField("user", "Username", "", true), secField("pass", "Password", "", true)), HTTP: &dg.HTTPMap{Routes: []dg.Route{rt("GET", "/basic")}}},
					{Name: "basicOpt", Security: []dg.Requirement{{Schemes: []string{"basic_sch"}}},
						Payload: obj(secField("user", "Username", "", false), secField("pass", "Password", "", false), str("q")), HTTP: &dg.HTTPMap{Routes: []dg.Route{rt("GET", "/basic-opt")}, Params: []dg.MapEntry{me("q", "")}}},
					{Name: "keyHeader", Security: []dg.Requirement{{Schemes: []string{"key_sch"}}},
						Payload: obj(secField("key", "APIKey", "key_sch", true)), HTTP: &dg.HTTPMap{Routes: []dg.Route{rt("GET", "/key-h")}, Headers: []dg.MapEntry{me("key", "X-Api-Key")}}},
					{Name: "keyQuery", Security: []dg.Requirement{{Schemes: []string{"key_sch"}}},
						Payload: obj(secField("key", "APIKey", "key_sch", true)), HTTP: &dg.HTTPMap{Routes: []dg.Route{rt("GET", "/key-q")}, Params: []dg.MapEntry{me("key", "k")}}},
					{Name: "oauth", Security: []dg.Requirement{{Schemes: []string{"oauth_sch"}, Scopes: []string{"api:write"}}},
						Payload: obj(secField("access", "AccessToken", "", true)), HTTP: &dg.HTTPMap{Routes: []dg.Route{rt("PUT", "/oauth")}}},
					{Name: "either", Security: []dg.Requirement{{Schemes: []string{"jwt_sch"}}, {Schemes: []string{"key_sch"}}},
						Payload: obj(secField("token", "Token", "", false), secField("key", "APIKey", "key_sch", false)), HTTP: &dg.HTTPMap{Routes: []dg.Route{rt("GET", "/either")}, Params: []dg.MapEntry{me("key", "k")}}},
					{Name: "both", Security: []dg.Requirement{{Schemes: []string{"oauth_sch", "key_sch"}}},
						Payload: obj(secField("access", "AccessToken", "", true), secField("key", "APIKey", "key_sch", true)), HTTP: &dg.HTTPMap{Routes: []dg.Route{rt("GET", "/both")}, Params: []dg.MapEntry{me("key", "k")}}},
					{Name: "open", NoSecurity: true, HTTP: &dg.HTTPMap{Routes: []dg.Route{rt("GET", "/open")}}},
				}},
				{Name: "apisec", Security: []dg.Requirement{{Schemes: []string{"key_sch"}}}, Methods: []*dg.Method{
					{Name: "inheritApi", Payload: obj(secField("key", "APIKey", "key_sch", true)), HTTP: &dg.HTTPMap{Routes: []dg.Route{rt("GET", "/inherit-api")}}},
				}},
			}})
	}
	// c6: file servers (single files) under base paths, next to endpoints on the same path
	add(&dg.Design{Name: "cover_files", BasePath: "/v2", Services: []*dg.Service{
		{Name: "assets", BasePath: "/assets", Methods: []*dg.Method{
			{Name: "put", Payload: prim("String"), HTTP: &dg.HTTPMap{Routes: []dg.Route{rt("PUT", "/file.json")}}}},
			Files: []dg.FileServer{{Path: "/file.json", File: "public/file.json"}, {Path: "/index.html", File: "public/index.html"}, {Path: "/", File: "public/root.html"}}},
		{Name: "top", Methods: []*dg.Method{{Name: "ping", HTTP: &dg.HTTPMap{Routes: []dg.Route{rt("GET", "/ping")}}}},
			Files: []dg.FileServer{{Path: "/openapi.json", File: "gen/http/openapi.json"}}},
	}})
	// c7..c9: the verb is an axis of its own: every verb x {no payload, payload spread over
	// path, query, header, cookie and body} x {one route, the same method on two routes
	// with different verbs}; and every other verb on the path of a file server
	{
		full := func() *dg.Attr {
			return obj(rstr("p"), str("q"), rstr("h"), str("c"), rstr("b1"), dg.F("b2", dg.Prim("Int")))
		}
		spread := func(routes ...dg.Route) *dg.HTTPMap {
			return &dg.HTTPMap{Routes: routes, Params: []dg.MapEntry{me("q", "")}, Headers: []dg.MapEntry{me("h", "X-H")}, Cookies: []dg.MapEntry{me("c", "ck")}}
		}
		var single, double, onfile []*dg.Method
		for i, v := range docVerbs {
			w := docVerbs[(i+3)%len(docVerbs)]
			single = append(single,
				&dg.Method{Name: "nb_" + strings.ToLower(v), HTTP: &dg.HTTPMap{Routes: []dg.Route{rt(v, "/nb/"+v)}}},
				&dg.Method{Name: "b_" + strings.ToLower(v), Payload: full(), HTTP: spread(rt(v, "/b/"+v+"/{p}"))},
				&dg.Method{Name: "pb_" + strings.ToLower(v), Payload: prim("String"), HTTP: &dg.HTTPMap{Routes: []dg.Route{rt(v, "/pb/"+v)}}})
			double = append(double,
				&dg.Method{Name: "nb2_" + strings.ToLower(v), HTTP: &dg.HTTPMap{Routes: []dg.Route{rt(v, "/nb2/"+v), rt(w, "/nb2/"+v)}}},
				&dg.Method{Name: "b2_" + strings.ToLower(v), Payload: full(), HTTP: spread(rt(v, "/b2/"+v+"/{p}"), rt(w, "/b2/"+v+"/{p}"))},
				&dg.Method{Name: "b3_" + strings.ToLower(v), Payload: full(), HTTP: spread(rt(v, "/b3/"+v+"/{p}"), rt(w, "/b3alt/"+v+"/{p}/x"))})
			if v != "GET" {
				onfile = append(onfile, &dg.Method{Name: "f_" + strings.ToLower(v), Payload: full(), HTTP: spread(rt(v, "/f/{p}/file.json"))},
					&dg.Method{Name: "g_" + strings.ToLower(v), HTTP: &dg.HTTPMap{Routes: []dg.Route{rt(v, "/g/file.json")}}})
			}
		}
		add(&dg.Design{Name: "cover_verb_single", Services: []*dg.Service{{Name: "vsingle", Methods: single}}})
		add(&dg.Design{Name: "cover_verb_double", BasePath: "/d", Services: []*dg.Service{{Name: "vdouble", Methods: double}}})
		add(&dg.Design{Name: "cover_verb_files", Services: []*dg.Service{{Name: "vfiles", Methods: onfile,
			Files: []dg.FileServer{{Path: "/g/file.json", File: "public/g.json"}, {Path: "/f/fixed/file.json", File: "public/f.json"}}}}})
	}
	// c10: openapi:* metadata at every level. Marked (openapi:generate=false): a whole service
	// (on the service, on its HTTP block), a method, an HTTP endpoint, a file server. Not
	// marked but carrying the key on attributes: the attribute used as the whole body
	// (Body("attr")), a primitive payload, a user type payload, query/header/cookie/path
	// parameters and body fields, on every verb that can be drawn; their operations must
	// stay listed with all their parameters and their request body.
	{
		nogen := func(f *dg.Field) *dg.Field {
			f.A.Meta = append(f.A.Meta, []string{"openapi:generate", "false"})
			return f
		}
		flaggedPrim := func() *dg.Attr {
			a := dg.A(dg.Prim("String"))
			a.Meta = [][]string{{"openapi:generate", "false"}}
			return &a
		}
		flaggedUser := func() *dg.Attr {
			a := dg.A(dg.Ref("MItem"))
			a.Meta = [][]string{{"swagger:generate", "false"}}
			return &a
		}
		var ms []*dg.Method
		ms = append(ms,
			&dg.Method{Name: "kept", Payload: obj(rstr("id"), str("q")), HTTP: &dg.HTTPMap{Routes: []dg.Route{rt("GET", "/kept/{id}")}, Params: []dg.MapEntry{me("q", "")}}},
			&dg.Method{Name: "gone1", Payload: obj(rstr("id")), HTTP: &dg.HTTPMap{Routes: []dg.Route{rt("POST", "/gone1/{id}")}}},
			&dg.Method{Name: "gone2", HTTP: &dg.HTTPMap{Routes: []dg.Route{rt("GET", "/gone2"), rt("DELETE", "/gone2")}}},
			&dg.Method{Name: "prim_flagged", Payload: flaggedPrim(), HTTP: &dg.HTTPMap{Routes: []dg.Route{rt("PUT", "/prim-flagged")}}},
			&dg.Method{Name: "user_flagged", Payload: flaggedUser(), HTTP: &dg.HTTPMap{Routes: []dg.Route{rt("PATCH", "/user-flagged")}}},
			&dg.Method{Name: "params_flagged", Payload: obj(nogen(rstr("p")), nogen(str("q")), nogen(rstr("h")), nogen(str("c")), nogen(rstr("b1")), str("b2")),
				HTTP: &dg.HTTPMap{Routes: []dg.Route{rt("POST", "/params-flagged/{p}")}, Params: []dg.MapEntry{me("q", "")}, Headers: []dg.MapEntry{me("h", "X-H")}, Cookies: []dg.MapEntry{me("c", "ck")}}})
		// a body object whose only attribute is flagged (its example is an empty map: the CLI
		// generator used to panic on it, fix 47de3bf)
		ms = append(ms, &dg.Method{Name: "only_flagged", Payload: obj(nogen(str("b"))), HTTP: &dg.HTTPMap{Routes: []dg.Route{rt("POST", "/only-flagged")}}})
		// a literal operationId (no placeholder) on a method exposed through three routes, and on
		// a single-route one
		ms = append(ms, &dg.Method{Name: "literal_id", HTTP: &dg.HTTPMap{Routes: []dg.Route{rt("GET", "/lit"), rt("GET", "/lit/all"), rt("POST", "/lit")}}},
			&dg.Method{Name: "literal_id_one", HTTP: &dg.HTTPMap{Routes: []dg.Route{rt("GET", "/lit-one")}}})
		for _, v := range docVerbs {
			ms = append(ms, &dg.Method{Name: "flagged_body_" + strings.ToLower(v), Payload: obj(rstr("id"), nogen(dg.Req("item", dg.Ref("MItem")))),
				HTTP: &dg.HTTPMap{Routes: []dg.Route{rt(v, "/flagged-body/"+v+"/{id}")}, Body: &dg.BodySpec{Attr: "item"}}})
		}
		ms = append(ms, &dg.Method{Name: "flagged_body", Payload: obj(rstr("id"), nogen(dg.F("item", dg.Ref("MItem")))),
			HTTP: &dg.HTTPMap{Routes: []dg.Route{rt("POST", "/flagged-body-opt/{id}"), rt("PUT", "/flagged-body-opt/{id}")}, Body: &dg.BodySpec{Attr: "item"}}})
		add(&dg.Design{Name: "cover_meta", Types: []*dg.UserType{{Name: "MItem", Base: dg.Obj(rstr("name"), nogen(dg.F("secret", dg.Prim("Int"))))}},
			Services: []*dg.Service{
				{Name: "shown", Methods: ms, Files: []dg.FileServer{{Path: "/hidden.json", File: "public/hidden.json"}, {Path: "/shown.json", File: "public/shown.json"}}},
				{Name: "hiddenA", BasePath: "/ha", Methods: []*dg.Method{{Name: "a", Payload: prim("String"), HTTP: &dg.HTTPMap{Routes: []dg.Route{rt("POST", "/a")}}}}, Files: []dg.FileServer{{Path: "/fa.json", File: "public/fa.json"}}},
				{Name: "hiddenB", BasePath: "/hb", Methods: []*dg.Method{{Name: "b", HTTP: &dg.HTTPMap{Routes: []dg.Route{rt("GET", "/b")}}}}},
			}})
	}
	// c11: regression cases of the repaired example generation (fix 49bc0fa; was the finding
	// openapi-generator-error:enum-int-literal-on-sized-int-array-element): Enum with Go int
	// literals on the elements of arrays and maps of sized integers. In a type no method uses
	// the panic used to hit the OpenAPI 3 builder; in a payload, the service generator.
	{
		enumInts := &dg.Validation{Enum: []any{1, 2, 3}}
		add(&dg.Design{Name: "cover_enumcoll_unused", Types: []*dg.UserType{
			{Name: "Unused", Base: dg.Obj(&dg.Field{Name: "xs", A: dg.A(dg.ArrayOf(dg.Attr{T: dg.Prim("Int32"), V: enumInts}))},
				&dg.Field{Name: "ms", A: dg.A(dg.MapOf(dg.A(dg.Prim("String")), dg.Attr{T: dg.Prim("UInt32"), V: enumInts}))})}},
			Services: []*dg.Service{{Name: "svc", Methods: []*dg.Method{{Name: "ok", HTTP: &dg.HTTPMap{Routes: []dg.Route{rt("GET", "/ok")}}}}}}})
		add(&dg.Design{Name: "cover_enumcoll_used", Services: []*dg.Service{{Name: "svc", Methods: []*dg.Method{
			{Name: "used", Payload: obj(&dg.Field{Name: "a32", A: dg.A(dg.ArrayOf(dg.Attr{T: dg.Prim("Int32"), V: enumInts}))},
				&dg.Field{Name: "a64", A: dg.A(dg.ArrayOf(dg.Attr{T: dg.Prim("Int64"), V: enumInts}))},
				&dg.Field{Name: "m64", A: dg.A(dg.MapOf(dg.A(dg.Prim("String")), dg.Attr{T: dg.Prim("Int64"), V: enumInts}))}),
				HTTP: &dg.HTTPMap{Routes: []dg.Route{rt("POST", "/used")}, Params: []dg.MapEntry{me("a32", "")}}}}}}})
	}
	// c12: absolute routes ("//...") in each relation to the API base path (OpenAPI 2 drops
	// basePath as soon as one route is absolute or a file server exists, and must then list
	// every key in full): all absolute routes under the base path; mixed (under it, equal to it,
	// sharing only a string prefix, unrelated); with a service base path; next to a file server
	{
		abs := func(name string, routes ...dg.Route) *dg.Method {
			return &dg.Method{Name: name, Payload: obj(rstr("id"), str("q")), HTTP: &dg.HTTPMap{Routes: routes, Params: []dg.MapEntry{me("q", "")}}}
		}
		add(&dg.Design{Name: "cover_abs_under_base", BasePath: "/api", Services: []*dg.Service{
			{Name: "health", Methods: []*dg.Method{
				{Name: "health", HTTP: &dg.HTTPMap{Routes: []dg.Route{rt("GET", "//api/health")}}},
				abs("thing", rt("POST", "//api/v2/things/{id}"), rt("PUT", "/things/{id}")),
				{Name: "rel", HTTP: &dg.HTTPMap{Routes: []dg.Route{rt("GET", "/rel")}}}}},
			{Name: "based", BasePath: "/based", Methods: []*dg.Method{abs("b", rt("GET", "//api/based/abs/{id}"), rt("GET", "/b/{id}"))}}}})
		add(&dg.Design{Name: "cover_abs_mixed", BasePath: "/api", Services: []*dg.Service{
			{Name: "mixed", BasePath: "/m", Methods: []*dg.Method{
				{Name: "under", HTTP: &dg.HTTPMap{Routes: []dg.Route{rt("GET", "//api/under")}}},
				{Name: "equal", HTTP: &dg.HTTPMap{Routes: []dg.Route{rt("GET", "//api")}}},
				{Name: "prefix", HTTP: &dg.HTTPMap{Routes: []dg.Route{rt("GET", "//apix/prefix")}}},
				abs("unrelated", rt("DELETE", "//other/{id}"), rt("DELETE", "/rel/{id}")),
				{Name: "twice", HTTP: &dg.HTTPMap{Routes: []dg.Route{rt("GET", "//api/api/twice")}}}}}}})
		add(&dg.Design{Name: "cover_abs_files", BasePath: "/api/v1", Services: []*dg.Service{
			{Name: "af", Methods: []*dg.Method{abs("a", rt("GET", "//api/v1/a/{id}")), {Name: "r", HTTP: &dg.HTTPMap{Routes: []dg.Route{rt("GET", "/r")}}}},
				Files: []dg.FileServer{{Path: "/file.json", File: "public/file.json"}}}}})
	}
	// c13: regression case of the repaired hasAbsoluteRoutes (was the finding "absolute service
	// path under a kept basePath"): services whose own path is absolute, under an API base
	// path, next to a relative service; one of them shares a string prefix with the base path
	add(&dg.Design{Name: "cover_svcabs", BasePath: "/api", Services: []*dg.Service{
		{Name: "s", BasePath: "//abs", Methods: []*dg.Method{{Name: "a", Payload: obj(rstr("id")), HTTP: &dg.HTTPMap{Routes: []dg.Route{rt("GET", "/x/{id}")}}}}},
		{Name: "t", Methods: []*dg.Method{{Name: "b", HTTP: &dg.HTTPMap{Routes: []dg.Route{rt("GET", "/y")}}}}},
		{Name: "u", BasePath: "//apix", Methods: []*dg.Method{{Name: "c", HTTP: &dg.HTTPMap{Routes: []dg.Route{rt("POST", "/z")}}}}}}})
	add(&dg.Design{Name: "cover_svcabs_under", BasePath: "/api", Services: []*dg.Service{
		{Name: "s", BasePath: "//api/inner", Methods: []*dg.Method{{Name: "a", HTTP: &dg.HTTPMap{Routes: []dg.Route{rt("GET", "/x")}}}}}}})
	return ds
}

// coveringMeta gives the metadata of the covering design that carries some (nil otherwise).
func coveringMeta(d *dg.Design) *MetaSpec {
	if d.Name != "cover_meta" {
		return nil
	}
	ng := []string{"openapi:generate", "false"}
	sg := []string{"swagger:generate", "false"}
	return &MetaSpec{
		API:     [][]string{{"openapi:tag:Top"}, {"openapi:tag:Top:desc", "top"}, {"openapi:extension:x-api", `{"a":[1,2]}`}},
		Service: map[string][][]string{"hiddenA": {ng}, "shown": {{"openapi:tag:Svc"}, {"openapi:summary", "svc"}}},
		HTTPSvc: map[string][][]string{"hiddenB": {sg}},
		Method: map[string][][]string{"shown.literal_id": {{"openapi:operationId", "listThings"}}, "shown.gone1": {ng}, "shown.kept": {{"openapi:summary", "kept"}, {"openapi:deprecated", "true"}, {"openapi:generate", "true"}},
			"shown.flagged_body": {{"openapi:operationId", "{service}-{method}(-{routeIndex})"}}},
		HTTPEp: map[string][][]string{"shown.literal_id_one": {{"openapi:operationId", "oneThing"}}, "shown.gone2": {sg}, "shown.prim_flagged": {{"openapi:extension:x-op", `{"n":1}`}}},
		File:   map[string][][]string{"shown#0": {ng}, "shown#1": {{"openapi:summary", "a file"}, {"openapi:tag:Files"}}},
	}
}

// witnessDesigns re-demonstrate the recorded findings (each must fail with exactly
// its signature) every run.
func witnessDesigns() []*dg.Design {
	var ds []*dg.Design
	// CONNECT (OpenAPI 3 and 2) and TRACE (OpenAPI 2) routes are mounted, not documented
	ds = append(ds, &dg.Design{Name: "w_connect", Services: []*dg.Service{{Name: "svc", Methods: []*dg.Method{
		{Name: "tunnel", HTTP: &dg.HTTPMap{Routes: []dg.Route{rt("CONNECT", "/tunnel")}}},
		{Name: "probe", HTTP: &dg.HTTPMap{Routes: []dg.Route{rt("TRACE", "/probe")}}},
		{Name: "ok", HTTP: &dg.HTTPMap{Routes: []dg.Route{rt("GET", "/ok"), rt("CONNECT", "/ok")}}},
		{Name: "body", Payload: obj(rstr("p"), str("q"), rstr("b")), HTTP: &dg.HTTPMap{Routes: []dg.Route{rt("CONNECT", "/cb/{p}"), rt("POST", "/cb/{p}")}, Params: []dg.MapEntry{me("q", "")}}},
	}}}})
	// exclusive bounds are written as numbers
	ds = append(ds, &dg.Design{Name: "w_excl", Services: []*dg.Service{{Name: "svc", Methods: []*dg.Method{
		{Name: "m", Payload: obj(dg.F("n", dg.Prim("Int")).With(dg.Validation{ExclMin: dg.Fp(1)}), dg.F("q", dg.Prim("Float64")).With(dg.Validation{ExclMax: dg.Fp(9.5)})),
			HTTP: &dg.HTTPMap{Routes: []dg.Route{rt("POST", "/m")}, Params: []dg.MapEntry{me("q", "")}}},
	}}}})
	// directory file server
	ds = append(ds, &dg.Design{Name: "w_files", Services: []*dg.Service{{Name: "svc", Methods: []*dg.Method{
		{Name: "ok", HTTP: &dg.HTTPMap{Routes: []dg.Route{rt("GET", "/ok")}}}},
		Files: []dg.FileServer{{Path: "/docs/{*path}", File: "public"}, {Path: "/one.json", File: "public/one.json"}}}}})
	// header / cookie both required and defaulted
	ds = append(ds, &dg.Design{Name: "w_reqdef", Services: []*dg.Service{{Name: "svc", Methods: []*dg.Method{
		{Name: "m", Payload: obj(rstr("h").Def("x"), rstr("c").Def("y"), rstr("q").Def("z")),
			HTTP: &dg.HTTPMap{Routes: []dg.Route{rt("GET", "/m")}, Headers: []dg.MapEntry{me("h", "X-H")}, Cookies: []dg.MapEntry{me("c", "ck")}, Params: []dg.MapEntry{me("q", "")}}},
	}}}})
	// cookies in OpenAPI 2
	ds = append(ds, &dg.Design{Name: "w_cookie", Services: []*dg.Service{{Name: "svc", Methods: []*dg.Method{
		{Name: "m", Payload: obj(rstr("sid"), str("opt")),
			HTTP: &dg.HTTPMap{Routes: []dg.Route{rt("GET", "/m")}, Cookies: []dg.MapEntry{me("sid", "SID"), me("opt", "OPT")}}},
	}}}})
	// API level security + file server
	ds = append(ds, &dg.Design{Name: "w_filesec", Schemes: []dg.Scheme{{Kind: "apikey", Name: "key_sch"}}, Security: []dg.Requirement{{Schemes: []string{"key_sch"}}},
		Services: []*dg.Service{{Name: "svc", Methods: []*dg.Method{
			{Name: "ok", Payload: obj(secField("key", "APIKey", "key_sch", true)), HTTP: &dg.HTTPMap{Routes: []dg.Route{rt("GET", "/ok")}}}},
			Files: []dg.FileServer{{Path: "/one.json", File: "public/one.json"}}}}})
	// Bytes attribute: json renders the example as base64, yaml as a list of integers
	ds = append(ds, &dg.Design{Name: "w_bytes", Services: []*dg.Service{{Name: "svc", Methods: []*dg.Method{
		{Name: "m", Payload: obj(dg.Req("blob", dg.Prim("Bytes")), str("s")), Result: prim("Bytes"), HTTP: &dg.HTTPMap{Routes: []dg.Route{rt("POST", "/m")}}},
	}}}})
	// API level security: the OpenAPI 3 top level `security` names a scheme the components do not define
	ds = append(ds, &dg.Design{Name: "w_apisec", Schemes: []dg.Scheme{{Kind: "basic", Name: "basic_sch"}}, Security: []dg.Requirement{{Schemes: []string{"basic_sch"}}},
		Services: []*dg.Service{{Name: "svc", Methods: []*dg.Method{
			{Name: "ok", Payload: obj(secField("user", "Username", "", true), secField("pass", "Password", "", true)), HTTP: &dg.HTTPMap{Routes: []dg.Route{rt("GET", "/ok")}}}}}}})
	// scopes on a JWT requirement: OpenAPI 2 writes them into the description with a leading newline
	ds = append(ds, &dg.Design{Name: "w_jwtscopes", Schemes: []dg.Scheme{{Kind: "jwt", Name: "jwt_sch", Scopes: []string{"api:read"}}},
		Services: []*dg.Service{{Name: "svc", Methods: []*dg.Method{
			{Name: "ok", Security: []dg.Requirement{{Schemes: []string{"jwt_sch"}, Scopes: []string{"api:read"}}},
				Payload: obj(secField("token", "Token", "", true)), HTTP: &dg.HTTPMap{Routes: []dg.Route{rt("GET", "/ok")}}}}}}})
	// two credentials in the Authorization header
	ds = append(ds, &dg.Design{Name: "w_dupauth", Schemes: []dg.Scheme{{Kind: "jwt", Name: "jwt_sch"}, {Kind: "apikey", Name: "key_sch"}},
		Services: []*dg.Service{{Name: "svc", Methods: []*dg.Method{
			{Name: "ok", Security: []dg.Requirement{{Schemes: []string{"jwt_sch"}}, {Schemes: []string{"key_sch"}}},
				Payload: obj(secField("token", "Token", "", false), secField("key", "APIKey", "key_sch", false)), HTTP: &dg.HTTPMap{Routes: []dg.Route{rt("GET", "/ok")}}}}}}})
	// multipart request and map typed query parameter in OpenAPI 2
	ds = append(ds, &dg.Design{Name: "w_v2types", Services: []*dg.Service{{Name: "svc", Methods: []*dg.Method{
		{Name: "multi", Payload: obj(rstr("title"), str("note")), HTTP: &dg.HTTPMap{Routes: []dg.Route{rt("POST", "/multi")}, Multipart: true}},
		{Name: "mq", Payload: obj(dg.F("m", dg.MapOf(dg.A(dg.Prim("String")), dg.A(dg.Prim("String"))))), HTTP: &dg.HTTPMap{Routes: []dg.Route{rt("GET", "/mq")}, Params: []dg.MapEntry{me("m", "")}}},
	}}}})
	return ds
}
