// Command c17 (translator) reads pkg/validation.go of the goa tree under -repo with
// go/ast and writes coq/Formats/Generated_formats.v: the two regular-expression
// literals as byte lists, one row per `case` of the switch in ValidateFormat (value
// of the Format constant, canonical rendering of what the case does), and the
// statement sequences of validateUUID and ValidatePattern (locks included).
//
// It fails closed: any shape it does not know is an error (exit 1), never a default.
// The Coq development proves its theorems about hand-written definitions and
// Tie.v checks them against this file, so a source edit breaks the build.
package main

import (
	"bytes"
	"flag"
	"fmt"
	"go/ast"
	"go/parser"
	"go/printer"
	"go/token"
	"os"
	"path/filepath"
	"strconv"
	"strings"
)

var fset = token.NewFileSet()

func die(format string, a ...any) {
	fmt.Fprintf(os.Stderr, "translate/c17: "+format+"\n", a...)
	os.Exit(1)
}

// text renders an expression or statement without any white space.
func text(n ast.Node) string {
	var b bytes.Buffer
	if err := printer.Fprint(&b, fset, n); err != nil {
		die("cannot print node: %v", err)
	}
	s := b.String()
	if strings.ContainsAny(s, "\"`") {
		die("%s: unexpected literal in %q", fset.Position(n.Pos()), s)
	}
	return strings.Join(strings.Fields(s), "")
}

func isCallTo(e ast.Expr, name string) bool {
	c, ok := e.(*ast.CallExpr)
	if !ok {
		return false
	}
	var b bytes.Buffer
	printer.Fprint(&b, fset, c.Fun)
	return b.String() == name
}

// errAssign recognises `err = fmt.Errorf(...)`.
func errAssign(s ast.Stmt) bool {
	a, ok := s.(*ast.AssignStmt)
	if !ok || a.Tok != token.ASSIGN || len(a.Lhs) != 1 || len(a.Rhs) != 1 {
		return false
	}
	id, ok := a.Lhs[0].(*ast.Ident)
	return ok && id.Name == "err" && isCallTo(a.Rhs[0], "fmt.Errorf")
}

// retText renders a return statement; a fmt.Errorf(...) result is rendered "err".
func retText(r *ast.ReturnStmt) string {
	if len(r.Results) != 1 {
		die("%s: return with %d results", fset.Position(r.Pos()), len(r.Results))
	}
	if isCallTo(r.Results[0], "fmt.Errorf") {
		return "return err"
	}
	return "return " + text(r.Results[0])
}

// flatten renders a statement list: calls and assignments as text, `if c { return x }`
// on one line, other ifs bracketed. No else, no init, nothing else.
func flatten(stmts []ast.Stmt) []string {
	var out []string
	for _, s := range stmts {
		switch s := s.(type) {
		case *ast.ExprStmt:
			if _, ok := s.X.(*ast.CallExpr); !ok {
				die("%s: expression statement is not a call", fset.Position(s.Pos()))
			}
			out = append(out, text(s.X))
		case *ast.AssignStmt:
			out = append(out, text(s))
		case *ast.ReturnStmt:
			out = append(out, retText(s))
		case *ast.IfStmt:
			if s.Init != nil || s.Else != nil {
				die("%s: if with init or else", fset.Position(s.Pos()))
			}
			if len(s.Body.List) == 1 {
				if r, ok := s.Body.List[0].(*ast.ReturnStmt); ok {
					out = append(out, "if "+text(s.Cond)+" "+retText(r))
					continue
				}
			}
			out = append(out, "if "+text(s.Cond)+" {")
			out = append(out, flatten(s.Body.List)...)
			out = append(out, "}")
		default:
			die("%s: unexpected statement %T", fset.Position(s.Pos()), s)
		}
	}
	return out
}

// ifErr recognises `if COND { err = fmt.Errorf(...) }` and returns COND.
func ifErr(s ast.Stmt) (string, bool) {
	i, ok := s.(*ast.IfStmt)
	if !ok || i.Init != nil || i.Else != nil || len(i.Body.List) != 1 || !errAssign(i.Body.List[0]) {
		return "", false
	}
	return text(i.Cond), true
}

// caseRows renders one case clause; one row per constant listed in the clause.
func caseRows(cc *ast.CaseClause, consts map[string]string) [][2]string {
	var names []string
	for _, e := range cc.List {
		id, ok := e.(*ast.Ident)
		if !ok {
			die("%s: case expression is not an identifier", fset.Position(e.Pos()))
		}
		if _, ok := consts[id.Name]; !ok {
			die("%s: case %s is not a Format constant", fset.Position(e.Pos()), id.Name)
		}
		names = append(names, id.Name)
	}
	body := cc.Body
	var rows [][2]string
	if len(body) == 1 {
		if len(names) != 1 {
			die("%s: several constants share a one-statement case", fset.Position(cc.Pos()))
		}
		switch s := body[0].(type) {
		case *ast.AssignStmt:
			// _, err = f(...)   |   err = f(val)   |   _, _, err = f(val)
			if s.Tok != token.ASSIGN || len(s.Rhs) != 1 {
				die("%s: unexpected assignment", fset.Position(s.Pos()))
			}
			for k, l := range s.Lhs {
				id, ok := l.(*ast.Ident)
				want := "_"
				if k == len(s.Lhs)-1 {
					want = "err"
				}
				if !ok || id.Name != want {
					die("%s: unexpected assignment target", fset.Position(s.Pos()))
				}
			}
			if _, ok := s.Rhs[0].(*ast.CallExpr); !ok {
				die("%s: right-hand side is not a call", fset.Position(s.Pos()))
			}
			return [][2]string{{consts[names[0]], "err=" + text(s.Rhs[0])}}
		case *ast.IfStmt:
			c, ok := ifErr(s)
			if !ok {
				die("%s: unexpected if shape", fset.Position(s.Pos()))
			}
			return [][2]string{{consts[names[0]], "if " + c + " err"}}
		default:
			die("%s: unexpected statement %T in case", fset.Position(body[0].Pos()), body[0])
		}
	}
	// the shared IP case: ip := net.ParseIP(val); if ip == nil {err}; if f == K { if C {err} } ...
	if len(body) < 2 {
		die("%s: empty case", fset.Position(cc.Pos()))
	}
	a, ok := body[0].(*ast.AssignStmt)
	if !ok || a.Tok != token.DEFINE {
		die("%s: multi-statement case does not start with a := definition", fset.Position(cc.Pos()))
	}
	head := text(a)
	c1, ok := ifErr(body[1])
	if !ok {
		die("%s: second statement of the multi-statement case is not `if c { err = ... }`", fset.Position(body[1].Pos()))
	}
	head += "; if " + c1 + " err"
	extra := map[string]string{}
	for _, s := range body[2:] {
		i, ok := s.(*ast.IfStmt)
		if !ok || i.Init != nil || i.Else != nil || len(i.Body.List) != 1 {
			die("%s: unexpected statement in the multi-statement case", fset.Position(s.Pos()))
		}
		be, ok := i.Cond.(*ast.BinaryExpr)
		if !ok || be.Op != token.EQL {
			die("%s: guard is not f == K", fset.Position(i.Pos()))
		}
		x, okx := be.X.(*ast.Ident)
		y, oky := be.Y.(*ast.Ident)
		if !okx || !oky || x.Name != "f" {
			die("%s: guard is not f == K", fset.Position(i.Pos()))
		}
		if _, ok := consts[y.Name]; !ok {
			die("%s: guard constant %s unknown", fset.Position(i.Pos()), y.Name)
		}
		inner, ok := ifErr(i.Body.List[0])
		if !ok {
			die("%s: guarded statement is not `if c { err = ... }`", fset.Position(i.Pos()))
		}
		extra[y.Name] += "; if " + inner + " err"
	}
	for k := range extra {
		found := false
		for _, n := range names {
			found = found || n == k
		}
		if !found {
			die("guard on %s inside a case that does not list it", k)
		}
	}
	for _, n := range names {
		rows = append(rows, [2]string{consts[n], head + extra[n]})
	}
	return rows
}

func coqStr(s string) string { return `"` + strings.ReplaceAll(s, `"`, `""`) + `"` }

func coqStrList(xs []string) string {
	q := make([]string, len(xs))
	for i, x := range xs {
		q[i] = coqStr(x)
	}
	return "[" + strings.Join(q, ";\n    ") + "]"
}

func coqBytes(s string) string {
	q := make([]string, len(s))
	for i := 0; i < len(s); i++ {
		q[i] = strconv.Itoa(int(s[i]))
	}
	return "[" + strings.Join(q, ";") + "]%N"
}

func main() {
	repo := flag.String("repo", "/repo", "goa source tree")
	out := flag.String("out", "", "output .v file")
	flag.Parse()
	if *out == "" {
		die("missing -out")
	}
	src := filepath.Join(*repo, "pkg", "validation.go")
	f, err := parser.ParseFile(fset, src, nil, 0)
	if err != nil {
		die("%v", err)
	}

	consts := map[string]string{}   // Format constant -> value
	regexes := map[string]string{}  // variable -> literal
	decls := map[string]string{}    // other package-level variables -> initialiser text
	funcs := map[string]*ast.FuncDecl{}
	for _, d := range f.Decls {
		switch d := d.(type) {
		case *ast.GenDecl:
			for _, sp := range d.Specs {
				vs, ok := sp.(*ast.ValueSpec)
				if !ok {
					continue
				}
				if len(vs.Names) != 1 || len(vs.Values) != 1 {
					die("%s: declaration with %d names and %d values", fset.Position(vs.Pos()), len(vs.Names), len(vs.Values))
				}
				name := vs.Names[0].Name
				switch {
				case d.Tok == token.CONST && strings.HasPrefix(name, "Format"):
					lit, ok := vs.Values[0].(*ast.BasicLit)
					if !ok || lit.Kind != token.STRING {
						die("%s: constant %s is not a string literal", fset.Position(vs.Pos()), name)
					}
					v, err := strconv.Unquote(lit.Value)
					if err != nil {
						die("%s: %v", fset.Position(vs.Pos()), err)
					}
					consts[name] = v
				case d.Tok == token.VAR && strings.HasSuffix(name, "Regex"):
					c, ok := vs.Values[0].(*ast.CallExpr)
					if !ok || !isCallTo(c, "regexp.MustCompile") || len(c.Args) != 1 {
						die("%s: %s is not regexp.MustCompile(literal)", fset.Position(vs.Pos()), name)
					}
					lit, ok := c.Args[0].(*ast.BasicLit)
					if !ok || lit.Kind != token.STRING {
						die("%s: %s is not compiled from a string literal", fset.Position(vs.Pos()), name)
					}
					v, err := strconv.Unquote(lit.Value)
					if err != nil {
						die("%s: %v", fset.Position(vs.Pos()), err)
					}
					regexes[name] = v
				case d.Tok == token.VAR:
					decls[name] = text(vs.Values[0])
				default:
					die("%s: unexpected declaration %s", fset.Position(vs.Pos()), name)
				}
			}
		case *ast.FuncDecl:
			if d.Recv != nil {
				die("%s: unexpected method", fset.Position(d.Pos()))
			}
			funcs[d.Name.Name] = d
		}
	}
	for _, n := range []string{"hostnameRegex", "ipv4Regex"} {
		if _, ok := regexes[n]; !ok {
			die("regular expression %s not found", n)
		}
	}
	if len(regexes) != 2 {
		die("expected 2 regular expressions, found %d", len(regexes))
	}
	for _, n := range []string{"ValidateFormat", "ValidatePattern", "validateUUID"} {
		if funcs[n] == nil {
			die("function %s not found", n)
		}
	}
	if len(funcs) != 3 {
		die("expected 3 functions in pkg/validation.go, found %d", len(funcs))
	}

	// ValidateFormat: var err error; switch f {...}; if err != nil { return InvalidFormatError(...) }; return nil
	vf := funcs["ValidateFormat"].Body.List
	if len(vf) != 4 {
		die("ValidateFormat has %d statements, expected 4", len(vf))
	}
	ds, ok := vf[0].(*ast.DeclStmt)
	if !ok || text(ds.Decl) != "varerrerror" {
		die("ValidateFormat does not start with `var err error`")
	}
	sw, ok := vf[1].(*ast.SwitchStmt)
	if !ok || sw.Init != nil || text(sw.Tag) != "f" {
		die("ValidateFormat: second statement is not `switch f`")
	}
	frame := append([]string{"var err error", "switch f"}, flatten(vf[2:])...)
	var table [][2]string
	sawDefault := false
	for _, c := range sw.Body.List {
		cc := c.(*ast.CaseClause)
		if cc.List == nil {
			if len(cc.Body) != 1 {
				die("default case has %d statements", len(cc.Body))
			}
			r, ok := cc.Body[0].(*ast.ReturnStmt)
			if !ok || retText(r) != "return err" {
				die("default case does not return an error")
			}
			sawDefault = true
			continue
		}
		table = append(table, caseRows(cc, consts)...)
	}
	if !sawDefault {
		die("switch has no default case")
	}

	var b strings.Builder
	b.WriteString("(* Generated by translate/c17 from pkg/validation.go on every run - do not edit. *)\n")
	b.WriteString("From Coq Require Import List NArith String.\nImport ListNotations.\nOpen Scope string_scope.\n\n")
	fmt.Fprintf(&b, "Definition src_hostname_literal : list N := %s.\n", coqBytes(regexes["hostnameRegex"]))
	fmt.Fprintf(&b, "Definition src_ipv4_literal : list N := %s.\n\n", coqBytes(regexes["ipv4Regex"]))
	rows := make([]string, len(table))
	for i, r := range table {
		rows[i] = "(" + coqStr(r[0]) + ", " + coqStr(r[1]) + ")"
	}
	fmt.Fprintf(&b, "Definition src_format_table : list (string * string) :=\n  [%s].\n\n", strings.Join(rows, ";\n    "))
	fmt.Fprintf(&b, "Definition src_format_frame : list string :=\n  %s.\n\n", coqStrList(frame))
	fmt.Fprintf(&b, "Definition src_uuid_steps : list string :=\n  %s.\n\n", coqStrList(flatten(funcs["validateUUID"].Body.List)))
	fmt.Fprintf(&b, "Definition src_pattern_steps : list string :=\n  %s.\n\n", coqStrList(flatten(funcs["ValidatePattern"].Body.List)))
	var dl []string
	for _, n := range []string{"knownPatterns", "knownPatternsLock"} {
		v, ok := decls[n]
		if !ok {
			die("package variable %s not found", n)
		}
		dl = append(dl, n+"="+v)
	}
	if len(decls) != 2 {
		die("expected 2 package variables besides the regular expressions, found %d", len(decls))
	}
	fmt.Fprintf(&b, "Definition src_pattern_decls : list string :=\n  %s.\n", coqStrList(dl))

	// rewrite only when the content changed so that an unchanged source costs no rebuild
	if old, err := os.ReadFile(*out); err == nil && string(old) == b.String() {
		return
	}
	if err := os.WriteFile(*out, []byte(b.String()), 0o644); err != nil {
		die("%v", err)
	}
}
