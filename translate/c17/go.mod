module veriftranslate/c17

go 1.22.0
