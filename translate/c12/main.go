// Command c12translate extracts the DSL context table from goa's dsl package:
// for every exported function of <repo>/dsl/*.go, which types of eval.Current()
// the function accepts and whether a call elsewhere is reported
// (eval.IncompatibleDSL), silently ignored, or not checked at all.
//
// Recognised shapes (anything else fails closed: the function is emitted with
// kind KUnknown and the Coq sweep theorem `table_no_unknown` breaks):
//
//	switch x := eval.Current().(type) { case A, B: ... default: eval.IncompatibleDSL() }
//	cur := eval.Current(); switch x := cur.(type) { ... }
//	x, ok := eval.Current().(T)            (comma-ok form only)
//	h := helper(eval.Current())            helper = unexported func of the package
//	                                       with a type switch on its parameter
//	no check of its own, but calls to other functions of the package outside
//	function literals (GET -> route, Field -> Attribute, ...): inherited
//	no check at all (ArrayOf, MapOf, CollectionOf): KAny
//
// kind = KStrict when the function (outside literals) calls eval.IncompatibleDSL
// at least once, KSilent when it has a check but never reports. `nested` is set
// when the function has more than one check site, calls IncompatibleDSL more than
// once, or has its own check and then delegates to a checking function: then a
// call in an accepted context may still be reported (Key needs a map attribute,
// Body needs a response whose parent is an endpoint...), and the model makes no
// prediction for accepted contexts of such a function.
//
// Data-type guards: where the function tests the Type of the attribute it got from
// eval.Current() (x.Type.(*expr.Object) in comma-ok form, a type switch on x.Type,
// expr.IsObject(x.Type) ...), the tests are listed (`exact T` / `is T`): Attribute and
// everything that delegates to it accept an attribute whose type is exactly an
// *expr.Object or *expr.Union, Key a *expr.Map, Elem an array or a map, Required
// anything expr.IsObject sees as an object.
package main

import (
	"encoding/json"
	"flag"
	"fmt"
	"go/ast"
	"go/parser"
	"go/token"
	"os"
	"path/filepath"
	"sort"
	"strings"
)

type entry struct {
	Name   string   `json:"name"`
	Kind   string   `json:"kind"` // KStrict | KSilent | KAny | KUnknown
	Nested bool     `json:"nested"`
	Guards []string `json:"guards"` // checks on the DATA TYPE of the context attribute: "exact Object", "is Object", ...
	Types  []string `json:"types"` // Go type names as written in the source
	Why    string   `json:"why,omitempty"`
	Via    []string `json:"via,omitempty"`
}

// Go type name -> constructor of Model.etype
var coqType = map[string]string{
	"eval.TopExpr":                "TTop",
	"*expr.APIExpr":               "TAPI",
	"*expr.ServerExpr":            "TServer",
	"*expr.HostExpr":              "THost",
	"*expr.ServiceExpr":           "TService",
	"*expr.MethodExpr":            "TMethod",
	"*expr.AttributeExpr":         "TAttribute",
	"*expr.ResultTypeExpr":        "TResultType",
	"expr.CompositeExpr":          "TComposite",
	"expr.UserType":               "TUserType",
	"*expr.RootExpr":              "TRoot",
	"*expr.HTTPExpr":              "THTTP",
	"*expr.HTTPServiceExpr":       "THTTPService",
	"*expr.HTTPEndpointExpr":      "THTTPEndpoint",
	"*expr.HTTPResponseExpr":      "THTTPResponse",
	"*expr.HTTPErrorExpr":         "THTTPError",
	"*expr.HTTPFileServerExpr":    "THTTPFileServer",
	"*expr.RouteExpr":             "TRoute",
	"*expr.MappedAttributeExpr":   "TMapped",
	"*expr.GRPCExpr":              "TGRPC",
	"*expr.GRPCServiceExpr":       "TGRPCService",
	"*expr.GRPCEndpointExpr":      "TGRPCEndpoint",
	"*expr.GRPCResponseExpr":      "TGRPCResponse",
	"*expr.GRPCErrorExpr":         "TGRPCError",
	"*expr.SchemeExpr":            "TScheme",
	"*expr.SecurityExpr":          "TSecurity",
	"*expr.ContactExpr":           "TContact",
	"*expr.LicenseExpr":           "TLicense",
	"*expr.DocsExpr":              "TDocs",
	"*expr.ExampleExpr":           "TExample",
}

type analyzer struct {
	funcs map[string]*ast.FuncDecl
	memo  map[string]*entry
	busy  map[string]bool
}

func typeString(e ast.Expr) string {
	switch t := e.(type) {
	case *ast.StarExpr:
		return "*" + typeString(t.X)
	case *ast.SelectorExpr:
		return typeString(t.X) + "." + t.Sel.Name
	case *ast.Ident:
		return t.Name
	}
	return fmt.Sprintf("?%T", e)
}

func isSel(e ast.Expr, pkg, name string) bool {
	s, ok := e.(*ast.SelectorExpr)
	if !ok || s.Sel.Name != name {
		return false
	}
	id, ok := s.X.(*ast.Ident)
	return ok && id.Name == pkg
}

func isCurrentCall(e ast.Expr) bool {
	c, ok := e.(*ast.CallExpr)
	return ok && len(c.Args) == 0 && isSel(c.Fun, "eval", "Current")
}

// walk visits the nodes of n that are not inside a function literal.
func walk(n ast.Node, f func(ast.Node) bool) {
	ast.Inspect(n, func(x ast.Node) bool {
		if x == nil {
			return false
		}
		if _, ok := x.(*ast.FuncLit); ok {
			return false
		}
		return f(x)
	})
}

// helperTypes: for an unexported func h(exp eval.Expression) with a type switch on
// exp, the case types (default excluded). ok=false if h has no such shape.
func (a *analyzer) helperTypes(name string) ([]string, bool) {
	fd := a.funcs[name]
	if fd == nil || fd.Type.Params == nil || len(fd.Type.Params.List) != 1 || len(fd.Type.Params.List[0].Names) != 1 {
		return nil, false
	}
	if typeString(fd.Type.Params.List[0].Type) != "eval.Expression" {
		return nil, false
	}
	p := fd.Type.Params.List[0].Names[0].Name
	var types []string
	found := false
	walk(fd.Body, func(x ast.Node) bool {
		ts, ok := x.(*ast.TypeSwitchStmt)
		if !ok {
			return true
		}
		var ta *ast.TypeAssertExpr
		switch s := ts.Assign.(type) {
		case *ast.AssignStmt:
			ta, _ = s.Rhs[0].(*ast.TypeAssertExpr)
		case *ast.ExprStmt:
			ta, _ = s.X.(*ast.TypeAssertExpr)
		}
		if ta == nil {
			return true
		}
		if id, ok := ta.X.(*ast.Ident); !ok || id.Name != p {
			return true
		}
		found = true
		for _, cl := range ts.Body.List {
			for _, t := range cl.(*ast.CaseClause).List {
				types = append(types, typeString(t))
			}
		}
		return false
	})
	return types, found
}

func (a *analyzer) analyze(name string) *entry {
	if e, ok := a.memo[name]; ok {
		return e
	}
	if a.busy[name] {
		return &entry{Name: name, Kind: "KUnknown", Why: "recursive delegation"}
	}
	a.busy[name] = true
	e := a.analyze1(name)
	a.busy[name] = false
	a.memo[name] = e
	return e
}

func (a *analyzer) analyze1(name string) *entry {
	fd := a.funcs[name]
	e := &entry{Name: name}
	unknown := func(why string) *entry {
		return &entry{Name: name, Kind: "KUnknown", Why: why}
	}
	if fd == nil || fd.Body == nil {
		return unknown("no body")
	}
	// identifiers bound to eval.Current()
	alias := map[string]bool{}
	consumed := map[ast.Node]bool{} // eval.Current() calls / alias identifiers used by a recognised site
	walk(fd.Body, func(x ast.Node) bool {
		if as, ok := x.(*ast.AssignStmt); ok && len(as.Lhs) == 1 && len(as.Rhs) == 1 && isCurrentCall(as.Rhs[0]) {
			if id, ok := as.Lhs[0].(*ast.Ident); ok {
				alias[id.Name] = true
				consumed[as.Rhs[0]] = true
				consumed[id] = true
			}
		}
		return true
	})
	isCur := func(x ast.Expr) bool {
		if isCurrentCall(x) {
			return true
		}
		id, ok := x.(*ast.Ident)
		return ok && alias[id.Name]
	}
	types := map[string]bool{}
	sites := 0
	incompat := 0
	var delegates []string
	bad := ""
	walk(fd.Body, func(x ast.Node) bool {
		switch n := x.(type) {
		case *ast.TypeSwitchStmt:
			var ta *ast.TypeAssertExpr
			switch s := n.Assign.(type) {
			case *ast.AssignStmt:
				ta, _ = s.Rhs[0].(*ast.TypeAssertExpr)
			case *ast.ExprStmt:
				ta, _ = s.X.(*ast.TypeAssertExpr)
			}
			if ta != nil && isCur(ta.X) {
				sites++
				consumed[ta.X] = true
				consumed[ta] = true
				for _, cl := range n.Body.List {
					for _, t := range cl.(*ast.CaseClause).List {
						types[typeString(t)] = true
					}
				}
			}
		case *ast.AssignStmt:
			if len(n.Lhs) == 2 && len(n.Rhs) == 1 {
				if ta, ok := n.Rhs[0].(*ast.TypeAssertExpr); ok && ta.Type != nil && isCur(ta.X) {
					sites++
					consumed[ta.X] = true
					consumed[ta] = true
					types[typeString(ta.Type)] = true
				}
			}
		case *ast.CallExpr:
			if isSel(n.Fun, "eval", "IncompatibleDSL") {
				incompat++
			}
			if id, ok := n.Fun.(*ast.Ident); ok {
				if _, isFunc := a.funcs[id.Name]; isFunc {
					if len(n.Args) == 1 && isCur(n.Args[0]) {
						ts, ok := a.helperTypes(id.Name)
						if !ok {
							bad = "eval.Current() passed to " + id.Name + " which is not a recognised helper"
						} else {
							sites++
							consumed[n.Args[0]] = true
							for _, t := range ts {
								types[t] = true
							}
						}
					} else {
						delegates = append(delegates, id.Name)
					}
				}
			}
		}
		return true
	})
	// every use of eval.Current() (or of an alias) must belong to a recognised site
	var asserts []string
	walk(fd.Body, func(x ast.Node) bool {
		switch n := x.(type) {
		case *ast.TypeAssertExpr:
			if n.Type != nil && isCur(n.X) && !consumed[n] {
				// x := eval.Current().(T): panics in any other context
				asserts = append(asserts, typeString(n.Type))
				consumed[n.X] = true
			}
		case *ast.CallExpr:
			if isCurrentCall(n) && !consumed[n] {
				bad = "eval.Current() used outside a recognised check"
			}
		case *ast.Ident:
			if alias[n.Name] && !consumed[n] {
				bad = "alias of eval.Current() used outside a recognised check"
			}
		}
		return true
	})
	if bad != "" {
		return unknown(bad)
	}
	if len(asserts) > 0 {
		// only acceptable in a helper whose callers have already checked for exactly this type
		if sites > 0 || len(asserts) > 1 {
			return unknown("unguarded type assertion on eval.Current() next to another check")
		}
		return &entry{Name: name, Kind: "KAssert", Types: asserts}
	}
	// data-type guards on the context attribute
	// only variables that can hold an attribute context (*expr.AttributeExpr or an
	// expr.CompositeExpr) are followed: the guards describe attribute contexts
	attrLike := func(ts []ast.Expr) bool {
		for _, t := range ts {
			switch typeString(t) {
			case "*expr.AttributeExpr", "expr.CompositeExpr", "*expr.MappedAttributeExpr":
				return true
			}
		}
		return false
	}
	ctxVars := map[string]bool{}
	walk(fd.Body, func(x ast.Node) bool {
		switch n := x.(type) {
		case *ast.TypeSwitchStmt:
			if as, ok := n.Assign.(*ast.AssignStmt); ok {
				if ta, ok := as.Rhs[0].(*ast.TypeAssertExpr); ok && isCur(ta.X) {
					var all []ast.Expr
					for _, cl := range n.Body.List {
						all = append(all, cl.(*ast.CaseClause).List...)
					}
					if id, ok := as.Lhs[0].(*ast.Ident); ok && attrLike(all) {
						ctxVars[id.Name] = true
					}
				}
			}
		case *ast.AssignStmt:
			if len(n.Lhs) == 2 && len(n.Rhs) == 1 {
				if ta, ok := n.Rhs[0].(*ast.TypeAssertExpr); ok && ta.Type != nil && isCur(ta.X) {
					if id, ok := n.Lhs[0].(*ast.Ident); ok && id.Name != "_" && attrLike([]ast.Expr{ta.Type}) {
						ctxVars[id.Name] = true
					}
				}
			}
		}
		return true
	})
	// x = v, x = v.Attribute(), x = v.AttributeExpr with v a context variable
	for changed := true; changed; {
		changed = false
		walk(fd.Body, func(x ast.Node) bool {
			as, ok := x.(*ast.AssignStmt)
			if !ok || len(as.Lhs) != 1 || len(as.Rhs) != 1 {
				return true
			}
			lhs, ok := as.Lhs[0].(*ast.Ident)
			if !ok || ctxVars[lhs.Name] {
				return true
			}
			src := as.Rhs[0]
			if c, ok := src.(*ast.CallExpr); ok && len(c.Args) == 0 {
				if se, ok := c.Fun.(*ast.SelectorExpr); ok && se.Sel.Name == "Attribute" {
					src = se.X
				}
			}
			if se, ok := src.(*ast.SelectorExpr); ok && se.Sel.Name == "AttributeExpr" {
				src = se.X
			}
			if id, ok := src.(*ast.Ident); ok && ctxVars[id.Name] {
				ctxVars[lhs.Name] = true
				changed = true
			}
			return true
		})
	}
	isCtxType := func(x ast.Expr) bool {
		se, ok := x.(*ast.SelectorExpr)
		if !ok || se.Sel.Name != "Type" {
			return false
		}
		id, ok := se.X.(*ast.Ident)
		return ok && ctxVars[id.Name]
	}
	guards := map[string]bool{}
	walk(fd.Body, func(x ast.Node) bool {
		switch n := x.(type) {
		case *ast.TypeAssertExpr:
			if n.Type != nil && isCtxType(n.X) {
				guards["exact "+strings.TrimPrefix(typeString(n.Type), "*expr.")] = true
			}
		case *ast.TypeSwitchStmt:
			var ta *ast.TypeAssertExpr
			switch s := n.Assign.(type) {
			case *ast.AssignStmt:
				ta, _ = s.Rhs[0].(*ast.TypeAssertExpr)
			case *ast.ExprStmt:
				ta, _ = s.X.(*ast.TypeAssertExpr)
			}
			if ta != nil && isCtxType(ta.X) {
				for _, cl := range n.Body.List {
					for _, t := range cl.(*ast.CaseClause).List {
						guards["exact "+strings.TrimPrefix(typeString(t), "*expr.")] = true
					}
				}
			}
		case *ast.CallExpr:
			if se, ok := n.Fun.(*ast.SelectorExpr); ok && len(n.Args) == 1 && isCtxType(n.Args[0]) {
				if id, ok := se.X.(*ast.Ident); ok && id.Name == "expr" && strings.HasPrefix(se.Sel.Name, "Is") {
					guards["is "+strings.TrimPrefix(se.Sel.Name, "Is")] = true
				}
			}
		}
		return true
	})
	for gd := range guards {
		e.Guards = append(e.Guards, gd)
	}
	sort.Strings(e.Guards)
	// delegation
	var checking []*entry
	for _, d := range delegates {
		de := a.analyze(d)
		if de.Kind == "KUnknown" {
			return unknown("delegates to " + d + ": " + de.Why)
		}
		if de.Kind == "KAssert" {
			// the caller must have established the asserted type itself
			if sites == 0 || len(types) != 1 || !types[de.Types[0]] || incompat == 0 {
				return unknown("calls " + d + " which asserts eval.Current().(" + de.Types[0] + ") without having checked for exactly that type")
			}
			continue
		}
		if de.Kind != "KAny" {
			checking = append(checking, de)
			e.Via = append(e.Via, d)
		}
	}
	if sites > 0 {
		for t := range types {
			e.Types = append(e.Types, t)
		}
		sort.Strings(e.Types)
		e.Kind = "KSilent"
		if incompat > 0 {
			e.Kind = "KStrict"
		}
		e.Nested = sites > 1 || incompat > 1 || len(checking) > 0
		for _, c := range checking {
			e.Guards = mergeGuards(e.Guards, c.Guards)
		}
		return e
	}
	if incompat > 0 {
		return unknown("calls IncompatibleDSL without a recognised check of eval.Current()")
	}
	if len(checking) == 0 {
		e.Kind = "KAny"
		return e
	}
	first := checking[0]
	for _, c := range checking[1:] {
		if c.Kind != first.Kind || strings.Join(c.Types, ",") != strings.Join(first.Types, ",") || strings.Join(c.Guards, ",") != strings.Join(first.Guards, ",") {
			return unknown("delegates to functions with different context checks: " + strings.Join(e.Via, ", "))
		}
		first.Nested = first.Nested || c.Nested
	}
	e.Kind, e.Types, e.Nested = first.Kind, first.Types, first.Nested
	e.Guards = mergeGuards(e.Guards, first.Guards)
	return e
}

func mergeGuards(a, b []string) []string {
	m := map[string]bool{}
	for _, x := range a {
		m[x] = true
	}
	for _, x := range b {
		m[x] = true
	}
	var out []string
	for x := range m {
		out = append(out, x)
	}
	sort.Strings(out)
	return out
}

// guard -> constructor of Model.dguard
var coqGuard = map[string]string{
	"exact expr.UserType": "GExactUserType",
	"exact Object": "GExactObject", "exact Union": "GExactUnion", "exact Map": "GExactMap", "exact Array": "GExactArray",
	"is Object": "GIsObject", "is Union": "GIsUnion", "is Map": "GIsMap", "is Array": "GIsArray", "is Primitive": "GIsPrimitive",
}

func main() {
	repo := flag.String("repo", "/repo", "")
	out := flag.String("out", "", "Generated_contexts.v")
	jout := flag.String("json", "", "contexts.json")
	flag.Parse()
	fset := token.NewFileSet()
	files, err := filepath.Glob(filepath.Join(*repo, "dsl", "*.go"))
	if err != nil || len(files) == 0 {
		fmt.Fprintln(os.Stderr, "no dsl sources under", *repo)
		os.Exit(1)
	}
	a := &analyzer{funcs: map[string]*ast.FuncDecl{}, memo: map[string]*entry{}, busy: map[string]bool{}}
	var exported []string
	for _, f := range files {
		if strings.HasSuffix(f, "_test.go") {
			continue
		}
		af, err := parser.ParseFile(fset, f, nil, 0)
		if err != nil {
			fmt.Fprintln(os.Stderr, "parse:", err)
			os.Exit(1)
		}
		for _, d := range af.Decls {
			fd, ok := d.(*ast.FuncDecl)
			if !ok || fd.Recv != nil {
				continue
			}
			a.funcs[fd.Name.Name] = fd
			if fd.Name.IsExported() {
				exported = append(exported, fd.Name.Name)
			}
		}
	}
	sort.Strings(exported)
	var entries []*entry
	for _, n := range exported {
		e := a.analyze(n)
		if e.Kind == "KAssert" {
			e = &entry{Name: n, Kind: "KUnknown", Why: "unguarded type assertion on eval.Current(): panics when misplaced"}
		}
		// unknown type names fail closed
		for _, t := range e.Types {
			if _, ok := coqType[t]; !ok && e.Kind != "KUnknown" {
				e = &entry{Name: n, Kind: "KUnknown", Why: "context type " + t + " is not in the model's etype"}
			}
		}
		entries = append(entries, e)
	}
	var b strings.Builder
	b.WriteString("(* GENERATED by translate/c12 from dsl/*.go of the goa working tree: for every exported\n   DSL function, the kind of its eval.Current() check and the expression types it\n   accepts. Do not edit; rewritten on every run of bin/check C12. *)\n")
	b.WriteString("From DSL Require Import Model.\nLocal Open Scope string_scope.\n\nDefinition table : list fentry := [\n")
	for i, e := range entries {
		var ts []string
		if e.Kind != "KUnknown" {
			for _, t := range e.Types {
				ts = append(ts, coqType[t])
			}
		}
		var gs []string
		for _, gd := range e.Guards {
			c, ok := coqGuard[gd]
			if !ok {
				c = "GOtherGuard"
			}
			gs = append(gs, c)
		}
		nested := "false"
		if e.Nested {
			nested = "true"
		}
		sep := ";"
		if i == len(entries)-1 {
			sep = ""
		}
		cm := ""
		if e.Why != "" {
			cm = "  (* " + strings.ReplaceAll(strings.ReplaceAll(e.Why, "(*", "( *"), "*)", "* )") + " *)"
		}
		fmt.Fprintf(&b, "  mkF %q %s %s [%s] [%s]%s%s\n", e.Name, e.Kind, nested, strings.Join(ts, "; "), strings.Join(gs, "; "), sep, cm)
	}
	b.WriteString("].\n")
	if *out != "" {
		if err := os.WriteFile(*out, []byte(b.String()), 0o644); err != nil {
			fmt.Fprintln(os.Stderr, err)
			os.Exit(1)
		}
	} else {
		fmt.Print(b.String())
	}
	if *jout != "" {
		j, _ := json.MarshalIndent(entries, "", " ")
		if err := os.WriteFile(*jout, j, 0o644); err != nil {
			fmt.Fprintln(os.Stderr, err)
			os.Exit(1)
		}
	}
}
