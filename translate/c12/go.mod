module c12translate

go 1.22
