// Command c09translate reads goa's generator packages from source (go/ast + go/types)
// and writes coq/GenFS/Generated_mapranges.v plus a JSON diagnostic:
//
//   - the MAP-RANGE INVENTORY: one record per `for ... := range <map>` statement of the
//     generator packages (non-test files). A site is named
//     "<package>:<function or Type.method>#<n>" where n counts the map ranges of that
//     function in source order (no line numbers), and carries a shape decided by the
//     syntactic rules below. Order-insensitive shapes: writes_map, collect_then_sort,
//     keyed_lookup (first match on a unique key), exists_test, commutative_acc,
//     per_element_write, commuting_writes (a mix of the former), singleton. Everything
//     else (order_sensitive_append, string_concat, last_write_wins, multi_key_match,
//     first_match_ambiguous, derived_key_write, unknown) breaks
//     GenFS.all_sites_order_insensitive unless the site is in the committed allow-list
//     (translate/c09/allowlist.json: site, fingerprint of the loop text, the shape the
//     rules gave at inspection time, one-line justification, kind inspected|finding). An
//     entry whose fingerprint or shape no longer matches is void (e.g. the sort after an
//     inspected collect loop was removed: same loop text, other shape).
//   - the AMBIENT-INPUT INVENTORY: uses of the clock (time.Now/Since/Until), of a process-global
//     random source (math/rand, crypto/rand, uuid.New*), of the environment and host identity
//     (os.Getenv/Environ/Hostname/Getpid..., os/user), of the local time zone (time.Local,
//     time.LoadLocation, and every location-dependent method of time.Time — Format, String,
//     Date, Clock, Year..., Weekday, Zone, Marshal* — whose receiver is not syntactically
//     x.UTC() or x.In(time.UTC)). Each must be in the "ambient" allow-list with its reason.
//   - the FILE-LITERAL INVENTORY: every composite literal of type codegen.File, whether
//     it sets `SkipExist: true`, and whether its function is statically reachable from
//     generator.Example / from the gen generators (Service, Transport, OpenAPI).
//
// Rules (fail closed: whatever is not recognised is `unknown`):
//
//	effects of a loop body = assignments / inc-dec / call statements / returns, searched
//	recursively through blocks, ifs, switches and inner loops; variables declared inside
//	the body are local and ignored.
//	  m[K] = e, delete(m, K)           (m a map, K the loop key)   -> map write keyed by K
//	  m[e'] = e with e' not the key                                 -> derived_key_write
//	  V.f = e, K.f = e                 (rooted at the loop vars)    -> per element write
//	  x = append(x, ...); x[i] = e; i++ (x, i declared outside)     -> collect into x
//	  n += e / n++ on a numeric n; b = <constant>                   -> commutative acc
//	  s += e on a string                                            -> string_concat
//	  x = e / x.f = e (outer x, e not constant)                     -> last write wins, fine
//	                                      only under `if K == <one constant>` (keyed_lookup);
//	                                      under `K == c1 || K == c2` it is multi_key_match
//	  return <constants only>                                       -> exists_test
//	  return e under `if K == <one constant> ...`                   -> keyed_lookup
//	  any other return                                              -> first_match_ambiguous
//	  f(...) as a statement, go, defer, send, goto, labels          -> unknown
//	calls in expression position are taken to be free of effects on shared state
//	(recorded as an assumption of the check).
//	collect into x is fine only if every collected element is the loop key itself and the
//	first use of x after the loop (same function, by position) is as the argument of
//	sort.Strings/Ints/Float64s or slices.Sort (natural order of the elements = a total
//	order on distinct keys). Collected elements derived from the key or the value, or a
//	sort through a comparator (sort.Slice/SliceStable/Sort/Stable, slices.SortFunc...) ->
//	collect_derived_sort (not accepted: needs inspection); no sort -> order_sensitive_append.
//	A variable declared inside the body only counts as local storage if it owns what it
//	points to (literal, make/new, New* constructor, value copy without pointers); the
//	key/value of an inner range over outer data, `x := outer[i]`, results of other calls
//	alias outer data and writes through them are writes to outer data.
//	a range directly inside `if len(<same expr>) == 1 { ... }` is a singleton.
package main

import (
	"bytes"
	"crypto/sha256"
	"encoding/hex"
	"encoding/json"
	"flag"
	"fmt"
	"go/ast"
	"go/constant"
	"go/printer"
	"go/token"
	"go/types"
	"os"
	"sort"
	"strings"

	"golang.org/x/tools/go/packages"
)

const modPrefix = "goa.design/goa/v3/"

var pkgPatterns = []string{
	"./eval", "./expr", "./codegen", "./codegen/service", "./codegen/example", "./codegen/generator",
	"./codegen/cli", "./http/codegen", "./http/codegen/openapi", "./http/codegen/openapi/v2",
	"./http/codegen/openapi/v3", "./grpc/codegen", "./cmd/goa",
}

type Site struct {
	Name        string   `json:"site"`
	File        string   `json:"file"`
	Line        int      `json:"line"` // diagnostic only, never used as a key
	Shape       string   `json:"shape"`
	RawShape    string   `json:"raw_shape"`
	Effects     []string `json:"effects"`
	Fingerprint string   `json:"fingerprint"`
	Allow       string   `json:"allow,omitempty"` // "", inspected, finding, stale
	Why         string   `json:"why,omitempty"`
	Text        string   `json:"text"`
}

type FileSite struct {
	PathShapes [][]string `json:"path_shapes,omitempty"` // one per assignment that can reach Path: G | L:<lit> | S | O
	Name       string     `json:"site"`
	File       string     `json:"file"`
	Line       int        `json:"line"`
	SkipExist  bool       `json:"skip_exist"`
	FromEx     bool       `json:"reachable_from_example"`
	FromGen    bool       `json:"reachable_from_gen"`
}

// Ambient is a use of an input that is not the design or the command line.
type Ambient struct {
	Name    string `json:"site"` // package:function callee
	File    string `json:"file"`
	Line    int    `json:"line"`
	Allowed bool   `json:"allowed"`
	Why     string `json:"why,omitempty"`
}

// localZoneMethods: methods of time.Time whose result depends on the location the value
// carries. time.Unix / time.Date(.., time.Local) / time.Now give values in the process's
// local zone (TZ, /etc/localtime), so calling one of these on anything but `x.UTC()` or
// `x.In(time.UTC)` lets the machine's time zone into the output.
var localZoneMethods = map[string]bool{"Format": true, "AppendFormat": true, "String": true, "GoString": true, "Date": true, "Clock": true,
	"Year": true, "Month": true, "Day": true, "Hour": true, "Minute": true, "Weekday": true, "YearDay": true, "ISOWeek": true,
	"Zone": true, "ZoneBounds": true, "Location": true, "Local": true, "MarshalJSON": true, "MarshalText": true, "Truncate": false, "IsDST": true}

func isTimeTime(t types.Type) bool {
	if t == nil {
		return false
	}
	if p, ok := t.(*types.Pointer); ok {
		t = p.Elem()
	}
	n, ok := t.(*types.Named)
	return ok && n.Obj().Name() == "Time" && n.Obj().Pkg() != nil && n.Obj().Pkg().Path() == "time"
}

// pinnedToUTC: the expression is syntactically x.UTC() or x.In(time.UTC).
func pinnedToUTC(info *types.Info, e ast.Expr) bool {
	call, ok := ast.Unparen(e).(*ast.CallExpr)
	if !ok {
		return false
	}
	sel, ok := call.Fun.(*ast.SelectorExpr)
	if !ok || !isTimeTime(info.TypeOf(sel.X)) {
		return false
	}
	if sel.Sel.Name == "UTC" && len(call.Args) == 0 {
		return true
	}
	if sel.Sel.Name == "In" && len(call.Args) == 1 {
		if a, ok := ast.Unparen(call.Args[0]).(*ast.SelectorExpr); ok && a.Sel.Name == "UTC" {
			if pid, ok := a.X.(*ast.Ident); ok {
				if pn, ok := info.Uses[pid].(*types.PkgName); ok && pn.Imported().Path() == "time" {
					return true
				}
			}
		}
	}
	return false
}

// ambientFuncs: clock, process-global random sources, environment, host identity.
var ambientFuncs = map[string]map[string]bool{
	"time":                   {"Now": true, "Since": true, "Until": true},
	"math/rand":              {"Int": true, "Intn": true, "Int31": true, "Int31n": true, "Int63": true, "Int63n": true, "Uint32": true, "Uint64": true, "Float32": true, "Float64": true, "Perm": true, "Shuffle": true, "Read": true, "Seed": true, "NormFloat64": true, "ExpFloat64": true},
	"math/rand/v2":           {"Int": true, "IntN": true, "Int32": true, "Int32N": true, "Int64": true, "Int64N": true, "Uint32": true, "Uint64": true, "Float32": true, "Float64": true, "Perm": true, "Shuffle": true, "N": true, "UintN": true, "Uint32N": true, "Uint64N": true},
	"crypto/rand":            {"Read": true, "Int": true, "Prime": true, "Reader": true, "Text": true},
	"os":                     {"Getenv": true, "LookupEnv": true, "Environ": true, "Hostname": true, "Getpid": true, "Getppid": true, "Getuid": true, "ExpandEnv": true},
	"os/user":                {"Current": true},
	"github.com/google/uuid": {"New": true, "NewString": true, "NewRandom": true, "NewUUID": true},
}

type AllowEntry struct {
	Site        string `json:"site"`
	Fingerprint string `json:"fingerprint"`
	Shape       string `json:"shape"` // the shape the rules gave when the site was inspected
	Kind        string `json:"kind"`  // inspected | finding
	Why         string `json:"why"`
}

var insensitive = map[string]bool{
	"writes_map": true, "collect_then_sort": true, "keyed_lookup": true, "exists_test": true,
	"commutative_acc": true, "per_element_write": true, "commuting_writes": true, "singleton": true,
	"no_effect": true,
}

// ---------------------------------------------------------------- helpers

func src(fset *token.FileSet, n ast.Node) string {
	var b bytes.Buffer
	_ = printer.Fprint(&b, fset, n)
	return b.String()
}

func fingerprint(text string) string {
	// position independent: the printed statement with all white space collapsed
	h := sha256.Sum256([]byte(strings.Join(strings.Fields(text), " ")))
	return hex.EncodeToString(h[:])[:12]
}

func funcKey(pkgPath, recv, name string) string {
	if recv != "" {
		return pkgPath + ":" + recv + "." + name
	}
	return pkgPath + ":" + name
}

func recvName(t ast.Expr) string {
	switch x := t.(type) {
	case *ast.StarExpr:
		return recvName(x.X)
	case *ast.Ident:
		return x.Name
	case *ast.IndexExpr:
		return recvName(x.X)
	case *ast.IndexListExpr:
		return recvName(x.X)
	}
	return "?"
}

func objKey(o types.Object) string {
	fn, ok := o.(*types.Func)
	if !ok || fn.Pkg() == nil {
		return ""
	}
	recv := ""
	if sig, ok := fn.Type().(*types.Signature); ok && sig.Recv() != nil {
		t := sig.Recv().Type()
		if p, ok := t.(*types.Pointer); ok {
			t = p.Elem()
		}
		if n, ok := t.(*types.Named); ok {
			recv = n.Obj().Name()
		}
	}
	return funcKey(fn.Pkg().Path(), recv, fn.Name())
}

func rootIdent(e ast.Expr) *ast.Ident {
	for {
		switch x := e.(type) {
		case *ast.Ident:
			return x
		case *ast.SelectorExpr:
			e = x.X
		case *ast.IndexExpr:
			e = x.X
		case *ast.StarExpr:
			e = x.X
		case *ast.ParenExpr:
			e = x.X
		case *ast.SliceExpr:
			e = x.X
		case *ast.TypeAssertExpr:
			e = x.X
		default:
			return nil
		}
	}
}

// ---------------------------------------------------------------- classification

type classifier struct {
	pkg   *packages.Package
	fn    ast.Node // enclosing declaration (search space for the sort call)
	rs    *ast.RangeStmt
	key   types.Object
	val   types.Object
	effs  []string
	colls map[types.Object]bool // slices collected into; true = every collected element is the loop key itself
	ctrs  map[types.Object]bool // counters used as collect index
}

func (c *classifier) info() *types.Info { return c.pkg.TypesInfo }

func (c *classifier) objOf(id *ast.Ident) types.Object {
	if id == nil {
		return nil
	}
	if o := c.info().Uses[id]; o != nil {
		return o
	}
	return c.info().Defs[id]
}

func (c *classifier) isLocal(o types.Object) bool {
	if o == nil {
		return false
	}
	return o.Pos() >= c.rs.Body.Pos() && o.Pos() <= c.rs.Body.End()
}

func (c *classifier) isLoopVar(o types.Object) bool {
	return o != nil && (o == c.key || o == c.val)
}

func (c *classifier) isConst(e ast.Expr) bool {
	if tv, ok := c.info().Types[e]; ok && tv.Value != nil {
		return true
	}
	if id, ok := e.(*ast.Ident); ok {
		if id.Name == "nil" || id.Name == "true" || id.Name == "false" {
			return true
		}
		if _, ok := c.objOf(id).(*types.Const); ok {
			return true
		}
	}
	return false
}

// guard describes the `if` conditions enclosing a statement inside the loop body.
type guard struct {
	keyed bool // under `if K == <one constant>` (or a single-constant case of `switch K`)
	multi bool // under a condition that admits several keys by name
	inner bool // inside an inner loop / switch: `break` does not leave the map range
}

func (c *classifier) keyEq(e ast.Expr) (isKeyEq bool) {
	b, ok := e.(*ast.BinaryExpr)
	if !ok || b.Op != token.EQL {
		return false
	}
	l, r := b.X, b.Y
	if id, ok := l.(*ast.Ident); ok && c.key != nil && c.objOf(id) == c.key && c.isConst(r) {
		return true
	}
	if id, ok := r.(*ast.Ident); ok && c.key != nil && c.objOf(id) == c.key && c.isConst(l) {
		return true
	}
	return false
}

// analyseCond: does the condition pin the key to exactly one constant (keyed), or to
// one of several (multi)?
func (c *classifier) analyseCond(e ast.Expr) (keyed, multi bool) {
	switch x := e.(type) {
	case *ast.ParenExpr:
		return c.analyseCond(x.X)
	case *ast.BinaryExpr:
		switch x.Op {
		case token.EQL:
			return c.keyEq(x), false
		case token.LAND:
			k1, m1 := c.analyseCond(x.X)
			k2, m2 := c.analyseCond(x.Y)
			return k1 || k2, (m1 && !k2) || (m2 && !k1)
		case token.LOR:
			k1, m1 := c.analyseCond(x.X)
			k2, m2 := c.analyseCond(x.Y)
			if (k1 || m1) && (k2 || m2) {
				return false, true
			}
			return false, false
		}
	}
	return false, false
}

func (c *classifier) eff(s string) { c.effs = append(c.effs, s) }

// isKey: the expression is the loop key variable itself.
func (c *classifier) isKey(e ast.Expr) bool {
	id, ok := ast.Unparen(e).(*ast.Ident)
	return ok && c.key != nil && c.objOf(id) == c.key
}

func (c *classifier) collected(o types.Object, keyOnly bool) {
	if prev, seen := c.colls[o]; seen {
		c.colls[o] = prev && keyOnly
	} else {
		c.colls[o] = keyOnly
	}
}

func (c *classifier) stmts(list []ast.Stmt, g guard) {
	for _, s := range list {
		c.stmt(s, g)
	}
}

func (c *classifier) assignTarget(lhs ast.Expr, rhs ast.Expr, tok token.Token, g guard) {
	lhs = ast.Unparen(lhs)
	if id, ok := lhs.(*ast.Ident); ok {
		if id.Name == "_" {
			return
		}
		o := c.objOf(id)
		if tok == token.DEFINE || c.isLocal(o) {
			return
		}
		if c.isLoopVar(o) {
			return // re-assigning the loop variable itself has no outside effect
		}
		// outer variable
		if call, ok := rhs.(*ast.CallExpr); ok && tok == token.ASSIGN {
			if fid, ok := call.Fun.(*ast.Ident); ok && fid.Name == "append" && len(call.Args) > 0 {
				if a0, ok := ast.Unparen(call.Args[0]).(*ast.Ident); ok && c.objOf(a0) == o {
					keyOnly := call.Ellipsis == token.NoPos
					for _, a := range call.Args[1:] {
						if !c.isKey(a) {
							keyOnly = false
						}
					}
					c.collected(o, keyOnly)
					c.eff("collect")
					return
				}
			}
		}
		switch tok {
		case token.ADD_ASSIGN, token.SUB_ASSIGN, token.MUL_ASSIGN, token.OR_ASSIGN, token.AND_ASSIGN, token.XOR_ASSIGN:
			if b, ok := o.Type().Underlying().(*types.Basic); ok && b.Info()&types.IsNumeric != 0 {
				c.ctrs[o] = true
				c.eff("counter")
				return
			}
			if b, ok := o.Type().Underlying().(*types.Basic); ok && b.Info()&types.IsString != 0 {
				c.eff("string_concat")
				return
			}
			c.eff("unknown:op-assign on " + o.Type().String())
			return
		case token.ASSIGN:
			if rhs != nil && c.isConst(rhs) {
				c.eff("const_set") // idempotent constant set
				return
			}
			switch {
			case g.keyed:
				c.eff("keyed_write")
			case g.multi:
				c.eff("multi_key_match")
			default:
				c.eff("last_write_wins")
			}
			return
		}
		c.eff("unknown:assign " + tok.String())
		return
	}
	root := rootIdent(lhs)
	ro := c.objOf(root)
	kind := aliasOuter
	if root != nil {
		if c.isLoopVar(ro) {
			kind = aliasElem
		} else if c.isLocal(ro) {
			kind = c.aliasKind(ro, 0)
		}
	}
	if kind == aliasFresh {
		return // writes into storage owned by this iteration
	}
	if ix, ok := lhs.(*ast.IndexExpr); ok && kind == aliasOuter {
		t := c.info().TypeOf(ix.X)
		if t != nil {
			switch t.Underlying().(type) {
			case *types.Map:
				if c.isKey(ix.Index) {
					c.eff("map_write")
				} else {
					c.eff("derived_key_write")
				}
				return
			case *types.Slice:
				if xid, ok := ast.Unparen(ix.X).(*ast.Ident); ok {
					if iid, ok := ast.Unparen(ix.Index).(*ast.Ident); ok {
						xo, io := c.objOf(xid), c.objOf(iid)
						if xo != nil && io != nil && !c.isLocal(xo) && !c.isLocal(io) && !c.isLoopVar(io) {
							c.collected(xo, rhs != nil && c.isKey(rhs))
							c.ctrs[io] = true
							c.eff("collect")
							return
						}
					}
				}
			}
		}
	}
	if kind == aliasElem {
		c.eff("elem_write")
		return
	}
	// field / element of an object that outlives the iteration
	if rhs != nil && c.isConst(rhs) && tok == token.ASSIGN {
		c.eff("const_set")
		return
	}
	switch {
	case g.keyed:
		c.eff("keyed_write")
	case g.multi:
		c.eff("multi_key_match")
	default:
		c.eff("last_write_wins")
	}
}

// Alias kinds of a variable declared inside the loop body.
const (
	aliasFresh = iota // owns what it points to (literal, make/new, New* constructor, value copy)
	aliasElem         // reaches into the current map entry (rooted at the loop key/value)
	aliasOuter        // may reach data that outlives the iteration
)

// refLike: a value of this type can share storage with another value.
func refLike(t types.Type, depth int) bool {
	if depth > 4 {
		return true
	}
	switch u := t.Underlying().(type) {
	case *types.Basic:
		return false
	case *types.Struct:
		for i := 0; i < u.NumFields(); i++ {
			if refLike(u.Field(i).Type(), depth+1) {
				return true
			}
		}
		return false
	case *types.Array:
		return refLike(u.Elem(), depth+1)
	}
	return true
}

// exprAlias: what a value computed by e may share storage with.
func (c *classifier) exprAlias(e ast.Expr, depth int) int {
	e = ast.Unparen(e)
	switch x := e.(type) {
	case *ast.CompositeLit, *ast.BasicLit, *ast.FuncLit:
		return aliasFresh
	case *ast.UnaryExpr:
		if x.Op == token.AND {
			if _, ok := ast.Unparen(x.X).(*ast.CompositeLit); ok {
				return aliasFresh
			}
			return c.exprAlias(x.X, depth)
		}
		return aliasFresh
	case *ast.BinaryExpr:
		return aliasFresh // arithmetic, comparison, string concatenation produce new values
	case *ast.CallExpr:
		name := ""
		switch f := ast.Unparen(x.Fun).(type) {
		case *ast.Ident:
			name = f.Name
			if _, isBuiltin := c.objOf(f).(*types.Builtin); isBuiltin && (name == "make" || name == "new" || name == "len" || name == "cap") {
				return aliasFresh
			}
		case *ast.SelectorExpr:
			name = f.Sel.Name
		}
		if strings.HasPrefix(name, "New") || strings.HasPrefix(name, "new") {
			return aliasFresh // constructor by convention
		}
		return aliasOuter // a call may hand back anything it was given or can reach
	}
	rid := rootIdent(e)
	if rid == nil {
		return aliasOuter
	}
	ro := c.objOf(rid)
	switch {
	case c.isLoopVar(ro):
		return aliasElem
	case c.isLocal(ro):
		return c.aliasKind(ro, depth+1)
	}
	return aliasOuter
}

// aliasKind classifies a variable declared inside the loop body (by :=, var, or as the
// key/value of an inner range). Value types without pointers are always fresh copies.
func (c *classifier) aliasKind(o types.Object, depth int) int {
	if !refLike(o.Type(), 0) {
		return aliasFresh
	}
	if depth > 6 {
		return aliasOuter
	}
	kind, found := aliasFresh, false
	merge := func(k int) {
		found = true
		if k > kind {
			kind = k
		}
	}
	ast.Inspect(c.rs.Body, func(n ast.Node) bool {
		switch x := n.(type) {
		case *ast.AssignStmt:
			for i, l := range x.Lhs {
				id, ok := l.(*ast.Ident)
				if !ok {
					continue
				}
				if !(c.info().Defs[id] == o || (x.Tok == token.ASSIGN && c.info().Uses[id] == o)) {
					continue
				}
				switch {
				case len(x.Rhs) == len(x.Lhs):
					merge(c.exprAlias(x.Rhs[i], depth))
				case len(x.Rhs) == 1:
					// v, ok := m[k] / x.(T) / f()
					r := ast.Unparen(x.Rhs[0])
					if ta, isTA := r.(*ast.TypeAssertExpr); isTA {
						r = ta.X
					}
					merge(c.exprAlias(r, depth))
				default:
					merge(aliasOuter)
				}
			}
		case *ast.ValueSpec:
			for i, nm := range x.Names {
				if c.info().Defs[nm] == o {
					if i < len(x.Values) {
						merge(c.exprAlias(x.Values[i], depth))
					} else {
						merge(aliasFresh)
					}
				}
			}
		case *ast.RangeStmt:
			for _, kv := range []ast.Expr{x.Key, x.Value} {
				if id, ok := kv.(*ast.Ident); ok && c.info().Defs[id] == o {
					merge(c.exprAlias(x.X, depth))
				}
			}
		case *ast.TypeSwitchStmt:
			if as, ok := x.Assign.(*ast.AssignStmt); ok && len(as.Lhs) == 1 {
				// the symbolic variable is defined implicitly per clause
				for _, cl := range x.Body.List {
					if c.info().Implicits[cl] == o && len(as.Rhs) == 1 {
						if ta, ok := ast.Unparen(as.Rhs[0]).(*ast.TypeAssertExpr); ok {
							merge(c.exprAlias(ta.X, depth))
						} else {
							merge(aliasOuter)
						}
					}
				}
			}
		}
		return true
	})
	if !found {
		return aliasOuter // function literal parameter, etc.: unknown origin
	}
	return kind
}

func (c *classifier) stmt(s ast.Stmt, g guard) {
	switch x := s.(type) {
	case nil:
	case *ast.BlockStmt:
		c.stmts(x.List, g)
	case *ast.DeclStmt, *ast.EmptyStmt:
	case *ast.AssignStmt:
		for i, l := range x.Lhs {
			var r ast.Expr
			if len(x.Rhs) == len(x.Lhs) {
				r = x.Rhs[i]
			} else if len(x.Rhs) == 1 {
				r = x.Rhs[0]
			}
			c.assignTarget(l, r, x.Tok, g)
		}
	case *ast.IncDecStmt:
		if id, ok := ast.Unparen(x.X).(*ast.Ident); ok {
			o := c.objOf(id)
			if c.isLocal(o) {
				return
			}
			c.ctrs[o] = true
			c.eff("counter")
			return
		}
		c.assignTarget(x.X, nil, token.ADD_ASSIGN, g)
	case *ast.ExprStmt:
		if call, ok := x.X.(*ast.CallExpr); ok {
			if fid, ok := call.Fun.(*ast.Ident); ok && fid.Name == "delete" && len(call.Args) == 2 {
				if _, isBuiltin := c.objOf(fid).(*types.Builtin); isBuiltin {
					if id, ok := ast.Unparen(call.Args[1]).(*ast.Ident); ok && c.key != nil && c.objOf(id) == c.key {
						c.eff("map_write")
					} else {
						c.eff("derived_key_write")
					}
					return
				}
			}
			c.eff("unknown:call statement " + strings.SplitN(src(c.pkg.Fset, call.Fun), "\n", 2)[0])
			return
		}
		c.eff("unknown:expression statement")
	case *ast.IfStmt:
		c.stmt(x.Init, g)
		k, m := c.analyseCond(x.Cond)
		g2 := g
		if k {
			g2.keyed, g2.multi = true, false
		} else if m && !g.keyed {
			g2.multi = true
		}
		c.stmt(x.Body, g2)
		c.stmt(x.Else, g)
	case *ast.SwitchStmt:
		c.stmt(x.Init, g)
		// `switch K { case "a": ...; case "b": ... }`: every single-constant clause pins the key
		tagIsKey := false
		if id, ok := x.Tag.(*ast.Ident); ok && c.key != nil && c.objOf(id) == c.key {
			tagIsKey = true
		}
		for _, cl := range x.Body.List {
			cc := cl.(*ast.CaseClause)
			g2 := g
			if tagIsKey && len(cc.List) == 1 && c.isConst(cc.List[0]) {
				g2.keyed, g2.multi = true, false
			} else if tagIsKey && len(cc.List) > 1 && !g.keyed {
				g2.multi = true
			}
			g2.inner = true
			c.stmts(cc.Body, g2)
		}
	case *ast.TypeSwitchStmt:
		c.stmt(x.Init, g)
		g2 := g
		g2.inner = true
		for _, cl := range x.Body.List {
			c.stmts(cl.(*ast.CaseClause).Body, g2)
		}
	case *ast.ForStmt:
		g2 := g
		g2.inner = true
		c.stmt(x.Init, g2)
		c.stmt(x.Post, g2)
		c.stmt(x.Body, g2)
	case *ast.RangeStmt:
		g2 := g
		g2.inner = true
		c.stmt(x.Body, g2)
	case *ast.BranchStmt:
		if x.Tok == token.GOTO || x.Label != nil {
			c.eff("unknown:labelled branch")
			return
		}
		if x.Tok == token.BREAK && !g.inner {
			if g.keyed {
				c.eff("break_keyed")
			} else {
				c.eff("break")
			}
		}
	case *ast.ReturnStmt:
		allConst := true
		for _, r := range x.Results {
			if !c.isConst(r) {
				allConst = false
			}
		}
		switch {
		case allConst:
			c.eff("return_const")
		case g.keyed:
			c.eff("return_keyed")
		case g.multi:
			c.eff("multi_key_match")
		default:
			c.eff("return_value")
		}
	default:
		c.eff(fmt.Sprintf("unknown:%T", s))
	}
}

// sortedAfter: the first use of o after the loop is as first argument of a sort call.
// Returns "" (not sorted), "natural" (sort.Strings/Ints/Float64s, slices.Sort: the order of the
// elements themselves) or "comparator" (order given by user code).
func (c *classifier) sortedAfter(o types.Object) string {
	var first *ast.Ident
	ast.Inspect(c.fn, func(n ast.Node) bool {
		id, ok := n.(*ast.Ident)
		if !ok || id.Pos() <= c.rs.End() || c.info().Uses[id] != o {
			return true
		}
		if first == nil || id.Pos() < first.Pos() {
			first = id
		}
		return true
	})
	if first == nil {
		return ""
	}
	ok := ""
	ast.Inspect(c.fn, func(n ast.Node) bool {
		call, isCall := n.(*ast.CallExpr)
		if !isCall || len(call.Args) == 0 || first.Pos() < call.Pos() || first.Pos() > call.End() {
			return true
		}
		sel, isSel := call.Fun.(*ast.SelectorExpr)
		if !isSel {
			return true
		}
		pid, isID := sel.X.(*ast.Ident)
		if !isID {
			return true
		}
		pn, isPkg := c.objOf(pid).(*types.PkgName)
		if !isPkg {
			return true
		}
		name := pn.Imported().Path() + "." + sel.Sel.Name
		switch name {
		case "sort.Strings", "sort.Ints", "sort.Float64s", "sort.Slice", "sort.SliceStable", "sort.Sort", "sort.Stable",
			"slices.Sort", "slices.SortFunc", "slices.SortStableFunc":
			a0 := ast.Unparen(call.Args[0])
			// sort.Sort(byName(x)) wraps the slice in a conversion
			if conv, isConv := a0.(*ast.CallExpr); isConv && len(conv.Args) == 1 {
				a0 = ast.Unparen(conv.Args[0])
			}
			if id, isID := a0.(*ast.Ident); isID && id == first {
				switch name {
				case "sort.Strings", "sort.Ints", "sort.Float64s", "slices.Sort":
					if a0 == ast.Unparen(call.Args[0]) {
						ok = "natural"
					} else {
						ok = "comparator"
					}
				default:
					ok = "comparator"
				}
			}
		}
		return true
	})
	return ok
}

func (c *classifier) classify(singleton bool) string {
	c.stmt(c.rs.Body, guard{})
	if singleton {
		return "singleton"
	}
	has := map[string]bool{}
	for _, e := range c.effs {
		if strings.HasPrefix(e, "unknown") {
			return "unknown"
		}
		has[e] = true
	}
	// sensitive effects first
	for _, s := range []string{"string_concat", "multi_key_match", "last_write_wins", "derived_key_write", "return_value"} {
		if has[s] {
			if s == "return_value" {
				return "first_match_ambiguous"
			}
			return s
		}
	}
	if has["collect"] {
		// the slice that received the appends must itself be sorted, in the natural order
		// of its elements, and the elements must be the (pairwise distinct) map keys:
		// only then is the sorted slice a function of the map alone
		derived := false
		for o, keyOnly := range c.colls {
			switch c.sortedAfter(o) {
			case "":
				return "order_sensitive_append"
			case "comparator":
				derived = true
			default:
				if !keyOnly {
					derived = true
				}
			}
		}
		if derived {
			return "collect_derived_sort"
		}
	}
	// leaving the loop early (return / break) while other entries have already had an
	// effect selects "the entries visited first": order-sensitive
	early := has["break"] || has["return_const"] || has["return_keyed"] || has["break_keyed"]
	writes := has["map_write"] || has["elem_write"] || has["collect"] || has["counter"] || has["keyed_write"]
	if early && writes && !(has["break_keyed"] && !has["break"] && !has["return_const"] && !has["map_write"] && !has["elem_write"] && !has["collect"] && !has["counter"]) {
		return "first_match_ambiguous"
	}
	shapes := map[string]bool{}
	if has["collect"] {
		shapes["collect_then_sort"] = true
	}
	if has["counter"] && !has["collect"] {
		shapes["commutative_acc"] = true
	}
	if has["const_set"] {
		shapes["commutative_acc"] = true
	}
	if has["map_write"] {
		shapes["writes_map"] = true
	}
	if has["elem_write"] {
		shapes["per_element_write"] = true
	}
	if has["keyed_write"] || has["return_keyed"] {
		shapes["keyed_lookup"] = true
	}
	if has["return_const"] {
		shapes["exists_test"] = true
	}
	switch len(shapes) {
	case 0:
		return "no_effect"
	case 1:
		for k := range shapes {
			return k
		}
	}
	if shapes["exists_test"] && shapes["commutative_acc"] && len(shapes) == 2 {
		return "exists_test"
	}
	return "commuting_writes"
}

// oneEntryLiteral: the ranged expression is a package-level variable initialised with a
// composite literal of exactly one element and never assigned (or indexed-assigned,
// deleted from, address-taken) anywhere in its package.
func oneEntryLiteral(p *packages.Package, e ast.Expr) bool {
	id, ok := ast.Unparen(e).(*ast.Ident)
	if !ok {
		return false
	}
	v, ok := p.TypesInfo.Uses[id].(*types.Var)
	if !ok || v.Parent() != p.Types.Scope() {
		return false
	}
	one, mutated := false, false
	for _, f := range p.Syntax {
		ast.Inspect(f, func(n ast.Node) bool {
			switch x := n.(type) {
			case *ast.ValueSpec:
				for i, nm := range x.Names {
					if p.TypesInfo.Defs[nm] == v && i < len(x.Values) {
						if cl, ok := x.Values[i].(*ast.CompositeLit); ok && len(cl.Elts) == 1 {
							one = true
						}
					}
				}
			case *ast.AssignStmt:
				for _, l := range x.Lhs {
					if r := rootIdent(l); r != nil && p.TypesInfo.Uses[r] == v {
						mutated = true
					}
				}
			case *ast.IncDecStmt:
				if r := rootIdent(x.X); r != nil && p.TypesInfo.Uses[r] == v {
					mutated = true
				}
			case *ast.UnaryExpr:
				if x.Op == token.AND {
					if r := rootIdent(x.X); r != nil && p.TypesInfo.Uses[r] == v {
						mutated = true
					}
				}
			case *ast.CallExpr:
				if fid, ok := x.Fun.(*ast.Ident); ok && (fid.Name == "delete" || fid.Name == "clear") && len(x.Args) > 0 {
					if r := rootIdent(x.Args[0]); r != nil && p.TypesInfo.Uses[r] == v {
						mutated = true
					}
				}
			}
			return true
		})
	}
	return one && !mutated
}

// pathShapes: how the Path of a codegen.File literal is computed. Every expression that
// can reach the Path field (the field value itself, or every assignment to the variable
// it names, inside the enclosing declaration) must be filepath.Join(args...); each
// argument is classified G (codegen.Gendir), L:<text> (string literal), S (a SnakeCase
// result: x.PathName, codegen.SnakeCase(...), or a variable only ever assigned those),
// O (anything else). Anything unrecognised yields the single shape [O].
func pathShapes(p *packages.Package, decl ast.Node, lit *ast.CompositeLit) [][]string {
	info := p.TypesInfo
	assignments := func(o types.Object) []ast.Expr {
		var out []ast.Expr
		ast.Inspect(decl, func(n ast.Node) bool {
			switch x := n.(type) {
			case *ast.AssignStmt:
				for i, l := range x.Lhs {
					id, ok := l.(*ast.Ident)
					if !ok || !(info.Defs[id] == o || info.Uses[id] == o) {
						continue
					}
					if len(x.Rhs) == len(x.Lhs) {
						out = append(out, x.Rhs[i])
					} else {
						out = append(out, nil)
					}
				}
			case *ast.ValueSpec:
				for i, nm := range x.Names {
					if info.Defs[nm] == o && i < len(x.Values) {
						out = append(out, x.Values[i])
					}
				}
			}
			return true
		})
		return out
	}
	var isSnake func(e ast.Expr, depth int) bool
	isSnake = func(e ast.Expr, depth int) bool {
		switch x := ast.Unparen(e).(type) {
		case *ast.SelectorExpr:
			return x.Sel.Name == "PathName"
		case *ast.CallExpr:
			switch f := x.Fun.(type) {
			case *ast.SelectorExpr:
				return f.Sel.Name == "SnakeCase"
			case *ast.Ident:
				return f.Name == "SnakeCase"
			}
		case *ast.Ident:
			if depth > 2 {
				return false
			}
			o := info.Uses[x]
			if o == nil {
				return false
			}
			as := assignments(o)
			if len(as) == 0 {
				return false
			}
			for _, a := range as {
				if a == nil || !isSnake(a, depth+1) {
					return false
				}
			}
			return true
		}
		return false
	}
	joinArgs := func(e ast.Expr) ([]string, bool) {
		call, ok := ast.Unparen(e).(*ast.CallExpr)
		if !ok {
			return nil, false
		}
		sel, ok := call.Fun.(*ast.SelectorExpr)
		if !ok || sel.Sel.Name != "Join" {
			return nil, false
		}
		if pid, ok := sel.X.(*ast.Ident); !ok {
			return nil, false
		} else if pn, ok := info.Uses[pid].(*types.PkgName); !ok || (pn.Imported().Path() != "path/filepath" && pn.Imported().Path() != "path") {
			return nil, false
		}
		if call.Ellipsis != token.NoPos {
			return nil, false
		}
		var out []string
		for _, a := range call.Args {
			a = ast.Unparen(a)
			switch {
			case func() bool {
				if s, ok := a.(*ast.SelectorExpr); ok && s.Sel.Name == "Gendir" {
					return true
				}
				if id, ok := a.(*ast.Ident); ok && id.Name == "Gendir" {
					return true
				}
				return false
			}():
				out = append(out, "G")
			case func() bool {
				tv, ok := info.Types[a]
				return ok && tv.Value != nil && tv.Value.Kind() == constant.String
			}():
				out = append(out, "L:"+constant.StringVal(info.Types[a].Value))
			case isSnake(a, 0):
				out = append(out, "S")
			default:
				out = append(out, "O")
			}
		}
		return out, true
	}
	var pathExpr ast.Expr
	for _, el := range lit.Elts {
		if kv, ok := el.(*ast.KeyValueExpr); ok {
			if kid, ok := kv.Key.(*ast.Ident); ok && kid.Name == "Path" {
				pathExpr = kv.Value
			}
		}
	}
	if pathExpr == nil {
		return [][]string{{"O"}}
	}
	if sh, ok := joinArgs(pathExpr); ok {
		return [][]string{sh}
	}
	id, ok := ast.Unparen(pathExpr).(*ast.Ident)
	if !ok {
		return [][]string{{"O"}}
	}
	as := assignments(info.Uses[id])
	if len(as) == 0 {
		return [][]string{{"O"}}
	}
	var out [][]string
	for _, a := range as {
		if a == nil {
			return [][]string{{"O"}}
		}
		sh, ok := joinArgs(a)
		if !ok {
			return [][]string{{"O"}}
		}
		out = append(out, sh)
	}
	return out
}

func coqBytes(s string) string {
	parts := make([]string, len(s))
	for i := 0; i < len(s); i++ {
		parts[i] = fmt.Sprint(s[i])
	}
	return "[" + strings.Join(parts, ";") + "]%N"
}

// ---------------------------------------------------------------- main

func main() {
	repo := flag.String("repo", "/repo", "")
	allowPath := flag.String("allow", "", "")
	outV := flag.String("out", "", "")
	outJSON := flag.String("json", "", "")
	flag.Parse()

	var allow []AllowEntry
	ambientAllow := map[string]string{}
	pathAllow := map[string]string{}
	var ambients []Ambient
	if *allowPath != "" {
		b, err := os.ReadFile(*allowPath)
		if err == nil {
			var f struct {
				Entries []AllowEntry `json:"entries"`
				Ambient []struct {
					Site string `json:"site"`
					Why  string `json:"why"`
				} `json:"ambient"`
				Paths []struct {
					Site string `json:"site"`
					Why  string `json:"why"`
				} `json:"paths"`
			}
			if err := json.Unmarshal(b, &f); err != nil {
				fmt.Fprintln(os.Stderr, "allow-list unreadable:", err)
				os.Exit(2)
			}
			allow = f.Entries
			for _, a := range f.Ambient {
				ambientAllow[a.Site] = a.Why
			}
			for _, a := range f.Paths {
				pathAllow[a.Site] = a.Why
			}
		}
	}
	allowBy := map[string]AllowEntry{}
	for _, a := range allow {
		allowBy[a.Site] = a
	}

	cfg := &packages.Config{Mode: packages.NeedName | packages.NeedSyntax | packages.NeedTypes | packages.NeedTypesInfo |
		packages.NeedFiles | packages.NeedCompiledGoFiles | packages.NeedImports, Dir: *repo}
	pkgs, err := packages.Load(cfg, pkgPatterns...)
	if err != nil {
		fmt.Fprintln(os.Stderr, "load:", err)
		os.Exit(2)
	}
	sort.Slice(pkgs, func(i, j int) bool { return pkgs[i].PkgPath < pkgs[j].PkgPath })
	var loadErrs []string
	for _, p := range pkgs {
		for _, e := range p.Errors {
			loadErrs = append(loadErrs, e.Error())
		}
	}
	if len(loadErrs) > 0 {
		fmt.Fprintln(os.Stderr, "packages do not type-check:\n"+strings.Join(loadErrs, "\n"))
		os.Exit(2)
	}

	var sites []Site
	var fsites []FileSite
	calls := map[string]map[string]bool{} // static call graph by function key
	fileLitFn := map[int]string{}         // index in fsites -> function key

	for _, p := range pkgs {
		rel := strings.TrimPrefix(p.PkgPath, modPrefix)
		files := append([]*ast.File(nil), p.Syntax...)
		sort.Slice(files, func(i, j int) bool {
			return p.Fset.Position(files[i].Pos()).Filename < p.Fset.Position(files[j].Pos()).Filename
		})
		for _, f := range files {
			fname := p.Fset.Position(f.Pos()).Filename
			if strings.HasSuffix(fname, "_test.go") {
				continue
			}
			relFile := strings.TrimPrefix(fname, strings.TrimSuffix(*repo, "/")+"/")
			for _, d := range f.Decls {
				name := ""
				recv := ""
				switch x := d.(type) {
				case *ast.FuncDecl:
					name = x.Name.Name
					if x.Recv != nil && len(x.Recv.List) > 0 {
						recv = recvName(x.Recv.List[0].Type)
					}
				case *ast.GenDecl:
					name = "<decl>"
					if len(x.Specs) > 0 {
						if vs, ok := x.Specs[0].(*ast.ValueSpec); ok && len(vs.Names) > 0 {
							name = "<var " + vs.Names[0].Name + ">"
						}
					}
				}
				fkey := funcKey(p.PkgPath, recv, name)
				disp := name
				if recv != "" {
					disp = recv + "." + name
				}
				if calls[fkey] == nil {
					calls[fkey] = map[string]bool{}
				}
				idx, fidx := 0, 0
				// parents of nodes (for the singleton guard)
				var stack []ast.Node
				ast.Inspect(d, func(n ast.Node) bool {
					if n == nil {
						stack = stack[:len(stack)-1]
						return true
					}
					stack = append(stack, n)
					switch x := n.(type) {
					case *ast.CallExpr:
						if sel, ok := x.Fun.(*ast.SelectorExpr); ok && localZoneMethods[sel.Sel.Name] && isTimeTime(p.TypesInfo.TypeOf(sel.X)) && !pinnedToUTC(p.TypesInfo, sel.X) {
							an := fmt.Sprintf("%s:%s time.Time.%s in the local zone", rel, disp, sel.Sel.Name)
							why, ok := ambientAllow[an]
							ambients = append(ambients, Ambient{Name: an, File: relFile, Line: p.Fset.Position(x.Pos()).Line, Allowed: ok, Why: why})
						}
					case *ast.SelectorExpr:
						if pid, ok := x.X.(*ast.Ident); ok {
							if pn, ok := p.TypesInfo.Uses[pid].(*types.PkgName); ok && ambientFuncs[pn.Imported().Path()][x.Sel.Name] {
								an := fmt.Sprintf("%s:%s %s.%s", rel, disp, pn.Imported().Path(), x.Sel.Name)
								why, ok := ambientAllow[an]
								ambients = append(ambients, Ambient{Name: an, File: relFile, Line: p.Fset.Position(x.Pos()).Line, Allowed: ok, Why: why})
							}
						}
					case *ast.Ident:
						if o := p.TypesInfo.Uses[x]; o != nil {
							if k := objKey(o); k != "" {
								calls[fkey][k] = true
							}
						}
					case *ast.CompositeLit:
						t := p.TypesInfo.TypeOf(x)
						if t != nil {
							if pt, ok := t.(*types.Pointer); ok {
								t = pt.Elem()
							}
							if nt, ok := t.(*types.Named); ok && nt.Obj().Name() == "File" && nt.Obj().Pkg() != nil && nt.Obj().Pkg().Path() == modPrefix+"codegen" {
								skip := false
								for _, el := range x.Elts {
									if kv, ok := el.(*ast.KeyValueExpr); ok {
										if kid, ok := kv.Key.(*ast.Ident); ok && kid.Name == "SkipExist" {
											if tv, ok := p.TypesInfo.Types[kv.Value]; ok && tv.Value != nil && tv.Value.Kind() == constant.Bool && constant.BoolVal(tv.Value) {
												skip = true
											}
										}
									}
								}
								fileLitFn[len(fsites)] = fkey
								fsites = append(fsites, FileSite{Name: fmt.Sprintf("%s:%s#%d", rel, disp, fidx), File: relFile,
									Line: p.Fset.Position(x.Pos()).Line, SkipExist: skip, PathShapes: pathShapes(p, d, x)})
								fidx++
							}
						}
					case *ast.RangeStmt:
						t := p.TypesInfo.TypeOf(x.X)
						if t == nil {
							return true
						}
						if _, ok := t.Underlying().(*types.Map); !ok {
							return true
						}
						cl := &classifier{pkg: p, fn: d, rs: x, colls: map[types.Object]bool{}, ctrs: map[types.Object]bool{}}
						if id, ok := x.Key.(*ast.Ident); ok && id.Name != "_" {
							cl.key = cl.objOf(id)
						}
						if id, ok := x.Value.(*ast.Ident); ok && id.Name != "_" {
							cl.val = cl.objOf(id)
						}
						// singleton guard: the nearest enclosing if is `len(<X>) == 1`
						single := false
						for i := len(stack) - 2; i >= 0; i-- {
							if is, ok := stack[i].(*ast.IfStmt); ok {
								// the range must be in the then-branch
								if x.Pos() >= is.Body.Pos() && x.End() <= is.Body.End() {
									if b, ok := is.Cond.(*ast.BinaryExpr); ok && b.Op == token.EQL {
										if call, ok := b.X.(*ast.CallExpr); ok && len(call.Args) == 1 {
											if fid, ok := call.Fun.(*ast.Ident); ok && fid.Name == "len" &&
												src(p.Fset, call.Args[0]) == src(p.Fset, x.X) && src(p.Fset, b.Y) == "1" {
												single = true
											}
										}
									}
								}
								break
							}
							if _, ok := stack[i].(*ast.FuncLit); ok {
								break
							}
						}
						if !single && oneEntryLiteral(p, x.X) {
							single = true
						}
						text := src(p.Fset, x)
						raw := cl.classify(single)
						s := Site{Name: fmt.Sprintf("%s:%s#%d", rel, disp, idx), File: relFile, Line: p.Fset.Position(x.Pos()).Line,
							RawShape: raw, Shape: raw, Effects: cl.effs, Fingerprint: fingerprint(text), Text: text}
						if a, ok := allowBy[s.Name]; ok && !insensitive[raw] {
							if a.Fingerprint == s.Fingerprint && a.Shape == raw {
								s.Allow, s.Why = a.Kind, a.Why
								if a.Kind == "finding" {
									s.Shape = "known_sensitive"
								} else {
									s.Shape = "inspected_harmless"
								}
							} else {
								s.Allow = "stale"
								s.Why = fmt.Sprintf("allow-list entry was written for fingerprint %s shape %s, the loop now has fingerprint %s shape %s", a.Fingerprint, a.Shape, s.Fingerprint, raw)
							}
						}
						sites = append(sites, s)
						idx++
					}
					return true
				})
			}
		}
	}

	// reachability from the generators
	reach := func(roots ...string) map[string]bool {
		seen := map[string]bool{}
		var work []string
		for _, r := range roots {
			work = append(work, r)
		}
		for len(work) > 0 {
			k := work[len(work)-1]
			work = work[:len(work)-1]
			if seen[k] {
				continue
			}
			seen[k] = true
			for c := range calls[k] {
				if !seen[c] {
					work = append(work, c)
				}
			}
		}
		return seen
	}
	gp := modPrefix + "codegen/generator"
	fromEx := reach(gp + ":Example")
	fromGen := reach(gp+":Service", gp+":Transport", gp+":OpenAPI")
	for i := range fsites {
		fsites[i].FromEx = fromEx[fileLitFn[i]]
		fsites[i].FromGen = fromGen[fileLitFn[i]]
	}
	if len(fromEx) < 5 || len(fromGen) < 5 {
		fmt.Fprintln(os.Stderr, "generator entry points not found (codegen/generator Example/Service/Transport/OpenAPI)")
		os.Exit(2)
	}

	// unused allow-list entries are reported (not fatal: the site may have been removed)
	used := map[string]bool{}
	for _, s := range sites {
		if s.Allow != "" {
			used[s.Name] = true
		}
	}
	var unused []string
	for _, a := range allow {
		if !used[a.Site] {
			unused = append(unused, a.Site)
		}
	}

	if *outJSON != "" {
		b, _ := json.MarshalIndent(map[string]any{"sites": sites, "file_sites": fsites, "ambient_sites": ambients, "unused_allow_entries": unused}, "", " ")
		if err := os.WriteFile(*outJSON, b, 0o644); err != nil {
			panic(err)
		}
	}
	if *outV != "" {
		var b strings.Builder
		b.WriteString("(* GENERATED by translate/c09 from the goa source tree on every run of bin/check C09. Do not edit. *)\n")
		b.WriteString("From GenFS Require Import Model.\nFrom Coq Require Import List String NArith.\nImport ListNotations.\nOpen Scope string_scope.\n\n")
		b.WriteString("Definition mapranges : list site := [\n")
		for i, s := range sites {
			sep := ";"
			if i == len(sites)-1 {
				sep = ""
			}
			fmt.Fprintf(&b, "  mk_site %q %s%s\n", s.Name, coqShape(s.Shape), sep)
		}
		b.WriteString("].\n\nDefinition file_sites : list file_site := [\n")
		for i, f := range fsites {
			sep := ";"
			if i == len(fsites)-1 {
				sep = ""
			}
			fmt.Fprintf(&b, "  mk_file_site %q %v %v %v%s\n", f.Name, f.FromEx, f.FromGen, f.SkipExist, sep)
		}
		b.WriteString("].\n\n(* how the Path of every codegen.File literal reachable from the gen generators is computed *)\nDefinition gen_path_sites : list path_site := [\n")
		var plines []string
		for _, f := range fsites {
			if !f.FromGen {
				continue
			}
			for k, sh := range f.PathShapes {
				var cs []string
				for _, c := range sh {
					switch {
					case c == "G":
						cs = append(cs, "PGendir")
					case c == "S":
						cs = append(cs, "PSvc")
					case strings.HasPrefix(c, "L:"):
						cs = append(cs, "PLit "+coqBytes(c[2:]))
					default:
						cs = append(cs, "POther")
					}
				}
				_, insp := pathAllow[f.Name]
				plines = append(plines, fmt.Sprintf("  mk_path_site %q [%s] %v", fmt.Sprintf("%s@%d", f.Name, k), strings.Join(cs, "; "), insp))
			}
		}
		b.WriteString(strings.Join(plines, ";\n"))
		b.WriteString("\n].\n\nDefinition ambient_sites : list ambient_site := [\n")
		for i, a := range ambients {
			sep := ";"
			if i == len(ambients)-1 {
				sep = ""
			}
			fmt.Fprintf(&b, "  mk_ambient %q %v%s\n", a.Name, a.Allowed, sep)
		}
		b.WriteString("].\n")
		if err := os.WriteFile(*outV, []byte(b.String()), 0o644); err != nil {
			panic(err)
		}
	}
	bad := 0
	for _, s := range sites {
		if !insensitive[s.Shape] && s.Shape != "inspected_harmless" {
			bad++
			fmt.Printf("SENSITIVE %s shape=%s effects=%v %s:%d fingerprint=%s %s\n", s.Name, s.Shape, s.Effects, s.File, s.Line, s.Fingerprint, s.Why)
		}
	}
	for _, f := range fsites {
		if !f.FromGen {
			continue
		}
		for _, sh := range f.PathShapes {
			ok := len(sh) >= 3 && sh[0] == "G"
			for _, c := range sh[min(1, len(sh)):] {
				if c == "O" || c == "G" || c == "L:" || c == "L:." || c == "L:.." || strings.Contains(c[1:], "/") {
					ok = false
				}
			}
			if _, insp := pathAllow[f.Name]; !ok && !insp {
				bad++
				fmt.Printf("PATH %s shape=%v %s:%d\n", f.Name, sh, f.File, f.Line)
			}
		}
	}
	for _, a := range ambients {
		if !a.Allowed {
			bad++
			fmt.Printf("AMBIENT %s %s:%d\n", a.Name, a.File, a.Line)
		}
	}
	fmt.Printf("sites=%d file_sites=%d ambient_sites=%d not_ok=%d unused_allow=%d\n", len(sites), len(fsites), len(ambients), bad, len(unused))
}

func coqShape(s string) string {
	switch s {
	case "writes_map":
		return "WritesMap"
	case "collect_then_sort":
		return "CollectThenSort"
	case "keyed_lookup":
		return "KeyedLookup"
	case "exists_test":
		return "ExistsTest"
	case "commutative_acc":
		return "CommutativeAcc"
	case "per_element_write":
		return "PerElementWrite"
	case "commuting_writes":
		return "CommutingWrites"
	case "singleton":
		return "Singleton"
	case "no_effect":
		return "NoEffect"
	case "inspected_harmless":
		return "InspectedHarmless"
	case "known_sensitive":
		return "KnownSensitive"
	case "order_sensitive_append":
		return "OrderSensitiveAppend"
	case "string_concat":
		return "StringConcat"
	case "last_write_wins":
		return "LastWriteWins"
	case "multi_key_match":
		return "MultiKeyMatch"
	case "first_match_ambiguous":
		return "FirstMatchAmbiguous"
	case "derived_key_write":
		return "DerivedKeyWrite"
	case "collect_derived_sort":
		return "CollectDerivedSort"
	}
	return "Unknown"
}
