module c09translate

go 1.22.0

require golang.org/x/tools v0.26.0

require (
	golang.org/x/mod v0.21.0 // indirect
	golang.org/x/sync v0.8.0 // indirect
)
