// Command c20translate extracts the shared-memory access footprint of goa's request
// path from source text and writes it as a Coq term (coq/Conc/Generated_footprint.v)
// plus a JSON diagnostic. It is run by `bin/check C20` on every run, so that an edit
// of the anchored runtime files or of the server/client templates changes the term the
// instance theorem goa_request_path_race_free is proved about.
//
// go/ast only (identifier resolution of the parser, syntactic types). What it does:
//
//   - every function of the anchored runtime files and of the generated packages is a
//     body; a body is REQUEST-phase unless the committed table phases.json lists it as
//     setup. A function that returns a function literal is a constructor: its own
//     statements are a request body, the literals it contains are request bodies whose
//     free variables (declared in the constructor) are SHARED locations. A literal started
//     with `go` is a body of its own whose free variables are shared with its parent.
//   - shared locations: package-level variables, fields reached through the receiver of a
//     method (one abstract location per type and field) unless the type is listed as
//     request scoped, free variables of literals as above, and everything reached by
//     selecting / indexing / dereferencing from those.
//   - per body every control-flow path is enumerated (if/else, switch, select, loop body
//     zero or one time, early return, panic; defers run at the end) and emitted as a list
//     of actions: Acc (plain read/write), AAcc (sync/atomic functions and types, sync.Map
//     and other sync.* objects), Lk/Ulk/RLk/RUlk (sync.Mutex / sync.RWMutex, also embedded)
//     on mutexes that are themselves shared locations.
//   - fail closed: a lock operation on a mutex that is local to the request, reached through
//     a parameter or of unresolved type grants nothing (no action is emitted for it); taking
//     the address of a shared location outside an atomic call is a plain write; unknown
//     method names on mutexes are ignored; calls are not followed (every callee is a body
//     of its own, analysed with an empty lock set).
package main

import (
	"encoding/json"
	"flag"
	"fmt"
	"go/ast"
	"go/parser"
	"go/token"
	"os"
	"path/filepath"
	"regexp"
	"sort"
	"strings"
)

// ---------------------------------------------------------------- tables

type phaseTable struct {
	RuntimeFiles       []string                     `json:"runtime_files"`
	Setup              map[string]map[string]string `json:"setup"`
	RequestScopedTypes map[string]map[string]string `json:"request_scoped_types"`
	GeneratedSetup     struct {
		Patterns []string `json:"patterns"`
	} `json:"generated_setup_regex"`
	GeneratedScoped struct {
		Patterns []string `json:"patterns"`
	} `json:"generated_request_scoped_regex"`
}

// ---------------------------------------------------------------- model

type Act struct {
	Kind  string `json:"k"` // Acc AAcc Lk Ulk RLk RUlk
	Name  string `json:"n"` // location or mutex
	Write bool   `json:"w,omitempty"`
	Pos   string `json:"p,omitempty"`
	Shape string `json:"s,omitempty"` // "index": the write stores one element / key of the location
}

func (a Act) key() string {
	w := "r"
	if a.Write {
		w = "w"
	}
	return a.Kind + " " + a.Name + " " + w
}

type frag struct {
	acts   []Act
	term   int     // 0 falls through, 1 returned, 2 break/continue, 3 panicked
	defers [][]Act // deferred action lists, in registration order
}

func (f frag) key() string {
	var b strings.Builder
	for _, a := range f.acts {
		b.WriteString(a.key())
		b.WriteByte(';')
	}
	fmt.Fprintf(&b, "|%d|", f.term)
	for _, d := range f.defers {
		for _, a := range d {
			b.WriteString(a.key())
			b.WriteByte(';')
		}
		b.WriteByte('/')
	}
	return b.String()
}

const maxPaths = 600

type Body struct {
	Name  string  `json:"name"`
	Phase string  `json:"phase"` // request | setup
	Role  string  `json:"role"`  // function | constructor | closure | goroutine | setup
	File  string  `json:"file"`
	Line  int     `json:"line"`
	Paths [][]Act `json:"paths"`
}

type pkgInfo struct {
	id        string // short id used in names
	dir       string
	generated bool
	fset      *token.FileSet
	files     []*ast.File
	fnames    []string
	emit      map[*ast.File]bool
	structs   map[string]*ast.StructType
	structFil map[string]*ast.File
	named     map[string]ast.Expr // other named types
	vars      map[string]varInfo
	funcs     map[string]*ast.FuncDecl
	setup     map[string]bool
	reqScoped map[string]bool
}

type varInfo struct {
	typ  string
	file *ast.File
	// what the package-level variable is bound to by its initialiser: "math/rand.Intn" (a
	// function of another package), "regexp.MustCompile" (value built by that constructor),
	// "methodvalue:<var>.<Method>" (a method value of another package-level variable), "" otherwise
	binding string
}

// bindingOf describes the initialiser of a package-level variable (see varInfo.binding).
func bindingOf(v ast.Expr, imps map[string]string, p *pkgInfo) string {
	switch x := v.(type) {
	case *ast.ParenExpr:
		return bindingOf(x.X, imps, p)
	case *ast.UnaryExpr:
		return bindingOf(x.X, imps, p)
	case *ast.CallExpr:
		if sel, ok := x.Fun.(*ast.SelectorExpr); ok {
			if id, ok := sel.X.(*ast.Ident); ok {
				if path, ok := imps[id.Name]; ok && id.Obj == nil {
					return path + "." + sel.Sel.Name
				}
			}
		}
		if id, ok := x.Fun.(*ast.Ident); ok {
			return "call:" + id.Name
		}
	case *ast.SelectorExpr:
		if id, ok := x.X.(*ast.Ident); ok {
			if path, ok := imps[id.Name]; ok && id.Obj == nil {
				if _, isVar := p.vars[id.Name]; !isVar {
					return path + "." + x.Sel.Name
				}
			}
			return "methodvalue:" + id.Name + "." + x.Sel.Name
		}
	case *ast.CompositeLit:
		if x.Type != nil {
			return "literal:" + typeStr(x.Type, imps, p)
		}
	case *ast.FuncLit:
		return "funclit"
	}
	return ""
}

type translator struct {
	tbl     phaseTable
	genRe   []*regexp.Regexp
	bodies  []Body
	setupBs []Body
	notes   []string
	noteSet map[string]bool
	// composite literal sites per (pkg, type): phases seen
	litSites map[string]map[string]int
	// request-phase calls of mutator-named methods on shared objects of unresolved type
	opaque map[string][]string
	// functions outside the anchored files pulled in by the reference closure
	reached []string
	// binding of the package-level variables among the opaque objects
	bindings map[string]string
}

func (t *translator) note(format string, a ...any) {
	s := fmt.Sprintf(format, a...)
	if !t.noteSet[s] {
		t.noteSet[s] = true
		t.notes = append(t.notes, s)
	}
}

// ---------------------------------------------------------------- loading

func loadPkg(id, dir string, generated bool, only map[string]bool) (*pkgInfo, error) {
	p := &pkgInfo{id: id, dir: dir, generated: generated, fset: token.NewFileSet(), emit: map[*ast.File]bool{},
		structs: map[string]*ast.StructType{}, structFil: map[string]*ast.File{}, named: map[string]ast.Expr{},
		vars: map[string]varInfo{}, funcs: map[string]*ast.FuncDecl{}, setup: map[string]bool{}, reqScoped: map[string]bool{}}
	ents, err := os.ReadDir(dir)
	if err != nil {
		return nil, err
	}
	var names []string
	for _, e := range ents {
		n := e.Name()
		if e.IsDir() || !strings.HasSuffix(n, ".go") || strings.HasSuffix(n, "_test.go") {
			continue
		}
		names = append(names, n)
	}
	sort.Strings(names)
	for _, n := range names {
		f, err := parser.ParseFile(p.fset, filepath.Join(dir, n), nil, parser.ParseComments)
		if err != nil {
			return nil, fmt.Errorf("parse %s: %w", filepath.Join(dir, n), err)
		}
		p.files = append(p.files, f)
		p.fnames = append(p.fnames, n)
		if only == nil || only[n] {
			p.emit[f] = true
		}
	}
	for _, f := range p.files {
		imps := importsOf(f)
		for _, d := range f.Decls {
			switch d := d.(type) {
			case *ast.GenDecl:
				for _, s := range d.Specs {
					switch s := s.(type) {
					case *ast.TypeSpec:
						if st, ok := s.Type.(*ast.StructType); ok {
							p.structs[s.Name.Name] = st
							p.structFil[s.Name.Name] = f
						} else {
							p.named[s.Name.Name] = s.Type
						}
					case *ast.ValueSpec:
						if d.Tok != token.VAR {
							continue
						}
						for i, n := range s.Names {
							ty := ""
							if s.Type != nil {
								ty = typeStr(s.Type, imps, p)
							} else if i < len(s.Values) {
								ty = typeOfInit(s.Values[i], imps, p)
							}
							bd := ""
							if i < len(s.Values) {
								bd = bindingOf(s.Values[i], imps, p)
							}
							p.vars[n.Name] = varInfo{ty, f, bd}
						}
					}
				}
			case *ast.FuncDecl:
				p.funcs[funcKey(d)] = d
			}
		}
	}
	return p, nil
}

func importsOf(f *ast.File) map[string]string {
	m := map[string]string{}
	for _, im := range f.Imports {
		path := strings.Trim(im.Path.Value, `"`)
		name := path[strings.LastIndex(path, "/")+1:]
		if im.Name != nil {
			name = im.Name.Name
		}
		// version suffix directories (…/v5) are imported under the previous element
		if regexp.MustCompile(`^v[0-9]+$`).MatchString(name) && im.Name == nil {
			parts := strings.Split(path, "/")
			if len(parts) >= 2 {
				name = parts[len(parts)-2]
			}
		}
		m[name] = path
	}
	return m
}

func recvTypeName(d *ast.FuncDecl) string {
	if d.Recv == nil || len(d.Recv.List) == 0 {
		return ""
	}
	t := d.Recv.List[0].Type
	for {
		switch x := t.(type) {
		case *ast.StarExpr:
			t = x.X
			continue
		case *ast.IndexExpr:
			t = x.X
			continue
		case *ast.ParenExpr:
			t = x.X
			continue
		case *ast.Ident:
			return x.Name
		}
		return ""
	}
}

func funcKey(d *ast.FuncDecl) string {
	if r := recvTypeName(d); r != "" {
		return r + "." + d.Name.Name
	}
	return d.Name.Name
}

// typeStr gives a canonical syntactic type: "sync.Mutex", "sync/atomic.Int64",
// "struct:mux", "named:fixedSampler", "" when unknown. Pointers are stripped.
func typeStr(t ast.Expr, imps map[string]string, p *pkgInfo) string {
	switch x := t.(type) {
	case *ast.StarExpr:
		return typeStr(x.X, imps, p)
	case *ast.ParenExpr:
		return typeStr(x.X, imps, p)
	case *ast.IndexExpr:
		return typeStr(x.X, imps, p)
	case *ast.SelectorExpr:
		if id, ok := x.X.(*ast.Ident); ok {
			if path, ok := imps[id.Name]; ok {
				return path + "." + x.Sel.Name
			}
		}
	case *ast.Ident:
		if _, ok := p.structs[x.Name]; ok {
			return "struct:" + x.Name
		}
		if _, ok := p.named[x.Name]; ok {
			return "named:" + x.Name
		}
	}
	return ""
}

func typeOfInit(v ast.Expr, imps map[string]string, p *pkgInfo) string {
	switch x := v.(type) {
	case *ast.UnaryExpr:
		if x.Op == token.AND {
			return typeOfInit(x.X, imps, p)
		}
	case *ast.CompositeLit:
		if x.Type != nil {
			return typeStr(x.Type, imps, p)
		}
	case *ast.CallExpr:
		if id, ok := x.Fun.(*ast.Ident); ok && id.Name == "new" && len(x.Args) == 1 {
			return typeStr(x.Args[0], imps, p)
		}
	case *ast.ParenExpr:
		return typeOfInit(x.X, imps, p)
	}
	return ""
}

func isMutexType(t string) bool { return t == "sync.Mutex" || t == "sync.RWMutex" }
func isAtomicType(t string) bool {
	return strings.HasPrefix(t, "sync/atomic.")
}
func isSyncObj(t string) bool { return strings.HasPrefix(t, "sync.") || isAtomicType(t) }

// embeddedMutex returns the name of an embedded sync.Mutex / sync.RWMutex field of a struct.
func (p *pkgInfo) embeddedMutex(name string) (field, typ string) {
	st, ok := p.structs[name]
	if !ok {
		return "", ""
	}
	imps := importsOf(p.structFil[name])
	for _, f := range st.Fields.List {
		if len(f.Names) != 0 {
			continue
		}
		ty := typeStr(f.Type, imps, p)
		if isMutexType(ty) {
			return ty[strings.LastIndex(ty, ".")+1:], ty
		}
	}
	return "", ""
}

func (p *pkgInfo) fieldType(structName, field string) (string, bool) {
	st, ok := p.structs[structName]
	if !ok {
		return "", false
	}
	imps := importsOf(p.structFil[structName])
	for _, f := range st.Fields.List {
		for _, n := range f.Names {
			if n.Name == field {
				return typeStr(f.Type, imps, p), true
			}
		}
		if len(f.Names) == 0 {
			ty := typeStr(f.Type, imps, p)
			if ty != "" && ty[strings.LastIndex(ty, ".")+1:] == field {
				return ty, true
			}
			if strings.HasPrefix(ty, "struct:") && ty[len("struct:"):] == field {
				return ty, true
			}
		}
	}
	return "", false
}

// ---------------------------------------------------------------- walking one body

type walker struct {
	t    *translator
	p    *pkgInfo
	file *ast.File
	imps map[string]string
	decl *ast.FuncDecl // enclosing declaration (nil for package-level initialisers)
	name string        // pkgid.Func
	// root of this body: the declaration itself or a literal
	rootLo, rootHi token.Pos
	rootIsDecl     bool
	declLo, declHi token.Pos
	recvObj        *ast.Object
	recvType       string
	// literals that are bodies of their own (not inlined into this one)
	separate map[*ast.FuncLit]bool
	// for a parent body: variables captured by a goroutine literal -> position of the go statement
	goShared map[*ast.Object]token.Pos
	phase    string
	depth    int
	// locals that were assigned a shared location (one level of aliasing: `vars := m.vars`);
	// indexing / selecting / dereferencing through them reaches that location
	aliases map[*ast.Object]string
}

func (w *walker) pos(n ast.Node) string {
	ps := w.p.fset.Position(n.Pos())
	return fmt.Sprintf("%s:%d", filepath.Base(ps.Filename), ps.Line)
}

func declPosOf(o *ast.Object) token.Pos {
	if n, ok := o.Decl.(ast.Node); ok && n != nil {
		return n.Pos()
	}
	return token.NoPos
}

// classify says whether an identifier denotes a shared variable and names it.
func (w *walker) classify(id *ast.Ident) (string, bool) {
	if id.Name == "_" {
		return "", false
	}
	if id.Obj == nil {
		if _, ok := w.p.vars[id.Name]; ok {
			return w.p.id + "." + id.Name, true
		}
		return "", false
	}
	if id.Obj.Kind != ast.Var {
		return "", false
	}
	dp := declPosOf(id.Obj)
	if dp == token.NoPos {
		return "", false
	}
	if dp < w.declLo || dp >= w.declHi {
		// declared at package level in this file
		if _, ok := w.p.vars[id.Name]; ok {
			return w.p.id + "." + id.Name, true
		}
		return "", false
	}
	if dp >= w.rootLo && dp < w.rootHi {
		// local to this body ... unless a goroutine started by this body shares it
		if gp, ok := w.goShared[id.Obj]; ok && id.Pos() > gp {
			return w.name0() + "." + id.Name, true
		}
		return "", false
	}
	// declared in the enclosing function, outside this literal: captured
	return w.name0() + "." + id.Name, true
}

// name0 is the name of the enclosing declaration (captured variables are named after it)
func (w *walker) name0() string {
	if w.decl != nil {
		return w.p.id + "." + funcKey(w.decl)
	}
	return w.name
}

func (w *walker) isImport(id *ast.Ident) (string, bool) {
	if id.Obj != nil {
		return "", false
	}
	if _, ok := w.p.vars[id.Name]; ok {
		return "", false
	}
	path, ok := w.imps[id.Name]
	return path, ok
}

// baseOf is locOf for the operand of a selection / index / dereference: a local that
// aliases a shared location stands for it.
func (w *walker) baseOf(e ast.Expr) (string, bool, bool) {
	if p, ok := e.(*ast.ParenExpr); ok {
		return w.baseOf(p.X)
	}
	if id, ok := e.(*ast.Ident); ok && id.Obj != nil {
		if l, ok := w.aliases[id.Obj]; ok {
			if _, shared := w.classify(id); !shared {
				return l, true, false
			}
		}
	}
	return w.locOf(e)
}

func (w *walker) noteAlias(lhs, rhs ast.Expr) {
	id, ok := lhs.(*ast.Ident)
	if !ok || id.Obj == nil || id.Name == "_" {
		return
	}
	if _, shared := w.classify(id); shared {
		return
	}
	for {
		if p, ok := rhs.(*ast.ParenExpr); ok {
			rhs = p.X
			continue
		}
		break
	}
	switch rhs.(type) {
	case *ast.Ident, *ast.SelectorExpr, *ast.IndexExpr, *ast.StarExpr:
	default:
		return
	}
	if loc, shared, ext := w.locOf(rhs); shared && !ext {
		if w.aliases == nil {
			w.aliases = map[*ast.Object]string{}
		}
		w.aliases[id.Obj] = loc
	}
}

// locOf names the shared location an expression denotes, if any.
// ext is true for a variable of another package (only writes to those are reported).
func (w *walker) locOf(e ast.Expr) (loc string, shared bool, ext bool) {
	switch x := e.(type) {
	case *ast.ParenExpr:
		return w.locOf(x.X)
	case *ast.Ident:
		l, ok := w.classify(x)
		return l, ok, false
	case *ast.SelectorExpr:
		if id, ok := x.X.(*ast.Ident); ok {
			if path, ok := w.isImport(id); ok {
				return "ext:" + path + "." + x.Sel.Name, true, true
			}
			if w.recvObj != nil && id.Obj == w.recvObj {
				if w.p.reqScoped[w.recvType] {
					return "", false, false
				}
				if _, isStruct := w.p.structs[w.recvType]; isStruct {
					return w.p.id + "." + w.recvType + "." + x.Sel.Name, true, false
				}
			}
		}
		if base, ok, ext := w.baseOf(x.X); ok {
			return base + "." + x.Sel.Name, true, ext
		}
	case *ast.IndexExpr:
		return w.baseOf(x.X)
	case *ast.SliceExpr:
		return w.baseOf(x.X)
	case *ast.StarExpr:
		if base, ok, ext := w.baseOf(x.X); ok {
			return base + ".*", true, ext
		}
	}
	return "", false, false
}

// typeOf resolves the syntactic type of an expression (see typeStr).
func (w *walker) typeOf(e ast.Expr) string {
	switch x := e.(type) {
	case *ast.ParenExpr:
		return w.typeOf(x.X)
	case *ast.StarExpr:
		return w.typeOf(x.X)
	case *ast.UnaryExpr:
		if x.Op == token.AND {
			return w.typeOf(x.X)
		}
	case *ast.Ident:
		if x.Obj == nil {
			if v, ok := w.p.vars[x.Name]; ok {
				return v.typ
			}
			return ""
		}
		if x.Obj.Kind != ast.Var {
			return ""
		}
		switch d := x.Obj.Decl.(type) {
		case *ast.ValueSpec:
			if d.Type != nil {
				return typeStr(d.Type, w.imps, w.p)
			}
			for i, n := range d.Names {
				if n.Name == x.Name && i < len(d.Values) {
					return typeOfInit(d.Values[i], w.imps, w.p)
				}
			}
		case *ast.AssignStmt:
			if len(d.Lhs) == len(d.Rhs) {
				for i, l := range d.Lhs {
					if li, ok := l.(*ast.Ident); ok && li.Name == x.Name {
						return typeOfInit(d.Rhs[i], w.imps, w.p)
					}
				}
			}
		case *ast.Field:
			return typeStr(d.Type, w.imps, w.p)
		}
	case *ast.SelectorExpr:
		tx := w.typeOf(x.X)
		if strings.HasPrefix(tx, "struct:") {
			if ft, ok := w.p.fieldType(tx[len("struct:"):], x.Sel.Name); ok {
				return ft
			}
		}
	}
	return ""
}

func one(acts ...Act) []frag { return []frag{{acts: acts}} }

func dedupe(fs []frag) []frag {
	seen := map[string]bool{}
	out := fs[:0:0]
	for _, f := range fs {
		k := f.key()
		if !seen[k] {
			seen[k] = true
			out = append(out, f)
		}
	}
	return out
}

func (w *walker) seq(a, b []frag) []frag {
	var out []frag
	for _, x := range a {
		if x.term != 0 {
			out = append(out, x)
			continue
		}
		for _, y := range b {
			n := frag{term: y.term}
			n.acts = append(append([]Act{}, x.acts...), y.acts...)
			n.defers = append(append([][]Act{}, x.defers...), y.defers...)
			out = append(out, n)
		}
	}
	out = dedupe(out)
	if len(out) > maxPaths {
		fatal("path explosion (%d paths) in %s: the translator cannot enumerate this function", len(out), w.name)
	}
	return out
}

func alt(xs ...[]frag) []frag {
	var out []frag
	for _, x := range xs {
		out = append(out, x...)
	}
	return dedupe(out)
}

// closeBody finishes the paths of a body or of an inlined literal: deferred actions run
// (last registered first) and the paths fall through into the caller.
func closeBody(fs []frag) []frag {
	var out []frag
	for _, f := range fs {
		n := frag{acts: append([]Act{}, f.acts...)}
		for i := len(f.defers) - 1; i >= 0; i-- {
			n.acts = append(n.acts, f.defers[i]...)
		}
		out = append(out, n)
	}
	return dedupe(out)
}

func clearBreak(fs []frag) []frag {
	out := make([]frag, len(fs))
	for i, f := range fs {
		if f.term == 2 {
			f.term = 0
		}
		out[i] = f
	}
	return dedupe(out)
}

func (w *walker) exprs(es []ast.Expr) []frag {
	r := one()
	for _, e := range es {
		r = w.seq(r, w.expr(e))
	}
	return r
}

// reads of a shared location and of the shared prefixes it is reached through
func (w *walker) readLoc(e ast.Expr) ([]frag, bool) {
	loc, ok, ext := w.locOf(e)
	if !ok {
		return nil, false
	}
	r := one()
	// index / slice sub-expressions are evaluated too
	r = w.seq(r, w.subIndexes(e))
	if ext {
		return r, true
	}
	return w.seq(r, one(Act{Kind: "Acc", Name: loc, Pos: w.pos(e)})), true
}

func (w *walker) subIndexes(e ast.Expr) []frag {
	switch x := e.(type) {
	case *ast.ParenExpr:
		return w.subIndexes(x.X)
	case *ast.SelectorExpr:
		if id, ok := x.X.(*ast.Ident); ok {
			if _, isImp := w.isImport(id); isImp {
				return one()
			}
		}
		return w.prefixRead(x.X)
	case *ast.IndexExpr:
		return w.seq(w.prefixRead(x.X), w.expr(x.Index))
	case *ast.SliceExpr:
		r := w.prefixRead(x.X)
		for _, i := range []ast.Expr{x.Low, x.High, x.Max} {
			if i != nil {
				r = w.seq(r, w.expr(i))
			}
		}
		return r
	case *ast.StarExpr:
		return w.prefixRead(x.X)
	}
	return one()
}

// prefixRead reads the container / pointer an access goes through
func (w *walker) prefixRead(e ast.Expr) []frag {
	switch x := e.(type) {
	case *ast.IndexExpr, *ast.SliceExpr:
		// a[i].f : the container is read when the element is reached
		_ = x
		return w.expr(e)
	}
	if fr, ok := w.readLoc(e); ok {
		return fr
	}
	return w.expr(e)
}

var atomicWriteFn = regexp.MustCompile(`^(Add|Store|Swap|CompareAndSwap|And|Or)`)

func syncMethodWrites(typ, name string) bool {
	switch name {
	case "Load", "Range", "Wait":
		return false
	case "Get":
		return typ != "sync.Pool" // a Pool is written by Put and read by Get
	}
	return true
}

// method names that mutate their receiver by convention; called on a shared object whose
// type the translator cannot resolve they are recorded as opaque writes (isolation only)
var mutatorName = regexp.MustCompile(`^(Put|Store|Set|Add|Delete|Del|Push|Pop|Append|Write|WriteString|WriteByte|Reset|Swap|LoadOrStore|LoadAndDelete|CompareAndSwap|Insert|Remove|Clear|Inc|Dec|Update|Register|Record|Observe|Truncate|Grow|ReadFrom|Enqueue|Dequeue|Release|Acquire|Close)([A-Z0-9].*)?$`)

func (w *walker) call(c *ast.CallExpr) []frag {
	// builtins and conversions first
	if id, ok := c.Fun.(*ast.Ident); ok && id.Obj == nil {
		switch id.Name {
		case "panic":
			r := w.exprs(c.Args)
			for i := range r {
				if r[i].term == 0 {
					r[i].term = 3
				}
			}
			return r
		case "delete", "clear":
			r := one()
			if len(c.Args) > 0 {
				if loc, ok, _ := w.locOf(c.Args[0]); ok {
					r = w.seq(r, w.subIndexes(c.Args[0]))
					r = w.seq(r, w.exprs(c.Args[1:]))
					shape := ""
					if id.Name == "delete" {
						shape = "index"
					}
					return w.seq(r, one(Act{Kind: "Acc", Name: loc, Write: true, Pos: w.pos(c), Shape: shape}))
				}
			}
			return w.exprs(c.Args)
		case "copy":
			r := one()
			if len(c.Args) == 2 {
				if loc, ok, _ := w.locOf(c.Args[0]); ok {
					r = w.seq(w.exprs(c.Args[1:]), one(Act{Kind: "Acc", Name: loc, Write: true, Pos: w.pos(c)}))
					return r
				}
			}
			return w.exprs(c.Args)
		}
	}
	if sel, ok := c.Fun.(*ast.SelectorExpr); ok {
		// sync/atomic functions: atomic.AddUint32(&loc, ...)
		if id, ok := sel.X.(*ast.Ident); ok {
			if path, isImp := w.isImport(id); isImp && path == "sync/atomic" && len(c.Args) > 0 {
				if u, ok := c.Args[0].(*ast.UnaryExpr); ok && u.Op == token.AND {
					if loc, shared, _ := w.locOf(u.X); shared {
						r := w.seq(w.subIndexes(u.X), w.exprs(c.Args[1:]))
						return w.seq(r, one(Act{Kind: "AAcc", Name: loc, Write: atomicWriteFn.MatchString(sel.Sel.Name), Pos: w.pos(c)}))
					}
					return w.exprs(c.Args[1:])
				}
			}
		}
		tx := w.typeOf(sel.X)
		m := sel.Sel.Name
		lockKind := map[string]string{"Lock": "Lk", "Unlock": "Ulk", "RLock": "RLk", "RUnlock": "RUlk"}
		switch {
		case isMutexType(tx):
			loc, shared, ext := w.locOf(sel.X)
			k, known := lockKind[m]
			if tx == "sync.Mutex" && (m == "RLock" || m == "RUnlock") {
				known = false
			}
			if !known {
				w.t.note("%s: %s.%s() is not in the recognised synchronisation vocabulary; it grants no protection", w.pos(c), exprText(sel.X), m)
				return w.exprs(c.Args)
			}
			if !shared || ext {
				w.t.note("%s: lock operation on %s, which is not a shared location (request-local or reached through a parameter); it grants no protection", w.pos(c), exprText(sel.X))
				return one()
			}
			return w.seq(w.subIndexes(sel.X), one(Act{Kind: k, Name: loc, Pos: w.pos(c)}))
		case strings.HasPrefix(tx, "struct:"):
			if k, isLock := lockKind[m]; isLock {
				if fld, mty := w.p.embeddedMutex(tx[len("struct:"):]); fld != "" {
					if mty == "sync.Mutex" && (m == "RLock" || m == "RUnlock") {
						break
					}
					loc, shared := w.ownerLoc(sel.X, tx[len("struct:"):])
					if !shared {
						w.t.note("%s: lock operation on %s, which is not a shared location; it grants no protection", w.pos(c), exprText(sel.X))
						return one()
					}
					return one(Act{Kind: k, Name: loc + "." + fld, Pos: w.pos(c)})
				}
			}
		case tx == "sync.Once" && m == "Do":
			loc, shared, _ := w.locOf(sel.X)
			var inner []frag
			if len(c.Args) == 1 {
				if fl, ok := c.Args[0].(*ast.FuncLit); ok {
					inner = w.inlineLit(fl)
				} else {
					inner = w.expr(c.Args[0])
				}
			} else {
				inner = one()
			}
			if !shared {
				return inner
			}
			w.t.note("%s: sync.Once.Do on shared %s is modelled as a critical section only; accesses after Do returns are NOT protected by it", w.pos(c), loc)
			r := w.seq(one(Act{Kind: "Lk", Name: loc, Pos: w.pos(c)}), inner)
			return w.seq(r, one(Act{Kind: "Ulk", Name: loc, Pos: w.pos(c)}))
		case isSyncObj(tx):
			// sync.Map, sync.WaitGroup, atomic.Int64 ...: internally synchronised objects
			if loc, shared, _ := w.locOf(sel.X); shared {
				r := w.seq(w.subIndexes(sel.X), w.exprs(c.Args))
				wr := syncMethodWrites(tx, m)
				if isAtomicType(tx) {
					wr = atomicWriteFn.MatchString(m)
				}
				shape := ""
				if tx == "sync.Map" && wr && m != "Clear" && m != "Range" {
					shape = "index"
				}
				return w.seq(r, one(Act{Kind: "AAcc", Name: loc, Write: wr, Pos: w.pos(c), Shape: shape}))
			}
			return w.exprs(c.Args)
		}
	}
	// a method called on a shared object whose type is not defined in this package (nor a
	// sync.* object): whether the call is safe under concurrency cannot be read off the source,
	// so the object must be classified (opaque use, isolation discipline)
	if sel, ok := c.Fun.(*ast.SelectorExpr); ok && w.phase == "request" {
		if loc, shared, ext := w.locOf(sel.X); shared && !ext {
			tx := w.typeOf(sel.X)
			if !strings.HasPrefix(tx, "struct:") && !strings.HasPrefix(tx, "named:") && !isSyncObj(tx) {
				w.t.opaque[loc] = append(w.t.opaque[loc], w.name+" "+w.pos(c)+" ."+sel.Sel.Name)
				if id, ok := sel.X.(*ast.Ident); ok {
					if vi, ok := w.p.vars[id.Name]; ok && loc == w.p.id+"."+id.Name {
						w.t.bindings[loc] = vi.binding
					}
				}
			}
		}
	}
	// a call through a package-level variable of function type: what it is bound to decides
	if id, ok := c.Fun.(*ast.Ident); ok && w.phase == "request" {
		if vi, isVar := w.p.vars[id.Name]; isVar {
			if loc, shared := w.classify(id); shared && loc == w.p.id+"."+id.Name {
				w.t.opaque[loc] = append(w.t.opaque[loc], w.name+" "+w.pos(c)+" call through the variable")
				w.t.bindings[loc] = vi.binding
				if strings.HasPrefix(vi.binding, "methodvalue:") {
					// calling it is calling that method on the other variable
					tgt := strings.TrimPrefix(vi.binding, "methodvalue:")
					obj := w.p.id + "." + tgt[:strings.Index(tgt, ".")]
					w.t.opaque[obj] = append(w.t.opaque[obj], w.name+" "+w.pos(c)+" "+tgt[strings.Index(tgt, "."):]+" (through "+id.Name+")")
					if ov, ok := w.p.vars[tgt[:strings.Index(tgt, ".")]]; ok {
						w.t.bindings[obj] = ov.binding
					}
				}
			}
		}
	}
	// ordinary call: the function value, then the arguments
	r := w.callee(c.Fun)
	for _, a := range c.Args {
		r = w.seq(r, w.expr(a))
	}
	return r
}

// ownerLoc names the object a struct value with an embedded mutex lives in.
func (w *walker) ownerLoc(e ast.Expr, structName string) (string, bool) {
	if id, ok := e.(*ast.Ident); ok && w.recvObj != nil && id.Obj == w.recvObj {
		if w.p.reqScoped[structName] {
			return "", false
		}
		return w.p.id + "." + structName, true
	}
	loc, shared, ext := w.locOf(e)
	return loc, shared && !ext
}

func (w *walker) callee(f ast.Expr) []frag {
	switch x := f.(type) {
	case *ast.FuncLit:
		return w.funcLit(x)
	case *ast.SelectorExpr:
		if id, ok := x.X.(*ast.Ident); ok {
			if _, isImp := w.isImport(id); isImp {
				return one()
			}
		}
		// x.M(...): either a method (x is read) or a field of function type (x.M is read)
		if fr, ok := w.readLoc(f); ok {
			tx := w.typeOf(x.X)
			if strings.HasPrefix(tx, "struct:") {
				if _, isField := w.p.fieldType(tx[len("struct:"):], x.Sel.Name); !isField {
					return w.prefixRead(x.X) // method call: only the receiver is read
				}
			}
			return fr
		}
		return w.expr(x.X)
	case *ast.ParenExpr:
		return w.callee(x.X)
	case *ast.ArrayType, *ast.MapType, *ast.ChanType, *ast.FuncType, *ast.InterfaceType, *ast.StructType:
		return one()
	}
	return w.expr(f)
}

func exprText(e ast.Expr) string {
	switch x := e.(type) {
	case *ast.Ident:
		return x.Name
	case *ast.SelectorExpr:
		return exprText(x.X) + "." + x.Sel.Name
	case *ast.StarExpr:
		return "*" + exprText(x.X)
	case *ast.ParenExpr:
		return "(" + exprText(x.X) + ")"
	case *ast.IndexExpr:
		return exprText(x.X) + "[...]"
	case *ast.UnaryExpr:
		return x.Op.String() + exprText(x.X)
	}
	return fmt.Sprintf("%T", e)
}

func (w *walker) funcLit(fl *ast.FuncLit) []frag {
	if w.separate[fl] {
		return one()
	}
	return w.inlineLit(fl)
}

// inlineLit: the literal's body is taken to run once, where it is written
func (w *walker) inlineLit(fl *ast.FuncLit) []frag {
	w.depth++
	defer func() { w.depth-- }()
	if w.depth > 20 {
		return one()
	}
	return closeBody(w.block(fl.Body.List))
}

func (w *walker) expr(e ast.Expr) []frag {
	if e == nil {
		return one()
	}
	switch x := e.(type) {
	case *ast.Ident, *ast.SelectorExpr, *ast.IndexExpr, *ast.SliceExpr, *ast.StarExpr:
		if fr, ok := w.readLoc(e); ok {
			return fr
		}
		switch y := e.(type) {
		case *ast.SelectorExpr:
			if id, ok := y.X.(*ast.Ident); ok {
				if _, isImp := w.isImport(id); isImp {
					return one()
				}
			}
			return w.expr(y.X)
		case *ast.IndexExpr:
			return w.seq(w.expr(y.X), w.expr(y.Index))
		case *ast.SliceExpr:
			return w.seq(w.expr(y.X), w.exprs(nonNil(y.Low, y.High, y.Max)))
		case *ast.StarExpr:
			return w.expr(y.X)
		}
		return one()
	case *ast.ParenExpr:
		return w.expr(x.X)
	case *ast.CallExpr:
		return w.call(x)
	case *ast.UnaryExpr:
		if x.Op == token.AND {
			if _, isLit := x.X.(*ast.CompositeLit); !isLit {
				if loc, shared, ext := w.locOf(x.X); shared && !ext {
					w.t.note("%s: address of shared location %s taken outside an atomic call; counted as a plain write", w.pos(x), loc)
					return w.seq(w.subIndexes(x.X), one(Act{Kind: "Acc", Name: loc, Write: true, Pos: w.pos(x)}))
				}
			}
		}
		return w.expr(x.X)
	case *ast.BinaryExpr:
		return w.seq(w.expr(x.X), w.expr(x.Y))
	case *ast.TypeAssertExpr:
		return w.expr(x.X)
	case *ast.KeyValueExpr:
		// struct field names are not expressions; map keys are
		if _, isId := x.Key.(*ast.Ident); isId {
			return w.expr(x.Value)
		}
		return w.seq(w.expr(x.Key), w.expr(x.Value))
	case *ast.CompositeLit:
		w.t.recordLit(w, x)
		return w.exprs(x.Elts)
	case *ast.FuncLit:
		return w.funcLit(x)
	}
	return one()
}

func nonNil(es ...ast.Expr) []ast.Expr {
	var out []ast.Expr
	for _, e := range es {
		if e != nil {
			out = append(out, e)
		}
	}
	return out
}

func (t *translator) recordLit(w *walker, c *ast.CompositeLit) {
	ty := typeStr(c.Type, w.imps, w.p)
	if !strings.HasPrefix(ty, "struct:") {
		return
	}
	k := w.p.id + "." + ty[len("struct:"):]
	if t.litSites[k] == nil {
		t.litSites[k] = map[string]int{}
	}
	t.litSites[k][w.phase]++
}

// assign: write to a target (plus the reads needed to reach it)
func (w *walker) target(e ast.Expr, alsoRead bool) []frag {
	if id, ok := e.(*ast.Ident); ok && id.Name == "_" {
		return one()
	}
	loc, shared, _ := w.locOf(e)
	if !shared {
		// writing through a local / parameter: the sub-expressions are still evaluated
		switch x := e.(type) {
		case *ast.IndexExpr:
			return w.seq(w.expr(x.X), w.expr(x.Index))
		case *ast.SelectorExpr:
			return w.expr(x.X)
		case *ast.StarExpr:
			return w.expr(x.X)
		}
		return one()
	}
	r := w.subIndexes(e)
	if alsoRead {
		r = w.seq(r, one(Act{Kind: "Acc", Name: loc, Pos: w.pos(e)}))
	}
	shape := ""
	pe := e
	for {
		if p, ok := pe.(*ast.ParenExpr); ok {
			pe = p.X
			continue
		}
		break
	}
	if _, ok := pe.(*ast.IndexExpr); ok {
		shape = "index"
	}
	return w.seq(r, one(Act{Kind: "Acc", Name: loc, Write: true, Pos: w.pos(e), Shape: shape}))
}

func (w *walker) block(stmts []ast.Stmt) []frag {
	r := one()
	for _, s := range stmts {
		r = w.seq(r, w.stmt(s))
	}
	return r
}

func (w *walker) stmt(s ast.Stmt) []frag {
	switch x := s.(type) {
	case nil, *ast.EmptyStmt:
		return one()
	case *ast.ExprStmt:
		return w.expr(x.X)
	case *ast.AssignStmt:
		r := w.exprs(x.Rhs)
		if len(x.Lhs) == len(x.Rhs) && (x.Tok == token.DEFINE || x.Tok == token.ASSIGN) {
			for i := range x.Lhs {
				w.noteAlias(x.Lhs[i], x.Rhs[i])
			}
		}
		if x.Tok == token.DEFINE {
			return r
		}
		for _, l := range x.Lhs {
			r = w.seq(r, w.target(l, x.Tok != token.ASSIGN))
		}
		return r
	case *ast.IncDecStmt:
		return w.target(x.X, true)
	case *ast.DeclStmt:
		r := one()
		if gd, ok := x.Decl.(*ast.GenDecl); ok {
			for _, sp := range gd.Specs {
				if vs, ok := sp.(*ast.ValueSpec); ok {
					r = w.seq(r, w.exprs(vs.Values))
					if len(vs.Names) == len(vs.Values) {
						for i := range vs.Names {
							w.noteAlias(vs.Names[i], vs.Values[i])
						}
					}
				}
			}
		}
		return r
	case *ast.GoStmt:
		r := w.exprs(x.Call.Args)
		if fl, ok := x.Call.Fun.(*ast.FuncLit); ok {
			if !w.separate[fl] {
				// should have been registered by the scan; fail closed
				fatal("%s: goroutine literal not registered", w.pos(x))
			}
			return r
		}
		w.t.note("%s: `go %s(...)` starts a goroutine running a named function; the callee is a request body of its own", w.pos(x), exprText(x.Call.Fun))
		return w.seq(w.callee(x.Call.Fun), r)
	case *ast.DeferStmt:
		var inner []frag
		if fl, ok := x.Call.Fun.(*ast.FuncLit); ok {
			inner = w.seq(w.exprs(x.Call.Args), w.inlineLit(fl))
		} else {
			inner = w.call(x.Call)
		}
		var out []frag
		for _, f := range inner {
			out = append(out, frag{defers: [][]Act{f.acts}})
		}
		return dedupe(out)
	case *ast.ReturnStmt:
		r := w.exprs(x.Results)
		for i := range r {
			if r[i].term == 0 {
				r[i].term = 1
			}
		}
		return r
	case *ast.BlockStmt:
		return w.block(x.List)
	case *ast.IfStmt:
		r := w.seq(w.stmt(x.Init), w.expr(x.Cond))
		th := w.block(x.Body.List)
		el := one()
		if x.Else != nil {
			el = w.stmt(x.Else)
		}
		return w.seq(r, alt(th, el))
	case *ast.ForStmt:
		r := w.seq(w.stmt(x.Init), w.expr(x.Cond))
		body := w.seq(w.block(x.Body.List), w.stmt(x.Post))
		return w.seq(r, clearBreak(alt(one(), body)))
	case *ast.RangeStmt:
		r := w.expr(x.X)
		body := one()
		if x.Tok == token.ASSIGN {
			for _, l := range nonNil(x.Key, x.Value) {
				body = w.seq(body, w.target(l, false))
			}
		}
		body = w.seq(body, w.block(x.Body.List))
		return w.seq(r, clearBreak(alt(one(), body)))
	case *ast.SwitchStmt:
		r := w.seq(w.stmt(x.Init), w.expr(x.Tag))
		return w.seq(r, clearBreak(w.clauses(x.Body)))
	case *ast.TypeSwitchStmt:
		r := w.seq(w.stmt(x.Init), w.stmt(x.Assign))
		return w.seq(r, clearBreak(w.clauses(x.Body)))
	case *ast.SelectStmt:
		var alts [][]frag
		for _, c := range x.Body.List {
			cc := c.(*ast.CommClause)
			alts = append(alts, w.seq(w.stmt(cc.Comm), w.block(cc.Body)))
		}
		if len(alts) == 0 {
			return one()
		}
		return clearBreak(alt(alts...))
	case *ast.LabeledStmt:
		return w.stmt(x.Stmt)
	case *ast.BranchStmt:
		if x.Tok == token.GOTO {
			w.t.note("%s: goto is not modelled (treated as leaving the enclosing statement)", w.pos(x))
		}
		if x.Tok == token.FALLTHROUGH {
			return one()
		}
		return []frag{{term: 2}}
	case *ast.SendStmt:
		return w.seq(w.expr(x.Chan), w.expr(x.Value))
	}
	return one()
}

func (w *walker) clauses(b *ast.BlockStmt) []frag {
	var alts [][]frag
	hasDefault := false
	for _, c := range b.List {
		cc := c.(*ast.CaseClause)
		if cc.List == nil {
			hasDefault = true
		}
		alts = append(alts, w.seq(w.exprs(cc.List), w.block(cc.Body)))
	}
	if !hasDefault {
		alts = append(alts, one())
	}
	return alt(alts...)
}

// ---------------------------------------------------------------- bodies of one declaration

func fatal(format string, a ...any) {
	fmt.Fprintf(os.Stderr, "c20translate: "+format+"\n", a...)
	os.Exit(2)
}

// topLits returns the literals of a node that are not nested in another literal, and
// for every literal the goroutine literals directly started inside it.
func topLits(n ast.Node) []*ast.FuncLit {
	var out []*ast.FuncLit
	ast.Inspect(n, func(x ast.Node) bool {
		if fl, ok := x.(*ast.FuncLit); ok {
			out = append(out, fl)
			return false
		}
		return true
	})
	return out
}

// goLits returns the goroutine literals of a body that are not nested in another
// goroutine literal (plain nested literals are looked into: they are inlined).
func goLits(body ast.Node, skip map[*ast.FuncLit]bool) (lits []*ast.FuncLit, at map[*ast.FuncLit]token.Pos) {
	at = map[*ast.FuncLit]token.Pos{}
	var visit func(n ast.Node)
	visit = func(n ast.Node) {
		ast.Inspect(n, func(x ast.Node) bool {
			switch y := x.(type) {
			case *ast.GoStmt:
				if fl, ok := y.Call.Fun.(*ast.FuncLit); ok {
					lits = append(lits, fl)
					at[fl] = y.Pos()
					for _, a := range y.Call.Args {
						visit(a)
					}
					return false
				}
			case *ast.FuncLit:
				if skip[y] {
					return false
				}
			}
			return true
		})
	}
	visit(body)
	return
}

func returnsClosure(d *ast.FuncDecl) bool {
	if d.Body == nil {
		return false
	}
	found := false
	ast.Inspect(d.Body, func(x ast.Node) bool {
		switch y := x.(type) {
		case *ast.FuncLit:
			return false
		case *ast.ReturnStmt:
			for _, r := range y.Results {
				if _, ok := r.(*ast.FuncLit); ok {
					found = true
				}
				if c, ok := r.(*ast.CallExpr); ok && len(c.Args) == 1 {
					if _, ok := c.Args[0].(*ast.FuncLit); ok {
						found = true
					}
				}
			}
		}
		return true
	})
	return found
}

func freeVarsOf(fl *ast.FuncLit, declLo, declHi token.Pos) map[*ast.Object]bool {
	m := map[*ast.Object]bool{}
	ast.Inspect(fl, func(x ast.Node) bool {
		if id, ok := x.(*ast.Ident); ok && id.Obj != nil && id.Obj.Kind == ast.Var {
			dp := declPosOf(id.Obj)
			if dp >= declLo && dp < declHi && !(dp >= fl.Pos() && dp < fl.End()) {
				m[id.Obj] = true
			}
		}
		return true
	})
	return m
}

func (t *translator) isSetup(p *pkgInfo, key string) bool {
	if p.setup[key] {
		return true
	}
	if p.generated {
		for _, re := range t.genRe {
			if re.MatchString(key) {
				return true
			}
		}
	}
	return false
}

func (t *translator) doDecl(p *pkgInfo, f *ast.File, d *ast.FuncDecl) {
	if d.Body == nil {
		return
	}
	key := funcKey(d)
	name := p.id + "." + key
	setup := t.isSetup(p, key) || key == "init"
	ctor := !setup && returnsClosure(d)
	base := walker{t: t, p: p, file: f, imps: importsOf(f), decl: d, name: name,
		declLo: d.Pos(), declHi: d.End(), recvType: recvTypeName(d)}
	if d.Recv != nil && len(d.Recv.List) > 0 && len(d.Recv.List[0].Names) > 0 {
		base.recvObj = d.Recv.List[0].Names[0].Obj
	}
	line := p.fset.Position(d.Pos()).Line
	fname := filepath.Join(p.id, filepath.Base(p.fset.Position(d.Pos()).Filename))

	separate := map[*ast.FuncLit]bool{}
	var roots []*ast.FuncLit
	role := map[*ast.FuncLit]string{}
	if setup || ctor {
		for _, fl := range topLits(d.Body) {
			separate[fl] = true
			roots = append(roots, fl)
			role[fl] = "closure"
		}
	}
	// goroutine literals anywhere (outside the literals already separated) are bodies too
	gl, gpos := goLits(d.Body, separate)
	for _, fl := range gl {
		if !separate[fl] {
			separate[fl] = true
			roots = append(roots, fl)
		}
		role[fl] = "goroutine"
	}
	// goroutines started inside separated literals
	for i := 0; i < len(roots); i++ {
		g2, gp2 := goLits(roots[i].Body, separate)
		for _, fl := range g2 {
			if !separate[fl] {
				separate[fl] = true
				roots = append(roots, fl)
				role[fl] = "goroutine"
				gpos[fl] = gp2[fl]
			}
		}
	}
	sort.Slice(roots, func(i, j int) bool { return roots[i].Pos() < roots[j].Pos() })

	// the declaration's own statements
	{
		w := base
		w.rootLo, w.rootHi, w.rootIsDecl = d.Pos(), d.End(), true
		w.separate = separate
		w.goShared = map[*ast.Object]token.Pos{}
		for fl, gp := range gpos {
			if !(fl.Pos() >= d.Pos() && fl.End() <= d.End()) {
				continue
			}
			for o := range freeVarsOf(fl, d.Pos(), d.End()) {
				if old, ok := w.goShared[o]; !ok || gp < old {
					w.goShared[o] = gp
				}
			}
		}
		ph, rl := "request", "function"
		if ctor {
			rl = "constructor"
		}
		if setup {
			ph, rl = "setup", "setup"
		}
		w.phase = ph
		paths := closeBody(w.block(d.Body.List))
		b := Body{Name: name, Phase: ph, Role: rl, File: fname, Line: line, Paths: pathsOf(paths)}
		if setup {
			t.setupBs = append(t.setupBs, b)
		} else {
			t.bodies = append(t.bodies, b)
		}
	}
	for i, fl := range roots {
		w := base
		w.name = fmt.Sprintf("%s$%d", name, i+1)
		w.rootLo, w.rootHi = fl.Pos(), fl.End()
		w.separate = separate
		w.phase = "request"
		w.goShared = map[*ast.Object]token.Pos{}
		for g, gp := range gpos {
			if g != fl && g.Pos() >= fl.Pos() && g.End() <= fl.End() {
				for o := range freeVarsOf(g, fl.Pos(), fl.End()) {
					if old, ok := w.goShared[o]; !ok || gp < old {
						w.goShared[o] = gp
					}
				}
			}
		}
		paths := closeBody(w.block(fl.Body.List))
		t.bodies = append(t.bodies, Body{Name: w.name, Phase: "request", Role: role[fl], File: fname,
			Line: p.fset.Position(fl.Pos()).Line, Paths: pathsOf(paths)})
	}
}

// package-level `var f = func(...) {...}`: the literal is a request body
func (t *translator) doVarLits(p *pkgInfo, f *ast.File, gd *ast.GenDecl) {
	for _, sp := range gd.Specs {
		vs, ok := sp.(*ast.ValueSpec)
		if !ok {
			continue
		}
		for i, v := range vs.Values {
			for j, fl := range topLits(v) {
				nm := "_"
				if i < len(vs.Names) {
					nm = vs.Names[i].Name
				}
				w := walker{t: t, p: p, file: f, imps: importsOf(f), name: fmt.Sprintf("%s.%s$%d", p.id, nm, j+1),
					declLo: fl.Pos(), declHi: fl.End(), rootLo: fl.Pos(), rootHi: fl.End(), phase: "request",
					separate: map[*ast.FuncLit]bool{}, goShared: map[*ast.Object]token.Pos{}}
				gl, _ := goLits(fl.Body, w.separate)
				if len(gl) > 0 {
					fatal("%s: goroutine inside a package-level function literal is not supported", w.pos(fl))
				}
				paths := closeBody(w.block(fl.Body.List))
				t.bodies = append(t.bodies, Body{Name: w.name, Phase: "request", Role: "closure",
					File: filepath.Join(p.id, filepath.Base(p.fset.Position(fl.Pos()).Filename)),
					Line: p.fset.Position(fl.Pos()).Line, Paths: pathsOf(paths)})
			}
		}
	}
}

func pathsOf(fs []frag) [][]Act {
	out := make([][]Act, 0, len(fs))
	for _, f := range fs {
		out = append(out, f.acts)
	}
	return out
}

func (t *translator) doPkg(p *pkgInfo) {
	done := map[*ast.FuncDecl]bool{}
	var work []*ast.FuncDecl
	fileOf := map[*ast.FuncDecl]*ast.File{}
	for _, f := range p.files {
		for _, d := range f.Decls {
			if fd, ok := d.(*ast.FuncDecl); ok {
				fileOf[fd] = f
			}
		}
	}
	for _, f := range p.files {
		if !p.emit[f] {
			continue
		}
		for _, d := range f.Decls {
			switch d := d.(type) {
			case *ast.FuncDecl:
				t.doDecl(p, f, d)
				done[d] = true
				work = append(work, d)
			case *ast.GenDecl:
				if d.Tok == token.VAR {
					t.doVarLits(p, f, d)
				}
			}
		}
	}
	// Reference closure: a function of the same package that an analysed body mentions (called
	// OR taken as a value, e.g. `formatter = NewErrorResponse`), and every method of a local
	// type an analysed body mentions (methods are reached through interfaces), is part of the
	// request path even when it lives in a file that is not anchored.
	methodsOf := map[string][]*ast.FuncDecl{}
	for _, fd := range p.funcs {
		if r := recvTypeName(fd); r != "" {
			methodsOf[r] = append(methodsOf[r], fd)
		}
	}
	for len(work) > 0 {
		d := work[0]
		work = work[1:]
		var found []*ast.FuncDecl
		ast.Inspect(d, func(n ast.Node) bool {
			id, ok := n.(*ast.Ident)
			if !ok {
				return true
			}
			if id.Obj != nil && id.Obj.Kind != ast.Fun && id.Obj.Kind != ast.Typ {
				return true
			}
			if fd, ok := p.funcs[id.Name]; ok && fd.Recv == nil {
				found = append(found, fd)
			}
			_, isStruct := p.structs[id.Name]
			_, isNamed := p.named[id.Name]
			if isStruct || isNamed {
				found = append(found, methodsOf[id.Name]...)
			}
			return true
		})
		sort.Slice(found, func(i, j int) bool { return found[i].Pos() < found[j].Pos() })
		for _, fd := range found {
			if done[fd] || fd.Body == nil || fileOf[fd] == nil {
				continue
			}
			done[fd] = true
			t.reached = append(t.reached, p.id+"."+funcKey(fd)+" ("+filepath.Base(p.fset.Position(fd.Pos()).Filename)+")")
			t.doDecl(p, fileOf[fd], fd)
			work = append(work, fd)
		}
	}
}

// ---------------------------------------------------------------- discipline (diagnostic copy of Conc.Model.disciplinedb_auto)

type access struct {
	Body  string   `json:"body"`
	Path  int      `json:"path"`
	Pos   string   `json:"pos"`
	Kind  string   `json:"kind"`
	Write bool     `json:"write"`
	HeldW []string `json:"held_write"`
	HeldR []string `json:"held_read"`
}

type violation struct {
	Location    string   `json:"location"`
	Why         string   `json:"why"`
	Unprotected []access `json:"unprotected_accesses"`
	All         []access `json:"all_accesses"`
}

func remove(xs []string, x string, all bool) []string {
	out := xs[:0:0]
	done := false
	for _, y := range xs {
		if y == x && (all || !done) {
			done = true
			continue
		}
		out = append(out, y)
	}
	return out
}

func has(xs []string, x string) bool {
	for _, y := range xs {
		if y == x {
			return true
		}
	}
	return false
}

func discipline(bodies []Body) (viol []violation, locked map[string]string, unbalanced []string) {
	acc := map[string][]access{}
	mut := map[string]bool{}
	for _, b := range bodies {
		for pi, p := range b.Paths {
			var hw, hr []string
			for _, a := range p {
				switch a.Kind {
				case "Lk":
					hw = append([]string{a.Name}, hw...)
					mut[a.Name] = true
				case "Ulk":
					hw = remove(hw, a.Name, true)
					mut[a.Name] = true
				case "RLk":
					hr = append([]string{a.Name}, hr...)
					mut[a.Name] = true
				case "RUlk":
					hr = remove(hr, a.Name, false)
					mut[a.Name] = true
				default:
					acc[a.Name] = append(acc[a.Name], access{b.Name, pi, a.Pos, a.Kind, a.Write,
						append([]string{}, hw...), append([]string{}, hr...)})
				}
			}
			if len(hw) != 0 || len(hr) != 0 {
				unbalanced = append(unbalanced, fmt.Sprintf("%s path %d ends holding %v / %v", b.Name, pi, hw, hr))
			}
		}
	}
	var ms []string
	for m := range mut {
		ms = append(ms, m)
	}
	sort.Strings(ms)
	var locs []string
	for l := range acc {
		locs = append(locs, l)
	}
	sort.Strings(locs)
	locked = map[string]string{}
	for _, l := range locs {
		written, plain := false, false
		for _, a := range acc[l] {
			written = written || a.Write
			plain = plain || a.Kind == "Acc"
		}
		if !(written && plain) {
			continue
		}
		okm := ""
		for _, m := range ms {
			ok := true
			for _, a := range acc[l] {
				if a.Write {
					ok = ok && has(a.HeldW, m)
				} else {
					ok = ok && (has(a.HeldW, m) || has(a.HeldR, m))
				}
			}
			if ok {
				okm = m
				break
			}
		}
		if okm != "" {
			locked[l] = okm
			continue
		}
		v := violation{Location: l, Why: "written and accessed non-atomically on the request path, and no mutex is held (exclusively at writes, at least shared at reads) at every access", All: acc[l]}
		for _, a := range acc[l] {
			if len(a.HeldW) == 0 && (a.Write || len(a.HeldR) == 0) {
				v.Unprotected = append(v.Unprotected, a)
			}
		}
		viol = append(viol, v)
	}
	return
}

// ---------------------------------------------------------------- output

func coqAct(a Act, loc, mu map[string]int) string {
	switch a.Kind {
	case "Acc", "AAcc":
		w := "false"
		if a.Write {
			w = "true"
		}
		return fmt.Sprintf("%s %d %s", a.Kind, loc[a.Name], w)
	}
	return fmt.Sprintf("%s %d", a.Kind, mu[a.Name])
}

func safeComment(s string) string {
	s = strings.ReplaceAll(s, "(*", "( *")
	s = strings.ReplaceAll(s, "*)", "* )")
	return s
}

func main() {
	repo := flag.String("repo", "/repo", "goa source tree")
	gen := flag.String("gen", "", "directory holding generated designs (<gen>/<design>/gen/...)")
	phases := flag.String("phases", "", "phases.json")
	writesTbl := flag.String("writes", "", "shared_writes.json (allow-list of request-phase shared writes)")
	outV := flag.String("out", "", "Generated_footprint.v to write")
	outJ := flag.String("json", "", "diagnostic JSON to write")
	flag.Parse()

	t := &translator{noteSet: map[string]bool{}, litSites: map[string]map[string]int{}, opaque: map[string][]string{}, bindings: map[string]string{}}
	b, err := os.ReadFile(*phases)
	if err != nil {
		fatal("%v", err)
	}
	if err := json.Unmarshal(b, &t.tbl); err != nil {
		fatal("phases.json: %v", err)
	}
	for _, p := range t.tbl.GeneratedSetup.Patterns {
		t.genRe = append(t.genRe, regexp.MustCompile(p))
	}

	// runtime packages: the anchored files, resolved within their package
	byDir := map[string]map[string]bool{}
	for _, f := range t.tbl.RuntimeFiles {
		d := filepath.Dir(f)
		if byDir[d] == nil {
			byDir[d] = map[string]bool{}
		}
		byDir[d][filepath.Base(f)] = true
		if _, err := os.Stat(filepath.Join(*repo, f)); err != nil {
			fatal("anchored file missing: %s", f)
		}
	}
	var dirs []string
	for d := range byDir {
		dirs = append(dirs, d)
	}
	sort.Strings(dirs)
	var pkgs []*pkgInfo
	usedSetup := map[string]bool{}
	for _, d := range dirs {
		p, err := loadPkg(d, filepath.Join(*repo, d), false, byDir[d])
		if err != nil {
			fatal("%v", err)
		}
		for k := range t.tbl.Setup[d] {
			if _, ok := p.funcs[k]; !ok {
				fatal("phases.json lists %s.%s as setup but the function does not exist (the table must follow the source)", d, k)
			}
			p.setup[k] = true
			usedSetup[d+"."+k] = true
		}
		for k := range t.tbl.RequestScopedTypes[d] {
			if _, ok := p.structs[k]; !ok {
				fatal("phases.json lists %s.%s as request scoped but the type does not exist", d, k)
			}
			p.reqScoped[k] = true
		}
		pkgs = append(pkgs, p)
	}
	for d, m := range t.tbl.Setup {
		if byDir[d] == nil {
			for k := range m {
				fatal("phases.json: setup entry %s.%s is in a package without anchored files", d, k)
			}
		}
	}
	// generated packages
	nGenFiles := 0
	var genScoped []string
	if *gen != "" {
		var gdirs []string
		filepath.Walk(*gen, func(path string, info os.FileInfo, err error) error {
			if err == nil && info.IsDir() {
				ents, _ := os.ReadDir(path)
				for _, e := range ents {
					if strings.HasSuffix(e.Name(), ".go") && !strings.HasSuffix(e.Name(), "_test.go") {
						gdirs = append(gdirs, path)
						break
					}
				}
			}
			return nil
		})
		sort.Strings(gdirs)
		for _, d := range gdirs {
			rel, _ := filepath.Rel(*gen, d)
			// only <design>/gen/...: the driver written next to it is harness code
			parts := strings.Split(filepath.ToSlash(rel), "/")
			if len(parts) < 2 || parts[1] != "gen" {
				continue
			}
			// command-line parsers are client tooling, not part of the request path
			isCLI := false
			for _, part := range parts {
				isCLI = isCLI || part == "cli"
			}
			if isCLI {
				continue
			}
			p, err := loadPkg("gen:"+rel, d, true, nil)
			if err != nil {
				fatal("%v", err)
			}
			// cli.go of client packages: flag parsing for the example CLI
			for i, f := range p.files {
				if p.fnames[i] == "cli.go" {
					delete(p.emit, f)
				}
			}
			for name := range p.structs {
				for _, pt := range t.tbl.GeneratedScoped.Patterns {
					if regexp.MustCompile(pt).MatchString(name) {
						p.reqScoped[name] = true
						genScoped = append(genScoped, p.id+"."+name)
					}
				}
			}
			nGenFiles += len(p.emit)
			pkgs = append(pkgs, p)
		}
	}
	for _, p := range pkgs {
		t.doPkg(p)
	}

	// request-scoped types: every composite literal must sit in request-phase code
	scoped := map[string]any{}
	for d, m := range t.tbl.RequestScopedTypes {
		for k, why := range m {
			sites := t.litSites[d+"."+k]
			if len(sites) == 0 || sites["setup"] > 0 {
				fatal("type %s.%s is listed as request scoped but its allocation sites are %v (need: at least one, all in request-phase code)", d, k, sites)
			}
			scoped[d+"."+k] = map[string]any{"why": why, "allocation_sites": sites}
		}
	}

	sort.Strings(genScoped)
	for _, k := range genScoped {
		sites := t.litSites[k]
		if len(sites) == 0 || sites["setup"] > 0 {
			fatal("generated type %s matches generated_request_scoped_regex but its allocation sites are %v (need: at least one, all in request-phase code)", k, sites)
		}
		scoped[k] = map[string]any{"why": "generated stream object allocated per request (pattern of phases.json)", "allocation_sites": sites}
	}

	// numbering
	locSet, muSet := map[string]bool{}, map[string]bool{}
	count := func(bs []Body) {
		for _, b := range bs {
			for _, p := range b.Paths {
				for _, a := range p {
					if a.Kind == "Acc" || a.Kind == "AAcc" {
						locSet[a.Name] = true
					} else {
						muSet[a.Name] = true
					}
				}
			}
		}
	}
	count(t.bodies)
	count(t.setupBs)
	for l := range t.opaque {
		locSet[l] = true
	}
	var locs, mus []string
	for l := range locSet {
		locs = append(locs, l)
	}
	for m := range muSet {
		mus = append(mus, m)
	}
	// locations written by request bodies get the smallest numbers: the Coq checker works on
	// unary naturals and only ever compares against written locations
	writtenFirst := map[string]bool{}
	for _, b := range t.bodies {
		for _, p := range b.Paths {
			for _, a := range p {
				if (a.Kind == "Acc" || a.Kind == "AAcc") && a.Write {
					writtenFirst[a.Name] = true
				}
			}
		}
	}
	for l := range t.opaque {
		writtenFirst[l] = true
	}
	sort.Slice(locs, func(i, j int) bool {
		if writtenFirst[locs[i]] != writtenFirst[locs[j]] {
			return writtenFirst[locs[i]]
		}
		return locs[i] < locs[j]
	})
	sort.Strings(mus)
	locID, muID := map[string]int{}, map[string]int{}
	for i, l := range locs {
		locID[l] = i + 1
	}
	for i, m := range mus {
		muID[m] = i + 1
	}

	// ---- isolation discipline: every request-phase shared write must be classified
	var wt struct {
		Locations map[string]struct {
			Class   string `json:"class"`
			Why     string `json:"why"`
			Binding string `json:"binding"`
		} `json:"locations"`
		Patterns []struct {
			Regex      string `json:"regex"`
			Class      string `json:"class"`
			Why        string `json:"why"`
			OpaqueOnly bool   `json:"opaque_only"`
		} `json:"patterns"`
	}
	if *writesTbl != "" {
		wb, err := os.ReadFile(*writesTbl)
		if err != nil {
			fatal("%v", err)
		}
		if err := json.Unmarshal(wb, &wt); err != nil {
			fatal("shared_writes.json: %v", err)
		}
	}
	type isoViol struct {
		Location string   `json:"location"`
		Why      string   `json:"why"`
		Writes   []string `json:"writes"`
	}
	writesAt := map[string][]string{}
	nonIndex := map[string]bool{}
	realWrite := map[string]bool{}
	for _, b := range t.bodies {
		for _, p := range b.Paths {
			for _, a := range p {
				if (a.Kind == "Acc" || a.Kind == "AAcc") && a.Write {
					d := fmt.Sprintf("%s %s %s", b.Name, a.Pos, a.Kind)
					if !has(writesAt[a.Name], d) {
						writesAt[a.Name] = append(writesAt[a.Name], d)
					}
					realWrite[a.Name] = true
					if a.Shape != "index" {
						nonIndex[a.Name] = true
					}
				}
			}
		}
	}
	for l, sites := range t.opaque {
		for _, s := range sites {
			writesAt[l] = append(writesAt[l], s+" (opaque)")
		}
		nonIndex[l] = true
	}
	classCoq := map[string]string{"memo": "WMemo", "monotone": "WMonotone", "private": "WPrivate", "safe": "WSync"}
	var isoV []isoViol
	classesUsed := map[string]any{}
	var classLines []string
	var wlocs []string
	for l := range writesAt {
		wlocs = append(wlocs, l)
	}
	sort.Strings(wlocs)
	for _, l := range wlocs {
		e, ok := wt.Locations[l]
		if !ok {
			for _, pt := range wt.Patterns {
				if pt.OpaqueOnly && realWrite[l] {
					continue
				}
				if regexp.MustCompile(pt.Regex).MatchString(l) {
					e.Class, e.Why, ok = pt.Class, pt.Why, true
					break
				}
			}
		}
		switch {
		case !ok:
			isoV = append(isoV, isoViol{l, "request-phase code writes this shared location and shared_writes.json does not classify it (state written by one request can reach another)", writesAt[l]})
		case classCoq[e.Class] == "":
			fatal("shared_writes.json: %s has unknown class %q", l, e.Class)
		case e.Binding != "" && e.Binding != t.bindings[l]:
			isoV = append(isoV, isoViol{l, fmt.Sprintf("classified for the binding %q but the variable is now bound to %q: the justification no longer applies", e.Binding, t.bindings[l]), writesAt[l]})
		case e.Class == "memo" && nonIndex[l]:
			isoV = append(isoV, isoViol{l, "classified as a memo table but written other than by storing one key (cache[k] := v)", writesAt[l]})
		default:
			classesUsed[l] = map[string]any{"class": e.Class, "why": e.Why, "writes": writesAt[l], "binding": t.bindings[l]}
			classLines = append(classLines, fmt.Sprintf("  (%d, %s) (* %s *)", locID[l], classCoq[e.Class], safeComment(l)))
		}
	}
	var staleAllow []string
	for l := range wt.Locations {
		if _, ok := writesAt[l]; !ok {
			staleAllow = append(staleAllow, l)
		}
	}
	sort.Strings(staleAllow)
	if isoV == nil {
		isoV = []isoViol{}
	}
	if staleAllow == nil {
		staleAllow = []string{}
	}
	var opaqueIDs []string
	var olocs []string
	for l := range t.opaque {
		olocs = append(olocs, l)
	}
	sort.Strings(olocs)
	for _, l := range olocs {
		opaqueIDs = append(opaqueIDs, fmt.Sprint(locID[l]))
	}

	viol, locked, unbalanced := discipline(t.bodies)
	violAll, _, _ := discipline(append(append([]Body{}, t.setupBs...), t.bodies...))
	if viol == nil {
		viol = []violation{}
	}
	if violAll == nil {
		violAll = []violation{}
	}
	if unbalanced == nil {
		unbalanced = []string{}
	}
	if t.notes == nil {
		t.notes = []string{}
	}

	// Coq
	var v strings.Builder
	v.WriteString("(* GENERATED by translate/c20 from the goa source tree and from the server/client\n")
	v.WriteString("   packages generated for the fixed designs of harness/cmd/c20 — do not edit.\n")
	v.WriteString("   Rewritten by every `bin/check C20` run; the instance theorem of Instance.v is\n")
	v.WriteString("   proved about exactly this term. *)\n")
	v.WriteString("From Coq Require Import List.\nImport ListNotations.\nFrom Conc Require Import Model.\n\n")
	v.WriteString("(* locations\n")
	for _, l := range locs {
		fmt.Fprintf(&v, "   %d = %s\n", locID[l], safeComment(l))
	}
	v.WriteString("   mutexes\n")
	for _, m := range mus {
		fmt.Fprintf(&v, "   %d = %s\n", muID[m], safeComment(m))
	}
	v.WriteString("*)\n\n")
	emit := func(defname string, bs []Body) (nPaths, nDistinct int) {
		seen := map[string]bool{}
		var items []string
		for _, b := range bs {
			for pi, p := range b.Paths {
				nPaths++
				if len(p) == 0 {
					continue
				}
				parts := make([]string, len(p))
				for i, a := range p {
					parts[i] = coqAct(a, locID, muID)
				}
				term := "[" + strings.Join(parts, "; ") + "]"
				if seen[term] {
					continue
				}
				seen[term] = true
				items = append(items, fmt.Sprintf("  (* %s path %d, %s:%d *)\n  %s", safeComment(b.Name), pi, safeComment(b.File), b.Line, term))
			}
		}
		fmt.Fprintf(&v, "Definition %s : list thread := [\n%s\n].\n\n", defname, strings.Join(items, ";\n"))
		return nPaths, len(items)
	}
	nPaths, nDistinct := emit("fp_bodies", t.bodies)
	nSetupPaths, nSetupDistinct := emit("fp_setup_bodies", t.setupBs)
	// Coq list items separated by ";" — comments must stay inside the item
	for i := range classLines {
		if i < len(classLines)-1 {
			k := strings.Index(classLines[i], ") (*")
			classLines[i] = classLines[i][:k+1] + ";" + classLines[i][k+1:]
		}
	}
	fmt.Fprintf(&v, "(* request-phase shared writes classified by translate/c20/shared_writes.json *)\nDefinition fp_write_classes : list (nat * wclass) := [\n%s\n].\n\n", strings.Join(classLines, "\n"))
	fmt.Fprintf(&v, "(* shared objects of a type defined outside the package (and package-level function variables) that request-phase code calls *)\nDefinition fp_opaque_writes : list nat := [%s].\n", strings.Join(opaqueIDs, "; "))
	if err := os.WriteFile(*outV, []byte(v.String()), 0o644); err != nil {
		fatal("%v", err)
	}

	sort.Strings(t.notes)
	nActs := 0
	for _, b := range t.bodies {
		for _, p := range b.Paths {
			nActs += len(p)
		}
	}
	out := map[string]any{
		"locations": locs, "mutexes": mus, "bodies": t.bodies, "setup_bodies": t.setupBs,
		"notes": t.notes, "violations": viol, "locked_locations": locked, "unbalanced_paths": unbalanced,
		"violations_if_setup_ran_concurrently": violAll,
		"request_scoped_types":                 scoped,
		"isolation_violations":                 isoV,
		"shared_writes_classified":             classesUsed,
		"shared_writes_stale_entries":          staleAllow,
		"opaque_writes":                        t.opaque,
		"reached_outside_anchored_files":       t.reached,
		"setup_table_used":                     usedSetup,
		"stats": map[string]int{"request_bodies": len(t.bodies), "setup_bodies": len(t.setupBs), "paths": nPaths,
			"distinct_nonempty_paths": nDistinct, "setup_paths": nSetupPaths, "setup_distinct_nonempty_paths": nSetupDistinct,
			"actions": nActs, "locations": len(locs), "mutexes": len(mus), "generated_files": nGenFiles,
			"runtime_files": len(t.tbl.RuntimeFiles)},
	}
	jb, _ := json.MarshalIndent(out, "", " ")
	if err := os.WriteFile(*outJ, jb, 0o644); err != nil {
		fatal("%v", err)
	}
}
