module c20translate

go 1.22
