module veriftranslate/c04

go 1.22.0
