// Command c01translate reads, on every run of `bin/check C01`, the tables that
// codegen.Goify / codegen.CamelCase consult and writes them as Coq terms
// (coq/Names/Generated_reserved.v), so that an edit of those tables changes the
// subject of the Names theorems:
//
//   - codegen/goify.go: the shape of fixReservedGo (which predicates make a word
//     reserved, what is appended), the keys of isPackage, the ':' cut and the
//     "Val"/"val" fall-backs of Goify;
//   - codegen/funcs.go: the keys of commonInitialisms;
//   - the Go toolchain goa is compiled with: go/token's keyword table (enumerated
//     through token.Token.IsKeyword) and go/doc's predeclared tables (parsed from
//     $GOROOT/src/go/doc/reader.go and cross-checked against doc.IsPredeclared over
//     the type checker's universe scope).
//
// go/ast only. Fail closed: any shape this program does not recognise is an error
// (exit 2) and the check reports the correspondence as broken.
package main

import (
	"flag"
	"fmt"
	"go/ast"
	"go/doc"
	"go/parser"
	"go/token"
	"go/types"
	"os"
	"path/filepath"
	"runtime"
	"sort"
	"strconv"
	"strings"
)

func fail(format string, a ...any) {
	fmt.Fprintf(os.Stderr, "c01translate: "+format+"\n", a...)
	os.Exit(2)
}

func parse(path string) (*token.FileSet, *ast.File) {
	fset := token.NewFileSet()
	f, err := parser.ParseFile(fset, path, nil, 0)
	if err != nil {
		fail("cannot parse %s: %v", path, err)
	}
	return fset, f
}

// mapKeys returns the keys with value `true` of the package-level
// `var name = map[string]bool{...}` literal.
func mapKeys(f *ast.File, path, name string) []string {
	var lit *ast.CompositeLit
	ast.Inspect(f, func(n ast.Node) bool {
		vs, ok := n.(*ast.ValueSpec)
		if !ok {
			return true
		}
		for i, id := range vs.Names {
			if id.Name == name && i < len(vs.Values) {
				if cl, ok := vs.Values[i].(*ast.CompositeLit); ok {
					lit = cl
				}
			}
		}
		return true
	})
	if lit == nil {
		fail("%s: map literal %s not found", path, name)
	}
	mt, ok := lit.Type.(*ast.MapType)
	if !ok || fmt.Sprint(mt.Key) != "string" || fmt.Sprint(mt.Value) != "bool" {
		fail("%s: %s is not a map[string]bool literal", path, name)
	}
	var keys []string
	for _, e := range lit.Elts {
		kv, ok := e.(*ast.KeyValueExpr)
		if !ok {
			fail("%s: %s has a non key/value element", path, name)
		}
		k, ok := kv.Key.(*ast.BasicLit)
		if !ok || k.Kind != token.STRING {
			fail("%s: %s has a non literal key", path, name)
		}
		v, ok := kv.Value.(*ast.Ident)
		if !ok || (v.Name != "true" && v.Name != "false") {
			fail("%s: %s has a non literal value", path, name)
		}
		s, err := strconv.Unquote(k.Value)
		if err != nil {
			fail("%s: %s: bad key %s", path, name, k.Value)
		}
		if v.Name == "true" {
			keys = append(keys, s)
		}
	}
	sort.Strings(keys)
	return keys
}

func funcDecl(f *ast.File, path, name string) *ast.FuncDecl {
	for _, d := range f.Decls {
		if fd, ok := d.(*ast.FuncDecl); ok && fd.Recv == nil && fd.Name.Name == name {
			return fd
		}
	}
	fail("%s: func %s not found", path, name)
	return nil
}

func exprString(e ast.Expr) string {
	switch x := e.(type) {
	case *ast.Ident:
		return x.Name
	case *ast.SelectorExpr:
		return exprString(x.X) + "." + x.Sel.Name
	case *ast.CallExpr:
		var as []string
		for _, a := range x.Args {
			as = append(as, exprString(a))
		}
		return exprString(x.Fun) + "(" + strings.Join(as, ",") + ")"
	case *ast.IndexExpr:
		return exprString(x.X) + "[" + exprString(x.Index) + "]"
	case *ast.BasicLit:
		return x.Value
	case *ast.ParenExpr:
		return exprString(x.X)
	}
	return fmt.Sprintf("<%T>", e)
}

func orChain(e ast.Expr) []string {
	if p, ok := e.(*ast.ParenExpr); ok {
		return orChain(p.X)
	}
	if b, ok := e.(*ast.BinaryExpr); ok && b.Op == token.LOR {
		return append(orChain(b.X), orChain(b.Y)...)
	}
	return []string{exprString(e)}
}

// fixReserved recognises
//
//	func fixReservedGo(w string) string { if P1(w) || P2(w) || M[w] { w += "S" }; return w }
//
// and returns the predicates and the suffix.
func fixReserved(f *ast.File, path string) (preds []string, suffix string) {
	fd := funcDecl(f, path, "fixReservedGo")
	if len(fd.Type.Params.List) != 1 || len(fd.Type.Params.List[0].Names) != 1 {
		fail("%s: fixReservedGo: unexpected parameters", path)
	}
	w := fd.Type.Params.List[0].Names[0].Name
	if len(fd.Body.List) != 2 {
		fail("%s: fixReservedGo: expected `if … { w += \"_\" }; return w`, found %d statements", path, len(fd.Body.List))
	}
	ifs, ok := fd.Body.List[0].(*ast.IfStmt)
	if !ok || ifs.Init != nil || ifs.Else != nil || len(ifs.Body.List) != 1 {
		fail("%s: fixReservedGo: unexpected if statement", path)
	}
	as, ok := ifs.Body.List[0].(*ast.AssignStmt)
	if !ok || as.Tok != token.ADD_ASSIGN || len(as.Lhs) != 1 || exprString(as.Lhs[0]) != w {
		fail("%s: fixReservedGo: the if body is not `%s += \"…\"`", path, w)
	}
	lit, ok := as.Rhs[0].(*ast.BasicLit)
	if !ok || lit.Kind != token.STRING {
		fail("%s: fixReservedGo: appended value is not a string literal", path)
	}
	suffix, _ = strconv.Unquote(lit.Value)
	ret, ok := fd.Body.List[1].(*ast.ReturnStmt)
	if !ok || len(ret.Results) != 1 || exprString(ret.Results[0]) != w {
		fail("%s: fixReservedGo: does not end with `return %s`", path, w)
	}
	for _, p := range orChain(ifs.Cond) {
		switch p {
		case "doc.IsPredeclared(" + w + ")":
			preds = append(preds, "predeclared")
		case "token.IsKeyword(" + w + ")":
			preds = append(preds, "keyword")
		case "isPackage[" + w + "]":
			preds = append(preds, "package")
		default:
			fail("%s: fixReservedGo: unknown reserved-word predicate %s", path, p)
		}
	}
	return
}

// goifyShape checks the statements of Goify the model transcribes and returns the
// separator and the two fall-back identifiers.
func goifyShape(f *ast.File, path string) (sep, up, low string) {
	fd := funcDecl(f, path, "Goify")
	var rets []string
	var camel, fix, idxPos bool
	ast.Inspect(fd.Body, func(n ast.Node) bool {
		switch x := n.(type) {
		case *ast.CallExpr:
			switch exprString(x.Fun) {
			case "strings.Index":
				if len(x.Args) == 2 {
					if l, ok := x.Args[1].(*ast.BasicLit); ok {
						sep, _ = strconv.Unquote(l.Value)
					}
				}
			case "CamelCase":
				if len(x.Args) == 3 && exprString(x.Args[1]) == "firstUpper" && exprString(x.Args[2]) == "true" {
					camel = true
				}
			case "fixReservedGo":
				fix = true
			}
		case *ast.BinaryExpr:
			if exprString(x.X) == "idx" && x.Op == token.GTR && exprString(x.Y) == "0" {
				idxPos = true
			}
		case *ast.ReturnStmt:
			if len(x.Results) == 1 {
				if l, ok := x.Results[0].(*ast.BasicLit); ok && l.Kind == token.STRING {
					s, _ := strconv.Unquote(l.Value)
					rets = append(rets, s)
				}
			}
		}
		return true
	})
	if !camel || !fix || !idxPos || sep == "" {
		fail("%s: Goify no longer has the shape the model transcribes (CamelCase(str, firstUpper, true)=%v, fixReservedGo=%v, idx > 0=%v, separator=%q)", path, camel, fix, idxPos, sep)
	}
	if len(rets) != 3 || rets[0] != "" {
		fail("%s: Goify: expected the literal returns \"\", upper fall-back, lower fall-back; found %q", path, rets)
	}
	return sep, rets[1], rets[2]
}

func keywords() []string {
	var ks []string
	for t := token.Token(0); t < 512; t++ {
		if t.IsKeyword() {
			ks = append(ks, t.String())
		}
	}
	for _, k := range ks {
		if !token.IsKeyword(k) {
			fail("go/token: %q is a keyword token but token.IsKeyword rejects it", k)
		}
	}
	sort.Strings(ks)
	return ks
}

func predeclared() []string {
	path := filepath.Join(runtime.GOROOT(), "src", "go", "doc", "reader.go")
	_, f := parse(path)
	set := map[string]bool{}
	for _, m := range []string{"predeclaredTypes", "predeclaredFuncs", "predeclaredConstants"} {
		for _, k := range mapKeys(f, path, m) {
			set[k] = true
		}
	}
	var out []string
	for k := range set {
		if !doc.IsPredeclared(k) {
			fail("go/doc: %q is listed in %s but doc.IsPredeclared rejects it", k, path)
		}
		out = append(out, k)
	}
	for _, n := range types.Universe.Names() {
		if doc.IsPredeclared(n) != set[n] {
			fail("go/doc: doc.IsPredeclared(%q)=%v disagrees with the tables parsed from %s", n, doc.IsPredeclared(n), path)
		}
	}
	sort.Strings(out)
	return out
}

func coqBytes(s string) string {
	if s == "" {
		return "[]"
	}
	var b []string
	for i := 0; i < len(s); i++ {
		b = append(b, strconv.Itoa(int(s[i])))
	}
	return "[" + strings.Join(b, ";") + "]"
}

func coqWords(name string, ws []string) string {
	var sb strings.Builder
	fmt.Fprintf(&sb, "Definition %s : list (list N) := [", name)
	for i, w := range ws {
		if i > 0 {
			sb.WriteString(";")
		}
		fmt.Fprintf(&sb, "\n  %s (* %s *)", coqBytes(w), strings.ReplaceAll(w, "*", "."))
	}
	sb.WriteString("].\n")
	return sb.String()
}

func main() {
	repo := flag.String("repo", "/repo", "goa source tree")
	out := flag.String("out", "", "Generated_reserved.v to write")
	flag.Parse()
	gpath := filepath.Join(*repo, "codegen", "goify.go")
	fpath := filepath.Join(*repo, "codegen", "funcs.go")
	_, gf := parse(gpath)
	_, ff := parse(fpath)
	preds, suffix := fixReserved(gf, gpath)
	sep, up, low := goifyShape(gf, gpath)
	has := map[string]bool{}
	for _, p := range preds {
		has[p] = true
	}
	var pre, kw, pk []string
	if has["predeclared"] {
		pre = predeclared()
	}
	if has["keyword"] {
		kw = keywords()
	}
	if has["package"] {
		pk = mapKeys(gf, gpath, "isPackage")
	}
	ini := mapKeys(ff, fpath, "commonInitialisms")
	for _, w := range append(append(append(append([]string{}, pre...), kw...), pk...), ini...) {
		for i := 0; i < len(w); i++ {
			if w[i] >= 0x80 {
				fail("non-ASCII table entry %q: the model compares runes with bytes", w)
			}
		}
	}
	var sb strings.Builder
	sb.WriteString("(* GENERATED by translate/c01 from codegen/goify.go (fixReservedGo, isPackage, Goify),\n   codegen/funcs.go (commonInitialisms), go/token and go/doc of the toolchain. Do not edit. *)\n")
	sb.WriteString("From Coq Require Import List NArith.\nImport ListNotations.\nOpen Scope N_scope.\n\n")
	fmt.Fprintf(&sb, "(* reserved-word predicates found in fixReservedGo: %s *)\n", strings.Join(preds, ", "))
	sb.WriteString(coqWords("predeclared", pre))
	sb.WriteString(coqWords("keywords", kw))
	sb.WriteString(coqWords("packages", pk))
	sb.WriteString(coqWords("initialisms", ini))
	fmt.Fprintf(&sb, "Definition reserved_suffix : list N := %s.\n", coqBytes(suffix))
	fmt.Fprintf(&sb, "Definition name_separator : list N := %s.\n", coqBytes(sep))
	fmt.Fprintf(&sb, "Definition fallback_upper : list N := %s.\n", coqBytes(up))
	fmt.Fprintf(&sb, "Definition fallback_lower : list N := %s.\n", coqBytes(low))
	if *out == "" {
		fmt.Print(sb.String())
		return
	}
	if err := os.WriteFile(*out, []byte(sb.String()), 0o644); err != nil {
		fail("%v", err)
	}
	fmt.Printf("predeclared=%d keywords=%d packages=%d initialisms=%d suffix=%q separator=%q fallbacks=%q/%q\n", len(pre), len(kw), len(pk), len(ini), suffix, sep, up, low)
}
