module c01translate

go 1.22
