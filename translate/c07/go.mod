module c07translate

go 1.22
