"""C07 — OpenAPI documents are valid and list exactly the server's operations (engine OpenAPI)."""
import json
import os
import shutil

import vcheck
from vcheck import Check, sh, VERIF, REPO, goenv


def run(tier, replay=None):
    ck = Check("C07", "OpenAPI", tier)
    tr_err = []
    if os.path.realpath(REPO) != "/repo":
        # a scratch worktree gets its own copy of the engine (Generated_verbs.v is rewritten)
        alt = os.path.join(ck.work, "coq-OpenAPI")
        shutil.copytree(ck.coqdir, alt, ignore=shutil.ignore_patterns("*.vo", "*.vos", "*.vok", "*.glob", ".*.aux", "Makefile.coq*", ".Makefile*"))
        ck.coqdir = alt

    def translate():
        # the verb switches of the two builders -> Generated_verbs.v (fails closed)
        rc, out = sh(["go", "run", ".", "-repo", REPO, "-out", os.path.join(ck.coqdir, "Generated_verbs.v")],
                     cwd=os.path.join(VERIF, "translate", "c07"), env=goenv(), timeout=300)
        if rc != 0:
            tr_err.append(out[-1500:])

    ck.coq_build(pre=translate)
    if tr_err:
        ck.coq_ok = False
        ck.coq_error = "translate/c07 no longer understands the verb switches of the OpenAPI builders: " + tr_err[0]
    if ck.coq_ok:
        ck.coq_assumptions()
    binp = ck.go_build("c07")
    cmd = [binp, "-seed", str(ck.seed), "-tier", tier, "-out", ck.work]
    if replay:
        cmd += ["-replay", replay]
    rc, out = sh(cmd, timeout=7200)
    if rc != 0:
        raise RuntimeError("harness c07 failed: " + out[-2000:])
    res = json.load(open(os.path.join(ck.work, "result.json")))
    for f in res["failures"]:
        ck.failure(f["signature"], f["what"], {"input": f["input"]})
    # the harness keeps five designs per signature and worker in full; the counts are in the distribution
    for sig in list(ck.known_hits):
        ck.known_hits[sig] = res["distribution"].get("failure_sig=" + sig, ck.known_hits[sig])

    mism = None
    if ck.coq_ok:
        hdr = "From OpenAPI Require Import Model Generated_verbs Run.\nOpen Scope N_scope."
        lines = open(os.path.join(ck.work, "cases_ops.txt")).read().splitlines()
        mism = ck.coq_eval_cases(lines, hdr, "nat * mdesign * list op * list op * list op * (path * list (verb * path))", "mismatches", tag="ops")
    if not ck.coq_ok:
        if not ck.violations:
            ck.unproved("the OpenAPI development no longer checks: " + ck.coq_error,
                        {"broken": "coq/OpenAPI build (Generated_verbs.v is rewritten from builder.go on every run)", "detail": ck.coq_error})
    elif mism and not ck.violations:
        byidx = {c["index"]: c for c in res["cases"]}
        ck.unproved("correspondence OpenAPI.server_ops / doc3_ops / doc2_ops vs http/codegen service data and the generated documents broke on %d design(s); the direct comparison of documents and mount table found nothing" % len(mism),
                    {"broken": "ops_same (server_ops d) observed_server && ops_same (doc3_ops d) observed_openapi3 && ops_same (doc2_ops d) observed_openapi2",
                     "first_disagreeing_case": byidx.get(mism[0]), "mismatching_case_indexes": mism[:50]})
    cov = {"evaluations": res["evaluations"], "distinct_nontrivial": res["distinct_nontrivial"], "rule": res["rule"],
           "samples": res["samples"], "distribution": res["distribution"],
           "model_cases": res.get("extra", {}).get("model_cases"),
           "model_mismatches": len(mism) if mism is not None else None,
           "exhaustive": False}
    return ck.finish(cov, assumptions=[
        "PARTIAL: 'valid according to the specification' is delegated to test oracles, not proved: kin-openapi v0.128.0 (LoadFromData + Validate, examples not checked against schemas) for OpenAPI 3.0 json and yaml, a structural validator written in the harness for Swagger 2.0, plus: every security requirement names a defined scheme, operationIds unique",
        "the Coq theorems are about the operations listed (method, path template, parameters name/location/required, request body presence, status codes, scheme names); schemas, examples, descriptions, tags are not modelled",
        "model OpenAPI/Model.v is hand-written from service_data.go, the server templates and the v2/v3 builders; the two verb switches are regenerated from builder.go on every run (Generated_verbs.v); the model is tied by evaluating server_ops / doc3_ops / doc2_ops inside Coq on the finalized design of every case and comparing with what the real generators produced",
        "names are interned per design by the harness (equal strings, equal numbers); paths are tokenised at '/' (a wildcard must fill its segment)",
        "JSON/YAML same content is checked by the harness only (both parsed to generic trees, numbers normalised)",
        "OpenAPI 2 operations are compared on their full path (basePath + key)",
        "hypotheses of the _partial theorems are the negations of the recorded findings' signatures; uniform wildcards over the routes of an endpoint is enforced by goa's validation ('Param does not appear in all routes')",
        "not modelled: MapParams, streaming endpoints (101), SkipRequestBodyEncodeDecode, redirects, openapi:generate=false, scopes (compared by the harness only)"],
        trusted_base=["harness/cmd/c07 (design streams, extraction of the finalized design from expr, parsing of the documents, Coq term printing)",
                      "harness/designgen (design descriptions interpreted through goa's public DSL)",
                      "translate/c07 (go/ast: case labels and assigned fields of the two verb switches)",
                      "kin-openapi v0.128.0 as the validity oracle for OpenAPI 3.0; gopkg.in/yaml.v3 and encoding/json as parsers"])
