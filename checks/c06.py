"""C06 — secured methods run only after a security requirement is satisfied (engine Security)."""
import json
import os

import vcheck
from vcheck import Check, sh, VERIF


def run(tier, replay=None):
    ck = Check("C06", "Security", tier)
    ck.coq_build()
    if ck.coq_ok:
        ck.coq_assumptions()
    binp = ck.go_build("c06")
    cmd = [binp, "-seed", str(ck.seed), "-tier", tier, "-out", ck.work, "-repo", os.path.realpath(vcheck.REPO),
           "-harness", os.path.join(VERIF, "harness")]
    if replay:
        cmd += ["-replay", replay]
    rc, out = sh(cmd, timeout=3000, env=vcheck.goenv())
    if rc != 0:
        raise RuntimeError("harness c06 failed: " + out[-3000:])
    res = json.load(open(os.path.join(ck.work, "result.json")))
    for f in res["failures"]:
        ck.failure(f["signature"], f["what"], {"input": f["input"]})

    def lines(name):
        return open(os.path.join(ck.work, name)).read().splitlines()

    def evaluate(name, header, typ, fn, shards=None):
        # a coqc killed by the machine (no output at all) is retried with fewer, then one, process(es)
        ls = lines("cases_%s.txt" % name)
        # ~3 MB of coqc memory per case: keep shards small (the lib runs at most one per core at a time)
        n = shards or max(vcheck.NCPU, len(ls) // 120)
        for attempt, sh_n in enumerate((n, n, n * 2)):
            r = ck.coq_eval_cases(ls, header, typ, fn, shards=sh_n, tag=name)
            if r is not None:
                return r
            if not ck.coq_error.rstrip().endswith("did not evaluate:") or attempt == 2:
                return None
            ck.notes.append("coqc died without output on %s (attempt %d), retried" % (name, attempt + 1))
            ck.coq_ok, ck.coq_error = True, ""
        return None

    mism = {"inherit": None, "ins": None, "shape": None, "strip": None, "wire": None, "exchange": None}
    if ck.coq_ok:
        hdr = "From Security Require Import Model Run.\nOpen Scope string_scope.\n"
        mism["inherit"] = evaluate("inherit", hdr, "inherit_case", "inherit_mismatches")
        if ck.coq_ok:
            mism["ins"] = evaluate("ins", hdr, "nat * locs * list requirement * list (list (string * string))", "ins_mismatches")
        hdr2 = hdr + "\n".join(lines("defs.v")) + "\n"
        if ck.coq_ok:
            mism["shape"] = evaluate("shape", hdr2, "nat * list requirement * list stmt", "shape_mismatches", shards=2)
        if ck.coq_ok:
            mism["strip"] = evaluate("strip", hdr2, "nat * locs * list requirement * list cattr", "strip_mismatches", shards=2)
        if ck.coq_ok:
            mism["wire"] = evaluate("wire", hdr2, "wire_case", "wire_mismatches")
        if ck.coq_ok:
            mism["exchange"] = evaluate("exchange", hdr2, "exchange_case", "exchange_mismatches")
    nm = sum(len(v or []) for v in mism.values())
    if not ck.coq_ok:
        print("# Coq side failed: " + ck.coq_error.replace("\n", " ")[:600])
    if not ck.coq_ok:
        if not ck.violations:
            ck.unproved("the Security development no longer checks: " + ck.coq_error,
                        {"broken": "coq/Security build or case evaluation", "detail": ck.coq_error})
    elif nm and not ck.violations:
        first = {}
        if mism["exchange"]:
            first = {"exchange": res["cases"][mism["exchange"][0]], "case_line": lines("cases_exchange.txt")[mism["exchange"][0]][:2000]}
        elif mism["shape"]:
            first = {"endpoint_shape_line": lines("cases_shape.txt")[mism["shape"][0]][:3000],
                     "parse_error": res.get("extra", {}).get("last_shape_error")}
        elif mism["wire"]:
            first = {"wire_line": lines("cases_wire.txt")[mism["wire"][0]][:3000]}
        elif mism["strip"]:
            first = {"decoder_strip_line": lines("cases_strip.txt")[mism["strip"][0]][:3000],
                     "parse_error": res.get("extra", {}).get("last_strip_error")}
        elif mism["ins"]:
            first = {"scheme_location_line": lines("cases_ins.txt")[mism["ins"][0]][:3000]}
        elif mism["inherit"]:
            first = {"placement_line": lines("cases_inherit.txt")[mism["inherit"][0]][:3000]}
        ck.unproved("correspondence Security model vs goa broke: %d endpoint location table(s) (endpoint_ins vs HTTPEndpointExpr.Requirements), %d placement(s) (effective_reqs/data_reqs vs expr + service data), "
                    "%d endpoint shape(s) (gen_endpoint vs generated endpoints.go), %d request decoder(s) (strip_fields vs generated encode_decode.go), "
                    "%d request(s) on the wire (encode_wire vs tapped request), %d exchange(s) (run vs recorded callbacks); the property's own laws held on every case explored"
                    % (len(mism["ins"] or []), len(mism["inherit"] or []), len(mism["shape"] or []), len(mism["strip"] or []), len(mism["wire"] or []), len(mism["exchange"] or [])),
                    {"broken": "correspondence", "first_disagreeing_case": first,
                     "mismatching_placements": (mism["inherit"] or [])[:50], "mismatching_shapes": (mism["shape"] or [])[:50], "mismatching_decoders": (mism["strip"] or [])[:50],
                     "mismatching_exchanges": (mism["exchange"] or [])[:50]})
    extra = {k: v for k, v in res.get("extra", {}).items() if k != "designs"}
    cov = {"evaluations": res["evaluations"], "distinct_nontrivial": res["distinct_nontrivial"], "rule": res["rule"],
           "samples": res["samples"], "distribution": res["distribution"],
           "model_mismatches": nm if ck.coq_ok else None,
           "cases_compared_in_coq": {k: len(lines("cases_%s.txt" % k)) for k in mism},
           "exhaustive": False,
           "exhaustive_parts": "all 2^k callback verdict vectors per secured method; all 6^3 x 2 placements of the tier-A variants",
           "harness_notes": extra}
    return ck.finish(cov, assumptions=[
        "model Security/Model.v is hand-written from service_endpoint_method.go.tpl, expr/method.go Finalize, service_data.go (SchemesData.Append), request_encoder/decoder.go.tpl; tied on every run by (a) parsing each generated endpoint function back into the model's statements and comparing with gen_endpoint, (a') reading the prefix-stripping section of each generated request decoder and comparing with strip_fields, (b) evaluating effective_reqs/data_reqs and run inside Coq on every placement / exchange the real code ran",
        "callbacks are Section variables (any function of kind, scheme struct, credentials, context); chain_is_or_of_ands / chain_call_order additionally assume the verdict does not depend on the context",
        "chain theorems assume every requirement lists at least one scheme (empty_requirement_refuted shows why); designs in the explored envelope satisfy it",
        "one scheme per kind per service (two API-key schemes in one service do not compile: C01 territory); header-carried credentials may share one header (the client is then given one value for the group, or only one member of an optional group); Basic never shares Authorization with another credential",
        "base64 of Basic credentials, URL query escaping and JSON body encoding are exercised end to end but modelled as identity; net/http header trimming is modelled as trimming of spaces and tabs",
        "gRPC transport of credentials is not exercised (protoc absent)"],
        trusted_base=["harness/cmd/c06 (design construction, go/ast reader of endpoints.go, observation, Coq term printing)",
                      "harness/tierb + designgen (shared driver; the API-key callback of the stub is patched to record its scopes)",
                      "decidable equalities of Run.v (decide equality, Defined)"])
