"""C12 - any DSL program yields a design or located errors, never a crash (engine DSL).

translate/c12 extracts the DSL context table from <repo>/dsl/*.go into
coq/DSL/Generated_contexts.v; the engine proves reference integrity of accepted
designs, termination of the guarded traversals on cyclic attribute graphs, and that
misplaced calls are reported; harness/cmd/c12 runs the real dsl/eval/expr code on a
function x context grid, near-valid designs with one mutation and malformed programs
(child processes, recover, watchdog) and the observations are compared with the
model inside Coq. A panic, a fatal error, a timeout, an empty error list or an
accepted dangling reference is a failing input of the property (search, not proof).
"""
import json
import os
import shutil

import vcheck
from vcheck import Check, sh, goenv, VERIF, REPO


def translate(ck):
    tdir = os.path.join(VERIF, "translate", "c12")
    tbin = os.path.join(VERIF, ".build", "c12translate")
    rc, out = sh(["go", "build", "-o", tbin, "."], cwd=tdir, env=goenv(), timeout=600)
    if rc != 0:
        raise RuntimeError("translate/c12 does not build: " + out[-2000:])
    tmpv = os.path.join(ck.work, "Generated_contexts.v")
    tj = os.path.join(ck.work, "contexts.json")
    rc, out = sh([tbin, "-repo", REPO, "-out", tmpv, "-json", tj], timeout=300)
    if rc != 0:
        return None, "translate/c12 could not read the dsl package: " + out[-1500:]
    dst = os.path.join(ck.coqdir, "Generated_contexts.v")
    # keep the file (and its .vo) when nothing changed: incremental Coq build
    if not os.path.exists(dst) or open(dst).read() != open(tmpv).read():
        shutil.copyfile(tmpv, dst)
    return json.load(open(tj)), None


def run(tier, replay=None):
    ck = Check("C12", "DSL", tier)
    table, terr = translate(ck)
    if table is None:
        ck.coq_ok, ck.coq_error = False, terr
    else:
        ck.coq_build()
        if ck.coq_ok:
            ck.coq_assumptions()

    binp = ck.go_build("c12")
    cmd = [binp, "-seed", str(ck.seed), "-tier", tier, "-out", ck.work, "-repo", REPO]
    if replay:
        cmd += ["-replay", replay]
    scale = os.environ.get("VERIF_C12_SCALE")   # testing aid: fraction of the tier's random programs (default 1)
    if scale:
        near, mal = (1500, 1500) if tier != "thorough" else (25000, 80000)
        cmd += ["-nearvalid", str(int(near * float(scale))), "-malformed", str(int(mal * float(scale)))]
        ck.notes.append("VERIF_C12_SCALE=%s: reduced number of random programs" % scale)
    rc, out = sh(cmd, timeout=7200, env=goenv())
    if rc != 0:
        raise RuntimeError("harness c12 failed: " + out[-3000:])
    res = json.load(open(os.path.join(ck.work, "result.json")))
    for f in res["failures"]:
        ck.failure(f["signature"], f["what"], {"input": f["input"]})

    # the harness must exercise exactly the functions the translator found
    table_names = [e["name"] for e in table] if table else []
    reg_names = res["extra"].get("functions", [])
    names_ok = (table_names == reg_names) or not table
    unknown = [e for e in (table or []) if e["kind"] == "KUnknown"]

    mism = {"ref": None, "grid": None, "ctx": None}
    if ck.coq_ok and not replay:
        hdr = "From Coq Require Import NArith.\nFrom DSL Require Import Model Generated_contexts Run."
        for key, fname, typ, fn, shards in (
                ("ref", "cases_ref.txt", "ref_case", "ref_mismatches", None),
                ("grid", "cases_grid.txt", "grid_case", "grid_mismatches_s", 8),
                ("ctx", "cases_ctx.txt", "ctx_case", "ctx_mismatches", 1)):
            lines = open(os.path.join(ck.work, fname)).read().splitlines()
            h, f = hdr, fn
            if key == "grid":
                sfx = open(os.path.join(ck.work, "grid_suffixes.txt")).read()
                h = hdr + "\nFrom Coq Require Import String.\nOpen Scope string_scope.\nDefinition obs_suffixes : list string := %s." % sfx
                f = "grid_mismatches_s obs_suffixes"
            if key == "ref":
                # design terms are large: keep every case file (and coqc's memory) small
                shards = max(1, min(256, len(lines) // 150))
            mism[key] = ck.coq_eval_cases(lines, h, typ, f, shards=shards, tag=key)
            if mism[key] is None:
                break

    index = {}
    ip = os.path.join(ck.work, "cases_index.json")
    if os.path.exists(ip):
        index = {c["id"]: c for c in json.load(open(ip))}

    if not ck.coq_ok:
        if not ck.violations:
            detail = {"broken": "coq/DSL build or case evaluation", "detail": ck.coq_error}
            if unknown:
                detail["functions_not_recognised"] = unknown
            ck.unproved("the DSL development no longer checks: " + ck.coq_error, detail)
    elif not replay:
        total = sum(len(v or []) for v in mism.values())
        if not names_ok and not ck.violations:
            ck.unproved("the harness does not exercise exactly the exported functions of the dsl package",
                        {"broken": "harness registry vs translated table",
                         "only_in_dsl": sorted(set(table_names) - set(reg_names)), "only_in_harness": sorted(set(reg_names) - set(table_names))})
        if res["extra"].get("grid_unreached") and not ck.violations:
            ck.unproved("%d grid probes were never reached (a context template no longer nests as expected)" % res["extra"]["grid_unreached"],
                        {"broken": "grid context templates"})
        nbase = sum(v for k, v in res["distribution"].items() if k in ("mutation=none", "mutation=multi_ref_valid", "mutation=apikey_two_schemes_valid", "mutation=feature_map_array_key", "mutation=feature_sized_int_enum", "mutation=base_path_param_valid"))
        nrej = res["distribution"].get("base_design_rejected", 0)
        if nrej > max(2, nbase // 50) and not ck.violations:
            ck.unproved("%d of %d unmutated random designs are rejected by goa: the design generator left its envelope (or goa rejects valid designs)" % (nrej, nbase),
                        {"broken": "near-valid stream: base designs must be accepted"})
        if total and not ck.violations:
            first = {}
            for k, v in mism.items():
                if v:
                    first[k] = index.get(v[0], {"id": v[0]})
            ck.unproved("correspondence between the DSL model and dsl/eval/expr broke: %d near-valid design(s), %d grid pair(s), %d context type(s) disagree; no program crashed and no dangling reference was accepted on what was explored" % (
                len(mism["ref"] or []), len(mism["grid"] or []), len(mism["ctx"] or [])),
                {"broken": "Run.ref_mismatches / grid_mismatches / ctx_mismatches = []", "first_disagreeing_case": first,
                 "mismatching_ref_cases": (mism["ref"] or [])[:40], "mismatching_grid_cases": (mism["grid"] or [])[:40],
                 "mismatching_ctx_cases": (mism["ctx"] or [])[:40]})

    dist = res["distribution"]
    cov = {"evaluations": res["evaluations"], "distinct_nontrivial": res["distinct_nontrivial"], "rule": res["rule"],
           "samples": res["samples"], "distribution": dist,
           "model_mismatches": None if (not ck.coq_ok or replay) else sum(len(v or []) for v in mism.values()),
           "failing_inputs_counted_by_harness": res["extra"].get("signature_counts", {}),   # result.json keeps 3 inputs per signature
           "timeouts_retried": res["extra"].get("timeouts_retried"), "max_eval_ms": res["extra"].get("max_eval_ms"),
           "max_generate_ms": res["extra"].get("max_generate_ms"),
           "dsl_functions_in_table": len(table_names), "contexts_in_grid": res["extra"].get("contexts"),
           "search_not_proof": "absence of panics / non-termination for arbitrary programs is searched for (witness, grid, near-valid and malformed streams), not proved",
           "exhaustive": False}
    return ck.finish(cov, assumptions=[
        "label partial: 'never panics / always terminates for any program' is not a theorem about the Go code; the theorems are about the hand-written model coq/DSL/Model.v (reference integrity, guarded traversals, context checks), tied to the code by the extracted context table (proof breaks when a function's accepted contexts change) and by evaluating the model inside Coq on every near-valid design and grid pair the real code ran on",
        "validate's clauses were written from reading expr/*.go and dsl/*.go (list with file:line in notes/C12.md); kinds of errors outside the modelled ones are ignored by the comparison",
        "design descriptions are projected onto the model by harness/cmd/c12/model.go (names Find can see, attribute graph with user types unwrapped)",
        "DSL functions are probed with one benign argument shape each; functions whose check depends on more than the type of eval.Current() are marked nested and not predicted inside their accepted contexts",
        "gRPC mappings, servers/hosts, unions, conversions are exercised by the grid and the malformed stream only; not modelled in Part 1"],
        trusted_base=["translate/c12 (go/ast extraction of the eval.Current() checks; unknown shapes fail closed)",
                      "harness/cmd/c12 (program interpreter over reflection, mutations, child-process runner, message parsing, Coq term printing), harness/designgen",
                      "decidable equalities err_eq_dec / etype_eq_dec (decide equality, Defined)"])
