"""C08 — result views expose exactly the attributes of the selected view (engine Views)."""
import json
import os

import vcheck
from vcheck import Check, sh, VERIF


def _lines(ck, name):
    p = os.path.join(ck.work, name)
    return open(p).read().splitlines() if os.path.exists(p) else []


def run(tier, replay=None):
    ck = Check("C08", "Views", tier)
    ck.coq_build()
    if ck.coq_ok:
        ck.coq_assumptions()
    binp = ck.go_build("c08")
    cmd = [binp, "-seed", str(ck.seed), "-tier", tier, "-out", ck.work,
           "-repo", os.path.realpath(vcheck.REPO), "-harness", os.path.join(VERIF, "harness")]
    if replay:
        cmd += ["-replay", replay]
    rc, out = sh(cmd, timeout=3300, env=vcheck.goenv())
    if rc != 0:
        raise RuntimeError("harness c08 failed: " + out[-3000:])
    res = json.load(open(os.path.join(ck.work, "result.json")))
    for f in res["failures"]:
        ck.failure(f["signature"], f["what"], {"input": f["input"]})

    mism = {}
    if ck.coq_ok:
        hdr = open(os.path.join(ck.work, "header.v")).read()
        index = json.load(open(os.path.join(ck.work, "case_index.json")))
        streams = [
            ("proj", "cases_proj.txt", "N * env * nat * list proj_item", "proj_mismatches"),
            ("exch", "cases_exch.txt", "N * env * list exch", "exch_mismatches"),
            ("ctor", "cases_ctor.txt", "N * env * list ctor_item", "ctor_mismatches"),
        ]
        for name, fn, typ, fun in streams:
            lines = _lines(ck, fn)
            # small shards: a coqc holding ~400 cases needs > 1 GB and is the first victim of the
            # OOM killer on a loaded machine; a shard that died without output is retried once
            shards = max(16, len(lines) // 60) if len(lines) >= 32 else None
            m = ck.coq_eval_cases(lines, hdr, typ, fun, tag=name, shards=shards)
            if m is None and ck.coq_error.rstrip().endswith("did not evaluate:"):
                ck.notes.append("a case shard of stream %s was killed without output; retried with smaller shards" % name)
                ck.coq_ok, ck.coq_error = True, ""
                m = ck.coq_eval_cases(lines, hdr, typ, fun, tag=name + "r", shards=max(32, len(lines) // 25))
            if m is None:
                break
            mism[name] = m
    if not ck.coq_ok:
        if not ck.violations:
            ck.unproved("the Views development no longer checks: " + ck.coq_error,
                        {"broken": "coq/Views build or case evaluation", "detail": ck.coq_error})
    else:
        total = sum(len(v) for v in mism.values())
        if total and not ck.violations:
            name = "proj" if mism.get("proj") else ("exch" if mism.get("exch") else "ctor")
            first = index[name][mism[name][0]] if mism[name][0] < len(index[name]) else None
            what = {"proj": "correspondence Views.iproject (memo model of expr.Project) vs expr.Project",
                    "exch": "correspondence Views.server_wire / client_decode vs the generated server and client",
                    "ctor": "correspondence Views.ctor_plan vs the generated view constructors new<T>View<V> / new<T><V>"}[name]
            ck.unproved("%s broke on %d case(s) (%d projection pool(s), %d exchange batch(es)); the property's own laws held on every case explored"
                        % (what, total, len(mism.get("proj", [])), len(mism.get("exch", []))),
                        {"broken": what, "first_disagreeing_case": first,
                         "mismatching_proj_cases": mism.get("proj", [])[:50], "mismatching_exch_cases": mism.get("exch", [])[:50]})
    cov = {"evaluations": res["evaluations"], "distinct_nontrivial": res["distinct_nontrivial"], "rule": res["rule"],
           "samples": res["samples"], "distribution": res["distribution"], "extra": res.get("extra", {}),
           "model_mismatches": sum(len(v) for v in mism.values()) if ck.coq_ok else None,
           "coq_cases": {k: len(_lines(ck, "cases_%s.txt" % k)) for k in ("proj", "exch", "ctor")},
           "exhaustive": False}
    return ck.finish(cov, assumptions=[
        "model Views/Model.v is hand-written from expr/result_type.go (Project, the seen memo), dsl/result_type.go (View/buildView), codegen/service (projected types, new<T>View<V>, new<T><V>, Validate<T>View<V>, NewViewed<T>/New<T>) and the HTTP response encoder/decoder templates; tied by evaluating iproject/unfold, server_respond and client_decode inside Coq on every case the real code ran",
        "attribute types are leaves, result types and CollectionOf(result type); plain user types, arrays and maps that contain result types are not modelled (projectRecursive's object/array branches)",
        "result attributes that a response maps to a header or a cookie are read back from there and compared as part of the rendered value (which attributes cross the wire, not where: the transport encoding of headers / cookies is C02/C03's); such attributes get transport-safe values",
        "values: leaves are opaque (compared by identity of their JSON text); validations other than required-ness are not modelled; a non-pointer Go field holding the zero value is read as unset (generated values never hold zero leaves)",
        "designs whose generated code does not compile (C01's findings: a method returning a self-reaching result type, a fixed view listing a collection whose nested view has no required attribute) are left out of tier B",
        "an undefined view name RETURNED BY THE SERVICE is the known finding server-undefined-view-*; the main streams return only defined names and \"\""],
        trusted_base=["harness/cmd/c08 (pool generation, DSL interpretation through designgen, observation, Coq term printing)",
                      "harness/tierb + harness/designgen (batch compilation, scripted exchanges, canonical dump)",
                      "decidable comparisons ptree_eqb / val_eqb of Views/Run.v"])
