"""C04 — user code runs only on requests that satisfy the design's validations
(engine Validation). Shared with C14 (checks/c14.py calls run_prop("C14", ...)): one Coq
engine, one translator (translate/c04 -> Generated_valops.v), one harness
(harness/cmd/c04, flag -prop), one evidence file per property."""
import json
import os
import shutil

import vcheck
from vcheck import Check, sh, goenv, VERIF

PROPS = {
    "C04": {
        "files": ("Properties.v",), "coqchk": ("Properties",),
        "cases": ("cases_c04.txt", "case_t", "mismatches"),
        "relation": "model_verdict (exec of gen_validate on the request / response elements goa finalized, "
                    "decoder pipeline incl. the required-cookie reset and the post-validation conversion) "
                    "= goa_verdict (violations_goa) = observed accept / refuse(first error name, number of merged errors) / no response",
    },
    "C14": {
        "files": ("PropertiesSchema.v",), "coqchk": ("PropertiesSchema",),
        "cases": ("cases_c14.txt", "scase_t", "schema_mismatches"),
        "relation": "inline 3 (schema_of env att) = schema object written by the v3 builder in gen/http/openapi3.json "
                    "= schema object built by openapi.AttributeTypeSchema (json_schema.go), field by field, $ref resolved 3 deep",
    },
}


def translate(ck):
    """Regenerate Generated_valops.v from <repo>/codegen/validation.go (only rewritten when
    its content changes, so an unchanged source costs no rebuild). Fails closed."""
    tdir = os.path.join(VERIF, "translate", "c04")
    binp = os.path.join(VERIF, ".build", "translate-c04")
    rc, out = sh(["go", "build", "-o", binp, "."], cwd=tdir, env=goenv(), timeout=600)
    if rc != 0:
        raise RuntimeError("translate/c04 does not build:\n" + out[-2000:])
    tmp = os.path.join(ck.work, "Generated_valops.v.new")
    rc, out = sh([binp, "-repo", os.path.realpath(vcheck.REPO), "-out", tmp], timeout=120)
    ck.translate_error = out.strip()[-1500:] if rc != 0 else ""
    if rc == 0:
        dst = os.path.join(ck.coqdir, "Generated_valops.v")
        new = open(tmp).read()
        if not os.path.exists(dst) or open(dst).read() != new:
            open(dst, "w").write(new)


def private_engine(ck):
    """Runs against a scratch worktree build a private copy of the engine so that a mutated
    Generated_valops.v never reaches coq/Validation."""
    if os.path.realpath(vcheck.REPO) == "/repo":
        return
    dst = os.path.join(ck.work, "coq")
    shutil.rmtree(dst, ignore_errors=True)
    os.makedirs(dst)
    for f in os.listdir(ck.coqdir):
        if f.endswith(".v") or f == "_CoqProject":
            shutil.copyfile(os.path.join(ck.coqdir, f), os.path.join(dst, f))
    ck.coqdir = dst


ROUTING_RELATION = ("request_body payload mapping (Routing.v) = the request body goa finalized (nothing / whole payload / attribute names in order "
                    "+ required names in order), and elem_required / elem_content = IsRequired and type kind of every mapped header, cookie and parameter")


def sample_cases(lines, cap, cases=None):
    """Quick tier: at most about `cap` cases go through Coq: every case of the witness and
    sole-validation designs, every k-th of the others."""
    if len(lines) <= cap:
        return lines
    keep, rest = [], []
    for i, l in enumerate(lines):
        name = cases[i].get("design", "") if cases and i < len(cases) and isinstance(cases[i], dict) else ""
        (keep if ("sole" in name or name.startswith("wit")) else rest).append(l)
    room = max(cap - len(keep), 200)
    k = (len(rest) + room - 1) // room
    return keep + rest[::max(k, 1)]


def run_prop(pid, tier, replay=None):
    ck = Check(pid, "Validation", tier)
    cfg = PROPS[pid]
    ck.translate_error = ""
    private_engine(ck)
    ck.coq_build(pre=lambda: translate(ck))
    if ck.translate_error:
        ck.coq_ok = False
        ck.coq_error = "codegen/validation.go no longer has the shape the model was written from: " + ck.translate_error
    if ck.coq_ok:
        ck.coq_assumptions(files=cfg["files"])
    binp = ck.go_build("c04", out=(os.path.join(ck.work, "c04bin") if os.path.realpath(vcheck.REPO) != "/repo" else None))
    cmd = [binp, "-seed", str(ck.seed), "-tier", tier, "-out", ck.work, "-prop", pid,
           "-repo", os.path.realpath(vcheck.REPO), "-harness", os.path.join(VERIF, "harness")]
    if replay:
        cmd += ["-replay", replay]
    rc, out = sh(cmd, timeout=6000, env=goenv())
    if rc != 0:
        raise RuntimeError("harness c04 -prop %s failed: %s" % (pid, out[-3000:]))
    res = json.load(open(os.path.join(ck.work, "result.json")))
    for f in res["failures"]:
        ck.failure(f["signature"], f["what"], {"input": f["input"]})

    mism, evaluated, total = None, 0, 0
    rmism, rtotal = None, 0
    if ck.coq_ok:
        fname, typ, fn = cfg["cases"]
        hdr = open(os.path.join(ck.work, "cases_header.v")).read()
        lines = [l for l in open(os.path.join(ck.work, fname)).read().splitlines() if l.strip()]
        total = len(lines)
        if tier == "quick":
            lines = sample_cases(lines, 2500, res.get("cases"))
        evaluated = len(lines)
        mism = ck.coq_eval_cases(lines, hdr, typ, fn, tag=pid.lower())
        # payload routing (Routing.v: httpRequestBody / initAttr): one case per endpoint, never sampled
        rpath = os.path.join(ck.work, "cases_routing.txt")
        rlines = [l for l in open(rpath).read().splitlines() if l.strip()] if os.path.exists(rpath) else []
        rtotal = len(rlines)
        if ck.coq_ok and mism is not None:
            rmism = ck.coq_eval_cases(rlines, hdr, "rcase_t", "routing_mismatches", tag=pid.lower() + "r")
    if not ck.coq_ok:
        if not ck.violations:
            ck.unproved("the Validation development no longer checks (a template operator, length function, nil guard or "
                        "error constructor of codegen/validation.go no longer satisfies the proofs, or the model no longer evaluates): "
                        + ck.coq_error + "; the boundary values of every keyword were exercised and the property's own laws held on them",
                        {"broken": "coq/Validation build, translator or case evaluation", "detail": ck.coq_error})
    elif mism:
        if not ck.violations:
            first = res["cases"][mism[0]] if mism[0] < len(res.get("cases", [])) else {"case": mism[0]}
            ck.unproved("correspondence %s broke on %d of %d case(s); the property's own laws held on every case explored"
                        % (cfg["relation"], len(mism), evaluated),
                        {"broken": "correspondence " + cfg["relation"], "first_disagreeing_case": first,
                         "mismatching_case_indexes": mism[:50]})
    if ck.coq_ok and rmism and not ck.violations:
        desc = []
        try:
            desc = open(os.path.join(ck.work, "cases_routing_desc.txt")).read().splitlines()
        except OSError:
            pass
        ck.unproved("correspondence %s broke on %d of %d endpoint(s); the property's own laws held on every case explored"
                    % (ROUTING_RELATION, len(rmism), rtotal),
                    {"broken": "correspondence " + ROUTING_RELATION,
                     "first_disagreeing_endpoints": [desc[i] if i < len(desc) else i for i in rmism[:10]]})
    cov = {"evaluations": res["evaluations"], "distinct_nontrivial": res["distinct_nontrivial"], "rule": res["rule"],
           "samples": res["samples"], "distribution": res["distribution"],
           "model_cases_total": total, "model_cases_evaluated": evaluated,
           "model_mismatches": (len(mism) if mism is not None else None) if ck.coq_ok else None,
           "routing_cases_evaluated": rtotal, "routing_mismatches": (len(rmism) if rmism is not None else None) if ck.coq_ok else None,
           "exhaustive": False}
    extra = {k: v for k, v in res.get("extra", {}).items() if not k.startswith("excl:")}
    if extra:
        cov["harness_notes"] = extra
    common = [
        "model coq/Validation/Model.v (gen / exec / violations_goa) is hand-written from codegen/validation.go "
        "(recurseValidationCode, validateAttribute, validationCode, generatedRequiredValidation, hasValidations) and the decoder templates; "
        "operators, length functions, nil-guard shapes, error constructors and the isExclMin leak are extracted from the source on every run (translate/c04)",
        "request / response elements (attribute trees, required / default flags, contexts, user and alias types) are read from goa's finalized expressions; "
        "alias chains are merged by the harness with expr.ValidationExpr.Merge",
        "theorems are stated for every n (depth to which user types are followed); both sides of every equation use the same n",
        "decoding (encoding/json, strconv) is an oracle: a value that does not decode is outside the model",
        "payload routing (Routing.v) is hand-written from expr/http_body_types.go (httpRequestBody, removeAttribute(s), defaultRequestHeaderAttributes), "
        "MappedAttributeExpr.Delete, Object.Delete, ValidationExpr.RemoveRequired and initAttr; tied on every endpoint of every compiled design "
        "(coverage.routing_cases_evaluated); attribute contents are abstracted to the kind of their type; explicit Body(...) and union payloads are outside it",
    ]
    if pid == "C04":
        assumptions = common + [
            "regexp and format answers (net/netip for ipv4 / ipv6, goa.ValidateFormat for the format names only goa defines) are recorded per case "
            "and enter the model as oracle tables; theorems hold for every oracle",
            "unions, multipart and streaming endpoints, views and gRPC are not modelled",
        ]
    else:
        assumptions = common + [
            "schema semantics (Schema.accepts) is the JSON-Schema reading of the emitted keywords; kin-openapi v0.128.0 openapi3filter is the "
            "named oracle of tier B, with its own validators for ipv4 / ipv6 and goa.ValidateFormat registered as the validator of the format "
            "names only goa defines (their exactness is property C17's)",
            "numeric exclusiveMinimum / exclusiveMaximum are rewritten to the OpenAPI 3.0 boolean form before the document is loaded (recorded finding)",
            "responses are checked for results that satisfy the design and for documented status codes only",
        ]
    return ck.finish(cov, assumptions=assumptions,
                     trusted_base=["translate/c04 (go/ast + regexp extraction of the validation templates; fails closed)",
                                   "harness/cmd/c04 (designs, boundary mutants, independent evaluator, extraction of goa's expressions, Coq term printing)",
                                   "harness/designgen, harness/tierb (DSL interpreter, generated stubs, driver runtime)",
                                   "kin-openapi v0.128.0 (C14 tier B oracle)" if pid == "C14" else "Go regexp, net/netip, goa.ValidateFormat (oracles of the independent evaluator)"],
                     coqchk_files=cfg["coqchk"])


def run(tier, replay=None):
    return run_prop("C04", tier, replay)
