"""C15 — bodies are encoded as the Content-Type announces (engine Encoding)."""
import json
import os
from concurrent.futures import ThreadPoolExecutor

import vcheck
from vcheck import Check, sh, VERIF


def _lines(path):
    return [l for l in open(path).read().splitlines() if l.strip()]


def _callers(repo):
    """call sites of ResponseEncoder( / SetContentType( in goa's runtime packages, outside http/encoding.go"""
    import re
    out = {}
    for top in ("http", "middleware", "pkg", "grpc"):
        for d, _, files in os.walk(os.path.join(repo, top)):
            if "codegen" in d or "testdata" in d:
                continue
            for f in files:
                if not f.endswith(".go") or f.endswith("_test.go"):
                    continue
                rel = os.path.relpath(os.path.join(d, f), repo)
                if rel == "http/encoding.go":
                    continue
                src = open(os.path.join(d, f), errors="replace").read()
                src = re.sub(r"//[^\n]*", "", src)
                for fn in ("ResponseEncoder", "SetContentType"):
                    n = len(re.findall(r"\b" + fn + r"\(", src))
                    if n:
                        out[(rel, fn)] = n
    return out


def run(tier, replay=None):
    ck = Check("C15", "Encoding", tier)
    ck.coq_build()
    if ck.coq_ok:
        ck.coq_assumptions()
    binp = ck.go_build("c15")
    cmd = [binp, "-seed", str(ck.seed), "-tier", tier, "-out", ck.work]
    if replay:
        cmd += ["-replay", replay]
    rc, out = sh(cmd, timeout=2400)
    if rc != 0:
        raise RuntimeError("harness c15 failed: " + out[-2000:])
    res = json.load(open(os.path.join(ck.work, "result.json")))
    for f in res["failures"]:
        ck.failure(f["signature"], f["what"], {"input": f["input"]})

    # inventory of the runtime code that produces responses through ResponseEncoder /
    # SetContentType: every call site outside http/encoding.go must be one the harness drives
    inv = _callers(vcheck.REPO)
    known = {("http/mux.go", "ResponseEncoder"): 1}   # the muxer's NotFound handler (stream notfound)
    undriven = sorted("%s calls %s x%d" % (f, fn, n) for (f, fn), n in inv.items() if known.get((f, fn)) != n)
    undriven += sorted("%s no longer calls %s" % k for k in known if k not in inv)
    extra = res.get("extra", {})
    hyp_fail = extra.get("parser_hypothesis_failures") or []
    mism = None
    nshards = int(extra.get("shards") or 0)
    if ck.coq_ok:
        # every shard is a self-contained Coq input (own vocabulary + string table); they are
        # evaluated in parallel, one coqc each
        def one(k):
            hdr = open(os.path.join(ck.work, "shard_%03d.hdr" % k)).read()
            lines = _lines(os.path.join(ck.work, "shard_%03d.txt" % k))
            return ck.coq_eval_cases(lines, hdr, "case", "mismatches tbl", shards=1, tag="s%03d" % k)
        with ThreadPoolExecutor(max_workers=vcheck.NCPU) as ex:
            parts = list(ex.map(one, range(nshards)))
        if ck.coq_ok and all(p is not None for p in parts):
            mism = sorted(i for p in parts for i in p)
    total_mism = len(mism or [])
    if not ck.coq_ok:
        if not ck.violations:
            ck.unproved("the Encoding development no longer checks: " + ck.coq_error,
                        {"broken": "coq/Encoding build or case evaluation", "detail": ck.coq_error})
    elif undriven and not ck.violations:
        ck.unproved("the set of goa runtime call sites of ResponseEncoder/SetContentType changed; the check does not drive: " + "; ".join(undriven),
                    {"broken": "inventory of response producers (http/*.go, http/middleware, middleware, pkg; tests and codegen excluded)", "detail": undriven})
    elif hyp_fail and not ck.violations:
        ck.unproved("the real mime.ParseMediaType violates a hypothesis the round-trip theorems put on the parser: " + hyp_fail[0],
                    {"broken": "parser_stable / parser_fixes_supported / parser_keeps_suffix on the observed parser", "detail": hyp_fail})
    elif total_mism and not ck.violations:
        first, kinds = None, {}
        want = set(mism[:2000])
        with open(os.path.join(ck.work, "cases.jsonl")) as fh:
            for i, l in enumerate(fh):
                if i in want:
                    c = json.loads(l)
                    kinds[c["case"].get("stream", "?")] = kinds.get(c["case"].get("stream", "?"), 0) + 1
                    if first is None:
                        first = c
        ck.unproved("correspondence Encoding.response_encoder / response_decoder / request_decoder / request_encoder_header vs http/encoding.go "
                    "broke on %d case(s) (by stream: %s); the property's own laws held on every case explored" % (total_mism, kinds),
                    {"broken": "correspondence model(input, observed parser answers) = observed (encoder kind, header, decoder kind, encode error, recovered / decoder, media type, status)",
                     "first_disagreeing_case": first, "mismatching_case_indexes": mism[:50]})
    cov = {"evaluations": res["evaluations"], "distinct_nontrivial": res["distinct_nontrivial"], "rule": res["rule"],
           "samples": res["samples"], "distribution": res["distribution"],
           "model_mismatches": total_mism if (ck.coq_ok and mism is not None) else None,
           "model_shards": nshards,
           "model_cases": {"response": extra.get("model_cases_response"), "request": extra.get("model_cases_request"),
                           "request_encoder": extra.get("model_cases_request_encoder"),
                           "real_parser_answers_vs_parser_model": extra.get("model_cases_parser"),
                           "duplicate_inputs_not_re_evaluated": extra.get("duplicates_not_sent_to_model"),
                           "distinct_inputs_over_model_cap": extra.get("distinct_over_model_cap")},
           "parser_answers_logged": extra.get("parser_answers_logged"),
           "parser_hypothesis_failures": len(hyp_fail),
           "runtime_callers_inventory": ["%s: %s x%d" % (f, fn, n) for (f, fn), n in sorted(inv.items())],
           "exhaustive": False}
    return ck.finish(cov, assumptions=[
        "model Encoding/Model.v is hand-written from http/encoding.go (RequestDecoder, ResponseEncoder, SetContentType, ResponseDecoder, RequestEncoder, ErrorEncoder, text/unsupported codecs) plus a writer that freezes status and headers at the first WriteHeader, http/error.go StatusCode, pkg/error.go UnsupportedMediaTypeError; tied by evaluating it inside Coq on every distinct case the real code ran, with the real parser's logged answers as the oracle",
        "mime.ParseMediaType: its media type part is modelled (go_media_type / std_pmt, compared with every distinct answer of the real parser each run) and proved to satisfy parser_stable, parser_fixes_supported, parser_keeps_suffix for every parameter oracle; the general theorems keep the four hypotheses explicit (parser_accepts_suffixed is only tested); each is tested on every logged answer of the real parser (%s answers this run, %d failures)" % (extra.get("parser_answers_logged"), len(hyp_fail)),
        "encoding/json, encoding/xml, encoding/gob are oracles (codec_roundtrip hypothesis); values are 12 fixed ones the codecs round-trip; xml refuses []byte (measured, passed to the model as data)",
        "a designed content type that mime.ParseMediaType rejects makes ResponseEncoder return a nil Encoder; outside the envelope, modelled (None) and compared, not a failure",
        "every response-side observation is what the client reads: rec.Result() (status and headers frozen at the first WriteHeader/Write) for all cases, and a real httptest.Server + http.Client round trip for the error path, the fixed corpora and a quarter of the other cases whose header values net/http carries unchanged; header values net/http would rewrite (blanks at the ends, control bytes) are only observed through the recorder"],
        trusted_base=["harness/cmd/c15 (case generation, observation by dynamic type, Coq term printing, string interning)",
                      "Run.v comparison functions (PositiveMap string table, association-list oracle)"])
