"""C02 — HTTP requests deliver the payload intact to the service method (engine Transport).

Shared with C03 (checks/c03.py calls run_prop("C03", ...)): one Coq engine, one harness
(harness/cmd/c02, flag -prop), one evidence file per property."""
import json
import os

import vcheck
from vcheck import Check, sh, goenv, VERIF

PROPS = {
    "C02": {
        "files": ("Properties.v",), "coqchk": ("Properties",),
        "streams": [("request", "N * xcase", "request_mismatches"), ("partition", "N * pcase", "partition_mismatches"), ("codec", "N * ccase", "codec_mismatches")],
        "relation": "wire_ok (encode_req) /\\ deliver (ep_of raw) payload = observed outcome; finalize raw = goa's finalised partition",
    },
    "C03": {
        "files": ("PropertiesResp.v",), "coqchk": ("PropertiesResp",),
        "streams": [("response", "N * rcase", "response_mismatches"), ("rpartition", "N * rpcase", "rpartition_mismatches"), ("codec", "N * ccase", "codec_mismatches")],
        "relation": "transmit_resp (encode_resp selected) = tapped response /\\ respond (rep_of raw) result = observed outcome; finalize_resp = goa's response partition",
    },
}


def run_prop(pid, tier, replay=None):
    ck = Check(pid, "Transport", tier)
    cfg = PROPS[pid]
    ck.coq_build()
    if ck.coq_ok:
        ck.coq_assumptions(files=cfg["files"])
    binp = ck.go_build("c02")
    cmd = [binp, "-seed", str(ck.seed), "-tier", tier, "-out", ck.work, "-prop", pid,
           "-repo", os.path.realpath(vcheck.REPO), "-harness", os.path.join(VERIF, "harness")]
    if replay:
        cmd += ["-replay", replay]
    rc, out = sh(cmd, timeout=3000, env=goenv())
    if rc != 0:
        raise RuntimeError("harness c02 -prop %s failed: %s" % (pid, out[-3000:]))
    res = json.load(open(os.path.join(ck.work, "result.json")))
    for f in res["failures"]:
        ck.failure(f["signature"], f["what"], {"input": f["input"]})

    info = json.load(open(os.path.join(ck.work, "cases_info.json")))
    mism = {}
    if ck.coq_ok:
        hdr = "From Transport Require Import Model Run.\nOpen Scope N_scope."
        for name, typ, fn in cfg["streams"]:
            lines = [l for l in open(os.path.join(ck.work, "cases_%s.txt" % name)).read().splitlines() if l.strip()]
            m = ck.coq_eval_cases(lines, hdr, typ, fn, tag=name)
            if m is None:
                break
            mism[name] = m
    if not ck.coq_ok:
        if not ck.violations:
            ck.unproved("the Transport development no longer checks: " + ck.coq_error,
                        {"broken": "coq/Transport build or case evaluation", "detail": ck.coq_error})
    else:
        total = sum(len(v) for v in mism.values())
        if total and not ck.violations:
            first = None
            for name, m in mism.items():
                if m:
                    first = {"stream": name, "case": (info.get(name) or [None] * (m[0] + 1))[m[0]]}
                    break
            ck.unproved("correspondence of the Transport model with the generated client/server and goa's finalisation broke on %s; "
                        "the property's own statement held on every exchange explored" % ", ".join("%d %s case(s)" % (len(v), k) for k, v in mism.items() if v),
                        {"broken": "correspondence: " + cfg["relation"], "first_disagreeing_case": first,
                         "mismatching_cases": {k: v[:50] for k, v in mism.items()}})
    dist = res["distribution"]
    cov = {"evaluations": res["evaluations"], "distinct_nontrivial": res["distinct_nontrivial"], "rule": res["rule"],
           "samples": res["samples"], "distribution": dist,
           "model_cases": {k: dist.get(k + "_cases", 0) for k in ("request", "response", "partition", "rpartition", "codec")},
           "model_mismatches": sum(len(v) for v in mism.values()) if ck.coq_ok else None,
           "exhaustive": False}
    return ck.finish(cov, assumptions=[
        "model Transport/Model.v is hand-written from the generated-code templates (http/codegen/templates/*), expr finalisation, http/mux.go and the Go 1.23 net/url, net/http, strconv sources; it is tied to /repo on every run by evaluating it inside Coq on every exchange the real generated client and server performed (tapped wire and delivered value) and on goa's finalised partition of every endpoint",
        "JSON bodies are value trees carried unchanged (encoding/json identity on valid UTF-8, typed targets); the typed-value <-> tree conversion is harness glue; nested defaults below the top level of a body attribute are applied by the harness before the comparison (direct oracle checks them against the real code)",
        "floats are restricted to the half-integers k/2 the value generator draws; strconv.ParseFloat / FormatFloat are modelled on that set only",
        "one route pattern per endpoint: competition between routes of different endpoints is C16's business; Extend/Reference/result-type resolution is goa's (the model receives attribute lists after expr finalisation / from the design description)",
        "multipart, SkipRequestBodyEncodeDecode, MapParams, explicit Body(...) overrides, views and security attributes are executed by the harness but are outside the model's fragment (direct oracle only)"],
        trusted_base=["harness/cmd/c02 + harness/designgen + harness/tierb (design generation, code generation and compilation of the batch, driver, tap, canonical dumps, Coq term printing, the direct oracle and the classifier)",
                      "Go toolchain 1.23 compiling the generated code"],
        coqchk_files=cfg["coqchk"])


def run(tier, replay=None):
    return run_prop("C02", tier, replay)
