"""C05 — declared errors reach the client as the same error; others become faults (engine ErrTransport)."""
import json
import os

import vcheck
from vcheck import Check, sh, VERIF, REPO


def eval_chunked(ck, lines, hdr, typ, fn, tag, chunk=2000):
    """Evaluate the cases inside Coq in batches (bounded memory: 16 coqc at a time, each on
    at most chunk/16 cases); a batch whose coqc died without a Coq error (killed under memory
    pressure from other jobs) is retried once with fewer parallel shards."""
    bad = []
    for j in range(0, len(lines), chunk):
        part = lines[j:j + chunk]
        m = ck.coq_eval_cases(part, hdr, typ, fn, tag="%s%d" % (tag, j // chunk))
        if m is None and "Error" not in ck.coq_error:
            ck.notes.append("coq case batch %s%d was re-run: %s" % (tag, j // chunk, ck.coq_error[:200]))
            ck.coq_ok, ck.coq_error = True, ""
            m = ck.coq_eval_cases(part, hdr, typ, fn, shards=4, tag="%s%dr" % (tag, j // chunk))
        if m is None:
            return None
        bad += m
    return sorted(bad)


def run(tier, replay=None):
    ck = Check("C05", "ErrTransport", tier)
    ck.coq_build()
    if ck.coq_ok:
        ck.coq_assumptions()
    binp = ck.go_build("c05")
    cmd = [binp, "-seed", str(ck.seed), "-tier", tier, "-out", ck.work, "-repo", os.path.realpath(REPO),
           "-harness", os.path.join(VERIF, "harness")]
    if replay:
        cmd += ["-replay", replay]
    rc, out = sh(cmd, timeout=3000, env=vcheck.goenv())
    if rc != 0:
        raise RuntimeError("harness c05 failed: " + out[-3000:])
    res = json.load(open(os.path.join(ck.work, "result.json")))
    for f in res["failures"]:
        ck.failure(f["signature"], f["what"], {"input": f["input"]})

    extra0 = res.get("extra") or {}
    mism, dmism = None, None
    if ck.coq_ok:
        hdr = "From Coq Require Import NArith.\nFrom ErrTransport Require Import Model Run.\nOpen Scope string_scope."
        lines = [l for l in open(os.path.join(ck.work, "cases_encode.txt")).read().splitlines() if l.strip()]
        mism = eval_chunked(ck, lines, hdr, "N * tenv * list edecl * goerr * obs", "mismatches", "encode")
        dlines = [l for l in open(os.path.join(ck.work, "cases_decode.txt")).read().splitlines() if l.strip()]
        if ck.coq_ok:
            dmism = eval_chunked(ck, dlines, hdr, "N * tenv * list edecl * list dstep * dobs", "decode_mismatches", "decode")
        tmism = None
        tlines = [l for l in open(os.path.join(ck.work, "cases_table.txt")).read().splitlines() if l.strip()]
        if ck.coq_ok:
            tmism = eval_chunked(ck, tlines, hdr, "N * levels * list (string * nat * ekind)", "table_mismatches", "table")
        flines = [l for l in open(os.path.join(ck.work, "cases_finalize.txt")).read().splitlines() if l.strip()]
        fmism = None
        if ck.coq_ok:
            fmism = eval_chunked(ck, flines, hdr, "N * etype * rawmap * list hmap * bodyspec", "finalize_mismatches", "finalize")
        tlines = tlines + flines
        if tmism or fmism:
            dmism = (dmism or []) + (tmism or []) + (fmism or [])
    if not ck.coq_ok:
        if not ck.violations:
            ck.unproved("the ErrTransport development no longer checks: " + ck.coq_error,
                        {"broken": "coq/ErrTransport build or case evaluation", "detail": ck.coq_error})
    elif (mism or dmism) and not ck.violations:
        bad = (mism or []) + (dmism or [])
        first = dict(res["cases"][bad[0]]) if bad[0] < len(res["cases"]) else {"error_table_case": bad[0], "line": [l for l in tlines if l.startswith("(%d%%N" % bad[0])][:1]}
        if first.get("key"):
            first["design"] = (extra0.get("designs") or {}).get(first["key"])
        ck.unproved("correspondence ErrTransport.encode_error / decode_error / handler / effective_error_table vs the generated server and client broke on %d error exchange(s) and %d request-decoding failure(s) or error table(s); the property's own laws held on every case explored" % (len(mism or []), len(dmism or [])),
                    {"broken": "correspondence check_case (model response and client result = observed)",
                     "first_disagreeing_case": first, "mismatching_case_indexes": bad[:50]})
    extra = res.get("extra") or {}
    cov = {"evaluations": res["evaluations"], "distinct_nontrivial": res["distinct_nontrivial"], "rule": res["rule"],
           "samples": res["samples"], "distribution": res["distribution"],
           "model_cases": (len(lines) + len(dlines) + len(tlines)) if ck.coq_ok else None,
           "model_mismatches": (len(mism or []) + len(dmism or [])) if ck.coq_ok else None,
           "exhaustive": False}
    for k in ("driver_error", "last_build_error", "last_generate_error", "last_setup_err"):
        if extra.get(k):
            ck.notes.append("%s: %s" % (k, str(extra[k])[:400]))
    return ck.finish(cov, assumptions=[
        "model ErrTransport/Model.v is hand-written from error_encoder.go.tpl, partial/response.go.tpl, response_decoder.go.tpl, server_handler_init.go.tpl, http/encoding.go ErrorEncoder, http/error.go, pkg/error.go; tied by evaluating encode_error / run_writer / decode_error / handler inside Coq on every exchange the real generated code ran, with the error table extracted from goa's finalised expressions (HTTPEndpointExpr.HTTPErrors)",
        "attribute values are opaque tokens: JSON body encoding and typed header conversion of values are exercised, not modelled; a defaulted attribute of a custom error is always set (a Go struct cannot leave it unset)",
        "net/http's treatment of header values is the parameter hw of the theorems (instantiated by go_hdr_wire: edge spaces trimmed, CR/LF -> space, for the correspondence); an empty header value reads as absent",
        "identifiers drawn by NewErrorID and the Error() text of generated error types are projected to fixed tokens",
        "a ServiceError built around a cause (Unwrap) and custom errors wrapped by fmt.Errorf are not scripted (the tier-B hub builds plain, service, wrapped-service and custom values)",
        "a type mismatch (declared name, other Go type) is modelled as 'no response'; exact for object error types with a body or header, for primitive error types the real code sends the zero value"],
        trusted_base=["harness/cmd/c05 (designs, scripts, extraction of the error table from expr, observation, Coq term printing)",
                      "harness/tierb + harness/designgen (batch compile, stub service, hub, counting ResponseWriter, RoundTripper tap)",
                      "boolean comparison functions of Run.v (fields_eqb, cres_eqb, check_case)"])
