"""C20 — generated servers and runtime helpers are safe under concurrent requests (engine Conc).

Proof part: lockset soundness over all programs / thread counts / interleavings
(coq/Conc/Properties.v) + the instance regenerated from source on every run
(translate/c20 -> coq/Conc/Generated_footprint.v, coq/Conc/Instance.v).
Dynamic part (supporting evidence and the search for a failing schedule, never counted
as proof): barrier-start stress of the runtime helpers, per-request echo check against a
hand-assembled server and against the server/client compiled from generated code; -race
builds in the thorough tier and whenever the instance proof broke."""
import json
import os
import re
import shutil
import subprocess
import time

import vcheck
from vcheck import Check, sh, VERIF, goenv

REPO = os.path.realpath(vcheck.REPO)

ASSUMPTIONS = [
    "PARTIAL: the Go memory model and the scheduler are not formalised; the machine of coq/Conc/Model.v (sequentially consistent interleavings of straight-line action lists, exclusive/shared mutexes with owner-checked unlock) stands for them",
    "PARTIAL: the footprint translator is an AST-level approximation (go/ast, syntactic types, no alias analysis): objects reached through parameters, locals or interfaces are taken to be request-private; a shared pointer smuggled through an interface or a parameter is invisible to it",
    "calls are not followed: every function / returned closure is a request body of its own, analysed with an empty lock set (conservative for the discipline); the theorem covers every program whose goroutines run any sequence of extracted bodies, not call nesting under a held lock",
    "phase split (translate/c20/phases.json, committed): functions listed as setup (NewMuxer, mux.Handle, mux.Use, sampler constructors; generated New/Mount*/Server.Use/NewEndpoints/Endpoints.Use/NewClient) run before any request is served, as the property says ('once handlers and middlewares have been mounted'); mux.wildcards is written under mux.mu in Handle and read WITHOUT the lock in Vars/ResolvePattern — race-free only by this split (reported in coverage.phase_split)",
    "request-scoped types of phases.json (pkg.writerToReaderAdapter) are private to one response; the translator checks that every allocation site is in request-phase code; sync.Once is outside the lockset vocabulary",
    "sync/atomic functions and types, sync.Map and other sync.* objects are atomic accesses; `atomic.StoreUint32(&s.counter, 0) // race is ok` in the adaptive sampler is an atomic write (a lost update of the counter, not a data race)",
    "races inside the standard library, chi and gRPC are out of scope; generated code is covered for the five fixed designs of harness/cmd/c20/designs.go (HTTP incl. websocket streaming, Skip*BodyEncodeDecode, multipart, file servers, redirects, security; no gRPC); branch coverage of the handler templates by these designs is tabulated in notes/C20.md",
    "goa_request_path_isolated is a DISCIPLINE check, not semantic noninterference: every request-phase write to a shared location (plain, atomic, sync.Map, sync.Pool.Put, mutator-named calls on objects of unresolved type) is classified in translate/c20/shared_writes.json as memo (then memo_isolation applies; F being a function of the key is read off the source, not proved), monotone helper state (responses may depend on it by design) or request-private (argued per entry, not proved); leaks through objects the translator deems request-private (parameters, locals, interfaces) are only looked for dynamically",
    "the stress and echo runs are supporting evidence and the failing-schedule search; a clean run of them proves nothing",
]

TRUSTED = [
    "translate/c20 (go/ast footprint extraction, path enumeration, naming of locations and mutexes) and its committed tables phases.json and shared_writes.json",
    "harness/cmd/c20 (designs written through the real DSL, stress and echo oracles)",
    "Go race detector (only to exhibit a failing schedule)",
]


def race_blocks(out):
    """DATA RACE reports of the Go race detector found in a process output."""
    blocks = []
    for m in re.finditer(r"WARNING: DATA RACE\n(.*?)\n==================", out, re.S):
        blocks.append(m.group(1))
    return blocks


def race_signature(block):
    """stable name of a race: source file and line on top of each of the two stacks"""
    tops = []
    for m in re.finditer(r"^(?:Write|Read|Previous write|Previous read|Atomic write|Atomic read|Previous atomic write|Previous atomic read) at .*?:\n\s+\S+\n\s+(\S+?):(\d+)", block, re.M):
        tops.append("%s:%s" % (os.path.basename(m.group(1)), m.group(2)))
    return "data-race/" + "+".join(sorted(set(tops))[:2]) if tops else "data-race/unknown"


def record_races(ck, out, where, extra):
    n = 0
    for b in race_blocks(out):
        n += 1
        sig = race_signature(b)
        ck.failure(sig, "the Go race detector reports a data race while %s: %s" % (where, sig),
                   dict(extra, race_report=b[:6000], how="barrier-started goroutines calling the real code, binary built with -race"))
    if "fatal error: concurrent map" in out:
        n += 1
        m = re.search(r"fatal error: (concurrent map[^\n]*)\n(.*)", out, re.S)
        ck.failure("fatal/concurrent-map-access", "the Go runtime aborted the process while %s: %s" % (where, m.group(1)),
                   dict(extra, runtime_report=(m.group(0))[:4000]))
    return n


def run_harness(ck, binp, args, timeout=1500):
    env = goenv()
    env["GORACE"] = "exitcode=0 halt_on_error=0"
    return sh([binp] + args, timeout=timeout, env=env)


def run_gen_echo(ck, tier, race, res_out, design="store"):
    """Compile the driver written next to the generated packages of a design, start it (it
    runs the generated-client check itself); for 'store' then send it the raw echo requests."""
    gen = os.path.join(ck.work, "gen")
    drv = os.path.join(ck.work, "echo-" + design + ("-race" if race else ""))
    cmd = ["go", "build"] + (["-race"] if race else []) + ["-o", drv, "./%s/cmd/echo" % design]
    rc, out = sh(cmd, cwd=gen, env=goenv(), timeout=1200)
    if rc != 0:
        return {"built": False, "error": out[-3000:]}
    n, per = {"thorough": (64, 300), "search": (32, 200)}.get(tier, (16, 250))
    env = goenv()
    env["GORACE"] = "exitcode=0 halt_on_error=0"
    errpath = os.path.join(ck.work, "echo_driver_%s.stderr" % design)
    errf = open(errpath, "w")
    args = [drv, "-n", str(n), "-per", str(per)] + (["-dir", ck.work] if design == "media" else [])
    p = subprocess.Popen(args, stdin=subprocess.PIPE, stdout=subprocess.PIPE, stderr=errf, text=True, env=env)
    info = {"built": True, "race": race, "client": None, "raw": None, "server_failures": [], "design": design, "raw_expected": design == "store"}
    try:
        url = None
        deadline = time.time() + 600
        while time.time() < deadline:
            line = p.stdout.readline()
            if not line:
                break
            if line.startswith("@@LISTEN "):
                url = line.split()[1]
            elif line.startswith("@@CLIENT "):
                info["client"] = json.loads(line[len("@@CLIENT "):])
                break
        if url and info["client"] is not None and design == "store":
            rc, out = run_harness(ck, res_out["bin"], ["-mode", "echo", "-addr", url, "-seed", str(ck.seed), "-tier", tier, "-out", ck.work])
            info["raw_output"] = out[-4000:]
            if rc == 0 and os.path.exists(os.path.join(ck.work, "echo_gen.json")):
                info["raw"] = json.load(open(os.path.join(ck.work, "echo_gen.json")))
            else:
                info["raw_error"] = out[-2000:]
        try:
            p.stdin.close()
        except OSError:
            pass
        tail = p.stdout.read()
        m = re.search(r"@@SERVER (.*)", tail or "")
        if m:
            info["server_failures"] = json.loads(m.group(1)).get("failures") or []
        p.wait(timeout=60)
    finally:
        if p.poll() is None:
            p.kill()
        errf.close()
    info["stderr"] = open(errpath).read()[-20000:]
    info["rc"] = p.returncode
    return info


def use_gen_echo(ck, info, where):
    """turn what the generated-code echo run saw into failures; returns evaluations"""
    ev = 0
    design = info.get("design", "store")
    if not info.get("built"):
        ck.failure("generated-code-does-not-compile/" + design, "the code generated for the fixed design '%s' (plus its driver) does not compile" % design,
                   {"input": {"design": design + " (harness/cmd/c20/designs.go)", "go_build": info.get("error")}})
        return 0
    record_races(ck, info.get("stderr", ""), "the generated %s server/client served concurrent requests (%s)" % (design, where), {"input": {"design": design}})
    if info.get("client") is None:
        ck.failure("generated-server-crashed/" + design, "the driver of the generated %s server died before finishing the client run" % design,
                   {"input": {"design": design, "stderr": info.get("stderr", "")[-3000:]}})
        return 0
    ev += info["client"]["evaluations"]
    for f in info["client"].get("failures") or []:
        ck.failure(f["signature"], f["what"], {"input": f["input"], "target": "generated client against generated server (design %s)" % design})
    for f in info.get("server_failures") or []:
        ck.failure(f["signature"], f["what"], {"input": f["input"], "target": "generated server (design %s)" % design})
    raw = info.get("raw")
    if not info.get("raw_expected"):
        return ev
    if raw is None:
        ck.failure("generated-server-crashed", "the raw echo requests against the generated store server could not be completed",
                   {"input": {"design": "store", "detail": info.get("raw_error"), "stderr": info.get("stderr", "")[-3000:]}})
    else:
        ev += raw["evaluations"]
        for f in raw["failures"]:
            ck.failure(f["signature"], f["what"], {"input": f["input"], "target": "generated server (design store), raw requests"})
    return ev


def run(tier, replay=None):
    ck = Check("C20", "Conc", tier)
    thorough = tier == "thorough"
    if REPO != "/repo":
        # a run against a scratch worktree regenerates Generated_footprint.v from THAT tree:
        # build the engine in a private copy so that coq/Conc keeps the footprint of /repo
        priv = os.path.join(ck.work, "coq", "Conc")
        shutil.copytree(ck.coqdir, priv, copy_function=shutil.copy2)
        ck.coqdir = priv

    # ---- harness (plain), designs -> generated code, translator -> Generated_footprint.v
    binp = ck.go_build("c20")
    rc, out = sh([binp, "-mode", "gen", "-out", ck.work, "-repo", REPO, "-harnessmod", os.path.join(VERIF, "harness", "go.mod")], env=goenv(), timeout=600)
    gen_ok = rc == 0
    gen_err = out[-3000:]
    tdir = os.path.join(VERIF, "translate", "c20")
    tbin = os.path.join(VERIF, ".build", "c20translate")
    rc, out = sh(["go", "build", "-o", tbin, "."], cwd=tdir, env=goenv(), timeout=600)
    if rc != 0:
        raise RuntimeError("translate/c20 does not build: " + out[-2000:])
    fpv = os.path.join(ck.coqdir, "Generated_footprint.v")
    fpj = os.path.join(ck.work, "footprint.json")
    tmpv = os.path.join(ck.work, "Generated_footprint.v")
    targs = [tbin, "-repo", REPO, "-phases", os.path.join(tdir, "phases.json"), "-writes", os.path.join(tdir, "shared_writes.json"), "-out", tmpv, "-json", fpj]
    if gen_ok:
        targs += ["-gen", os.path.join(ck.work, "gen")]
    trc, tout = sh(targs, timeout=600)
    fp = None
    if trc == 0:
        # keep the file (and its .vo) when nothing changed: incremental Coq build
        if not os.path.exists(fpv) or open(fpv).read() != open(tmpv).read():
            shutil.copyfile(tmpv, fpv)
        fp = json.load(open(fpj))

    # ---- Coq: general theorems + the instance about this run's footprint
    if trc == 0:
        ck.coq_build()
        if ck.coq_ok:
            ck.coq_assumptions(files=("Properties.v", "Instance.v"))
    else:
        ck.coq_ok, ck.coq_error = False, "translate/c20 could not extract the footprint (fail closed): " + tout[-1500:]

    if not gen_ok:
        ck.failure("generation-failed", "the fixed designs of harness/cmd/c20 no longer evaluate / generate", {"input": {"output": gen_err}})

    # ---- dynamic evidence
    res_out = {"bin": binp}
    rbin = None
    want_race = thorough
    if replay:
        try:
            want_race = want_race or ("race_report" in json.load(open(replay)))
        except (OSError, ValueError):
            pass
    if want_race:
        rbin = ck.go_build("c20", race=True)
    args = ["-mode", "run", "-seed", str(ck.seed), "-tier", tier, "-out", ck.work]
    if replay:
        args += ["-replay", replay]
    rc, out = run_harness(ck, rbin or binp, args)
    record_races(ck, out, "the runtime helpers / the hand-assembled server were driven concurrently", {"input": {"harness": "c20 -mode run", "tier": tier}})
    res = None
    if rc == 0 and os.path.exists(os.path.join(ck.work, "result.json")):
        res = json.load(open(os.path.join(ck.work, "result.json")))
        for f in res["failures"]:
            ck.failure(f["signature"], f["what"], {"input": f["input"]})
    elif not ck.violations:
        raise RuntimeError("harness c20 failed: " + out[-3000:])
    evaluations = res["evaluations"] if res else 0
    distinct = res["distinct_nontrivial"] if res else 0
    gen_info, media_info = None, None
    if gen_ok:
        gen_info = run_gen_echo(ck, tier, want_race, res_out)
        evaluations += use_gen_echo(ck, gen_info, "tier " + tier)
        if gen_info.get("raw"):
            distinct += gen_info["raw"]["distinct_nontrivial"]
        media_info = run_gen_echo(ck, tier, want_race, res_out, design="media")
        mev = use_gen_echo(ck, media_info, "tier " + tier)
        evaluations += mev
        distinct += mev   # every media call carries an id unique to its goroutine and position

    # ---- correspondence of value_isolation: concurrent answer vs the same request alone,
    #      compared inside Coq (Run.solo_mismatches) on every run
    solo_cases, solo_mism = 0, None
    if ck.coq_ok:
        solo_mism = []
        for tag in ("hand", "gen"):
            pth = os.path.join(ck.work, "cases_solo_%s.txt" % tag)
            if not os.path.exists(pth):
                continue
            lines = open(pth).read().splitlines()
            solo_cases += len(lines)
            mm = ck.coq_eval_cases(lines, "From Coq Require Import NArith List.\nFrom Conc Require Import Run.\nImport ListNotations.", "nat * N * N", "solo_mismatches", shards=(8 if thorough else 2), tag="solo_" + tag)
            if mm is None:
                break
            solo_mism += [(tag, i) for i in mm]
        if ck.coq_ok and solo_mism and not ck.violations:
            ck.unproved("correspondence of value_isolation broke: %d echo request(s) were answered differently under concurrency than alone" % len(solo_mism),
                        {"broken": "Run.solo_mismatches cases = []", "mismatching_cases": solo_mism[:50]})

    # ---- the proof broke: search for a concrete failing schedule, then report
    searched = None
    if not ck.coq_ok:
        culprits = []
        if fp:
            culprits = [{"location": v["location"], "theorem": "goa_request_path_race_free", "unprotected_accesses": v["unprotected_accesses"][:6]} for v in fp["violations"]]
            culprits += [{"location": v["location"], "theorem": "goa_request_path_isolated", "why": v["why"], "writes": v["writes"][:6]} for v in fp.get("isolation_violations", [])]
        if not ck.violations:
            searched = {"race_build": True, "helpers": [], "generated_echo": False}
            if rbin is None:
                rbin = ck.go_build("c20", race=True)
            for h in ["ErrorEncoder", "ResponseEncoder", "RequestDecoder", "ResponseDecoder", "TextCodec", "MuxerVars", "ValidatePattern", "Samplers", "StreamCanceler", "SkipResponseWriter", "MergeErrors"]:
                rc, out = run_harness(ck, rbin, ["-mode", "stress", "-helper", h, "-seed", str(ck.seed), "-tier", "search"])
                searched["helpers"].append(h)
                found = record_races(ck, out, "N goroutines released together call " + h, {"input": {"helper": h, "goroutines": 32, "rounds": 10}, "helper": h, "footprint_violations": culprits})
                m = re.search(r"@@STRESS (.*)", out)
                if m:
                    for f in json.loads(m.group(1)).get("failures") or []:
                        ck.failure(f["signature"], f["what"], {"input": f["input"], "helper": h})
                elif not found and rc != 0:
                    ck.failure("helper-crashed/" + h, "the stress of %s died" % h, {"input": {"helper": h, "output": out[-3000:]}})
            rc, out = run_harness(ck, rbin, ["-mode", "run", "-helper", "echo-hand", "-seed", str(ck.seed + 1), "-tier", "search", "-out", ck.work])
            record_races(ck, out, "the hand-assembled server was driven by 32 client goroutines", {"input": {"harness": "c20 -mode run -helper echo-hand -tier search"}, "footprint_violations": culprits})
            if rc == 0:
                for f in json.load(open(os.path.join(ck.work, "result.json")))["failures"]:
                    ck.failure(f["signature"], f["what"], {"input": f["input"]})
            if gen_ok:
                searched["generated_echo"] = True
                for dsg in ("store", "media"):
                    gi = run_gen_echo(ck, "search", True, res_out, design=dsg)
                    use_gen_echo(ck, gi, "search, -race")
        if not ck.violations:
            thms = sorted({c["theorem"] for c in culprits}) or ["(see detail)"]
            ck.unproved("theorem %s (coq/Conc/Instance.v) no longer checks for the footprint extracted from this tree: " % " and ".join(thms) +
                        (("unprotected / unclassified shared location(s) " + ", ".join(c["location"] for c in culprits)) if culprits else ck.coq_error)[:300],
                        {"broken": "coq/Conc build (Instance.v: boolean discipline / isolation check by vm_compute on Generated_footprint.v)", "detail": ck.coq_error,
                         "footprint_violations": culprits, "unbalanced_paths": (fp or {}).get("unbalanced_paths"), "searched": searched})

    # ---- which template branches the designs reach (computed by the harness from the generators' data)
    branches = None
    try:
        branches = json.load(open(os.path.join(ck.work, "template_branches.json")))
        for label in branches["required"]:
            if not branches["covered"].get(label):
                ck.notes.append("handler-template branch not reached by any fixed design: " + label)
        want = json.load(open(os.path.join(tdir, "template_conditionals.json")))["conditionals"]
        for f, n in sorted(want.items()):
            src = open(os.path.join(REPO, "http", "codegen", "templates", f)).read()
            have = len(re.findall(r"\{\{-?\s*(?:if|else if|else|range|with)\b", src))
            if have != n:
                ck.notes.append("template %s now has %d conditional actions (%d when the branch-coverage table was reviewed): review harness/cmd/c20 designs" % (f, have, n))
    except (OSError, ValueError, KeyError):
        pass

    # ---- evidence
    stats = (fp or {}).get("stats", {})
    samples = []
    if fp:
        want = ("pkg.ValidatePattern", "middleware.adaptiveSampler.Sample", "http.ErrorEncoder$1", "grpc/middleware.StreamCanceler$2")
        for b in fp["bodies"]:
            if b["name"] in want or (b["name"].endswith("NewShowHandler$1") and "store" in b["name"]):
                samples.append({"body": b["name"], "role": b["role"], "file": b["file"], "line": b["line"],
                                "paths": [[("%s %s%s" % (a["k"], a["n"], " w" if a.get("w") else "")) for a in p] for p in b["paths"][:3]]})
    if res:
        samples += res["samples"][:3]
    dist = dict(res["distribution"]) if res else {}
    if gen_info and gen_info.get("raw"):
        for k, v in gen_info["raw"]["distribution"].items():
            dist["generated_" + k] = v
        dist["generated_client_calls"] = gen_info["client"]["evaluations"]
    if media_info and media_info.get("client"):
        for k, v in (media_info["client"].get("distribution") or {}).items():
            dist["generated_media_" + k] = v
    cov = {
        "evaluations": evaluations, "distinct_nontrivial": distinct,
        "rule": (res or {}).get("rule", "") + "; plus the same request kinds against the server compiled from the code generated for design 'store' and calls through the generated client",
        "samples": samples, "distribution": dist, "exhaustive": False,
        "footprint": stats,
        "solo_correspondence_cases": solo_cases,
        "solo_correspondence_mismatches": None if solo_mism is None else len(solo_mism),
        "footprint_locked_locations": (fp or {}).get("locked_locations"),
        "footprint_notes": (fp or {}).get("notes"),
        "phase_split": {"locations_that_would_be_unprotected_if_setup_functions_ran_during_serving":
                        sorted({v["location"] for v in (fp or {}).get("violations_if_setup_ran_concurrently", [])}),
                        "setup_table": sorted((fp or {}).get("setup_table_used", {}).keys())},
        "request_scoped_types": (fp or {}).get("request_scoped_types"),
        "template_branch_coverage": None if not branches else {k: (branches["covered"].get(k) or [])[:4] for k in branches["required"]},
        "shared_writes_classified": (fp or {}).get("shared_writes_classified"),
        "shared_writes_stale_entries": (fp or {}).get("shared_writes_stale_entries"),
        "race_detector": "on (thorough tier / replay of a race report)" if want_race else ("on (search after broken proof)" if searched else "off (quick tier)"),
        "generated_echo": [None if not gi else {k: gi.get(k) for k in ("design", "built", "race", "rc")} for gi in (gen_info, media_info)],
        "checker_cmd": "go run translate/c20 -> coq/Conc/Generated_footprint.v; coq_makefile -f coq/Conc/_CoqProject && make (coqc 8.16.1, full .vo) + Print Assumptions per theorem of Properties.v and Instance.v",
    }
    return ck.finish(cov, assumptions=ASSUMPTIONS, trusted_base=TRUSTED)
