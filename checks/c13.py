"""C13 — type copies are independent and structural hashes match equality (engine TypeGraph)."""
import json
import os

import vcheck
from vcheck import Check, sh, VERIF


def _lines(ck, name):
    p = os.path.join(ck.work, name)
    return open(p).read().splitlines() if os.path.exists(p) else []


def _input_of(ck, stream, case_idx):
    """replayable description of one correspondence case"""
    try:
        index = json.load(open(os.path.join(ck.work, "case_index.json")))[stream]
        want = index[case_idx]
        with open(os.path.join(ck.work, "inputs.jsonl")) as f:
            for i, line in enumerate(f):
                if i == want:
                    return json.loads(line)
    except Exception as ex:  # noqa: BLE001 - only used to enrich a report
        return {"unavailable": str(ex)}
    return None


def run(tier, replay=None):
    ck = Check("C13", "TypeGraph", tier)
    ck.coq_build()
    if ck.coq_ok:
        ck.coq_assumptions()
    binp = ck.go_build("c13")
    cmd = [binp, "-seed", str(ck.seed), "-tier", tier, "-out", ck.work]
    if replay:
        cmd += ["-replay", replay]
    rc, out = sh(cmd, timeout=3000)
    if rc != 0:
        raise RuntimeError("harness c13 failed: " + out[-3000:])
    res = json.load(open(os.path.join(ck.work, "result.json")))
    for f in res["failures"]:
        ck.failure(f["signature"], f["what"], {"input": f["input"]})

    mism = {}
    if ck.coq_ok:
        hdr = open(os.path.join(ck.work, "header.v")).read()
        streams = [
            ("hash", "cases_hash.txt", "nat * env * ty * list obs", "hash_mismatches"),
            ("equal", "cases_equal.txt", "nat * env * ty * env * ty * bool", "equal_mismatches"),
            ("dup", "cases_dup.txt", "nat * dup_case", "dup_mismatches"),
        ]
        for name, fn, typ, fun in streams:
            lines = _lines(ck, fn)
            if not ck.coq_ok:
                break
            m = ck.coq_eval_cases(lines, hdr, typ, fun, tag=name, shards=(16 if len(lines) >= 64 else None))
            if m is None:
                break
            mism[name] = m
    if not ck.coq_ok:
        if not ck.violations:
            ck.unproved("the TypeGraph development no longer checks: " + ck.coq_error,
                        {"broken": "coq/TypeGraph build or case evaluation", "detail": ck.coq_error})
    else:
        total = sum(len(v) for v in mism.values())
        if total and not ck.violations:
            first = None
            for name in ("hash", "equal", "dup"):
                if mism.get(name):
                    first = {"stream": name, "case": mism[name][0], "input": _input_of(ck, name, mism[name][0])}
                    break
            ck.unproved(
                "correspondence TypeGraph model vs expr/hasher.go, expr/types.go Equal, expr/dup.go broke on %d hash case(s), %d Equal case(s), %d copy case(s); "
                "the property's own laws held on every case explored" % (len(mism.get("hash", [])), len(mism.get("equal", [])), len(mism.get("dup", []))),
                {"broken": "model output = observed (byte-exact hash strings under 8 flag vectors + Hash method; Equal; shape of Dup's result)",
                 "first_disagreeing_case": first,
                 "mismatching_case_indexes": {k: v[:50] for k, v in mism.items()}})
    cov = {"evaluations": res["evaluations"], "distinct_nontrivial": res["distinct_nontrivial"], "rule": res["rule"],
           "samples": res["samples"], "distribution": res["distribution"],
           "correspondence_cases": res.get("extra", {}),
           "model_mismatches": sum(len(v) for v in mism.values()) if ck.coq_ok else None,
           "exhaustive": False}
    return ck.finish(cov, assumptions=[
        "model TypeGraph/Model.v is hand-written from expr/hasher.go, expr/types.go (Equal, Primitive.Name, Hash methods), expr/dup.go, expr/user_type.go, "
        "expr/result_type.go (Name, ID, Dup), expr/attribute.go (ValidationExpr.Dup), expr/root.go (MetaExpr.Dup); tied by evaluating the model inside Coq on every graph the real code ran",
        "pointer identity is modelled for user types, objects and views only; every other node is a value in the model, and the absence of sharing below that level "
        "is established per run by the harness (address sets of original and copy, 12 kinds of mutation through the copy)",
        "sort.Slice / sort.Strings are modelled as a stable insertion sort (identical on lists with pairwise distinct names, which is the stated envelope)",
        "slices and pointers Dup shares on purpose and goa never writes in place (Validation.Values, bound pointers, meta value slices, UserExamples, DefaultValue, Bases, References, DSLFunc) are values in the model"],
        trusted_base=["harness/cmd/c13 (graph generation, construction of expr values, pointer numbering, Coq term printing, structural comparison, dumps)",
                      "Run.v glue: byte packing into primitive integers (Uint63) for the observed strings"])
