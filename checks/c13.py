"""C13 — type copies are independent and structural hashes match equality (engine TypeGraph)."""
import json
import os
import time

import vcheck
from vcheck import Check, sh, VERIF


def _lines(ck, name):
    p = os.path.join(ck.work, name)
    return open(p).read().splitlines() if os.path.exists(p) else []


def _input_of(ck, stream, case_idx):
    """replayable description of one correspondence case"""
    try:
        index = json.load(open(os.path.join(ck.work, "case_index.json")))[stream]
        want = index[case_idx]
        with open(os.path.join(ck.work, "inputs.jsonl")) as f:
            for i, line in enumerate(f):
                if i == want:
                    return json.loads(line)
    except Exception as ex:  # noqa: BLE001 - only used to enrich a report
        return {"unavailable": str(ex)}
    return None


def run(tier, replay=None):
    ck = Check("C13", "TypeGraph", tier)
    ck.coq_build()
    if ck.coq_ok:
        ck.coq_assumptions()
    binp = ck.go_build("c13")
    cmd = [binp, "-seed", str(ck.seed), "-tier", tier, "-out", ck.work]
    if replay:
        cmd += ["-replay", replay]
    rc, out = sh(cmd, timeout=3000)
    if rc != 0:
        # the harness died inside the code under test (typically unbounded recursion in
        # expr.Hash / expr.Dup): the property is not shown, no input could be recorded
        m = [l for l in out.splitlines() if l.startswith(("fatal error", "panic:", "runtime: goroutine stack exceeds"))]
        if not m:
            raise RuntimeError("harness c13 failed: " + out[-3000:])
        ck.coq_ok = ck.coq_ok if ck.coq_ok is not None else False
        ck.unproved("the harness crashed inside the code under test: " + "; ".join(m[:3]),
                    {"broken": "harness/cmd/c13 run", "detail": m[:5], "tail": out[-1500:]})
        return ck.finish({"evaluations": 0, "distinct_nontrivial": 0, "rule": "harness crashed", "samples": [], "distribution": {}, "exhaustive": False},
                         assumptions=["run aborted"], trusted_base=["harness/cmd/c13"])
    res = json.load(open(os.path.join(ck.work, "result.json")))
    for f in res["failures"]:
        ck.failure(f["signature"], f["what"], {"input": f["input"]})

    # fresh processes: the same seed must give the same hashes in every process
    nproc = 0
    if not replay:
        nproc = 8 if tier == "thorough" else 2
        outs = []
        for k in range(nproc):
            dp = os.path.join(ck.work, "digest_%d.txt" % k)
            rc, out = sh([binp, "-seed", str(ck.seed), "-digest", dp], timeout=600)
            if rc != 0:
                raise RuntimeError("harness c13 -digest failed: " + out[-2000:])
            outs.append(open(dp).read().splitlines())
        for k in range(1, nproc):
            if outs[k] != outs[0]:
                line = next((i for i, (a, b) in enumerate(zip(outs[0], outs[k])) if a != b), min(len(outs[0]), len(outs[k])))
                ck.failure("hash-unstable/across-processes",
                           "two processes computed different hashes for graph %d of the seed" % line,
                           {"input": {"stream": "digest", "graph_number": line, "process_0": outs[0][line:line + 1], "process_%d" % k: outs[k][line:line + 1]}})
                break

    mism = {}
    if ck.coq_ok:
        hdr = open(os.path.join(ck.work, "header.v")).read()
        streams = [
            ("graph", "cases_graph.txt", "gcase", "graph_mismatches"),
            ("equal", "cases_equal.txt", "pcase", "equal_mismatches"),
            ("required", "cases_required.txt", "rcase", "required_mismatches"),
        ]
        for name, fn, typ, fun in streams:
            lines = _lines(ck, fn)
            if not ck.coq_ok:
                break
            m = None
            for attempt in range(3):
                m = ck.coq_eval_cases(lines, hdr, typ, fun, tag=name, shards=max(16, (len(lines) + 199) // 200) if len(lines) >= 64 else None)
                if m is not None or "Error" in ck.coq_error:
                    break
                # a coqc process died without a Coq error (killed by the OOM killer on a loaded machine): run the stream again
                ck.notes.append("stream %s: a coqc process was killed (%s); retried" % (name, ck.coq_error[:120].replace("\n", " ")))
                ck.coq_ok, ck.coq_error = True, ""
                time.sleep(10)
            if m is None:
                break
            mism[name] = m
    if not ck.coq_ok:
        if not ck.violations:
            ck.unproved("the TypeGraph development no longer checks: " + ck.coq_error,
                        {"broken": "coq/TypeGraph build or case evaluation", "detail": ck.coq_error})
    else:
        total = sum(len(v) for v in mism.values())
        if total and not ck.violations:
            first = None
            for name in ("graph", "equal", "required"):
                if mism.get(name):
                    first = {"stream": name, "case": mism[name][0], "input": _input_of(ck, name, mism[name][0])}
                    break
            ck.unproved(
                "correspondence TypeGraph model vs expr/hasher.go, expr/types.go Equal, expr/dup.go broke on %d graph case(s) (hash strings, shape of the copy), %d Equal case(s) and %d Required-slice case(s); "
                "the property's own laws held on every case explored" % (len(mism.get("graph", [])), len(mism.get("equal", [])), len(mism.get("required", []))),
                {"broken": "model output = observed (byte-exact hash strings under 8 flag vectors + Hash method; Equal; shape of Dup's result)",
                 "first_disagreeing_case": first,
                 "mismatching_case_indexes": {k: v[:50] for k, v in mism.items()}})
    cov = {"evaluations": res["evaluations"], "distinct_nontrivial": res["distinct_nontrivial"], "rule": res["rule"],
           "samples": res["samples"], "distribution": res["distribution"],
           "correspondence_cases": res.get("extra", {}), "fresh_processes_compared": nproc,
           "model_mismatches": sum(len(v) for v in mism.values()) if ck.coq_ok else None,
           "exhaustive": False}
    return ck.finish(cov, assumptions=[
        "model TypeGraph/Model.v is hand-written from expr/hasher.go, expr/types.go (Equal, Primitive.Name, Hash methods), expr/dup.go, expr/user_type.go, "
        "expr/result_type.go (Name, ID, Dup), expr/attribute.go (ValidationExpr.Dup), expr/root.go (MetaExpr.Dup); tied by evaluating the model inside Coq on every graph the real code ran",
        "pointer identity is modelled for user types, objects and views only; every other node is a value in the model, and the absence of sharing below that level "
        "is established per run by the harness (address sets of original and copy, 12 kinds of mutation through the copy)",
        "sort.Slice / sort.Strings are modelled as a stable insertion sort (identical on lists with pairwise distinct names, which is the stated envelope)",
        "slices and pointers Dup shares on purpose and goa never writes in place (Validation.Values, bound pointers, meta value slices, UserExamples, DefaultValue, Bases, References, DSLFunc) are values in the model"],
        trusted_base=["harness/cmd/c13 (graph generation, construction of expr values, pointer numbering, Coq term printing, structural comparison, dumps)",
                      "Run.v glue: byte packing into primitive integers (Uint63) for the observed strings"])
