"""C16 — the router dispatches by pattern and returns the original path values (engine Mux)."""
import json
import os

from vcheck import Check, sh, NCPU


def nshards(n):
    return max(1, min(n, max(NCPU, -(-n // 800))))


def run(tier, replay=None):
    ck = Check("C16", "Mux", tier)
    ck.coq_build()
    if ck.coq_ok:
        ck.coq_assumptions()
    binp = ck.go_build("c16")
    cmd = [binp, "-seed", str(ck.seed), "-tier", tier, "-out", ck.work]
    if replay:
        cmd += ["-replay", replay]
    rc, out = sh(cmd, timeout=1800)
    if rc != 0:
        raise RuntimeError("harness c16 failed: " + out[-2000:])
    res = json.load(open(os.path.join(ck.work, "result.json")))
    for f in res["failures"]:
        ck.failure(f["signature"], f["what"], {"input": f["input"]})

    cm, rm = None, None
    if ck.coq_ok:
        hdr = "From Mux Require Import Model Run."
        clines = open(os.path.join(ck.work, "cases_codec.txt")).read().splitlines()
        # ~0.6 MB of Coq heap per case: keep every case file small, 16 are evaluated at a time
        cm = ck.coq_eval_cases(clines, hdr, "N * ccase", "codec_mismatches", tag="codec", shards=nshards(len(clines)))
        if cm is not None:
            rlines = open(os.path.join(ck.work, "cases_route.txt")).read().splitlines()
            rm = ck.coq_eval_cases(rlines, hdr, "N * rcase", "route_mismatches", tag="route", shards=nshards(len(rlines)))
    if not ck.coq_ok:
        if not ck.violations:
            ck.unproved("the Mux development no longer checks: " + ck.coq_error,
                        {"broken": "coq/Mux build or case evaluation", "detail": ck.coq_error})
    elif (cm or rm) and not ck.violations:
        first = None
        if rm:
            with open(os.path.join(ck.work, "route_inputs.jsonl")) as fh:
                for k, line in enumerate(fh):
                    if k == rm[0]:
                        first = {"routing_case": json.loads(line), "coq_case_line": rlines[rm[0]][:1500]}
                        break
        elif cm:
            first = {"codec_case_line": clines[cm[0]][:600]}
        ck.unproved("correspondence of the Mux model with net/url and goahttp.Muxer broke on %d codec case(s) and %d routing case(s); "
                    "the property's own laws held on every case explored" % (len(cm or []), len(rm or [])),
                    {"broken": "correspondence ccase_ok / rcase_ok (model = observed)", "first_disagreeing_case": first,
                     "mismatching_codec_cases": (cm or [])[:50], "mismatching_routing_cases": (rm or [])[:50]})
    cov = {"evaluations": res["evaluations"], "distinct_nontrivial": res["distinct_nontrivial"], "rule": res["rule"],
           "samples": res["samples"], "distribution": res["distribution"],
           "codec_cases": res["extra"]["codec_cases"], "routing_cases": res["extra"]["route_cases"],
           "model_mismatches": (len(cm or []) + len(rm or [])) if ck.coq_ok else None,
           "exhaustive": False}
    return ck.finish(cov, assumptions=[
        "model Mux/Model.v is hand-written from http/mux.go, net/url (shouldEscape, escape, unescape, setPath, EscapedPath, validEncoded) and chi v5 (routeHTTP, FindRoute, RoutePattern); tied by evaluating the model inside Coq on every case the real code ran",
        "chi's precedence between overlapping routes is an oracle: the handler chi chose is fed to the model, which checks it belongs to the matching set and computes everything else",
        "mime.ParseMediaType (Accept normalisation in the not-found handler) is an oracle; the random error id of the 404 body is projected to 'non-empty'",
        "patterns are sequences of whole segments: plain literals, {name}, trailing {*name}; requests go through ServeHTTP directly (no net/http path cleaning)"],
        trusted_base=["harness/cmd/c16 (case generation, observation, Coq term printing, the reference matcher of the direct oracle)"])
