"""C01 — every accepted design generates code that compiles (engine Names + go build verdicts).

PROVED (coq/Names): identifier well-formedness of codegen.Goify / CamelCase and uniqueness of
the names NameScope allocates, over tables translated from codegen/goify.go, codegen/funcs.go
and the toolchain on every run (translate/c01 -> Generated_reserved.v).
OBSERVED, not proved: every generated package type-checks — the `go build` verdict over every
design of the witness / covering / random streams is the direct oracle of the full property."""
import json
import os
import shutil

import vcheck
from vcheck import Check, sh, VERIF, REPO, goenv


def _lines(path):
    return [l for l in open(path).read().splitlines() if l.strip()]


def translate(ck):
    """translate/c01 -> coq/Names/Generated_reserved.v (kept when unchanged: incremental Coq build)."""
    tdir = os.path.join(VERIF, "translate", "c01")
    tbin = os.path.join(ck.work, "c01translate")
    rc, out = sh(["go", "build", "-o", tbin, "."], cwd=tdir, env=goenv(), timeout=600)
    if rc != 0:
        raise RuntimeError("translate/c01 does not build: " + out[-2000:])
    tmpv = os.path.join(ck.work, "Generated_reserved.v")
    rc, out = sh([tbin, "-repo", REPO, "-out", tmpv], timeout=120)
    if rc != 0:
        return False, out[-1500:]
    dst = os.path.join(ck.coqdir, "Generated_reserved.v")
    if not os.path.exists(dst) or open(dst).read() != open(tmpv).read():
        shutil.copyfile(tmpv, dst)
    return True, out.strip()


def run(tier, replay=None):
    import time
    ck = Check("C01", "Names", tier)
    tm = {}
    t = time.time()
    if os.path.realpath(REPO) != "/repo":
        # scratch-worktree runs must not rewrite the committed Generated_reserved.v: private copy
        priv = os.path.join(ck.work, "coq")
        shutil.copytree(ck.coqdir, priv, ignore=shutil.ignore_patterns("*.vo", "*.vok", "*.vos", "*.glob", ".*.aux", "Makefile.coq*", ".Makefile*"))
        ck.coqdir = priv
    t_ok, t_msg = translate(ck)
    if t_ok:
        ck.coq_build()
        if ck.coq_ok:
            ck.coq_assumptions()
    else:
        ck.coq_ok, ck.coq_error = False, "translate/c01 could not read the tables of codegen/goify.go / funcs.go (fail closed): " + t_msg

    tm["translate_and_coq_build_s"] = round(time.time() - t, 1)
    t = time.time()
    binp = ck.go_build("c01", out=os.path.join(ck.work, "c01bin"))
    cmd = [binp, "-seed", str(ck.seed), "-tier", tier, "-out", ck.work, "-repo", os.path.realpath(REPO),
           "-stubs", os.path.join(VERIF, "harness", "stubs", "clue")]
    if replay:
        cmd += ["-replay", os.path.abspath(replay)]
    rc, out = sh(cmd, env=goenv(), timeout=7000)
    if rc != 0:
        raise RuntimeError("harness c01 failed: " + out[-3000:])
    tm["harness_build_and_run_s"] = round(time.time() - t, 1)
    t = time.time()
    res = json.load(open(os.path.join(ck.work, "result.json")))
    if res["distribution"].get("failures_dropped_over_200"):
        raise RuntimeError("harness c01 dropped failing inputs (more than 200 recorded): the per-signature cap is broken")
    for f in res["failures"]:
        ck.failure(f["signature"], f["what"], {"input": f["input"]})
    extra = res.get("extra", {})
    law_fail = extra.get("class_law_failures") or []

    mism = {"goify": None, "camel": None, "scope": None, "types": None}
    if ck.coq_ok:
        hdr = ("From Coq Require Import List NArith.\nFrom Names Require Import Generated_reserved Model Run.\n"
               "Import ListNotations.\nOpen Scope N_scope.\n"
               "Definition tbl : table := Eval vm_compute in mk_table [\n"
               + open(os.path.join(ck.work, "classes.txt")).read() + "].")
        for tag, typ, fn in (("goify", "N * str * bool * str", "goify_mismatches tbl"),
                             ("camel", "N * str * bool * bool * str", "camel_mismatches tbl"),
                             ("scope", "N * list op * list str", "scope_mismatches"),
                             ("types", "N * list (bool * ty) * list str", "type_mismatches tbl")):
            if not ck.coq_ok:
                break
            lines = _lines(os.path.join(ck.work, "cases_%s.txt" % tag))
            mism[tag] = ck.coq_eval_cases(lines, hdr, typ, fn, tag=tag, shards=(1 if len(lines) < 200 else None))
    total_mism = sum(len(v or []) for v in mism.values())
    tm["model_evaluation_s"] = round(time.time() - t, 1)

    if not ck.coq_ok:
        if not ck.violations:
            ck.unproved("the Names development no longer checks against the tables translated from codegen/goify.go and codegen/funcs.go: " + ck.coq_error,
                        {"broken": "coq/Names build (Generated_reserved.v is rewritten from the source on every run)", "detail": ck.coq_error})
    elif law_fail and not ck.violations:
        ck.unproved("Go's unicode tables violate a law the identifier theorems assume of the classification: " + law_fail[0],
                    {"broken": "Model.class_laws / case_laws on the unicode package (checked over every code point)", "detail": law_fail})
    elif total_mism and not ck.violations:
        first = None
        for tag in ("goify", "camel", "scope", "types"):
            if mism[tag]:
                first = {"stream": tag, "case_line": _lines(os.path.join(ck.work, "cases_%s.txt" % tag))[mism[tag][0]]}
                break
        ck.unproved("correspondence Names.goify / camel_case / run vs codegen.Goify / CamelCase / NameScope broke on %d Goify, %d CamelCase, %d NameScope, %d GoTypeName case(s); "
                    "the identifier laws held on every result and every design explored built"
                    % (len(mism["goify"] or []), len(mism["camel"] or []), len(mism["scope"] or []), len(mism["types"] or [])),
                    {"broken": "correspondence model(input) = observed (rune-exact)", "first_disagreeing_case": first,
                     "mismatching_goify_cases": (mism["goify"] or [])[:50], "mismatching_camelcase_cases": (mism["camel"] or [])[:50],
                     "mismatching_scope_cases": (mism["scope"] or [])[:50],
                     "mismatching_type_name_cases": (mism["types"] or [])[:50]})

    cov = {"evaluations": res["evaluations"], "distinct_nontrivial": res["distinct_nontrivial"], "rule": res["rule"],
           "samples": res["samples"], "distribution": res["distribution"],
           "model_mismatches": total_mism if ck.coq_ok else None,
           "model_cases": extra.get("names_cases"), "designs": extra.get("designs"),
           "alphabet_runes": extra.get("alphabet_runes"), "translator": t_msg, "harness_seconds": extra.get("seconds"), "phase_seconds": tm,
           "classification_laws_checked_over_all_code_points": not law_fail,
           "exhaustive": False,
           "partial": "PROVED: identifier well-formedness (goify_*), uniqueness of allocated names (unique_*, scope_injective). "
                      "OBSERVED, not proved: type-correctness of generated packages (go build verdict per design)",
           "checker_cmd": "go run translate/c01 -> coq/Names/Generated_reserved.v; coq_makefile -f coq/Names/_CoqProject && make (coqc 8.16.1, full .vo) + Print Assumptions per theorem; "
                          "go build ./... over one module holding every generated design (go 1.23.5 type checker)"}
    return ck.finish(cov, assumptions=[
        "model Names/Model.v is hand-written from codegen/funcs.go (CamelCase), codegen/goify.go (Goify) and codegen/scope.go (Unique, HashedUnique, Name); tied by evaluating it inside Coq on every string / call sequence the real code ran (rune-exact)",
        "strings are modelled as rune lists: the []rune(string) / string([]rune) conversions and strings.Index on ':' are Go's; the correspondence feeds invalid UTF-8 too",
        "the Unicode classification is universally quantified in the theorems under Model.class_laws / case_laws, which the harness checks against the unicode package over every code point on every run; the correspondence supplies the classification of the ~180 runes it uses as a table of what unicode.* answered",
        "expr.Title (golang.org/x/text/cases) in the acronym=false branches of CamelCase is modelled as upper-casing the first rune (all initialisms are ASCII)",
        "the Go type system is NOT modelled: that every generated package type-checks is observed with `go build` on the designs of this run, not proved; gRPC designs are not generated (protoc absent); go vet is not run",
        "goa.design/clue (imported by example code, absent offline) is replaced by the stand-in harness/stubs/clue with the signatures the generated example code uses"],
        trusted_base=["translate/c01 (go/ast extraction of isPackage, commonInitialisms, the shape of fixReservedGo and Goify; go/token and go/doc tables of the toolchain)",
                      "harness/cmd/c01 (string / call-sequence / design generation, Coq term printing, parsing of go build diagnostics, failure classification)",
                      "harness/designgen (design descriptions -> goa DSL calls), harness/stubs/clue",
                      "the Go toolchain (go build / go/types) as the judge of 'type-checks'"])
