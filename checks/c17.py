"""C17 — format and pattern validators (engine Formats)."""
import json
import os

import vcheck
from vcheck import Check, sh, VERIF, REPO, goenv


def translate(ck):
    """Regenerate coq/Formats/Generated_formats.v from <repo>/pkg/validation.go.
    The translator fails closed; its failure is reported as a broken correspondence."""
    tdir = os.path.join(VERIF, "translate", "c17")
    binp = os.path.join(VERIF, ".build", "translate-c17")
    rc, out = sh(["go", "build", "-o", binp, "."], cwd=tdir, env=goenv(), timeout=600)
    if rc != 0:
        raise RuntimeError("translate/c17 does not build:\n" + out[-2000:])
    rc, out = sh([binp, "-repo", REPO, "-out", os.path.join(ck.coqdir, "Generated_formats.v")], timeout=120)
    ck.translate_error = out.strip()[-1500:] if rc != 0 else ""


def eval_cases(ck, lines, header, typ, fn, tag, shards=None, timeout=900, mem_kb=6000000):
    """Check.coq_eval_cases with an address-space limit and a timeout per shard, so that a
    case on which the model's matcher blows up is reported instead of exhausting the machine."""
    from concurrent.futures import ThreadPoolExecutor
    if not lines:
        return []
    shards = shards or min(2 * vcheck.NCPU, max(1, len(lines) // 40))
    workers = max(1, vcheck.NCPU // 2)      # ~0.4 GB per coqc on a 200-case shard
    files = []
    for k in range(shards):
        part = lines[k::shards]
        if not part:
            continue
        path = os.path.join(ck.work, "%s_%02d.v" % (tag, k))
        with open(path, "w") as f:
            f.write(header + "\nSet Warnings \"-abstract-large-number\".\nDefinition cases : list (%s) := [\n" % typ)
            f.write(";\n".join(part))
            f.write("].\nDefinition M := Eval vm_compute in %s cases.\nPrint M.\n" % fn)
        files.append(path)

    def one(path):
        cmd = "ulimit -v %d; exec timeout %d coqc -noglob -Q %s %s %s" % (mem_kb, timeout, ck.coqdir, ck.engine, os.path.basename(path))
        return sh(cmd, cwd=ck.work, timeout=timeout + 30)
    bad = []
    with ThreadPoolExecutor(max_workers=workers) as ex:
        results = list(zip(files, ex.map(one, files)))
    for path, (rc, out) in results:
            if rc in (-9, 137):     # killed from outside (machine-wide memory pressure): once more, alone
                rc, out = one(path)
            m = vcheck.parse_coq_list_of_nat(out, "M") if rc == 0 else None
            if m is None:
                ck.coq_ok = False
                ck.coq_error = "%s did not evaluate (rc %s): %s" % (os.path.basename(path), rc, out[-800:])
                return None
            bad += m
    for path in files:
        for ext in (".vo", ".vok", ".vos", ".glob"):
            try:
                os.remove(path[:-2] + ext)
            except OSError:
                pass
    return sorted(bad)


def run(tier, replay=None):
    ck = Check("C17", "Formats", tier)
    ck.translate_error = ""
    ck.coq_build(pre=lambda: translate(ck))
    if ck.translate_error:
        ck.coq_ok = False
        ck.coq_error = "pkg/validation.go no longer has the shape the model was written from: " + ck.translate_error
    proofs_ok = bool(ck.coq_ok)
    proofs_error = ck.coq_error
    model_ok = proofs_ok
    if proofs_ok:
        ck.coq_assumptions()
        proofs_ok, proofs_error = bool(ck.coq_ok), ck.coq_error
    else:
        # the model and the comparison glue do not depend on the generated file: when the
        # tie to the source (or a proof) broke, the model can still be run against the code
        rc, _ = sh("timeout 900 make -f Makefile.coq Run.vo", cwd=ck.coqdir, timeout=930)
        model_ok = rc == 0
    binp = ck.go_build("c17")
    cmd = [binp, "-seed", str(ck.seed), "-tier", tier, "-out", ck.work]
    if replay:
        cmd += ["-replay", replay]
    rc, out = sh(cmd, timeout=2400)
    if rc != 0:
        raise RuntimeError("harness c17 failed: " + out[-3000:])
    res = json.load(open(os.path.join(ck.work, "result.json")))
    single = bool(replay) and res["rule"].startswith("replay of one")
    if replay:
        print("\n".join(l for l in out.splitlines() if l.startswith("replay")))
    if res["distribution"].get("pattern_generator_rejected_by_regexp_compile", 0):
        raise RuntimeError("the pattern generator produced text that regexp.Compile refuses: %s" % res["samples"][:3])
    for f in res["failures"]:
        ck.failure(f["signature"], f["what"], {"input": f["input"]})

    # supporting evidence (thorough): the same concurrent use under the race detector
    race_note = None
    if tier == "thorough" and not single:
        rbin = ck.go_build("c17", race=True)
        rc, out = sh([rbin, "-mode", "stress", "-seed", str(ck.seed), "-rounds", "400"], timeout=1500)
        if rc != 0 or "DATA RACE" in out:
            first = next((l for l in out.splitlines() if "DATA RACE" in l or "fatal error" in l or "STRESS-MISMATCH" in l), out[:200])
            ck.failure("pattern-cache/race-detector-report", "ValidatePattern from 2-16 goroutines under -race: " + first,
                       {"input": {"kind": "race", "cmd": "c17-race -mode stress -seed %d -rounds 400" % ck.seed, "output": out[:3000]}})
            race_note = "race detector: report"
        else:
            race_note = "race detector: 400 rounds of 2-16 goroutines over fresh patterns, no report (" + out.strip().splitlines()[-1] + ")"

    pm = fm = hm = None
    table = {}
    evaluated = False
    if model_ok and not single:
        ck.coq_ok = True
        hdr = "From Formats Require Import Regex FormatModel Cache Run.\nOpen Scope nat_scope."
        table = json.load(open(os.path.join(ck.work, "case_table.json")))
        lines = open(os.path.join(ck.work, "cases_pattern.txt")).read().splitlines()
        pm = eval_cases(ck, lines, hdr, "N * top * word * word * bool", "pattern_mismatches", "pattern")
        if pm is not None:
            lines = open(os.path.join(ck.work, "cases_format.txt")).read().splitlines()
            fm = eval_cases(ck, lines, hdr, "N * format * word * answers * bool", "format_mismatches", "format")
        if fm is not None:
            lines = open(os.path.join(ck.work, "cases_history.txt")).read().splitlines()
            hm = eval_cases(ck, lines, hdr, "N * list top * list (list (nat * word)) * list nat * list (list bool)",
                            "history_mismatches", "history", shards=min(2 * vcheck.NCPU, max(1, len(lines))))
        evaluated = hm is not None
        if not evaluated:
            proofs_ok, proofs_error = False, ck.coq_error
    ck.coq_ok, ck.coq_error = proofs_ok, proofs_error

    def first_disagreement():
        if pm:
            i = pm[0] // 2
            return {"stream": "pattern", "case": table["pattern"][i],
                    "disagreement": "model prints the syntax tree differently from the text given to goa" if pm[0] % 2 else
                    "verified matcher (matchb over Go's unanchored search) and ValidatePattern disagree"}
        if fm:
            return {"stream": "format", "case": table["format"][fm[0]], "disagreement": "Formats.validate_format and ValidateFormat disagree"}
        if hm:
            return {"stream": "history", "case": table["history"][hm[0]],
                    "disagreement": "cache model under the recorded schedule and the goroutines' verdict lists disagree"}
        return None
    nmis = len(pm or []) + len(fm or []) + len(hm or [])
    if evaluated and nmis:
        ck.notes.append("model and implementation disagree on %d pattern, %d format, %d history case(s); first: %s"
                        % (len(pm), len(fm), len(hm), json.dumps(first_disagreement())[:600]))
    if not proofs_ok:
        if not ck.violations:
            ck.unproved("the Formats development no longer checks against pkg/validation.go: " + proofs_error,
                        {"broken": "coq/Formats build (translator + Tie.v + theorems)", "detail": proofs_error,
                         "model_vs_implementation": {"evaluated": evaluated, "mismatches": nmis, "first": first_disagreement()}})
    elif evaluated and nmis and not ck.violations:
        ck.unproved("correspondence Formats model vs pkg/validation.go broke on %d pattern, %d format and %d history case(s); the property's own laws held on every case explored"
                    % (len(pm), len(fm), len(hm)),
                    {"broken": "correspondence model = implementation", "first_disagreeing_case": first_disagreement(),
                     "pattern_mismatch_codes": pm[:50], "format_mismatch_indexes": fm[:50], "history_mismatch_indexes": hm[:50]})
    if race_note:
        ck.notes.append(race_note)
    cov = {"evaluations": res["evaluations"], "distinct_nontrivial": res["distinct_nontrivial"], "rule": res["rule"],
           "samples": res["samples"], "distribution": res["distribution"],
           "model_mismatches": nmis if evaluated else None,
           "cases_compared_with_model": res.get("extra", {}) if evaluated else {}, "exhaustive": False}
    return ck.finish(cov, assumptions=[
        "Formats/Regex.v (syntax, denotation, derivative matcher, Go's unanchored search) is verified; its alphabet is bytes, Go's regexp matches UTF-8 runes: model and implementation were compared on ASCII patterns and values, non-ASCII values only against regexp.MatchString",
        "date, uuid, hostname, dotted-quad and the ip/ipv4/ipv6 switch are modelled in Gallina from pkg/validation.go, time.Parse(DateOnly) and google/uuid.Parse; tied by the translator (literals, switch table, statement sequences) and by evaluating the model inside Coq on every case the real code ran",
        "email, uri, mac, cidr, regexp, json, rfc1123, date-time and net.ParseIP are oracles: theorems hold for every behaviour; the check compares goa with the standard-library call each format documents",
        "the pattern cache model is sequentially consistent (Go's memory model is not modelled); the race detector run in the thorough tier is supporting evidence, not part of the theorems",
        "url.ParseRequestURI accepting a path without scheme and mail.ParseAddress accepting name-addr forms are taken as the documented meaning of those formats"],
        trusted_base=["translate/c17 (go/ast extraction of literals, switch cases, statement sequences; fails closed)",
                      "harness/cmd/c17 (generation, observation, Coq term printing)", "lib/vcheck.py"])
