"""C03 — HTTP responses deliver the result intact to the client caller (engine Transport).

Same engine and harness as C02 (checks/c02.py); theorems of PropertiesResp.v."""
import c02


def run(tier, replay=None):
    return c02.run_prop("C03", tier, replay)
