"""C14 — OpenAPI schemas accept exactly what the generated server accepts (engine
Validation, shared with C04: see checks/c04.py)."""
import c04


def run(tier, replay=None):
    return c04.run_prop("C14", tier, replay)
