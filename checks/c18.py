"""C18 — error merging and status mapping (engine Errors)."""
import json
import os
import re

import vcheck
from vcheck import Check, sh, VERIF


def run(tier, replay=None):
    ck = Check("C18", "Errors", tier)
    ck.coq_build()
    if ck.coq_ok:
        ck.coq_assumptions()
    binp = ck.go_build("c18")
    cmd = [binp, "-seed", str(ck.seed), "-tier", tier, "-out", ck.work]
    if replay:
        cmd += ["-replay", replay]
    rc, out = sh(cmd, timeout=1200)
    if rc != 0:
        raise RuntimeError("harness c18 failed: " + out[-2000:])
    res = json.load(open(os.path.join(ck.work, "result.json")))
    for f in res["failures"]:
        ck.failure(f["signature"], f["what"], {"input": f["input"]})

    mism, smism, emism, gmism, fmism = None, None, None, None, None
    if ck.coq_ok:
        hdr = "From Coq Require Import NArith.\nFrom Errors Require Import Model Run.\nOpen Scope string_scope."
        lines = open(os.path.join(ck.work, "cases_merge.txt")).read().splitlines()
        mism = ck.coq_eval_cases(lines, hdr, "N * tree * obs", "mismatches", tag="merge")
        slines = open(os.path.join(ck.work, "cases_status.txt")).read().splitlines()
        smism = ck.coq_eval_cases(slines, hdr, "N * val * nat * grpc_code * core", "status_mismatches", shards=2, tag="status")
        hhdr = "From Coq Require Import NArith.\nFrom Errors Require Import Model Heap Run.\nOpen Scope string_scope."
        hlines = open(os.path.join(ck.work, "cases_heap.txt")).read().splitlines()
        hmism = ck.coq_eval_cases(hlines, hhdr, "N * hstate * list op * list vobs", "heap_mismatches", tag="heap")
        clines = open(os.path.join(ck.work, "cases_client.txt")).read().splitlines()
        cmism = ck.coq_eval_cases(clines, hhdr, "N * nat * bool * bool * bool", "client_mismatches", shards=2, tag="client")
        elines = open(os.path.join(ck.work, "cases_encode.txt")).read().splitlines()
        emism = ck.coq_eval_cases(elines, hhdr, "N * fmtsel * eshape * writer", "encode_mismatches", tag="encode")
        glines = open(os.path.join(ck.work, "cases_grpcshape.txt")).read().splitlines()
        gmism = ck.coq_eval_cases(glines, hhdr, "N * eshape * grpc_code * string * core", "grpcshape_mismatches", tag="grpcshape")
        flines = open(os.path.join(ck.work, "cases_grpcfull.txt")).read().splitlines()
        fmism = ck.coq_eval_cases(flines, hhdr, "N * eshape * nat * gstatus * option detail", "grpcfull_mismatches", tag="grpcfull")
        if fmism and not ck.violations:
            ck.unproved("correspondence Errors.grpc_encode_full / reencode vs grpc/error.go EncodeError (status inputs, re-encoding) broke on %d case(s); the laws held on every case explored" % len(fmism),
                        {"broken": "correspondence Nat.iter k reencode (grpc_encode_full shape) = observed status", "input": res.get("extra", {}).get("grpcfull_cases", [None])[fmism[0]],
                         "mismatching_grpcfull_case_indexes": fmism[:50]})
        if hmism is not None and cmism is not None and smism is not None:
            smism = smism + [10000 + x for x in hmism] + [20000 + x for x in cmism]
    if not ck.coq_ok:
        if not ck.violations:
            ck.unproved("the Errors development no longer checks: " + ck.coq_error,
                        {"broken": "coq/Errors build", "detail": ck.coq_error})
    else:
        if (emism or gmism) and not ck.violations:
            extra = res.get("extra", {})
            first = {"input": extra["encode_cases"][emism[0]]} if emism else {"input": {"grpc_shape": extra["grpc_shapes"][gmism[0]]}}
            first.update({"broken": "correspondence error_encoder (formatter) fid shape fresh_writer = observed recorder / grpc_encode shape = observed status",
                          "mismatching_encode_case_indexes": (emism or [])[:50], "mismatching_grpc_shape_indexes": (gmism or [])[:50]})
            ck.unproved("correspondence Errors.error_encoder / grpc_encode vs http/encoding.go ErrorEncoder, http/error.go, grpc/error.go broke on %d encoder case(s) and %d gRPC shape(s); the documented table held on every case explored" % (len(emism or []), len(gmism or [])), first)
        if (mism or smism) and not ck.violations:
            first = res["cases"][mism[0]] if mism else {"status_row": smism[0]}
            ck.unproved("correspondence Errors.merge_tree / status tables vs pkg/error.go, http/error.go, grpc/error.go broke on %d merge case(s) and %d status row(s); the property's own laws held on every case explored" % (len(mism), len(smism)),
                        {"broken": "correspondence obs_of_val (merge_tree t) = observed", "first_disagreeing_case": first,
                         "mismatching_case_indexes": mism[:50], "mismatching_status_rows_or_heap(10000+)_or_client(20000+)": smism[:50],
                         "first_disagreeing_history": (res.get("extra", {}).get("heap_cases") or [None])[[x - 10000 for x in smism if 10000 <= x < 20000][0]] if [x for x in smism if 10000 <= x < 20000] else None})
    cov = {"evaluations": res["evaluations"], "distinct_nontrivial": res["distinct_nontrivial"], "rule": res["rule"],
           "samples": res["samples"], "distribution": res["distribution"],
           "model_mismatches": (len(mism or []) + len(smism or []) + len(emism or []) + len(gmism or []) + len(fmism or [])) if ck.coq_ok else None,
           "exhaustive": False}
    return ck.finish(cov, assumptions=[
        "model Errors/Model.v is hand-written from pkg/error.go, http/error.go, grpc/error.go; tied by evaluating merge_tree / http_status / grpc_code_of / error_encoder / grpc_encode inside Coq on every case the real code ran",
        "model of http.ErrorEncoder (Errors.error_encoder) is hand-written from http/encoding.go; the response writer is modelled by its first status, the bodies encoded and the number of WriteHeader calls; body encoders (JSON, XML) are exercised, not modelled; errors are modelled by shape (plain / service / wrapper / join), a wrapper type's Error() is taken to be ctx + \": \" + inner",
        "gRPC status inputs: status.FromError / WithDetails / Details are modelled by their documented behaviour (first status of the chain by errors.As, details appended, first detail decoded); a status of code OK is the nil error and is outside the shapes",
        "identifiers drawn by NewErrorID for non-ServiceError leaves are projected away",
        "protobuf status details transport (grpc status.WithDetails / Details) is exercised, not modelled"],
        trusted_base=["harness/cmd/c18 (case generation, observation, Coq term printing)", "decidable equality obs_eq_dec (by decide equality, Defined)"])
