"""C09 — code generation is deterministic, repeatable and never clobbers examples (engine GenFS).

PARTIAL: what is proved is the output-directory state machine (File.Render + cleanupDirs)
over all histories and the order-insensitivity of the iteration shapes of every inventoried
`range` over a map; that the Go generators are a function of the design is observed
(byte comparison across repetitions and fresh processes)."""
import json
import os
import shutil

import vcheck
from vcheck import Check, sh, VERIF, REPO, goenv


def _translate(ck, state):
    """Build and run translate/c09 against the tree under test: writes
    coq/GenFS/Generated_mapranges.v and .work/C09/mapranges.json."""
    tdir = os.path.join(VERIF, "translate", "c09")
    sumsrc = os.path.join(REPO, "go.sum")
    if os.path.exists(sumsrc):
        shutil.copyfile(sumsrc, os.path.join(tdir, "go.sum"))
    binp = os.path.join(VERIF, ".build", "c09translate")
    rc, out = sh(["go", "build", "-o", binp, "."], cwd=tdir, env=goenv(), timeout=600)
    if rc != 0:
        raise vcheck.BuildError("go build translate/c09 failed:\n" + out[-3000:])
    rc, out = sh([binp, "-repo", os.path.realpath(REPO), "-allow", os.path.join(tdir, "allowlist.json"),
                  "-out", os.path.join(ck.coqdir, "Generated_mapranges.v"),
                  "-json", os.path.join(ck.work, "mapranges.json")], env=goenv(), timeout=600)
    state["translator_output"] = out
    state["translator_rc"] = rc
    if rc != 0:
        # fail closed: an inventory that cannot be computed is an inventory that does not check
        with open(os.path.join(ck.coqdir, "Generated_mapranges.v"), "w") as f:
            f.write("(* translate/c09 failed on this tree: %s *)\nFrom GenFS Require Import Model.\n"
                    "Definition mapranges : list site := translator_failed.\n" % out[-300:].replace("*)", "* )").replace("(*", "( *"))


def _inventory(ck):
    p = os.path.join(ck.work, "mapranges.json")
    if not os.path.exists(p):
        return None
    return json.load(open(p))


def run(tier, replay=None):
    # read the replay file first: for runs against a scratch worktree it lives inside the
    # work directory that Check() recreates
    replay_doc = None
    if replay:
        try:
            replay_doc = json.load(open(replay))
        except Exception:
            replay_doc = None
    ck = Check("C09", "GenFS", tier)
    state = {}
    ck.coq_build(pre=lambda: _translate(ck, state))
    if ck.coq_ok:
        ck.coq_assumptions()
    inv = _inventory(ck) or {"sites": [], "file_sites": [], "ambient_sites": []}
    ok_shapes = {"writes_map", "collect_then_sort", "keyed_lookup", "exists_test", "commutative_acc", "per_element_write",
                 "commuting_writes", "singleton", "no_effect", "inspected_harmless"}
    bad_sites = [s for s in inv["sites"] if s["shape"] not in ok_shapes]
    bad_files = [f for f in inv["file_sites"] if (f["reachable_from_example"] and not f["skip_exist"]) or (f["reachable_from_gen"] and f["skip_exist"])]
    bad_ambient = [a for a in inv.get("ambient_sites", []) if not a["allowed"]]
    n_path_sites = sum(len(f.get("path_shapes") or []) for f in inv["file_sites"] if f["reachable_from_gen"])

    binp = ck.go_build("c09")
    base = [binp, "-seed", str(ck.seed), "-tier", tier, "-repo", os.path.realpath(REPO)]
    replay_input = (replay_doc or {}).get("input")
    cmd = base + ["-out", ck.work]
    if replay and replay_input:
        rp = os.path.join(ck.work, "replay_input.json")
        json.dump(replay_doc, open(rp, "w"))
        cmd += ["-replay", rp]
    rc, out = sh(cmd, timeout=7200, env=goenv())
    if rc != 0:
        raise RuntimeError("harness c09 failed: " + out[-3000:])
    res = json.load(open(os.path.join(ck.work, "result.json")))
    for f in res["failures"]:
        ck.failure(f["signature"], f["what"], {"input": f["input"]})

    # correspondence: the GenFS machine evaluated inside Coq on every executed history
    mism = None
    run_vo = os.path.join(ck.coqdir, "Run.vo")
    cpath = os.path.join(ck.work, "cases_fs.txt")
    lines = [l for l in open(cpath).read().splitlines() if l.strip()] if os.path.exists(cpath) else []
    if os.path.exists(run_vo) and lines:
        was_ok, was_err = ck.coq_ok, ck.coq_error
        hdr = "From GenFS Require Import Model Run.\nFrom Coq Require Import List NArith.\nImport ListNotations.\nOpen Scope N_scope."
        mism = ck.coq_eval_cases(lines, hdr, "case", "mismatches", tag="fs", shards=min(8, max(1, len(lines) // 12)))
        if mism is None and was_ok is False:
            ck.coq_error = was_err     # keep the first (build) error
        elif was_ok is False:
            ck.coq_ok, ck.coq_error = was_ok, was_err

    # correspondence of the path computation (codegen.SnakeCase, filepath.Join)
    pmism = {}
    if os.path.exists(run_vo):
        was_ok, was_err = ck.coq_ok, ck.coq_error
        hdr2 = "From GenFS Require Import Model Run.\nFrom Coq Require Import List NArith.\nImport ListNotations.\nOpen Scope N_scope."
        for tag, typ, fn in (("snake", "N * bytes * bytes", "snake_mismatches"), ("join", "N * list bytes * list bytes", "join_mismatches")):
            pth = os.path.join(ck.work, "cases_%s.txt" % tag)
            pl = [l for l in open(pth).read().splitlines() if l.strip()] if os.path.exists(pth) else []
            if pl:
                r_ = ck.coq_eval_cases(pl, hdr2, typ, fn, tag=tag, shards=min(8, max(1, len(pl) // 300)))
                pmism[tag] = (r_, pl)
        if was_ok is False:
            ck.coq_ok, ck.coq_error = was_ok, was_err

    searched = None
    if not ck.coq_ok and not ck.violations and not (replay and replay_input):
        # a proof obligation broke and the normal streams found nothing: search harder
        sdir = os.path.join(ck.work, "search")
        os.makedirs(sdir, exist_ok=True)
        rc, out = sh(base + ["-out", sdir, "-search"], timeout=7200, env=goenv())
        if rc != 0:
            raise RuntimeError("harness c09 -search failed: " + out[-3000:])
        sres = json.load(open(os.path.join(sdir, "result.json")))
        searched = {"evaluations": sres["evaluations"], "designs": sres["distinct_nontrivial"], "failures": len(sres["failures"])}
        for f in sres["failures"]:
            ck.failure(f["signature"], f["what"], {"input": f["input"]})
        res["evaluations"] += sres["evaluations"]

    if not ck.coq_ok:
        if not ck.violations:
            what = "the GenFS development no longer checks: " + ck.coq_error
            if bad_sites:
                what = ("map-range inventory: %d site(s) of the generator packages are not order-insensitive by the rules nor allow-listed (%s); "
                        "GenFS.all_sites_order_insensitive no longer checks; generation was repeated %s times over metadata-heavy designs and the real tool was re-run, all outputs agreed"
                        % (len(bad_sites), "; ".join("%s [%s]" % (s["site"], s["shape"]) for s in bad_sites[:6]), (searched or {}).get("evaluations")))
            elif bad_files:
                what = "file inventory: codegen.File literal(s) with the wrong SkipExist flag: " + "; ".join(f["site"] for f in bad_files[:6])
            elif bad_ambient:
                what = "ambient-input inventory: generator code reads the clock / a global random source / the environment: " + "; ".join(a["site"] for a in bad_ambient[:6])
            ck.unproved(what, {"broken": "coq/GenFS build (inventories translated from the source tree)", "detail": ck.coq_error,
                               "sites_not_order_insensitive": [{k: s.get(k) for k in ("site", "shape", "effects", "file", "line", "why", "text")} for s in bad_sites[:20]],
                               "file_sites_with_wrong_flag": bad_files[:20], "ambient_sites_not_allowed": bad_ambient[:20],
                               "search": searched, "translator_output": state.get("translator_output", "")[-1500:]})
    elif mism and not ck.violations:
        first = res["cases"][mism[0]] if mism[0] < len(res["cases"]) else {"case": mism[0]}
        ck.unproved("correspondence GenFS.run (File.Render + cleanupDirs state machine) vs the real goa tool broke on %d of %d executed histories; the property's own laws held on every history" % (len(mism), len(lines)),
                    {"broken": "Run.case_ok: model_final(files observed in an empty directory, history) = observed final directory (paths, digests, last-write step)",
                     "first_disagreeing_case": first, "case_line": lines[mism[0]][:4000], "mismatching_case_indexes": mism[:50]})

    if ck.coq_ok and not ck.violations:
        for tag, (r_, pl) in pmism.items():
            if r_:
                ck.unproved("correspondence GenFS.%s vs the real %s broke on %d of %d cases" % ("snake_case" if tag == "snake" else "join_clean", "codegen.SnakeCase" if tag == "snake" else "filepath.Join", len(r_), len(pl)),
                            {"broken": "Run.%s_mismatches" % tag, "first_disagreeing_case": pl[r_[0]][:1000], "mismatching_case_indexes": r_[:50]})
    extra = res.get("extra", {})
    cov = {"evaluations": res["evaluations"], "distinct_nontrivial": res["distinct_nontrivial"], "rule": res["rule"],
           "samples": res["samples"], "distribution": res["distribution"],
           "model_mismatches": (len(mism) if mism is not None else None), "model_cases": len(lines),
           "exhaustive": False,
           "path_model_cases": {t: len(v[1]) for t, v in pmism.items()},
           "path_model_mismatches": {t: (len(v[0]) if v[0] is not None else None) for t, v in pmism.items()},
           "inventory": {"map_range_sites": len(inv["sites"]),
                         "by_shape": {sh_: len([s for s in inv["sites"] if s["shape"] == sh_]) for sh_ in sorted({s["shape"] for s in inv["sites"]})},
                         "allow_listed_inspected": [s["site"] for s in inv["sites"] if s.get("allow") == "inspected"],
                         "allow_listed_findings": [s["site"] for s in inv["sites"] if s.get("allow") == "finding"],
                         "file_literal_sites": len(inv["file_sites"]),
                         "gen_path_sites": n_path_sites,
                         "example_file_sites": len([f for f in inv["file_sites"] if f["reachable_from_example"]]),
                         "ambient_input_sites": [a["site"] for a in inv.get("ambient_sites", [])]},
           "tool_vs_library_byte_identical": "%s of %s designs" % (extra.get("printer_agree"), extra.get("printer_checked")),
           "cli": {"designs": extra.get("cli_designs"), "histories_run": extra.get("cli_histories_run"), "process_runs_per_history": extra.get("process_runs_per_history")},
           "search": searched}
    return ck.finish(cov, level="proof", assumptions=[
        "PARTIAL: determinism of the Go generators (same design and command line => same bytes) is OBSERVED, not proved: in-process repetitions (Go randomises every map iteration) and fresh `goa` processes are compared byte for byte",
        "model GenFS/Model.v (render = SkipExist short-circuit / append + whole-file rewrite; cleanup = removal of gen's sub-directories; histories of gen, example, user writes and deletes) is hand-written from codegen/file.go and cmd/goa/gen.go and tied by running it inside Coq on every history the real tool executed",
        "theorem hypotheses all_gen_files_in_subdirs / all_example_files_skip are checked on the implementation: statically (every codegen.File literal reachable from the generators) and on the file lists the generators returned for every design of the run",
        "map-range inventory: calls in expression position are taken to be free of effects on shared state; sort.Slice comparators are not trusted (collect_derived_sort needs inspection); %d sites are allow-listed after inspection (translate/c09/allowlist.json, each with its reason, a fingerprint of the loop text and the shape the rules gave at inspection time)" % len([s for s in inv["sites"] if s.get("allow") == "inspected"]),
        "iteration orders of text/template, encoding/json and yaml.v3 over maps (sorted keys) are theirs, not modelled",
        "in-process repetitions reset goa's package-level caches (eval context, service/HTTP/gRPC data, openapi.Definitions) as goa's own tests do; without the reset a second generation in one process draws other example values"],
        trusted_base=["translate/c09 (go/packages + go/types: map-range sites, shapes, File literals, reachability by static calls, ambient inputs)",
                      "harness/cmd/c09 (design printer, process driver, directory snapshots with sha256/mtime, Coq term printing); designgen interpreter",
                      "decidable equality on paths/contents via list_eq_dec N.eq_dec"])
