"""C10 — gRPC definitions are well formed and messages round-trip payloads (engine GRPC).

PARTIAL: protoc is absent in this sandbox. The protoc finaliser is never run, the
protobuf wire format is not exercised and, in the thorough tier, the protoc-gen-go
structs are stand-ins emitted by the harness."""
import json
import os

import vcheck
from vcheck import Check, sh, VERIF

CODES = {1: "the model cannot print the description (it predicts a panic in rpcTag)",
         2: "model tokens differ from the tokens of the real .proto",
         3: "the description goa handed to its printer is outside the model's well-formedness hypotheses",
         4: "the verified recogniser rejects the real .proto tokens",
         5: "a message of the real .proto has invalid or repeated numbers / names",
         6: "a main-stream message is outside the hypotheses of tags_unique_partial",
         7: "a message of a design goa accepted is refused by the model of goa's field number validation",
         8: "a main-stream attribute name is not letter-led (hypothesis of attribute_names_become_identifiers)"}


def run(tier, replay=None):
    ck = Check("C10", "GRPC", tier)
    ck.coq_build()
    if ck.coq_ok:
        ck.coq_assumptions()
    binp = ck.go_build("c10")
    cmd = [binp, "-seed", str(ck.seed), "-tier", tier, "-out", ck.work, "-repo", os.path.realpath(vcheck.REPO)]
    if replay:
        cmd += ["-replay", replay]
    rc, out = sh(cmd, timeout=3000, env=vcheck.goenv())
    if rc != 0:
        raise RuntimeError("harness c10 failed: " + out[-3000:])
    res = json.load(open(os.path.join(ck.work, "result.json")))
    for f in res["failures"]:
        ck.failure(f["signature"], f["what"], {"input": f["input"]})

    def lines(name):
        p = os.path.join(ck.work, name)
        return [l for l in open(p).read().splitlines() if l.strip()] if os.path.exists(p) else []

    mm = {}
    if ck.coq_ok:
        hdr = "From GRPC Require Import Model Run.\nFrom Coq Require Import Uint63.\nOpen Scope uint63_scope."
        mm["main"] = ck.coq_eval_cases(lines("cases_main.txt"), hdr, "int * file * list int", "mismatches", tag="main")
    if ck.coq_ok:
        mm["names"] = ck.coq_eval_cases(lines("cases_names.txt"), hdr, "int * str * str", "name_mismatches", tag="names")
    if ck.coq_ok:
        mm["split"] = ck.coq_eval_cases(lines("cases_split.txt"), hdr, "int * list str * list str * list (list str) * list str", "split_mismatches", tag="split")
    if ck.coq_ok:
        mm["reqmd"] = ck.coq_eval_cases(lines("cases_reqmd.txt"), hdr, "int * list str * list str * list str", "reqmd_mismatches", tag="reqmd")
    if ck.coq_ok:
        mm["witness"] = ck.coq_eval_cases(lines("cases_witness.txt"), hdr, "int * file * wobs", "witness_mismatches", shards=1, tag="witness")
    if ck.coq_ok:
        mm["runtime"] = ck.coq_eval_cases(lines("cases_runtime.txt"), hdr, "int * mdata * list (str * list str) * list (str * list str) * bool * bool * list stage", "runtime_mismatches", tag="runtime")
    if ck.coq_ok:
        mm["reject"] = ck.coq_eval_cases(lines("cases_reject.txt"), hdr, "int * list member", "reject_mismatches", tag="reject")
    if ck.coq_ok:
        mm["order"] = ck.coq_eval_cases(lines("cases_order.txt"), hdr, "int * list decl * skind", "order_mismatches", tag="order")
    if ck.coq_ok:
        mm["history"] = ck.coq_eval_cases(lines("cases_history.txt"), hdr, "int * mdata * list (str * list str) * mdata * list (str * list str) * mdata", "history_mismatches", tag="history")
    if ck.coq_ok:
        mm["streamhandler"] = ck.coq_eval_cases(lines("cases_streamhandler.txt"), hdr, "int * list (str * list str) * list (str * list str) * bool * bool * list stage", "streamhandler_mismatches", tag="streamhandler")
    if ck.coq_ok and tier == "thorough":
        hdrv = "From GRPC Require Import Model Values RunValues.\nOpen Scope Z_scope."
        vl = lines("cases_values.txt")
        if vl:
            mm["values"] = ck.coq_eval_cases(vl, hdrv, "Z * vty * sval * sval * sval", "value_mismatches", tag="values")

    if not ck.coq_ok:
        if not ck.violations:
            ck.unproved("the GRPC development no longer checks: " + ck.coq_error,
                        {"broken": "coq/GRPC build or case evaluation", "detail": ck.coq_error})
    else:
        total = sum(len(v or []) for v in mm.values())
        if total and not ck.violations:
            detail = {}
            first = None
            for stream, bad in mm.items():
                if not bad:
                    continue
                if stream == "main":
                    dec = [(b // 8, b % 8) for b in bad]
                    detail["main"] = [{"case": i, "reason": CODES.get(c, str(c))} for i, c in dec[:20]]
                    idx = dec[0][0]
                else:
                    detail[stream] = bad[:50]
                    idx = bad[0]
                if first is None and idx < len(res["cases"]):
                    first = {"stream": stream, "case": res["cases"][idx]}
                    if stream == "main":
                        first["reason"] = CODES.get(dec[0][1], "")
            ck.unproved("correspondence GRPC model vs goa's .proto emission broke on %d case(s) (%s); the direct oracle found no failing input" % (
                total, ", ".join("%s: %d" % (s, len(b)) for s, b in mm.items() if b)),
                {"broken": "correspondence print_file / field_name / split_message / md_write / handle_trace / from_proto∘to_proto = observed",
                 "first_disagreeing_case": first, "mismatches": detail})
    for k, v in sorted(res["distribution"].items()):
        if k.startswith("witness-not-reproduced:") or k.startswith("witness-now-rejected:"):
            ck.notes.append(k)
    cov = {"evaluations": res["evaluations"], "distinct_nontrivial": res["distinct_nontrivial"], "rule": res["rule"],
           "samples": res["samples"], "distribution": res["distribution"],
           "model_cases": {s: len(lines("cases_%s.txt" % s)) for s in ("main", "names", "split", "reqmd", "order", "reject", "witness", "runtime", "history", "streamhandler", "values")},
           "model_mismatches": {s: (len(b) if b is not None else None) for s, b in mm.items()} if ck.coq_ok else None,
           "extra": res.get("extra", {}), "exhaustive": False,
           "partial": "protoc is absent: the protoc finaliser is dropped, the protobuf wire format is not exercised, tier B uses stand-in pb structs with protoc-gen-go's field naming"}
    return ck.finish(cov, assumptions=[
        "PARTIAL: protoc / protoc-gen-go are absent offline; well-formedness of the .proto is judged by two recognisers of a proto3 fragment (a Gallina one with a printer/parser theorem, an independent Go one), not by protoc",
        "model GRPC/Model.v is hand-written from grpc/codegen/protobuf.go (protoBufMessageDef, protoType, rpcTag, protoBufify), codegen/funcs.go (CamelCase, SnakeCase), the proto templates and expr/grpc_endpoint.go validateRPCTags; tied by evaluating print_file / field_name / split_message inside Coq on every case the real code ran",
        "the attribute tree given to the model is read back from goa's own service data after analysis (message names, wrapping of nested collections, collection order are goa's: modelled by extraction, not verified); the designed streaming kind and the direct oracle use the design description only",
        "attribute names are ASCII; recursive user types, aliases of aliases, bytes map keys (generator crashes recorded in notes/C10.md) are outside the generated envelope",
        "runtime stream: goagrpc.NewInvoker wired to goagrpc.NewUnaryHandler through an in-memory transport (outgoing metadata of the invoker's context = incoming metadata of the handler's context; headers / trailers handed back through the grpc.Header / grpc.Trailer call options), hand-written encoders / decoders of the generated shape",
        "tier B (thorough): stand-in pb structs replace protoc-gen-go output; grpc metadata.MD is real"],
        trusted_base=["harness/cmd/c10 (design interpreter over the public DSL, Go tokenizer feeding the Coq comparison, extraction of goa's attribute trees, independent proto3 recogniser and oracle)",
                      "lib/vcheck.py case sharding and result parsing"])
