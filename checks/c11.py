"""C11 — DSL evaluation runs in global phases and dependency order (engine Eval)."""
import json
import os
import shutil

import vcheck
from vcheck import Check, sh, VERIF


def run(tier, replay=None):
    ck = Check("C11", "Eval", tier)
    ck.coq_build()
    if ck.coq_ok:
        ck.coq_assumptions()
    binp = ck.go_build("c11")
    # generator.Generate asks the go tool for the import path of <dir>/gen: the directory has
    # to live inside a Go module; it is created and removed by the harness
    gendir = os.path.join(VERIF, "harness", "cmd", "c11", ".gen-%d" % os.getpid())
    cmd = [binp, "-seed", str(ck.seed), "-tier", tier, "-out", ck.work, "-gendir", gendir]
    if replay:
        cmd += ["-replay", replay]
    rc, out = sh(cmd, timeout=1800, env=vcheck.goenv())
    shutil.rmtree(gendir, ignore_errors=True)
    if rc != 0:
        raise RuntimeError("harness c11 failed: " + out[-2000:])
    res = json.load(open(os.path.join(ck.work, "result.json")))
    for f in res["failures"]:
        ck.failure(f["signature"], f["what"], {"input": f["input"]})
    # the harness records at most 4 inputs per signature; the measured totals are in the distribution
    for sig in list(ck.known_hits):
        ck.known_hits[sig] = res["distribution"].get("failures:" + sig, ck.known_hits[sig])
    for sig in list(ck.sig_counts):
        ck.sig_counts[sig] = res["distribution"].get("failures:" + sig, ck.sig_counts[sig])

    def lines(name):
        p = os.path.join(ck.work, name)
        return open(p).read().splitlines() if os.path.exists(p) else []

    rm = gm = pm = hm = None
    if ck.coq_ok:
        hdr = "From Eval Require Import Model Run.\nFrom Coq Require Import NArith."
        rm = ck.coq_eval_cases(lines("cases_roots.txt"), hdr, "roots_case", "roots_mismatches", tag="roots")
    if ck.coq_ok:
        gm = ck.coq_eval_cases(lines("cases_graph4.txt"), hdr, "graph4_case", "graph4_mismatches", tag="graph4")
    if ck.coq_ok:
        rl = lines("cases_run.txt")
        pm = ck.coq_eval_cases(rl, hdr, "run_case", "run_mismatches", tag="run",
                               shards=(16 if len(rl) < 5000 else 96))
    if ck.coq_ok:
        hm = ck.coq_eval_cases(lines("cases_generate.txt"), hdr, "gen_case", "gen_mismatches", tag="gen")
    if not ck.coq_ok:
        if not ck.violations:
            ck.unproved("the Eval development no longer checks: " + ck.coq_error,
                        {"broken": "coq/Eval build or case evaluation", "detail": ck.coq_error})
    elif (rm or gm or pm or hm) and not ck.violations:
        first = None
        if (pm or hm) and res.get("cases"):
            k = (pm or hm)[0]
            first = res["cases"][k] if k < len(res["cases"]) else {"program_case_index": k}
        elif rm:
            gs = res.get("extra", {}).get("graphs") or []
            first = gs[rm[0]] if rm[0] < len(gs) else {"roots_case_index": rm[0]}
        elif gm:
            first = {"n": 4, "graph_code_bit_(i*4+j)_means_i_depends_on_j": gm[0]}
        ck.unproved("correspondence Eval.roots / Eval.run_dsl vs eval/context.go, eval/eval.go broke on %d Roots() case(s), %d 4-root graph(s), %d program(s) and %d generator.Generate hand-over(s); the property's own laws held on every case explored"
                    % (len(rm or []), len(gm or []), len(pm or []), len(hm or [])),
                    {"broken": "roots n deps regs = observed Roots(); run_dsl p = (observed callback trace, error class); generate_roots p = Roots() after the run; handover p = roots given to the consumers of generator.Generate",
                     "input": first, "mismatching_roots_cases": (rm or [])[:50],
                     "mismatching_graph4_codes": (gm or [])[:50], "mismatching_program_cases": (pm or [])[:50],
                     "mismatching_generate_cases": (hm or [])[:50]})
    cov = {"evaluations": res["evaluations"], "distinct_nontrivial": res["distinct_nontrivial"], "rule": res["rule"],
           "samples": res["samples"], "distribution": res["distribution"],
           "model_mismatches": (len(rm or []) + len(gm or []) + len(pm or []) + len(hm or [])) if ck.coq_ok else None,
           "exhaustive": False,
           "exhaustive_part": "Roots(): all digraphs on <=3 roots (quick) / <=4 roots (thorough) x all registration orders"}
    return ck.finish(cov, assumptions=[
        "model Eval/Model.v is hand-written from eval/context.go (Roots, sortDependencies, sortDependenciesR) and eval/eval.go (RunDSL, runSet, prepareSet, validateSet, finalizeSet); tied by evaluating roots / run_dsl inside Coq on every case the real code ran",
        "roots and expressions are the harness's instrumented doubles; WalkSets hands out each set when the walker reaches it (as expr.RootExpr.WalkSets does); only DSL functions act (append to a set of the own root, Register, ReportError); Prepare/Validate/Finalize only record the call",
        "codegen/generator.Generate is run with an observer plugin and an observer generator registered for a command of their own; what they receive is compared with Eval.handover; the real generators are not run",
        "error locations and messages are projected away; a cycle error is compared as 'is a cycle error'",
        "envelope of the main stream: every dependency of a registered root is registered whenever Roots() runs; appends target sets the walker has not reached (the two recorded findings are re-demonstrated by the witness stream)"],
        trusted_base=["harness/cmd/c11 (program generation, instrumented roots/expressions, observation, Coq term printing, direct oracle)",
                      "decidable equalities of Eval/Run.v (decide equality, Defined)"])
