"""C19 — request-id / trace / sampler / response-capture middlewares (engine Middleware)."""
import json
import os

import vcheck
from vcheck import Check, sh, VERIF

STREAMS = [
    # (name, case file, Coq type, mismatch function, what it compares)
    ("rid", "cases_rid.txt", "rid_case", "rid_mismatches",
     "Middleware.rid_step / select_id vs RequestID, UnaryRequestID, StreamRequestID"),
    ("trace", "cases_trace.txt", "trace_case", "trace_mismatches",
     "Middleware.trace_run vs http Trace, grpc UnaryServerTrace / StreamServerTrace"),
    ("chain", "cases_chain.txt", "chain_case", "chain_mismatches",
     "Middleware.chain vs server -> WrapDoer / UnaryClientTrace / StreamClientTrace -> server"),
    ("stack", "cases_stack.txt", "stack_case", "stack_mismatches",
     "Middleware.run_stack vs middleware chains (request-id, trace, Log, Debug, PopulateRequestContext, StreamCanceler, ...) in every order"),
    ("capture", "cases_capture.txt", "capture_case", "capture_mismatches",
     "Middleware.capture / sent vs ResponseCapture over httptest.ResponseRecorder and a net/http server"),
    ("opts", "cases_opts.txt", "N * list trace_opt * bool", "opts_mismatches",
     "Middleware.trace_options_checked vs the option constructors (panic on values outside the documented domain)"),
    ("sampler", "cases_sampler.txt", "N * Z * Z * bool", "sampler_mismatches",
     "Middleware.fixed_sample vs fixedSampler.Sample (every percentage x every draw)"),
]


def run(tier, replay=None):
    ck = Check("C19", "Middleware", tier)
    ck.coq_build()
    if ck.coq_ok:
        ck.coq_assumptions()
    binp = ck.go_build("c19")
    cmd = [binp, "-seed", str(ck.seed), "-tier", tier, "-out", ck.work]
    if replay:
        cmd += ["-replay", replay]
    rc, out = sh(cmd, timeout=2400)
    if rc != 0:
        raise RuntimeError("harness c19 failed (rc %d): %s" % (rc, out[-2000:]))
    res = json.load(open(os.path.join(ck.work, "result.json")))
    for f in res["failures"]:
        ck.failure(f["signature"], f["what"], {"input": f["input"]})

    # many goroutines through ONE middleware instance per transport, under the race detector
    race_requests = 0
    if not replay:
        try:
            rbin = ck.go_build("c19", race=True)
            env = dict(vcheck.goenv(), GORACE="halt_on_error=1 exitcode=66")
            rc2, out2 = sh([rbin, "-only", "concurrent", "-out", ck.work], timeout=900, env=env)
            if rc2 == 66 or "DATA RACE" in out2:
                ck.failure("concurrent-requests-data-race",
                           "data race between concurrent requests inside the request-id / trace middlewares (identifiers of one request can reach another): " + out2[:600],
                           {"input": {"stream": "concurrent"}, "race_report": out2[:4000]})
            elif rc2 != 0:
                raise RuntimeError("race-enabled harness c19 failed (rc %d): %s" % (rc2, out2[-2000:]))
            else:
                r2 = json.load(open(os.path.join(ck.work, "result_concurrent.json")))
                race_requests = r2["evaluations"]
                for f in r2["failures"]:
                    ck.failure(f["signature"], f["what"], {"input": f["input"]})
        except vcheck.BuildError as ex:
            ck.notes.append("race-enabled build of the harness not available, concurrent stream ran without the race detector only: %s" % str(ex)[:300])

    mism = {}
    if ck.coq_ok:
        hdr = "From Middleware Require Import Model Run.\nOpen Scope N_scope."
        # the streams are independent: in the quick tier evaluate them side by side (each is
        # sharded over the cores); in the thorough tier one after the other with small
        # shards (a 1 MB case file costs coqc about 1 GB)
        from concurrent.futures import ThreadPoolExecutor

        def one(st):
            name, fname, typ, fn, _ = st
            lines = [l for l in open(os.path.join(ck.work, fname)).read().splitlines() if l.strip()]
            if not lines:
                return name, []
            size = sum(len(l) for l in lines)
            shards = max(16 if name in ("rid", "trace") else 6, size // 150000 + 1)
            shards = min(shards, len(lines))
            for attempt in (1, 2):
                m = ck.coq_eval_cases(lines, hdr, typ, fn, shards=shards, tag=name)
                if m is not None:
                    return name, m
                killed = ck.coq_error.startswith(name + "_") and ck.coq_error.rstrip().endswith("did not evaluate:")
                if attempt == 1 and killed:
                    # coqc died without a message (killed under memory pressure): once more, smaller shards
                    ck.notes.append("stream %s: a coqc process was killed without output; evaluated again" % name)
                    ck.coq_ok, ck.coq_error = True, ""
                    shards = min(len(lines), shards * 2)
                    continue
                return name, None
        if tier == "quick":
            with ThreadPoolExecutor(max_workers=len(STREAMS)) as ex:
                results = list(ex.map(one, STREAMS))
        else:
            results = [one(st) for st in STREAMS]
        for name, m in results:
            if m is not None:
                mism[name] = m
    total_mism = sum(len(v) for v in mism.values())
    if not ck.coq_ok:
        if not ck.violations:
            ck.unproved("the Middleware development no longer checks: " + ck.coq_error,
                        {"broken": "coq/Middleware build or case evaluation", "detail": ck.coq_error})
    elif total_mism and not ck.violations:
        cases = json.load(open(os.path.join(ck.work, "cases.json")))
        first, rel = None, None
        for name, _, _, _, what in STREAMS:
            if mism.get(name):
                rel = what
                i = mism[name][0]
                first = cases.get(name, [None] * (i + 1))[i] if name in cases and i < len(cases[name]) else {"stream": name, "row": i}
                break
        ck.unproved("correspondence model vs implementation broke on %s; the property's own sentences held on every case explored" %
                    ", ".join("%d %s case(s)" % (len(v), k) for k, v in mism.items() if v),
                    {"broken": "correspondence " + rel, "input": first,
                     "mismatching_case_indexes": {k: v[:50] for k, v in mism.items() if v}})
    cov = {"evaluations": res["evaluations"] + race_requests, "requests_under_race_detector": race_requests, "distinct_nontrivial": res["distinct_nontrivial"], "rule": res["rule"],
           "samples": res["samples"], "distribution": res["distribution"], "streams": res.get("extra", {}).get("streams"),
           "model_mismatches": total_mism if ck.coq_ok else None,
           "exhaustive": False}
    return ck.finish(cov, assumptions=[
        "model Middleware/Model.v is hand-written from middleware/{requestid,trace,sampler}.go, http/middleware/{requestid,trace,capture}.go, grpc/middleware/{requestid,trace,helpers}.go; tied by evaluating rid_step, trace_run, chain, capture/sent and fixed_sample inside Coq on every case the real code ran",
        "identifier generators (shortID, TraceIDFunc, SpanIDFunc), the value intn returns, the clock-dependent adaptive rate and regular-expression matches are data of the model; theorems assume at most that a generated identifier is non-empty; a generated request id is recognised by being non-empty and different on two runs of the same request",
        "the writer underneath a ResponseCapture is modelled with net/http semantics (first WriteHeader / Write / Flush commits the status) and compared with httptest.ResponseRecorder and a real net/http server; 1xx informational codes, Hijack and Push are not modelled",
        "gRPC interceptors are invoked directly (as goa's own tests do) with metadata carried between hops by the harness; the gRPC transport itself and the HTTP wire are not exercised in chains",
        "adaptive sampler: only the behaviour before the first clock-dependent adjustment is compared with the code; afterwards the model takes the computed rate as an arbitrary input (rate stays in [1,10000])"],
        trusted_base=["harness/cmd/c19 (case generation, observation, Coq term printing, math/rand mirror used to know the sampler's draw)",
                      "boolean equalities of Run.v (eqb_list, eqb_ctx, eqb_res)"])
