(* Proofs about the model of Go's mime.ParseMediaType (media type part): the hypotheses the
   round-trip theorems put on the parser hold of it, for every parameter-validity oracle. *)
From Encoding Require Import Model Lemmas.
From Coq Require Import Lia.

(* ------------------------------------------------------------------ characters *)

Lemma is_ws_le c : is_ws c = true -> c <= 32.
Proof.
  unfold is_ws. intro H. repeat (apply orb_true_iff in H as [H|H]); apply N.eqb_eq in H; subst; lia.
Qed.

Lemma token_not_ws c : is_token_char c = true -> is_ws c = false.
Proof.
  unfold is_token_char. intro H. apply andb_true_iff in H as [H _]. apply andb_true_iff in H as [H _].
  apply N.ltb_lt in H. destruct (is_ws c) eqn:W; [|reflexivity]. apply is_ws_le in W. lia.
Qed.

Lemma token_not_tspecial c : is_token_char c = true -> is_tspecial c = false.
Proof. unfold is_token_char. intro H. apply andb_true_iff in H as [_ H]. now apply negb_true_iff in H. Qed.

Lemma token_not_semi c : is_token_char c = true -> N.eqb 59 c = false.
Proof.
  intro H. apply token_not_tspecial in H. destruct (N.eqb 59 c) eqn:E; [|reflexivity].
  apply N.eqb_eq in E. subst c. discriminate.
Qed.

Lemma lower_idem c : lower (lower c) = lower c.
Proof.
  unfold lower. destruct (N.leb 65 c && N.leb c 90) eqn:E; [|now rewrite E].
  apply andb_true_iff in E as [A B]. apply N.leb_le in A, B.
  destruct (N.leb 65 (c + 32) && N.leb (c + 32) 90) eqn:F; [|reflexivity].
  apply andb_true_iff in F as [_ F]. apply N.leb_le in F. lia.
Qed.

Lemma lower_ws c : is_ws (lower c) = is_ws c.
Proof.
  unfold lower. destruct (N.leb 65 c && N.leb c 90) eqn:E; [|reflexivity].
  apply andb_true_iff in E as [A B]. apply N.leb_le in A, B.
  destruct (is_ws (c + 32)) eqn:W1; destruct (is_ws c) eqn:W2; try reflexivity.
  - apply is_ws_le in W1. lia.
  - apply is_ws_le in W2. lia.
Qed.

Lemma map_lower_idem s : map lower (map lower s) = map lower s.
Proof. rewrite map_map. apply map_ext. intro. apply lower_idem. Qed.

(* ------------------------------------------------------------------ trimming *)

Lemma trim_left_ws_id s : forallb (fun c => negb (is_ws c)) s = true -> trim_left_ws s = s.
Proof. destruct s as [|c r]; [reflexivity|]. cbn [forallb trim_left_ws]. intro H. apply andb_true_iff in H as [H _]. apply negb_true_iff in H. now rewrite H. Qed.

Lemma trim_right_ws_id s : forallb (fun c => negb (is_ws c)) s = true -> trim_right_ws s = s.
Proof.
  induction s as [|c r IH]; [reflexivity|]. cbn [forallb trim_right_ws]. intro H.
  apply andb_true_iff in H as [Hc Hr]. apply negb_true_iff in Hc. rewrite (IH Hr). destruct r; [now rewrite Hc|reflexivity].
Qed.

Lemma trim_left_lower s : map lower (trim_left_ws s) = trim_left_ws (map lower s).
Proof.
  induction s as [|c r IH]; [reflexivity|]. cbn [trim_left_ws map]. rewrite lower_ws.
  destruct (is_ws c); [exact IH|reflexivity].
Qed.

Lemma trim_right_lower s : map lower (trim_right_ws s) = trim_right_ws (map lower s).
Proof.
  induction s as [|c r IH]; [reflexivity|]. cbn [trim_right_ws map]. rewrite <- IH, lower_ws.
  destruct (trim_right_ws r); cbn [map]; [destruct (is_ws c); reflexivity|reflexivity].
Qed.

Lemma trim_space_lower s : map lower (trim_space s) = trim_space (map lower s).
Proof. unfold trim_space. now rewrite trim_left_lower, trim_right_lower. Qed.

Lemma trim_right_ws_blank ws : forallb is_ws ws = true -> trim_right_ws ws = [].
Proof.
  induction ws as [|c r IH]; [reflexivity|]. cbn [forallb trim_right_ws]. intro H.
  apply andb_true_iff in H as [Hc Hr]. now rewrite (IH Hr), Hc.
Qed.

Lemma trim_right_ws_app_blank x ws : forallb is_ws ws = true -> trim_right_ws (x ++ ws) = trim_right_ws x.
Proof.
  intro H. induction x as [|c r IH]; [now apply trim_right_ws_blank|].
  cbn [app trim_right_ws]. now rewrite IH.
Qed.

Lemma trim_right_ws_last a c : is_ws c = false -> trim_right_ws (a ++ [c]) = a ++ [c].
Proof.
  intro H. induction a as [|x r IH]; cbn [app trim_right_ws]; [now rewrite H|].
  rewrite IH. destruct r; reflexivity.
Qed.

(* trimming on the left keeps a tail that starts with a non-blank *)
Lemma trim_left_ws_tail x c r : is_ws c = false -> exists x', trim_left_ws (x ++ c :: r) = x' ++ c :: r.
Proof.
  intro H. induction x as [|a x IH]; cbn [app trim_left_ws].
  - rewrite H. now exists [].
  - destruct (is_ws a); [exact IH|]. now exists (a :: x).
Qed.

(* ------------------------------------------------------------------ tokens *)

Lemma consume_token_spec s t rest :
  consume_token s = (t, rest) -> s = t ++ rest /\ forallb is_token_char t = true.
Proof.
  revert t rest. induction s as [|c r IH]; intros t rest H; cbn [consume_token] in H.
  - injection H as <- <-. split; reflexivity.
  - destruct (is_token_char c) eqn:T.
    + destruct (consume_token r) as [t0 rest0] eqn:E. injection H as <- <-.
      destruct (IH t0 rest0 eq_refl) as [-> F]. split; [reflexivity|]. cbn [forallb]. now rewrite T, F.
    + injection H as <- <-. split; reflexivity.
Qed.

Definition type_char (c : N) : bool := is_token_char c || N.eqb c 47.

Lemma media_type_ok_chars s : media_type_ok s = true -> forallb type_char s = true.
Proof.
  unfold media_type_ok. destruct (consume_token s) as [typ rest] eqn:E1.
  apply consume_token_spec in E1 as [-> F1].
  assert (G1 : forallb type_char typ = true).
  { clear -F1. induction typ as [|c r IH]; [reflexivity|]. cbn [forallb] in *. apply andb_true_iff in F1 as [A B].
    unfold type_char at 1. now rewrite A, (IH B). }
  destruct (beq typ []); [discriminate|].
  destruct rest as [|c rest']; [intros _; now rewrite app_nil_r|].
  destruct (N.eqb c 47) eqn:C; [|discriminate].
  destruct (consume_token rest') as [sub rest''] eqn:E2. apply consume_token_spec in E2 as [-> F2].
  intro H. apply andb_true_iff in H as [_ H]. apply beq_eq in H. subst rest''. rewrite app_nil_r.
  rewrite forallb_app, G1. cbn [forallb]. unfold type_char at 1. rewrite C, orb_true_r. cbn [andb].
  clear -F2. induction sub as [|x r IH]; [reflexivity|]. cbn [forallb] in *. apply andb_true_iff in F2 as [A B].
  unfold type_char at 1. now rewrite A, (IH B).
Qed.

Lemma type_char_facts c : type_char c = true -> is_ws c = false /\ N.eqb 59 c = false.
Proof.
  unfold type_char. intro H. apply orb_true_iff in H as [H|H].
  - split; [now apply token_not_ws|now apply token_not_semi].
  - apply N.eqb_eq in H. subst c. split; reflexivity.
Qed.

Lemma type_chars_no_ws s : forallb type_char s = true -> forallb (fun c => negb (is_ws c)) s = true.
Proof.
  induction s as [|c r IH]; [reflexivity|]. cbn [forallb]. intro H. apply andb_true_iff in H as [A B].
  destruct (type_char_facts c A) as [W _]. now rewrite W, (IH B).
Qed.

Lemma type_chars_no_semi s : forallb type_char s = true -> contains_semicolon s = false.
Proof.
  unfold contains_semicolon, contains_byte. induction s as [|c r IH]; [reflexivity|]. cbn [forallb existsb]. intro H.
  apply andb_true_iff in H as [A B]. destruct (type_char_facts c A) as [_ S]. now rewrite S, (IH B).
Qed.

(* ------------------------------------------------------------------ the four hypotheses *)

Lemma go_media_type_fix base m : go_media_type base = Some m -> go_media_type m = Some m.
Proof.
  unfold go_media_type. destruct (media_type_ok (trim_space (map lower base))) eqn:OK; [|discriminate].
  intro H. injection H as <-. set (m := trim_space (map lower base)) in *.
  assert (L : map lower m = m) by (unfold m; now rewrite trim_space_lower, map_lower_idem).
  pose proof (type_chars_no_ws m (media_type_ok_chars m OK)) as NW.
  assert (T : trim_space m = m) by (unfold trim_space; now rewrite (trim_right_ws_id m NW), (trim_left_ws_id m NW)).
  now rewrite L, T, OK.
Qed.

Lemma std_pmt_stable params_ok : parser_stable (std_pmt params_ok).
Proof.
  intros s m H. unfold std_pmt in H.
  destruct (go_media_type (before_semi s)) as [m0|] eqn:G; [|discriminate].
  destruct (beq (from_semi s) [] || params_ok (from_semi s)); [|discriminate]. injection H as <-.
  pose proof (go_media_type_fix _ _ G) as F.
  assert (NS : contains_semicolon m0 = false).
  { unfold go_media_type in G. destruct (media_type_ok (trim_space (map lower (before_semi s)))) eqn:OK; [|discriminate].
    injection G as <-. apply type_chars_no_semi, media_type_ok_chars, OK. }
  unfold norm, std_pmt. rewrite (before_semi_id m0 NS), F, (from_semi_none m0 NS). reflexivity.
Qed.

Lemma std_pmt_fixes_supported params_ok : parser_fixes_supported (std_pmt params_ok).
Proof.
  intros c Hin. apply in_supported_iff in Hin.
  destruct Hin as [->|[->|[->|[->| ->]]]]; reflexivity.
Qed.

Lemma sp_tab_is_ws ws : forallb is_sp_tab ws = true -> forallb is_ws (map lower ws) = true /\ contains_semicolon ws = false.
Proof.
  unfold contains_semicolon, contains_byte. induction ws as [|x r IH]; [split; reflexivity|].
  cbn [forallb map existsb]. intro H. apply andb_true_iff in H as [Hx Hr]. destruct (IH Hr) as [A B].
  rewrite A, B, lower_ws. unfold is_sp_tab in Hx.
  apply orb_true_iff in Hx as [Hx|Hx]; apply N.eqb_eq in Hx; subst x; split; reflexivity.
Qed.

Lemma go_media_type_suffix b sfx ws a0 c0 c1 r1 m :
  sfx = a0 ++ [c0] -> sfx = c1 :: r1 -> is_ws c0 = false -> is_ws c1 = false -> map lower sfx = sfx ->
  forallb is_sp_tab ws = true ->
  go_media_type (b ++ sfx ++ ws) = Some m -> has_suffix sfx m = true.
Proof.
  intros E0 E1 W0 W1 L Hws H. unfold go_media_type in H.
  destruct (media_type_ok (trim_space (map lower (b ++ sfx ++ ws)))); [|discriminate]. injection H as <-.
  destruct (sp_tab_is_ws ws Hws) as [Bl _].
  rewrite !map_app, L. unfold trim_space.
  assert (R : trim_right_ws (map lower b ++ sfx ++ map lower ws) = map lower b ++ sfx).
  { rewrite app_assoc, (trim_right_ws_app_blank _ _ Bl). rewrite E0, !app_assoc. now apply trim_right_ws_last. }
  rewrite R, E1. destruct (trim_left_ws_tail (map lower b) c1 r1 W1) as [x' ->].
  apply has_suffix_app.
Qed.

Lemma std_pmt_keeps_suffix params_ok : parser_keeps_suffix (std_pmt params_ok).
Proof.
  intros b ws p m Hb Hws Hp.
  destruct (sp_tab_is_ws ws Hws) as [_ Nw].
  assert (BS : forall sfx, contains_semicolon sfx = false -> before_semi (b ++ sfx ++ ws ++ p) = b ++ sfx ++ ws).
  { intros sfx Hs. replace (b ++ sfx ++ ws ++ p) with (b ++ (sfx ++ ws) ++ p) by now rewrite <- !app_assoc.
    rewrite before_semi_suffixed; [reflexivity|exact Hb| |exact Hp].
    unfold contains_semicolon in *. now rewrite contains_byte_app, Hs, Nw. }
  split; intro H; unfold std_pmt in H.
  - rewrite (BS sfx_json eq_refl) in H.
    destruct (go_media_type (b ++ sfx_json ++ ws)) as [m0|] eqn:G; [|discriminate].
    destruct (beq _ [] || params_ok _); [|discriminate]. injection H as <-.
    exact (go_media_type_suffix b sfx_json ws [43;106;115;111] 110 43 [106;115;111;110] m0 eq_refl eq_refl eq_refl eq_refl eq_refl Hws G).
  - rewrite (BS sfx_xml eq_refl) in H.
    destruct (go_media_type (b ++ sfx_xml ++ ws)) as [m0|] eqn:G; [|discriminate].
    destruct (beq _ [] || params_ok _); [|discriminate]. injection H as <-.
    exact (go_media_type_suffix b sfx_xml ws [43;120;109] 108 43 [120;109;108] m0 eq_refl eq_refl eq_refl eq_refl eq_refl Hws G).
Qed.
