(* Proofs about the Encoding model. Statements of the property are in Properties.v. *)
From Encoding Require Import Model.
From Coq Require Import Lia PeanoNat.

(* ------------------------------------------------------------------ strings *)

Lemma beq_refl a : beq a a = true.
Proof. induction a as [|x a IH]; simpl; [reflexivity|]. now rewrite N.eqb_refl, IH. Qed.

Lemma beq_eq a b : beq a b = true <-> a = b.
Proof.
  split; [|intros ->; apply beq_refl].
  revert b; induction a as [|x a IH]; intros [|y b] H; simpl in H; try discriminate; [reflexivity|].
  apply andb_true_iff in H as [Hx Hr]. apply N.eqb_eq in Hx. f_equal; [assumption|now apply IH].
Qed.

Lemma beq_neq a b : beq a b = false <-> a <> b.
Proof.
  split.
  - intros H E. apply beq_eq in E. congruence.
  - intros H. destruct (beq a b) eqn:E; [|reflexivity]. apply beq_eq in E. contradiction.
Qed.

Lemma skipn_app_exact {A} (p s : list A) : skipn (List.length p) (p ++ s) = s.
Proof. induction p as [|x p IH]; simpl; [reflexivity|assumption]. Qed.

(* strings.HasSuffix means what it says *)
Lemma has_suffix_spec suf s : has_suffix suf s = true <-> exists p, s = p ++ suf.
Proof.
  unfold has_suffix. split.
  - intro H. apply andb_true_iff in H as [_ H]. apply beq_eq in H.
    exists (firstn (List.length s - List.length suf) s). rewrite <- H at 2.
    symmetry. apply firstn_skipn.
  - intros [p ->]. rewrite app_length. apply andb_true_iff; split.
    + apply Nat.leb_le. lia.
    + replace (List.length p + List.length suf - List.length suf)%nat with (List.length p) by lia.
      rewrite skipn_app_exact. apply beq_refl.
Qed.

Lemma has_suffix_app suf h : has_suffix suf (h ++ suf) = true.
Proof. apply has_suffix_spec. now exists h. Qed.

Lemma app_last_neq (p q a b : bytes) x y : x <> y -> p ++ a ++ [x] <> q ++ b ++ [y].
Proof.
  intros N E. rewrite !app_assoc in E. apply app_inj_tail in E as [_ E]. contradiction.
Qed.

(* two suffixes / literals that end in different bytes exclude one another *)
Lemma suffix_excl (a b : bytes) x y s :
  x <> y -> has_suffix (a ++ [x]) s = true -> has_suffix (b ++ [y]) s = false.
Proof.
  intros N H. destruct (has_suffix (b ++ [y]) s) eqn:E; [|reflexivity].
  apply has_suffix_spec in H as [p Hp]. apply has_suffix_spec in E as [q Hq].
  exfalso. apply (app_last_neq p q a b x y N). congruence.
Qed.

Lemma suffix_excl_lit (a b : bytes) x y s :
  x <> y -> has_suffix (a ++ [x]) s = true -> beq s (b ++ [y]) = false.
Proof.
  intros N H. apply beq_neq. intros ->. apply has_suffix_spec in H as [p Hp].
  apply (app_last_neq [] p b a y x); [congruence|]. simpl. exact Hp.
Qed.

Lemma nonempty_app_r (h s : bytes) : s <> [] -> beq (h ++ s) [] = false.
Proof. intro H. apply beq_neq. intro E. apply app_eq_nil in E as [_ E]. contradiction. Qed.

Lemma contains_byte_app c a b : contains_byte c (a ++ b) = contains_byte c a || contains_byte c b.
Proof. apply existsb_app. Qed.

Lemma nonempty_app_mid (a s p : bytes) : s <> [] -> beq (a ++ s ++ p) [] = false.
Proof.
  intro H. apply beq_neq. intro E. apply app_eq_nil in E as [_ E]. apply app_eq_nil in E as [E _]. contradiction.
Qed.

Ltac sstep := cbn [before_semi from_semi existsb app trim_right orb].

Lemma before_semi_no_semi h : contains_semicolon (before_semi h) = false.
Proof.
  unfold contains_semicolon, contains_byte. induction h as [|c r IH]; sstep; [reflexivity|].
  destruct (N.eqb 59 c) eqn:E; sstep; [reflexivity|]. now rewrite E.
Qed.

Lemma before_semi_id h : contains_semicolon h = false -> before_semi h = h.
Proof.
  unfold contains_semicolon, contains_byte. induction h as [|c r IH]; sstep; [reflexivity|].
  destruct (N.eqb 59 c) eqn:E; sstep; [discriminate|]. intro H. now rewrite IH.
Qed.

Lemma before_semi_app h r : contains_semicolon h = false -> before_semi (h ++ 59 :: r) = h.
Proof.
  unfold contains_semicolon, contains_byte. induction h as [|c t IH]; sstep.
  - intros _. now rewrite N.eqb_refl.
  - destruct (N.eqb 59 c) eqn:E; sstep; [discriminate|]. intro H. now rewrite IH.
Qed.

Lemma from_semi_head h : contains_semicolon h = true -> exists r, from_semi h = 59 :: r.
Proof.
  unfold contains_semicolon, contains_byte. induction h as [|c t IH]; sstep; [discriminate|].
  destruct (N.eqb 59 c) eqn:E; sstep.
  - intros _. apply N.eqb_eq in E. subst c. now exists t.
  - exact IH.
Qed.

Lemma trim_right_no c s : contains_byte c s = false -> contains_byte c (trim_right s) = false.
Proof.
  unfold contains_byte. induction s as [|x r IH]; sstep; [reflexivity|].
  intro H. apply orb_false_iff in H as [Hx Hr]. specialize (IH Hr).
  destruct (trim_right r) as [|y t] eqn:T.
  - destruct (is_sp_tab x); sstep; [reflexivity|]. now rewrite Hx.
  - change (existsb (N.eqb c) (x :: y :: t)) with (N.eqb c x || existsb (N.eqb c) (y :: t)). now rewrite Hx, IH.
Qed.

Lemma split_semi h : h = before_semi h ++ from_semi h.
Proof.
  induction h as [|c r IH]; sstep; [reflexivity|].
  destruct (N.eqb 59 c); sstep; [reflexivity|]. now rewrite <- IH.
Qed.

Lemma from_semi_none h : contains_semicolon h = false -> from_semi h = [].
Proof.
  unfold contains_semicolon, contains_byte. induction h as [|c r IH]; sstep; [reflexivity|].
  destruct (N.eqb 59 c); sstep; [discriminate|exact IH].
Qed.

Lemma trim_right_blank ws : forallb is_sp_tab ws = true -> trim_right ws = [].
Proof.
  induction ws as [|c r IH]; [reflexivity|]. cbn [forallb trim_right]. intro H.
  apply andb_true_iff in H as [Hc Hr]. now rewrite (IH Hr), Hc.
Qed.

Lemma trim_right_app_blank x ws : forallb is_sp_tab ws = true -> trim_right (x ++ ws) = trim_right x.
Proof.
  intro H. induction x as [|c r IH]; [now apply trim_right_blank|].
  cbn [app trim_right]. now rewrite IH.
Qed.

Lemma trim_right_last a c : is_sp_tab c = false -> trim_right (a ++ [c]) = a ++ [c].
Proof.
  intro H. induction a as [|x r IH]; cbn [app trim_right]; [now rewrite H|].
  rewrite IH. destruct r; reflexivity.
Qed.

Lemma trim_right_split s : exists ws, s = trim_right s ++ ws /\ forallb is_sp_tab ws = true.
Proof.
  induction s as [|c r (ws & E & B)]; [exists []; split; reflexivity|].
  cbn [trim_right]. destruct (trim_right r) as [|y t] eqn:T.
  - destruct (is_sp_tab c) eqn:C.
    + exists (c :: ws). split; [simpl in E; now rewrite E at 1|]. cbn [forallb]. now rewrite C, B.
    + exists ws. split; [simpl in *; now rewrite E at 1|exact B].
  - exists ws. split; [|exact B]. cbn [app]. f_equal. exact E.
Qed.

Lemma trim_right_idem s : trim_right (trim_right s) = trim_right s.
Proof.
  destruct (trim_right_split s) as (ws & E & B). rewrite E at 2. symmetry. now apply trim_right_app_blank.
Qed.

Lemma upto_last_plus_no c s t : upto_last_plus s = Some t -> contains_byte c s = false -> contains_byte c t = false.
Proof.
  unfold contains_byte. revert t. induction s as [|x r IH]; intros t; cbn [upto_last_plus existsb]; [discriminate|].
  intros H N. apply orb_false_iff in N as [Nx Nr].
  destruct (upto_last_plus r) as [t'|].
  - injection H as <-. cbn [existsb]. rewrite Nx. now apply IH.
  - destruct (N.eqb 43 x); [injection H as <-; reflexivity|discriminate].
Qed.

Lemma strip_last_plus_no c s : contains_byte c s = false -> contains_byte c (strip_last_plus s) = false.
Proof.
  intro H. unfold strip_last_plus. destruct (upto_last_plus s) as [t|] eqn:E; [|exact H].
  exact (upto_last_plus_no c s t E H).
Qed.

Lemma media_part_no_semi h : contains_semicolon (media_part h) = false.
Proof.
  unfold media_part. destruct (contains_semicolon h) eqn:C; [|exact C].
  apply trim_right_no, before_semi_no_semi.
Qed.

(* ------------------------------------------------------------------ classification *)

(* the two separately written switches agree *)
Lemma enc_dec_classify m : enc_classify m = dec_classify m.
Proof. reflexivity. Qed.

Lemma dec_classify_sfx_json m : has_suffix sfx_json m = true -> dec_classify m = KJson.
Proof. intro H. unfold dec_classify. rewrite H, orb_true_r. reflexivity. Qed.

Lemma dec_classify_sfx_xml m : has_suffix sfx_xml m = true -> dec_classify m = KXml.
Proof.
  intro H. unfold dec_classify.
  assert (J : has_suffix sfx_json m = false)
    by (apply (suffix_excl [43;120;109] [43;106;115;111] 108 110); [discriminate|exact H]).
  assert (L : beq m app_json = false).
  { change app_json with ([97;112;112;108;105;99;97;116;105;111;110;47;106;115;111] ++ [110]).
    apply (suffix_excl_lit [43;120;109] _ 108 110); [discriminate|exact H]. }
  rewrite J, L, H, orb_true_r. reflexivity.
Qed.

Lemma dec_classify_supported c : In c supported -> dec_classify c = kind_of_supported c.
Proof.
  unfold supported. simpl. intros [<-|[<-|[<-|[<-|[<-|[]]]]]]; vm_compute; reflexivity.
Qed.

Lemma supported_nonempty c : In c supported -> c <> [].
Proof. unfold supported. simpl. intros [<-|[<-|[<-|[<-|[<-|[]]]]]]; discriminate. Qed.

Lemma negotiate_supported c : In c supported -> negotiate c = Some (kind_of_supported c, c).
Proof.
  unfold supported. simpl. intros [<-|[<-|[<-|[<-|[<-|[]]]]]]; vm_compute; reflexivity.
Qed.

Lemma negotiate_nil : negotiate [] = Some (KJson, app_json).
Proof. reflexivity. Qed.

Lemma in_supported_iff c :
  In c supported <-> c = app_json \/ c = app_xml \/ c = app_gob \/ c = text_html \/ c = text_plain.
Proof. unfold supported. simpl. intuition congruence. Qed.

Lemma negotiate_cases a k mt :
  negotiate a = Some (k, mt) ->
  (a = [] /\ k = KJson /\ mt = app_json) \/ (In a supported /\ mt = a /\ k = kind_of_supported a).
Proof.
  intro H. destruct (beq a []) eqn:E0.
  - apply beq_eq in E0. subst a. rewrite negotiate_nil in H. injection H as <- <-. left. auto.
  - right. unfold negotiate in H. rewrite E0 in H. simpl in H.
    destruct (beq a app_json) eqn:E1.
    { apply beq_eq in E1. subst a. injection H as <- <-. split; [apply in_supported_iff; auto|split; reflexivity]. }
    destruct (beq a app_xml) eqn:E2.
    { apply beq_eq in E2. subst a. injection H as <- <-. split; [apply in_supported_iff; auto|split; reflexivity]. }
    destruct (beq a app_gob) eqn:E3.
    { apply beq_eq in E3. subst a. injection H as <- <-. split; [apply in_supported_iff; auto|split; reflexivity]. }
    destruct (beq a text_html) eqn:E4.
    { apply beq_eq in E4. subst a. injection H as <- <-. split; [apply in_supported_iff; auto 6|split; reflexivity]. }
    destruct (beq a text_plain) eqn:E5; simpl in H; [|discriminate].
    apply beq_eq in E5. subst a. injection H as <- <-. split; [apply in_supported_iff; auto 6|split; reflexivity].
Qed.

Lemma negotiate_none a : a <> [] -> ~ In a supported -> negotiate a = None.
Proof.
  intros Hn Hs. destruct (negotiate a) as [[k mt]|] eqn:E; [|reflexivity].
  apply negotiate_cases in E as [[-> _]|[Hin _]]; contradiction.
Qed.

(* ------------------------------------------------------------------ SetContentType *)

Lemma set_content_type_fresh ct : set_content_type [] ct = ct.
Proof. reflexivity. Qed.

Lemma set_content_type_cases h ct :
  let r := set_content_type h ct in
  (h = [] /\ r = ct)
  \/ (h <> [] /\ ct <> app_json /\ ct <> app_xml /\ r = ct)
  \/ (h <> [] /\ exists sfx, ((ct = app_json /\ sfx = sfx_json) \/ (ct = app_xml /\ sfx = sfx_xml)) /\
        ((has_suffix sfx (media_part h) = true /\ r = h)
         \/ (has_suffix sfx (media_part h) = false /\ r = strip_last_plus (media_part h) ++ sfx ++ from_semi h))).
Proof.
  unfold set_content_type. simpl.
  destruct (beq h []) eqn:E0; [apply beq_eq in E0; auto|]. apply beq_neq in E0.
  destruct (beq ct app_json) eqn:E1; simpl.
  - apply beq_eq in E1. subst ct. right; right. split; [exact E0|]. exists sfx_json.
    change (beq app_json app_xml) with false. cbv iota. split; [auto|].
    destruct (has_suffix sfx_json (media_part h)); auto.
  - apply beq_neq in E1. destruct (beq ct app_xml) eqn:E2; simpl.
    + apply beq_eq in E2. subst ct. right; right. split; [exact E0|]. exists sfx_xml. split; [auto|].
      destruct (has_suffix sfx_xml (media_part h)); auto.
    + apply beq_neq in E2. right; left. auto.
Qed.

(* ------------------------------------------------------------------ response side *)

Section WithOracle.
  Variable pmt : bytes -> option bytes.
  Variable pmt_err_mt : bytes -> bytes.
  Hypothesis Hstable : parser_stable pmt.
  Hypothesis Hfix : parser_fixes_supported pmt.

  (* whatever ResponseEncoder chooses: the media type it hands to SetContentType is read
     back by the decoder switch as the chosen kind, and the parser leaves it alone *)
  Lemma chosen_inv accept ct preset k hdr :
    response_encoder pmt pmt_err_mt accept ct preset = (Some k, hdr) ->
    exists mt, hdr = set_content_type preset mt /\ dec_classify mt = k /\ norm pmt mt = mt.
  Proof.
    unfold response_encoder. destruct (negb (beq ct [])) eqn:Ect.
    - destruct (pmt ct) as [mt|] eqn:P; [|discriminate].
      intro H. injection H as <- <-. exists mt. repeat split. exact (Hstable ct mt P).
    - set (r := match negotiate accept with
                | Some r => Some r
                | None => match pmt accept with Some mt => negotiate mt | None => None end end).
      assert (R : r = None \/ exists k0 mt0, r = Some (k0, mt0) /\ In mt0 supported /\ k0 = kind_of_supported mt0).
      { subst r. destruct (negotiate accept) as [[k0 mt0]|] eqn:N1.
        - right. exists k0, mt0. split; [reflexivity|].
          apply negotiate_cases in N1 as [(_ & -> & ->)|(Hin & -> & ->)]; [split; [apply in_supported_iff; auto|reflexivity]|auto].
        - destruct (pmt accept) as [m|]; [|auto].
          destruct (negotiate m) as [[k0 mt0]|] eqn:N2; [|auto].
          right. exists k0, mt0. split; [reflexivity|].
          apply negotiate_cases in N2 as [(_ & -> & ->)|(Hin & -> & ->)]; [split; [apply in_supported_iff; auto|reflexivity]|auto]. }
      destruct R as [->|(k0 & mt0 & -> & Hin & ->)].
      + intro H. injection H as <- <-. exists app_json. repeat split.
        apply Hfix, in_supported_iff; auto.
      + intro H. injection H as <- <-. exists mt0. split; [reflexivity|]. split.
        * apply dec_classify_supported, Hin.
        * apply Hfix, Hin.
  Qed.

  Lemma decoder_of_chosen mt k : dec_classify mt = k -> norm pmt mt = mt -> response_decoder pmt mt = k.
  Proof.
    intros Hk Hn. unfold response_decoder. destruct (beq mt []) eqn:E.
    - apply beq_eq in E. subst mt. exact Hk.
    - now rewrite Hn.
  Qed.

  Lemma roundtrip_fresh accept ct k hdr :
    response_encoder pmt pmt_err_mt accept ct [] = (Some k, hdr) -> response_decoder pmt hdr = k.
  Proof.
    intro H. apply chosen_inv in H as (mt & -> & Hk & Hn). rewrite set_content_type_fresh.
    now apply decoder_of_chosen.
  Qed.

  Hypothesis Hsfx : parser_keeps_suffix pmt.

  Lemma dec_classify_of_suffix sfx k m :
    (sfx = sfx_json /\ k = KJson) \/ (sfx = sfx_xml /\ k = KXml) -> has_suffix sfx m = true -> dec_classify m = k.
  Proof.
    intros [[-> ->]|[-> ->]] H; [now apply dec_classify_sfx_json|now apply dec_classify_sfx_xml].
  Qed.

  (* b ++ sfx ++ ws ++ p (ws blanks, p empty or starting at the first ';') is read back as the
     kind of sfx when the suffix is at the very end or the parser accepts the value *)
  Lemma decoder_of_suffixed b sfx ws p k :
    (sfx = sfx_json /\ k = KJson) \/ (sfx = sfx_xml /\ k = KXml) ->
    contains_semicolon b = false -> forallb is_sp_tab ws = true -> (p = [] \/ exists r, p = 59 :: r) ->
    ((ws = [] /\ p = []) \/ pmt (b ++ sfx ++ ws ++ p) <> None) ->
    response_decoder pmt (b ++ sfx ++ ws ++ p) = k.
  Proof.
    intros S Hb Hws Hp Hok. unfold response_decoder.
    assert (Hne : beq (b ++ sfx ++ ws ++ p) [] = false)
      by (apply nonempty_app_mid; destruct S as [[-> _]|[-> _]]; discriminate).
    rewrite Hne. unfold norm.
    destruct (pmt (b ++ sfx ++ ws ++ p)) as [m|] eqn:P.
    - apply (dec_classify_of_suffix sfx k m S).
      destruct (Hsfx b ws p m Hb Hws Hp) as [HJ HX].
      destruct S as [[-> _]|[-> _]]; [apply HJ|apply HX]; exact P.
    - destruct Hok as [[-> ->]|Hn]; [|contradiction].
      apply (dec_classify_of_suffix sfx k _ S). rewrite !app_nil_r. apply has_suffix_app.
  Qed.

  Lemma decoder_of_set h ct k :
    h <> [] -> ((ct = app_json /\ k = KJson) \/ (ct = app_xml /\ k = KXml)) ->
    (contains_semicolon h = false \/ (field_safe h = true /\ pmt h <> None)) ->
    (contains_semicolon h = true -> parser_accepts_suffixed pmt) ->
    response_decoder pmt (set_content_type h ct) = k.
  Proof.
    intros Hne Hct Hok Hacc0.
    assert (Hacc' : contains_semicolon h = true -> pmt (set_content_type h ct) <> None).
    { intro C. pose proof (Hacc0 C) as Hacc. destruct Hok as [Hs|[Hsafe Hp]]; [congruence|].
      destruct (pmt h) as [m0|] eqn:P0; [|contradiction].
      destruct (Hacc h m0 Hsafe C P0) as [AJ AX]. destruct Hct as [[-> _]|[-> _]]; assumption. }
    destruct (set_content_type_cases h ct) as [(E & _)|[(_ & N1 & N2 & _)|(_ & sfx & Hs & Hr)]].
    - contradiction.
    - destruct Hct as [[-> _]|[-> _]]; contradiction.
    - assert (S : (sfx = sfx_json /\ k = KJson) \/ (sfx = sfx_xml /\ k = KXml)).
      { destruct Hs as [[E1 ->]|[E1 ->]]; destruct Hct as [[E2 ->]|[E2 ->]]; auto; subst ct; discriminate. }
      assert (Hp : from_semi h = [] \/ exists r, from_semi h = 59 :: r).
      { destruct (contains_semicolon h) eqn:C; [right; now apply from_semi_head|left; now apply from_semi_none]. }
      destruct Hr as [(Hsuf & Hr)|(Hsuf & Hr)].
      + (* untouched: the media part already ends with the suffix *)
        apply has_suffix_spec in Hsuf as [b Hb].
        assert (Nb : contains_semicolon b = false).
        { pose proof (media_part_no_semi h) as M. rewrite Hb in M. unfold contains_semicolon in *.
          rewrite contains_byte_app in M. now apply orb_false_iff in M as [M _]. }
        destruct (contains_semicolon h) eqn:C.
        * destruct (trim_right_split (before_semi h)) as (ws & E & B).
          assert (Eh : h = b ++ sfx ++ ws ++ from_semi h).
          { rewrite (split_semi h) at 1. rewrite E. unfold media_part in Hb. rewrite C in Hb. rewrite Hb.
            now rewrite <- !app_assoc. }
          rewrite Hr. rewrite Eh at 1. apply decoder_of_suffixed; auto.
          right. rewrite <- Eh. rewrite <- Hr. now apply Hacc'.
        * unfold media_part in Hb. rewrite C in Hb. rewrite Hr, Hb.
          replace (b ++ sfx) with (b ++ sfx ++ [] ++ []) by now rewrite !app_nil_r.
          apply decoder_of_suffixed; auto.
      + (* another suffix (or none): replaced / appended *)
        rewrite Hr.
        replace (strip_last_plus (media_part h) ++ sfx ++ from_semi h)
          with (strip_last_plus (media_part h) ++ sfx ++ [] ++ from_semi h) by reflexivity.
        apply decoder_of_suffixed; auto.
        * apply strip_last_plus_no, media_part_no_semi.
        * destruct (contains_semicolon h) eqn:C.
          -- right. cbn [app]. rewrite <- Hr. now apply Hacc'.
          -- left. split; [reflexivity|now apply from_semi_none].
  Qed.

  Lemma roundtrip_preset accept ct preset k hdr :
    response_encoder pmt pmt_err_mt accept ct preset = (Some k, hdr) ->
    preset_ok pmt k preset -> (contains_semicolon preset = true -> parser_accepts_suffixed pmt) ->
    response_decoder pmt hdr = k.
  Proof.
    intros H Hok Hacc0. apply chosen_inv in H as (mt & -> & Hk & Hn).
    destruct (set_content_type_cases preset mt) as [(_ & E)|[(_ & _ & _ & E)|(Hne & sfx & Hs & _)]].
    - simpl in E. rewrite E. now apply decoder_of_chosen.
    - simpl in E. rewrite E. now apply decoder_of_chosen.
    - assert (Hct : (mt = app_json /\ k = KJson) \/ (mt = app_xml /\ k = KXml)).
      { destruct Hs as [[-> _]|[-> _]]; vm_compute in Hk; auto. }
      apply decoder_of_set; [exact Hne|exact Hct| |exact Hacc0].
      unfold preset_ok in Hok. destruct Hct as [[_ ->]|[_ ->]]; destruct Hok as [E|[E|E]]; auto; contradiction.
  Qed.

  (* missing or unrecognised preference: JSON, announced as application/json *)
  Lemma unknown_is_json accept :
    ~ In accept supported -> (forall m, pmt accept = Some m -> ~ In m supported) ->
    response_encoder pmt pmt_err_mt accept [] [] = (Some KJson, app_json).
  Proof.
    intros Hns Hp. unfold response_encoder. simpl.
    destruct (negotiate accept) as [[k mt]|] eqn:N1.
    - apply negotiate_cases in N1 as [(_ & -> & ->)|(Hin & _)]; [reflexivity|contradiction].
    - destruct (pmt accept) as [m|] eqn:P; [|reflexivity].
      destruct (negotiate m) as [[k mt]|] eqn:N2; [|reflexivity].
      apply negotiate_cases in N2 as [(_ & -> & ->)|(Hin & _)]; [reflexivity|].
      exfalso. exact (Hp m eq_refl Hin).
  Qed.

  (* a supported preference, given exactly or after normalisation, is honoured *)
  Lemma supported_preference accept c :
    In c supported -> (accept = c \/ (accept <> [] /\ ~ In accept supported /\ pmt accept = Some c)) ->
    response_encoder pmt pmt_err_mt accept [] [] = (Some (kind_of_supported c), c).
  Proof.
    intros Hin [->|(Hne & Hns & P)]; unfold response_encoder; simpl.
    - now rewrite (negotiate_supported c Hin).
    - now rewrite (negotiate_none accept Hne Hns), P, (negotiate_supported c Hin).
  Qed.
End WithOracle.

Lemma designed_total pmt errmt accept ct preset mt :
  ct <> [] -> pmt ct = Some mt ->
  response_encoder pmt errmt accept ct preset = (Some (enc_classify mt), set_content_type preset mt).
Proof.
  intros Hne P. unfold response_encoder. apply beq_neq in Hne. now rewrite Hne, P.
Qed.

Lemma designed_unparsable pmt errmt accept ct preset :
  ct <> [] -> pmt ct = None -> fst (response_encoder pmt errmt accept ct preset) = None.
Proof.
  intros Hne P. unfold response_encoder. apply beq_neq in Hne. now rewrite Hne, P.
Qed.

(* what the ContentTypeKey switch means, stated without the switch *)
Lemma enc_classify_spec mt :
  ((mt = app_json \/ exists p, mt = p ++ sfx_json) -> enc_classify mt = KJson) /\
  ((mt = app_xml \/ exists p, mt = p ++ sfx_xml) -> enc_classify mt = KXml).
Proof.
  split.
  - intros [->|[p ->]]; [reflexivity|]. rewrite enc_dec_classify. apply dec_classify_sfx_json, has_suffix_app.
  - intros [->|[p ->]]; [reflexivity|]. rewrite enc_dec_classify. apply dec_classify_sfx_xml, has_suffix_app.
Qed.

(* ------------------------------------------------------------------ values *)

Lemma text_roundtrip v b : text_encode v = Some b -> text_decode (shape_of v) b = Some (deref v).
Proof. destruct v; simpl; intro H; try discriminate; now injection H as ->. Qed.

Lemma encode_decode cenc cdec k v b :
  codec_roundtrip cenc cdec -> encode cenc k v = Some b -> decode cdec k (shape_of v) b = Some (deref v).
Proof.
  intros RT H. destruct k; simpl in *; try (apply RT; [discriminate|exact H]).
  now apply text_roundtrip.
Qed.

Lemma text_refuses_structs cenc v : encode cenc KText v = None <-> is_struct v = true.
Proof. destruct v; simpl; split; intro H; congruence. Qed.

Lemma text_verbatim cenc v :
  is_struct v = false -> exists s, encode cenc KText v = Some s /\ (v = VString s \/ v = VStrPtr s \/ v = VBytes s).
Proof. destruct v; simpl; intro H; try discriminate; eexists; split; try reflexivity; auto. Qed.

(* ------------------------------------------------------------------ request side *)

Lemma request_decoder_cases pmt h :
  let ct := if beq h [] then app_json else norm pmt h in
  (In ct supported /\ request_decoder pmt h = RDec (kind_of_supported ct))
  \/ (~ In ct supported /\ request_decoder pmt h = RUnsupported ct).
Proof.
  unfold request_decoder. simpl.
  set (ct := if beq h [] then app_json else norm pmt h).
  destruct (beq ct app_json) eqn:E1.
  { apply beq_eq in E1. rewrite E1. left. split; [apply in_supported_iff; auto|reflexivity]. }
  destruct (beq ct app_gob) eqn:E2.
  { apply beq_eq in E2. rewrite E2. left. split; [apply in_supported_iff; auto|reflexivity]. }
  destruct (beq ct app_xml) eqn:E3.
  { apply beq_eq in E3. rewrite E3. left. split; [apply in_supported_iff; auto|reflexivity]. }
  destruct (beq ct text_html) eqn:E4.
  { apply beq_eq in E4. rewrite E4. left. split; [apply in_supported_iff; auto 6|reflexivity]. }
  destruct (beq ct text_plain) eqn:E5; simpl.
  { apply beq_eq in E5. rewrite E5. left. split; [apply in_supported_iff; auto 6|reflexivity]. }
  right. split; [|reflexivity].
  apply beq_neq in E1, E2, E3, E4, E5. intro Hin. apply in_supported_iff in Hin. intuition.
Qed.

Lemma request_unsupported_iff pmt h :
  (exists ct, request_decoder pmt h = RUnsupported ct) <-> (h <> [] /\ ~ In (norm pmt h) supported).
Proof.
  pose proof (request_decoder_cases pmt h) as C. simpl in C.
  destruct (beq h []) eqn:E.
  - apply beq_eq in E. split.
    + intros [ct Hc]. destruct C as [[_ C]|[C _]]; [congruence|]. exfalso. apply C, in_supported_iff; auto.
    + intros [Hn _]. contradiction.
  - apply beq_neq in E. split.
    + intros [ct Hc]. destruct C as [[_ C]|[C _]]; [congruence|auto].
    + intros [_ Hn]. destruct C as [[C _]|[_ C]]; [contradiction|eauto].
Qed.

Lemma request_unsupported_ct pmt h ct :
  request_decoder pmt h = RUnsupported ct -> ct = norm pmt h.
Proof.
  pose proof (request_decoder_cases pmt h) as C. simpl in C. intro H.
  destruct (beq h []) eqn:E.
  - destruct C as [[_ C]|[C _]]; [congruence|]. exfalso. apply C, in_supported_iff; auto.
  - destruct C as [[_ C]|[_ C]]; congruence.
Qed.

Lemma unsupported_status ct : http_status (unsupported_error ct) = 415.
Proof. reflexivity. Qed.

Lemma unsupported_never_decodes cdec ct sh body :
  request_decode cdec (RUnsupported ct) sh body = inr (unsupported_error ct).
Proof. reflexivity. Qed.

Lemma request_default_json pmt :
  parser_fixes_supported pmt -> request_decoder pmt (request_encoder_header []) = RDec KJson.
Proof.
  intro Hfix. change (request_encoder_header []) with app_json.
  unfold request_decoder. change (beq app_json []) with false. cbv iota.
  rewrite (Hfix app_json) by (apply in_supported_iff; auto). reflexivity.
Qed.

Lemma request_absent_json pmt : request_decoder pmt [] = RDec KJson.
Proof. reflexivity. Qed.

(* ------------------------------------------------------------------ witnesses *)

Lemma before_semi_suffixed b sfx p :
  contains_semicolon b = false -> contains_semicolon sfx = false -> (p = [] \/ exists r, p = 59 :: r) ->
  before_semi (b ++ sfx ++ p) = b ++ sfx.
Proof.
  intros Hb Hs Hp.
  assert (J : contains_semicolon (b ++ sfx) = false)
    by (unfold contains_semicolon in *; now rewrite contains_byte_app, Hb, Hs).
  rewrite app_assoc. destruct Hp as [->|[r ->]]; [rewrite app_nil_r; now apply before_semi_id|now apply before_semi_app].
Qed.

(* a parser that returns what stands in front of the first ';' without trailing blanks (as
   Go's does, up to case and leading blanks): satisfies the four hypotheses *)
Definition cut_parser (s : bytes) : option bytes := Some (trim_right (before_semi s)).

Lemma cut_suffixed b sfx ws p c0 a0 :
  sfx = a0 ++ [c0] -> is_sp_tab c0 = false ->
  contains_semicolon b = false -> contains_semicolon sfx = false -> forallb is_sp_tab ws = true ->
  (p = [] \/ exists r, p = 59 :: r) ->
  trim_right (before_semi (b ++ sfx ++ ws ++ p)) = b ++ sfx.
Proof.
  intros Es Hc Hb Hs Hws Hp.
  assert (Nw : contains_semicolon ws = false).
  { unfold contains_semicolon, contains_byte. clear -Hws. induction ws as [|x r IH]; [reflexivity|].
    cbn [forallb existsb] in *. apply andb_true_iff in Hws as [Hx Hr]. rewrite (IH Hr), orb_false_r.
    unfold is_sp_tab in Hx. apply orb_true_iff in Hx as [Hx|Hx]; apply N.eqb_eq in Hx; subst x; reflexivity. }
  replace (b ++ sfx ++ ws ++ p) with (b ++ (sfx ++ ws) ++ p) by now rewrite <- !app_assoc.
  rewrite before_semi_suffixed; auto.
  2:{ unfold contains_semicolon in *. now rewrite contains_byte_app, Hs, Nw. }
  rewrite app_assoc, trim_right_app_blank by exact Hws.
  rewrite Es, app_assoc. now apply trim_right_last.
Qed.

Lemma cut_parser_sane :
  parser_stable cut_parser /\ parser_fixes_supported cut_parser /\ parser_keeps_suffix cut_parser
  /\ parser_accepts_suffixed cut_parser.
Proof.
  split; [|split; [|split]].
  - intros s m H. unfold cut_parser in H. injection H as <-. unfold norm, cut_parser.
    rewrite before_semi_id by (apply trim_right_no, before_semi_no_semi). apply trim_right_idem.
  - intros c Hin. apply in_supported_iff in Hin.
    destruct Hin as [->|[->|[->|[->| ->]]]]; reflexivity.
  - intros b ws p m Hb Hws Hp. unfold cut_parser.
    split; intro H.
    + assert (E : m = trim_right (before_semi (b ++ sfx_json ++ ws ++ p))) by congruence.
      rewrite E, (cut_suffixed b sfx_json ws p 110 [43;106;115;111]); auto using has_suffix_app.
    + assert (E : m = trim_right (before_semi (b ++ sfx_xml ++ ws ++ p))) by congruence.
      rewrite E, (cut_suffixed b sfx_xml ws p 108 [43;120;109]); auto using has_suffix_app.
  - intros h m _ _ _. unfold cut_parser. split; discriminate.
Qed.

(* toy codecs: one tag byte per format, then the payload; they round trip, and a decoder
   of one format refuses the bytes of another *)
Definition tag (k : kind) : N := match k with KJson => 1 | KXml => 2 | KGob => 3 | KText => 4 end.
Definition toy_enc (k : kind) (v : value) : option bytes :=
  Some (tag k :: match v with VStruct i => [i] | VString s | VStrPtr s | VBytes s => s end).
Definition toy_dec (k : kind) (sh : shape) (b : bytes) : option value :=
  match b with
  | t :: rest =>
    if N.eqb t (tag k) then
      match sh with
      | SStruct => match rest with [i] => Some (VStruct i) | _ => None end
      | SString => Some (VString rest)
      | SBytes => Some (VBytes rest)
      end
    else None
  | [] => None
  end.

Lemma toy_roundtrip : codec_roundtrip toy_enc toy_dec.
Proof.
  intros k v b _ H. unfold toy_enc in H. injection H as <-.
  unfold toy_dec. rewrite N.eqb_refl. destruct v; reflexivity.
Qed.

(* what used to be the finding preset-suffix-mismatch (repaired): pre-set
   `application/vnd.x+xml`, no preference, JSON encoder: the suffix is replaced, the decoder
   reads JSON; a '+' inside a parameter no longer suppresses the suffix; an agreeing suffix is
   left untouched *)
Definition w_preset_xml : bytes := Eval vm_compute in bs "application/vnd.x+xml".

Lemma preset_suffix_example :
  response_encoder cut_parser (fun _ => []) [] [] w_preset_xml = (Some KJson, bs "application/vnd.x+json")
  /\ response_decoder cut_parser (bs "application/vnd.x+json") = KJson
  /\ set_content_type (bs "a/b; x=y+z") app_xml = bs "a/b+xml; x=y+z"
  /\ set_content_type (bs "application/ld+json ; profile=x") app_json = bs "application/ld+json ; profile=x"
  /\ set_content_type (bs "Application/Vnd.X+JSON") app_json = bs "Application/Vnd.X+json".
Proof. repeat split; vm_compute; reflexivity. Qed.

(* what used to be the second finding (repaired in /repo 04b25e0): a pre-set header with
   parameters now gets the suffix in front of them and the decoder reads it as XML *)
Definition w_preset_params : bytes := Eval vm_compute in bs "application/vnd.x; charset=utf-8".
Definition w_hdr : bytes := Eval vm_compute in bs "application/vnd.x+xml; charset=utf-8".

Lemma preset_params_example :
  response_encoder cut_parser (fun _ => []) app_xml [] w_preset_params = (Some KXml, w_hdr)
  /\ response_decoder cut_parser w_hdr = KXml
  /\ set_content_type (bs "text/plain ; charset=utf-8") app_json = bs "text/plain+json; charset=utf-8".
Proof. repeat split; vm_compute; reflexivity. Qed.

(* why the round-trip theorems carry hypotheses on the parser: an arbitrary function in the
   place of mime.ParseMediaType (here: one that rewrites application/json) breaks them *)
Definition rewriting_parser (s : bytes) : option bytes := if beq s app_json then Some app_xml else Some s.

Lemma rewriting_parser_witness :
  response_encoder rewriting_parser (fun _ => []) [] [] [] = (Some KJson, app_json)
  /\ response_decoder rewriting_parser app_json = KXml.
Proof. split; vm_compute; reflexivity. Qed.

(* the repaired case as a statement of its own: a pre-set header with parameters and no '+'
   that the parser accepts round trips *)
Lemma roundtrip_preset_params pmt errmt :
  parser_stable pmt -> parser_fixes_supported pmt -> parser_keeps_suffix pmt -> parser_accepts_suffixed pmt ->
  forall accept ct preset k hdr,
    field_safe preset = true -> pmt preset <> None ->
    response_encoder pmt errmt accept ct preset = (Some k, hdr) -> response_decoder pmt hdr = k.
Proof.
  intros Hs Hf Hk Ha accept ct preset k hdr Hsafe Hn H.
  apply (roundtrip_preset pmt errmt Hs Hf Hk accept ct preset k hdr H); [|intros _; exact Ha].
  destruct k; simpl; auto 6.
Qed.

(* ------------------------------------------------------------------ the writer *)

(* after the first WriteHeader neither a header set later nor a later WriteHeader/Write
   changes what the client reads *)
Lemma writer_frozen w st h st2 sniff :
  let w1 := w_write_header st w in
  wire sniff (w_write_header st2 (w_set_live h w1)) = wire sniff w1
  /\ wire sniff (w_write (w_set_live h w1)) = wire sniff w1.
Proof. unfold w_write, w_write_header, w_set_live, wire. destruct w as [l [[s0 h0]|]]; simpl; split; reflexivity. Qed.

(* encoder first, then the status: the client reads the status and the Content-Type that
   ResponseEncoder computed *)
Lemma send_wire pmt errmt cenc accept ct w st v k b w' :
  sent w = None ->
  send pmt errmt cenc accept ct w st v = (Some k, b, w') ->
  exists hdr, response_encoder pmt errmt accept ct (live w) = (Some k, hdr) /\ sent w' = Some (st, hdr).
Proof.
  intros Hs H. unfold send in H.
  destruct (response_encoder pmt errmt accept ct (live w)) as [k0 h] eqn:R.
  destruct k0 as [k0|]; [|discriminate].
  exists h. unfold w_write, w_write_header, w_set_live in H. simpl in H. rewrite Hs in H. simpl in H.
  destruct (encode cenc k0 v); injection H as <- _ <-; split; reflexivity.
Qed.

Lemma error_roundtrip pmt errmt cenc :
  parser_stable pmt -> parser_fixes_supported pmt ->
  forall accept ct g k b w',
    error_encoder pmt errmt cenc accept ct (w_new []) g = (Some k, b, w') ->
    exists hdr, sent w' = Some (http_status (error_response g), hdr) /\ response_decoder pmt hdr = k.
Proof.
  intros Hs Hf accept ct g k b w' H. unfold error_encoder in H.
  apply send_wire in H as (hdr & R & S); [|reflexivity].
  exists hdr. split; [exact S|]. exact (roundtrip_fresh pmt errmt Hs Hf accept ct k hdr R).
Qed.

(* status first: the Content-Type the client reads is whatever was on the writer before *)
Lemma status_first_wire pmt errmt cenc accept ct w st v k b w' sniff :
  sent w = None ->
  send_status_first pmt errmt cenc accept ct w st v = (k, b, w') ->
  wire sniff w' = Some (st, if beq (live w) [] then sniff else live w).
Proof.
  intros Hs H. unfold send_status_first in H.
  unfold w_write_header in H. rewrite Hs in H. cbn [live sent] in H.
  destruct (response_encoder pmt errmt accept ct (live w)) as [k0 h].
  destruct k0 as [k0|].
  - destruct (encode cenc k0 v); injection H as _ _ <-; reflexivity.
  - injection H as _ _ <-. reflexivity.
Qed.

Definition w_sniffed : bytes := Eval vm_compute in bs "text/plain; charset=utf-8".

Lemma status_first_witness :
  let g := EService (unsupported_error []) in
  exists k b w',
    send_status_first cut_parser (fun _ => []) toy_enc app_xml [] (w_new []) (http_status (error_response g)) (VStruct 0) = (Some k, Some b, w')
    /\ k = KXml
    /\ wire w_sniffed w' = Some (415, w_sniffed)
    /\ response_decoder cut_parser w_sniffed = KText
    /\ decode toy_dec KText SStruct b = None.
Proof. do 3 eexists. repeat split; vm_compute; reflexivity. Qed.

(* what send writes is what the chosen encoder produces, nothing else *)
Lemma send_body pmt errmt cenc accept ct w st v k b w' :
  send pmt errmt cenc accept ct w st v = (Some k, b, w') -> b = encode cenc k v.
Proof.
  unfold send. destruct (response_encoder pmt errmt accept ct (live w)) as [k0 h].
  destruct k0 as [k0|]; [|discriminate].
  destruct (encode cenc k0 v) eqn:E; intro H; injection H as <- <- _; congruence.
Qed.

Lemma response_encoder_no_designed_some pmt errmt accept preset :
  exists k h, response_encoder pmt errmt accept [] preset = (Some k, h).
Proof.
  unfold response_encoder. cbn [beq negb].
  destruct (match negotiate accept with
            | Some r => Some r
            | None => match pmt accept with Some mt => negotiate mt | None => None end
            end) as [[k mt]|]; eauto.
Qed.

Lemma not_found_total pmt errmt cenc accept :
  exists k b w', mux_not_found pmt errmt cenc accept = (Some k, b, w').
Proof.
  unfold mux_not_found, send.
  destruct (response_encoder_no_designed_some pmt errmt accept (live (w_new []))) as (k & h & ->).
  destruct (encode cenc k (VStruct 0)); eauto.
Qed.

Lemma not_found_roundtrip pmt errmt cenc :
  parser_stable pmt -> parser_fixes_supported pmt ->
  forall accept k b w',
    mux_not_found pmt errmt cenc accept = (Some k, b, w') ->
    exists hdr, sent w' = Some (404, hdr) /\ response_decoder pmt hdr = k
                /\ b = encode cenc k (VStruct 0) /\ (k = KText -> b = None).
Proof.
  intros Hs Hf accept k b w' H. unfold mux_not_found in H.
  pose proof (send_body _ _ _ _ _ _ _ _ _ _ _ H) as Hb.
  apply send_wire in H as (hdr & R & S); [|reflexivity].
  exists hdr. split; [exact S|]. split; [exact (roundtrip_fresh pmt errmt Hs Hf accept [] k hdr R)|].
  split; [exact Hb|]. intros ->. rewrite Hb. reflexivity.
Qed.

(* a pre-set header without parameters round trips whatever '+' suffix it carries *)
Lemma roundtrip_preset_no_params pmt errmt :
  parser_stable pmt -> parser_fixes_supported pmt -> parser_keeps_suffix pmt ->
  forall accept ct preset k hdr,
    contains_semicolon preset = false ->
    response_encoder pmt errmt accept ct preset = (Some k, hdr) -> response_decoder pmt hdr = k.
Proof.
  intros Hs Hf Hk accept ct preset k hdr Hc H.
  apply (roundtrip_preset pmt errmt Hs Hf Hk accept ct preset k hdr H); [|congruence].
  destruct k; simpl; auto.
Qed.
