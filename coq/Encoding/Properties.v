(* C15 — property statements only. Every theorem is closed by lemmas of Lemmas.v and
   followed by Print Assumptions.  [pmt] stands for Go's mime.ParseMediaType (media type
   when err == nil), [errmt] for the media type Go returns together with an error; the
   theorems quantify over every such pair of functions and over every byte string.
   Where a round trip through the parser is involved the theorem names the hypotheses
   on the parser (parser_stable, parser_fixes_supported, parser_keeps_suffix,
   parser_accepts_suffixed); the check
   tests each of them on every answer of the real parser it logs. *)
From Encoding Require Import Model Lemmas LemmasParser.

(* strings.HasSuffix as modelled is "s ends with suf" *)
Theorem has_suffix_means_suffix suf s : has_suffix suf s = true <-> exists p, s = p ++ suf.
Proof. exact (has_suffix_spec suf s). Qed.
Print Assumptions has_suffix_means_suffix.

(* the switch of ResponseEncoder's designed-content-type branch and the switch of
   ResponseDecoder classify every media type alike *)
Theorem encoder_decoder_switch_agree m : enc_classify m = dec_classify m.
Proof. exact (enc_dec_classify m). Qed.
Print Assumptions encoder_decoder_switch_agree.

(* No header pre-set: for every Accept value and every designed content type, if an
   encoder is returned, the library's response decoder reading the Content-Type header
   that ResponseEncoder set selects the same format. *)
Theorem resp_roundtrip_fresh pmt errmt :
  parser_stable pmt -> parser_fixes_supported pmt ->
  forall accept ct k hdr,
    response_encoder pmt errmt accept ct [] = (Some k, hdr) -> response_decoder pmt hdr = k.
Proof. intros Hs Hf accept ct k hdr. exact (roundtrip_fresh pmt errmt Hs Hf accept ct k hdr). Qed.
Print Assumptions resp_roundtrip_fresh.

(* the hypotheses on the parser cannot be dropped: with an arbitrary function in the place
   of mime.ParseMediaType the statement fails *)
Theorem resp_roundtrip_fresh_needs_parser_hypotheses :
  exists pmt errmt accept ct k hdr,
    response_encoder pmt errmt accept ct [] = (Some k, hdr) /\ response_decoder pmt hdr <> k.
Proof.
  exists rewriting_parser, (fun _ => []), [], [], KJson, app_json.
  destruct rewriting_parser_witness as [W1 W2]. split; [exact W1|rewrite W2; discriminate].
Qed.
Print Assumptions resp_roundtrip_fresh_needs_parser_hypotheses.

(* ... and the value comes back: for any codecs that decode what they encode, decoding the
   written body with the decoder selected from the written header recovers the value *)
Theorem resp_body_roundtrip_fresh pmt errmt cenc cdec :
  parser_stable pmt -> parser_fixes_supported pmt -> codec_roundtrip cenc cdec ->
  forall accept ct k hdr v body,
    response_encoder pmt errmt accept ct [] = (Some k, hdr) -> encode cenc k v = Some body ->
    decode cdec (response_decoder pmt hdr) (shape_of v) body = Some (deref v).
Proof.
  intros Hs Hf RT accept ct k hdr v body He Hb.
  rewrite (roundtrip_fresh pmt errmt Hs Hf accept ct k hdr He). exact (encode_decode cenc cdec k v body RT Hb).
Qed.
Print Assumptions resp_body_roundtrip_fresh.

(* missing or unrecognised preference (the Accept value is not one of the five supported
   types, neither as given nor after normalisation) and no designed type: JSON, announced
   as application/json *)
Theorem resp_unknown_is_json pmt errmt accept :
  ~ In accept supported -> (forall m, pmt accept = Some m -> ~ In m supported) ->
  response_encoder pmt errmt accept [] [] = (Some KJson, app_json).
Proof. exact (unknown_is_json pmt errmt accept). Qed.
Print Assumptions resp_unknown_is_json.

(* a supported preference, given exactly or recognised after normalisation, is honoured
   and announced as that type *)
Theorem resp_supported_preference pmt errmt accept c :
  In c supported -> (accept = c \/ (accept <> [] /\ ~ In accept supported /\ pmt accept = Some c)) ->
  response_encoder pmt errmt accept [] [] = (Some (kind_of_supported c), c).
Proof. exact (supported_preference pmt errmt accept c). Qed.
Print Assumptions resp_supported_preference.

(* With a header pre-set by user code the round trip holds under [preset_ok]: the chosen
   encoder is gob/text (header overwritten), or the pre-set value has no parameters (whatever
   '+' suffix it carries), or it has parameters and is a field-safe value the parser accepts.
   Outside: a pre-set value with a ';' that is not a media type at all. *)
Theorem resp_roundtrip_preset_partial pmt errmt :
  parser_stable pmt -> parser_fixes_supported pmt -> parser_keeps_suffix pmt -> parser_accepts_suffixed pmt ->
  forall accept ct preset k hdr,
    response_encoder pmt errmt accept ct preset = (Some k, hdr) ->
    preset_ok pmt k preset -> response_decoder pmt hdr = k.
Proof. intros Hs Hf Hk Ha accept ct preset k hdr He Hok. exact (roundtrip_preset pmt errmt Hs Hf Hk accept ct preset k hdr He Hok (fun _ => Ha)). Qed.
Print Assumptions resp_roundtrip_preset_partial.

(* The former finding preset-suffix-mismatch is repaired (SetContentType keeps an agreeing
   suffix and replaces another one; the '+' is looked for in the media type only). The
   statement that used to be refuted now holds: any pre-set header without parameters -
   with or without a '+' suffix, agreeing or not - round trips. *)
Theorem resp_preset_suffix_roundtrip pmt errmt :
  parser_stable pmt -> parser_fixes_supported pmt -> parser_keeps_suffix pmt ->
  forall accept ct preset k hdr,
    contains_semicolon preset = false ->
    response_encoder pmt errmt accept ct preset = (Some k, hdr) -> response_decoder pmt hdr = k.
Proof. exact (roundtrip_preset_no_params pmt errmt). Qed.
Print Assumptions resp_preset_suffix_roundtrip.

(* The former finding preset-params-suffix-lost is repaired (/repo 04b25e0: the suffix is
   inserted in front of the parameters): a pre-set header with parameters, made of visible
   ASCII / SP / TAB, that the parser accepts, round trips - whatever suffix it carries. *)
Theorem resp_preset_params_roundtrip pmt errmt :
  parser_stable pmt -> parser_fixes_supported pmt -> parser_keeps_suffix pmt -> parser_accepts_suffixed pmt ->
  forall accept ct preset k hdr,
    field_safe preset = true -> pmt preset <> None ->
    response_encoder pmt errmt accept ct preset = (Some k, hdr) -> response_decoder pmt hdr = k.
Proof. exact (roundtrip_preset_params pmt errmt). Qed.
Print Assumptions resp_preset_params_roundtrip.

(* A designed content type that parses always yields an encoder; which one is decided by
   the parsed media type alone (exact type or structured-syntax suffix, JSON otherwise);
   with no header pre-set the header is exactly the parsed media type. *)
Theorem designed_ct_total pmt errmt accept ct preset mt :
  ct <> [] -> pmt ct = Some mt ->
  response_encoder pmt errmt accept ct preset = (Some (enc_classify mt), set_content_type preset mt)
  /\ set_content_type [] mt = mt
  /\ ((mt = app_json \/ exists p, mt = p ++ sfx_json) -> enc_classify mt = KJson)
  /\ ((mt = app_xml \/ exists p, mt = p ++ sfx_xml) -> enc_classify mt = KXml).
Proof.
  intros Hne P. split; [exact (designed_total pmt errmt accept ct preset mt Hne P)|].
  split; [reflexivity|]. exact (enc_classify_spec mt).
Qed.
Print Assumptions designed_ct_total.

(* the text encoder refuses exactly the values that are not string, *string or []byte with an
   error (nothing is emitted in another format) and writes the others verbatim; the text
   decoder hands the bytes back *)
Theorem text_only_strings cenc v :
  (encode cenc KText v = None <-> is_struct v = true) /\
  (is_struct v = false ->
     exists s, encode cenc KText v = Some s /\ (v = VString s \/ v = VStrPtr s \/ v = VBytes s) /\
               text_decode (shape_of v) s = Some (deref v)).
Proof.
  split; [exact (text_refuses_structs cenc v)|].
  intro H. destruct (text_verbatim cenc v H) as (s & Hs & Hv). exists s. repeat split; try assumption.
  exact (text_roundtrip v s Hs).
Qed.
Print Assumptions text_only_strings.

(* RequestDecoder returns the unsupported decoder exactly when the header is present and
   its media type (normalised when it parses) is outside the five supported types; that
   decoder never decodes anything, its error carries the media type and maps to 415 *)
Theorem request_unsupported_is_415 pmt cdec h :
  ((exists ct, request_decoder pmt h = RUnsupported ct) <-> (h <> [] /\ ~ In (norm pmt h) supported)) /\
  (forall ct, request_decoder pmt h = RUnsupported ct ->
     ct = norm pmt h /\
     forall sh body, request_decode cdec (request_decoder pmt h) sh body = inr (unsupported_error ct) /\
                     http_status (unsupported_error ct) = 415) /\
  (forall k, request_decoder pmt h = RDec k ->
     exists c, In c supported /\ c = (if beq h [] then app_json else norm pmt h) /\ k = kind_of_supported c).
Proof.
  split; [exact (request_unsupported_iff pmt h)|]. split.
  - intros ct H. split; [exact (request_unsupported_ct pmt h ct H)|].
    intros sh body. rewrite H. split; reflexivity.
  - intros k H. pose proof (request_decoder_cases pmt h) as C. simpl in C.
    destruct C as [[Hin C]|[_ C]]; [|congruence]. eexists; split; [exact Hin|]. split; [reflexivity|congruence].
Qed.
Print Assumptions request_unsupported_is_415.

(* the header RequestEncoder sets by default is accepted as JSON by RequestDecoder, and
   the JSON body it writes is decoded back to the value *)
Theorem request_roundtrip pmt cenc cdec :
  parser_fixes_supported pmt -> codec_roundtrip cenc cdec ->
  request_decoder pmt (request_encoder_header []) = RDec request_encoder_kind /\
  forall v body, encode cenc request_encoder_kind v = Some body ->
    request_decode cdec (request_decoder pmt (request_encoder_header [])) (shape_of v) body = inl (deref v).
Proof.
  intros Hf RT. split; [exact (request_default_json pmt Hf)|].
  intros v body H. rewrite (request_default_json pmt Hf). unfold request_decode.
  now rewrite (encode_decode cenc cdec KJson v body RT H).
Qed.
Print Assumptions request_roundtrip.

(* ---- what reaches the wire ---- *)

(* the writer freezes status and headers at the first WriteHeader: a Content-Type set later,
   a second WriteHeader or a Write change nothing of what the client reads *)
Theorem writer_freezes_headers w st h st2 sniff :
  let w1 := w_write_header st w in
  wire sniff (w_write_header st2 (w_set_live h w1)) = wire sniff w1
  /\ wire sniff (w_write (w_set_live h w1)) = wire sniff w1.
Proof. exact (writer_frozen w st h st2 sniff). Qed.
Print Assumptions writer_freezes_headers.

(* encoder first, then the status, then the body (the order of the generated response
   encoders and of goahttp.ErrorEncoder): the client reads that status together with exactly
   the Content-Type ResponseEncoder computed *)
Theorem content_type_set_before_status pmt errmt cenc accept ct w st v k b w' :
  sent w = None ->
  send pmt errmt cenc accept ct w st v = (Some k, b, w') ->
  exists hdr, response_encoder pmt errmt accept ct (live w) = (Some k, hdr) /\ sent w' = Some (st, hdr).
Proof. exact (send_wire pmt errmt cenc accept ct w st v k b w'). Qed.
Print Assumptions content_type_set_before_status.

(* error path, no header pre-set: for every Accept, designed type and error, the status the
   client reads is the one of the error (415 for unsupported_media_type, ...) and the
   Content-Type it reads selects the decoder of the format the error body was written in *)
Theorem error_roundtrip_fresh pmt errmt cenc :
  parser_stable pmt -> parser_fixes_supported pmt ->
  forall accept ct g k b w',
    error_encoder pmt errmt cenc accept ct (w_new []) g = (Some k, b, w') ->
    exists hdr, sent w' = Some (http_status (error_response g), hdr) /\ response_decoder pmt hdr = k.
Proof. exact (error_roundtrip pmt errmt cenc). Qed.
Print Assumptions error_roundtrip_fresh.

(* the muxer's own 404 response: for every Accept value an encoder is chosen, the client reads
   status 404 and a Content-Type that selects the decoder of the format the body is in; the
   body is what that encoder produced and nothing else - when the text encoder is chosen
   (it refuses the error struct) nothing is written, no other format is substituted *)
Theorem not_found_announces_its_format pmt errmt cenc :
  parser_stable pmt -> parser_fixes_supported pmt ->
  forall accept,
    (exists k b w', mux_not_found pmt errmt cenc accept = (Some k, b, w')) /\
    forall k b w', mux_not_found pmt errmt cenc accept = (Some k, b, w') ->
      exists hdr, sent w' = Some (404, hdr) /\ response_decoder pmt hdr = k
                  /\ b = encode cenc k (VStruct 0) /\ (k = KText -> b = None).
Proof.
  intros Hs Hf accept. split; [exact (not_found_total pmt errmt cenc accept)|].
  exact (not_found_roundtrip pmt errmt cenc Hs Hf accept).
Qed.
Print Assumptions not_found_announces_its_format.

(* the order matters: with the status written first the negotiated Content-Type never
   reaches the client, which reads what the writer sniffs from the body; an XML error body
   announced as text/plain is not recovered *)
Theorem status_before_content_type_refuted :
  exists pmt errmt cenc cdec accept ct g sniff k b w',
    parser_stable pmt /\ parser_fixes_supported pmt /\ codec_roundtrip cenc cdec /\
    send_status_first pmt errmt cenc accept ct (w_new []) (http_status (error_response g)) (VStruct 0) = (Some k, Some b, w') /\
    wire sniff w' = Some (415, sniff) /\ response_decoder pmt sniff <> k /\
    decode cdec (response_decoder pmt sniff) SStruct b = None.
Proof.
  destruct status_first_witness as (k & b & w' & W1 & -> & W3 & W4 & W5).
  destruct cut_parser_sane as (A & B & _).
  exists cut_parser, (fun _ => []), toy_enc, toy_dec, app_xml, [], (EService (unsupported_error [])), w_sniffed, KXml, b, w'.
  split; [exact A|]. split; [exact B|]. split; [exact toy_roundtrip|]. split; [exact W1|]. split; [exact W3|].
  rewrite W4. split; [discriminate|exact W5].
Qed.
Print Assumptions status_before_content_type_refuted.

(* ---- the parser hypotheses discharged: Go's mime.ParseMediaType (media type part) modelled;
        only the parameter parser stays an oracle [params_ok] ---- *)

(* what the modelled parser returns: the text in front of the first ';', lower-cased and
   trimmed, when that is token or token/token; such a result is free of ';' and parses to itself *)
Theorem std_media_type_normal_form base m :
  go_media_type base = Some m ->
  m = trim_space (map lower base) /\ media_type_ok m = true /\ contains_semicolon m = false /\ go_media_type m = Some m.
Proof.
  intro H. split; [|split; [|split; [|exact (go_media_type_fix base m H)]]];
    unfold go_media_type in H; destruct (media_type_ok (trim_space (map lower base))) eqn:OK; try discriminate;
    injection H as <-; [reflexivity|exact OK|exact (type_chars_no_semi _ (media_type_ok_chars _ OK))].
Qed.
Print Assumptions std_media_type_normal_form.

(* for every parameter-validity oracle the modelled parser satisfies three of the four
   hypotheses (the fourth, parser_accepts_suffixed, is only needed for pre-set headers with
   parameters and stays a run-time-tested hypothesis) *)
Theorem std_parser_satisfies_hypotheses params_ok :
  parser_stable (std_pmt params_ok) /\ parser_fixes_supported (std_pmt params_ok) /\ parser_keeps_suffix (std_pmt params_ok).
Proof. exact (conj (std_pmt_stable params_ok) (conj (std_pmt_fixes_supported params_ok) (std_pmt_keeps_suffix params_ok))). Qed.
Print Assumptions std_parser_satisfies_hypotheses.

(* hence, with NO hypothesis on the parser: responses with nothing pre-set, or with any pre-set
   header without parameters, announce the format they are written in *)
Theorem std_resp_roundtrip params_ok errmt accept ct preset k hdr :
  contains_semicolon preset = false ->
  response_encoder (std_pmt params_ok) errmt accept ct preset = (Some k, hdr) ->
  response_decoder (std_pmt params_ok) hdr = k.
Proof.
  exact (roundtrip_preset_no_params (std_pmt params_ok) errmt (std_pmt_stable params_ok)
           (std_pmt_fixes_supported params_ok) (std_pmt_keeps_suffix params_ok) accept ct preset k hdr).
Qed.
Print Assumptions std_resp_roundtrip.

(* ... error responses and the muxer's 404 carry their status and a Content-Type that selects
   the decoder of the body's format *)
Theorem std_error_paths params_ok errmt cenc accept :
  (forall ct g k b w',
     error_encoder (std_pmt params_ok) errmt cenc accept ct (w_new []) g = (Some k, b, w') ->
     exists hdr, sent w' = Some (http_status (error_response g), hdr) /\ response_decoder (std_pmt params_ok) hdr = k) /\
  (forall k b w',
     mux_not_found (std_pmt params_ok) errmt cenc accept = (Some k, b, w') ->
     exists hdr, sent w' = Some (404, hdr) /\ response_decoder (std_pmt params_ok) hdr = k
                 /\ b = encode cenc k (VStruct 0) /\ (k = KText -> b = None)).
Proof.
  split.
  - intros ct g. exact (error_roundtrip (std_pmt params_ok) errmt cenc (std_pmt_stable params_ok) (std_pmt_fixes_supported params_ok) accept ct g).
  - exact (not_found_roundtrip (std_pmt params_ok) errmt cenc (std_pmt_stable params_ok) (std_pmt_fixes_supported params_ok) accept).
Qed.
Print Assumptions std_error_paths.

(* ... and the request encoder's default header is decoded as JSON *)
Theorem std_request_roundtrip params_ok :
  request_decoder (std_pmt params_ok) (request_encoder_header []) = RDec request_encoder_kind.
Proof. exact (request_default_json (std_pmt params_ok) (std_pmt_fixes_supported params_ok)). Qed.
Print Assumptions std_request_roundtrip.

(* ---- non-vacuity ---- *)

(* the hypotheses on the parser are satisfiable (by a parser that cuts parameters), and so
   is the one on the codecs *)
Example parser_hypotheses_inhabited :
  (parser_stable cut_parser /\ parser_fixes_supported cut_parser /\ parser_keeps_suffix cut_parser
   /\ parser_accepts_suffixed cut_parser) /\ codec_roundtrip toy_enc toy_dec.
Proof. exact (conj cut_parser_sane toy_roundtrip). Qed.

(* the repaired case: application/vnd.x; charset=utf-8 + XML -> application/vnd.x+xml; charset=utf-8,
   read as XML; blanks in front of the ';' are dropped *)
Example preset_params_now_roundtrip :
  response_encoder cut_parser (fun _ => []) app_xml [] w_preset_params = (Some KXml, w_hdr)
  /\ response_decoder cut_parser w_hdr = KXml
  /\ set_content_type (bs "text/plain ; charset=utf-8") app_json = bs "text/plain+json; charset=utf-8".
Proof. exact preset_params_example. Qed.

(* the repaired suffix case: application/vnd.x+xml + JSON encoder -> application/vnd.x+json; a '+'
   inside a parameter does not count; an agreeing suffix is left untouched *)
Example preset_suffix_now_roundtrip :
  response_encoder cut_parser (fun _ => []) [] [] w_preset_xml = (Some KJson, bs "application/vnd.x+json")
  /\ response_decoder cut_parser (bs "application/vnd.x+json") = KJson
  /\ set_content_type (bs "a/b; x=y+z") app_xml = bs "a/b+xml; x=y+z"
  /\ set_content_type (bs "application/ld+json ; profile=x") app_json = bs "application/ld+json ; profile=x"
  /\ set_content_type (bs "Application/Vnd.X+JSON") app_json = bs "Application/Vnd.X+json".
Proof. exact preset_suffix_example. Qed.

(* designed vendor type, pre-set plain header, struct value: XML chosen, header is the vendor
   type, decoder XML, value recovered *)
Example designed_vendor_xml :
  let ct := bs "application/vnd.goa.thing+xml" in
  response_encoder cut_parser (fun _ => []) (bs "application/json") ct (bs "application/octet-stream")
    = (Some KXml, ct)
  /\ response_decoder cut_parser ct = KXml
  /\ decode toy_dec KXml SStruct (match encode toy_enc KXml (VStruct 7) with Some b => b | None => [] end) = Some (VStruct 7).
Proof. vm_compute. repeat split. Qed.

(* plain pre-set header + negotiated XML: suffix appended, decoder XML (the _partial case) *)
Example preset_plain_xml :
  response_encoder cut_parser (fun _ => []) app_xml [] (bs "application/vnd.x") = (Some KXml, bs "application/vnd.x+xml")
  /\ preset_ok cut_parser KXml (bs "application/vnd.x")
  /\ response_decoder cut_parser (bs "application/vnd.x+xml") = KXml.
Proof. split; [vm_compute; reflexivity|]. split; [right; left; reflexivity|vm_compute; reflexivity]. Qed.

(* request: a +json vendor type is unsupported -> 415; text/plain is text *)
Example request_examples :
  request_decoder cut_parser (bs "application/vnd.x+json") = RUnsupported (bs "application/vnd.x+json")
  /\ request_decoder cut_parser text_plain = RDec KText
  /\ http_status (unsupported_error (bs "application/vnd.x+json")) = 415.
Proof. vm_compute. repeat split. Qed.

(* the modelled parser on a few values: case and blanks normalised, parameters cut, malformed
   types refused, a refused parameter part refuses the whole value *)
Example std_parser_examples :
  std_pmt (fun _ => true) (bs "Application/XML ; q=0.9") = Some app_xml
  /\ std_pmt (fun _ => true) (bs " text/plain") = Some text_plain
  /\ std_pmt (fun _ => true) (bs "garbage") = Some (bs "garbage")
  /\ std_pmt (fun _ => true) (bs "a/b/c") = None
  /\ std_pmt (fun _ => true) (bs "a/") = None
  /\ std_pmt (fun _ => true) (bs "application/xml, application/json") = None
  /\ std_pmt (fun _ => false) (bs "application/json; =x") = None
  /\ go_media_type (before_semi (bs "application/json; =x")) = Some app_json.
Proof. vm_compute. repeat split. Qed.
