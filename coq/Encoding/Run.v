(* Correspondence glue: the harness writes, per case, the inputs it gave to the real
   goahttp functions, the answers of the real mime.ParseMediaType on every string those
   functions could consult, and what it observed; the functions below run the model with
   that oracle and return the indexes of the cases where model and observation differ.
   Strings are interned: a case refers to entry i of the run's string table. *)
From Encoding Require Import Model.
From Coq Require Import FMapPositive.

Definition table := PositiveMap.t bytes.

Fixpoint mk_table_from (i : positive) (l : list bytes) (t : table) : table :=
  match l with
  | [] => t
  | s :: r => mk_table_from (Pos.succ i) r (PositiveMap.add i s t)
  end.
Definition mk_table (l : list bytes) : table := mk_table_from 1%positive l (PositiveMap.empty bytes).

Definition str (t : table) (i : N) : option bytes := PositiveMap.find (N.succ_pos i) t.

Definition key_is (t : table) (s : bytes) (i : N) : bool :=
  match str t i with Some k => beq k s | None => false end.

(* the observed parser as a function: answers logged for this case, None elsewhere *)
Definition pmt_of (t : table) (ol : list (N * option N)) (s : bytes) : option bytes :=
  match find (fun e => key_is t s (fst e)) ol with
  | Some (_, Some j) => str t j
  | _ => None
  end.

Definition errmt_of (t : table) (el : list (N * N)) (s : bytes) : bytes :=
  match find (fun e => key_is t s (fst e)) el with
  | Some (_, j) => match str t j with Some m => m | None => [] end
  | None => []
  end.

Definition kind_eqb (a b : kind) : bool :=
  match a, b with
  | KJson, KJson | KXml, KXml | KGob, KGob | KText, KText => true
  | _, _ => false
  end.

Definition opt_kind_eqb (a b : option kind) : bool :=
  match a, b with
  | Some x, Some y => kind_eqb x y
  | None, None => true
  | _, _ => false
  end.

Inductive vkind := VkStruct | VkString | VkStrPtr | VkBytes.
Definition value_of (vk : vkind) : value :=
  match vk with VkStruct => VStruct 0 | VkString => VString [] | VkStrPtr => VStrPtr [] | VkBytes => VBytes [] end.

(* the stdlib codecs, as far as the comparison needs them: does the codec itself refuse
   this value (measured by the harness by calling encoding/json|xml|gob directly) *)
Definition codec_of (rj rx rg : bool) (k : kind) (v : value) : option bytes :=
  match k with
  | KJson => if rj then None else Some []
  | KXml => if rx then None else Some []
  | KGob => if rg then None else Some []
  | KText => None
  end.

(* one response case *)
Inductive rcase :=
  RC (idx : N) (accept ct preset : N) (vk : vkind) (rj rx rg : bool)
     (ol : list (N * option N)) (el : list (N * N))
     (o_enc : option kind)      (* dynamic type of the Encoder returned, None = nil *)
     (o_hdr : N)                (* Content-Type header after ResponseEncoder *)
     (o_dec : kind)             (* dynamic type of goahttp.ResponseDecoder on that header *)
     (o_encerr : bool)          (* Encode returned an error *)
     (o_recovered : bool).      (* Decode ok and reflect.DeepEqual to the value *)

Definition rcase_ok (t : table) (c : rcase) : bool :=
  match c with
  | RC _ a c p vk rj rx rg ol el oenc ohdr odec oerr orec =>
    match str t a, str t c, str t p, str t ohdr with
    | Some a, Some c, Some p, Some oh =>
      let pm := pmt_of t ol in
      let '(mk, mh) := response_encoder pm (errmt_of t el) a c p in
      let dk := response_decoder pm mh in
      opt_kind_eqb mk oenc && beq mh oh && kind_eqb dk odec &&
      match mk with
      | None => true
      | Some k =>
        let enc_err := match encode (codec_of rj rx rg) k (value_of vk) with None => true | Some _ => false end in
        Bool.eqb enc_err oerr && (if negb enc_err && kind_eqb k dk then orec else true)
      end
    | _, _, _, _ => false
    end
  end.

Definition rcase_idx (c : rcase) : N := match c with RC i _ _ _ _ _ _ _ _ _ _ _ _ _ _ => i end.

Definition resp_mismatches (t : table) (cs : list rcase) : list N :=
  flat_map (fun c => if rcase_ok t c then [] else [rcase_idx c]) cs.

(* one request case: Content-Type header of the request; observed decoder (None = the
   unsupported decoder), the media type its error message names, the status
   NewErrorResponse gives that error, and whether Decode succeeded *)
Inductive qcase :=
  QC (idx : N) (hdr : N) (ol : list (N * option N))
     (o_dec : option kind) (o_ct : N) (o_status : N) (o_decoded : bool).

Definition qcase_ok (t : table) (c : qcase) : bool :=
  match c with
  | QC _ h ol odec oct ost odecoded =>
    match str t h, str t oct with
    | Some h, Some oct =>
      match request_decoder (pmt_of t ol) h with
      | RDec k => opt_kind_eqb (Some k) odec
      | RUnsupported ct =>
        opt_kind_eqb None odec && beq ct oct && N.eqb (http_status (unsupported_error ct)) ost && negb odecoded
      end
    | _, _ => false
    end
  end.

Definition req_mismatches (t : table) (cs : list qcase) : list N :=
  flat_map (fun c => if qcase_ok t c then [] else [match c with QC i _ _ _ _ _ _ => i end]) cs.

(* RequestEncoder: header before, header after *)
Definition renc_mismatches (t : table) (cs : list (N * N * N)) : list N :=
  flat_map (fun c => match c with (i, p, o) =>
     match str t p, str t o with
     | Some p, Some o => if beq (request_encoder_header p) o then [] else [i]
     | _, _ => [i]
     end end) cs.
