(* Correspondence glue: the harness writes, per case, the inputs it gave to the real
   goahttp functions, the answers of the real mime.ParseMediaType on every string those
   functions could consult, and what it observed; the functions below run the model with
   that oracle and return the indexes of the cases where model and observation differ.

   Coq's front end costs ~0.1 ms per syntax node, so the case files are kept small:
   strings are interned per shard (a case refers to entry i of the shard's string
   table), a string is a list of tokens of the shard's vocabulary (generator fragments
   and single bytes), and the small enumerations of a case are packed into one number. *)
From Encoding Require Import Model.
From Coq Require Import FMapPositive.

Definition table := PositiveMap.t bytes.

Fixpoint mk_table_from (i : positive) (l : list bytes) (t : table) : table :=
  match l with
  | [] => t
  | s :: r => mk_table_from (Pos.succ i) r (PositiveMap.add i s t)
  end.
Definition mk_table (l : list bytes) : table := mk_table_from 1%positive l (PositiveMap.empty bytes).

Definition str (t : table) (i : N) : option bytes := PositiveMap.find (N.succ_pos i) t.

(* 999 is not a byte: a dangling token poisons the string, the case then disagrees *)
Definition poison : bytes := [999].

Definition mk_strings (voc : table) (l : list (list N)) : table :=
  mk_table (map (fun toks => flat_map (fun i => match str voc i with Some b => b | None => poison end) toks) l).

Definition key_is (t : table) (s : bytes) (i : N) : bool :=
  match str t i with Some k => beq k s | None => false end.

(* flattened association list: [s1; r1; s2; r2; ...] *)
Fixpoint pairs (l : list N) : list (N * N) :=
  match l with
  | a :: b :: r => (a, b) :: pairs r
  | _ => []
  end.

(* the observed parser as a function: answers logged for this case (r = 0: error,
   r = m+1: media type is string m), None elsewhere *)
Definition pmt_of (t : table) (ol : list (N * N)) (s : bytes) : option bytes :=
  match find (fun e => key_is t s (fst e)) ol with
  | Some (_, r) => if N.eqb r 0 then None else str t (N.pred r)
  | None => None
  end.

(* media type returned together with an error *)
Definition errmt_of (t : table) (el : list (N * N)) (s : bytes) : bytes :=
  match find (fun e => key_is t s (fst e)) el with
  | Some (_, j) => match str t j with Some m => m | None => poison end
  | None => []
  end.

Definition kind_eqb (a b : kind) : bool :=
  match a, b with
  | KJson, KJson | KXml, KXml | KGob, KGob | KText, KText => true
  | _, _ => false
  end.

Definition opt_kind_eqb (a b : option kind) : bool :=
  match a, b with
  | Some x, Some y => kind_eqb x y
  | None, None => true
  | _, _ => false
  end.

Inductive vkind := VkStruct | VkString | VkStrPtr | VkBytes.
Definition value_of (vk : vkind) : value :=
  match vk with VkStruct => VStruct 0 | VkString => VString [] | VkStrPtr => VStrPtr [] | VkBytes => VBytes [] end.

(* the stdlib codecs, as far as the comparison needs them: does the codec itself refuse
   this value (measured by the harness by calling encoding/json|xml|gob directly) *)
Definition codec_of (rj rx rg : bool) (k : kind) (v : value) : option bytes :=
  match k with
  | KJson => if rj then None else Some []
  | KXml => if rx then None else Some []
  | KGob => if rg then None else Some []
  | KText => None
  end.

(* mixed-radix unpacking *)
Definition take (base x : N) : N * N := (N.modulo x base, N.div x base).
Definition kind_of_code (n : N) : kind :=
  if N.eqb n 0 then KJson else if N.eqb n 1 then KXml else if N.eqb n 2 then KGob else KText.
Definition vkind_of_code (n : N) : vkind :=
  if N.eqb n 0 then VkStruct else if N.eqb n 1 then VkString else if N.eqb n 2 then VkStrPtr else VkBytes.
Definition nz (n : N) : bool := negb (N.eqb n 0).

Inductive case :=
  (* response / error response: string indexes of accept / designed type / pre-set header,
     packed (value kind, codec refusals json xml gob, observed encoder [0 = nil, k+1],
     observed decoder, Encode error, recovered, error kind [0 = ordinary response with
     status 200; 33 = the muxer's NotFound handler; else 1 + (name is unsupported_media_type,
     timeout, temporary, fault, not a ServiceError)]; observed encoder 5 = not observable
     (inside the muxer), then not compared), parser answers, error media types, and what was read ON THE WIRE:
     Content-Type, status; sniff = what this writer fills in when it froze without one *)
| RC (idx accept ct preset code : N) (ol el : list N) (o_hdr o_status sniff : N)
  (* request: Content-Type header, parser answers, packed (observed decoder [0 =
     unsupported, k+1], decoded), media type named by the error message, status *)
| QC (idx hdr : N) (ol : list N) (code o_ct o_status : N)
  (* RequestEncoder: header before, header after *)
| EC (idx preset o_hdr : N)
  (* mime.ParseMediaType(s) of the real Go library: code 0 = err == nil with media type m;
     1 = an error returned together with the (non-empty) media type m (invalid parameter);
     2 = an error with an empty media type *)
| PC (idx s code m : N).

Definition case_idx (c : case) : N :=
  match c with RC i _ _ _ _ _ _ _ _ _ => i | QC i _ _ _ _ _ => i | EC i _ _ => i | PC i _ _ _ => i end.

Definition other_name : bytes := [111; 116; 104; 101; 114].

Definition goerr_of_code (n : N) : goerr :=
  let '(unsup, x) := take 2 n in
  let '(to, x) := take 2 x in
  let '(te, x) := take 2 x in
  let '(fa, plain) := take 2 x in
  if nz plain then EPlain
  else EService {| ename := if nz unsup then unsupported_media_type else other_name;
                   etimeout := nz to; etemporary := nz te; efault := nz fa |}.

Definition case_ok (t : table) (c : case) : bool :=
  match c with
  | RC _ a c p code ol el ohdr ost sniff =>
    let '(vk, x) := take 4 code in
    let '(rj, x) := take 2 x in
    let '(rx, x) := take 2 x in
    let '(rg, x) := take 2 x in
    let '(oenc, x) := take 6 x in
    let '(odec, x) := take 4 x in
    let '(oerr, x) := take 2 x in
    let '(orec, ekind) := take 2 x in
    let enc_seen := negb (N.eqb oenc 5) in
    let oenc := if N.eqb oenc 0 then None else Some (kind_of_code (N.pred oenc)) in
    match str t a, str t c, str t p, str t ohdr, str t sniff with
    | Some a, Some c, Some p, Some oh, Some sn =>
      let pm := pmt_of t (pairs ol) in
      let st := if N.eqb ekind 0 then 200 else if N.eqb ekind 33 then 404
                else http_status (error_response (goerr_of_code (N.pred ekind))) in
      let '(mk, body, w) := send pm (errmt_of t (pairs el)) (codec_of (nz rj) (nz rx) (nz rg)) a c (w_new p) st
                                 (value_of (vkind_of_code vk)) in
      match wire sn w with
      | None => false
      | Some (wst, wh) =>
        let dk := response_decoder pm wh in
        (if enc_seen then opt_kind_eqb mk oenc else true) && beq wh oh && N.eqb wst ost && kind_eqb dk (kind_of_code odec) &&
        match mk with
        | None => true
        | Some k =>
          let enc_err := match body with None => true | Some _ => false end in
          Bool.eqb enc_err (nz oerr) && (if negb enc_err && kind_eqb k dk then nz orec else true)
        end
      end
    | _, _, _, _, _ => false
    end
  | QC _ h ol code oct ost =>
    let '(odec, odecoded) := take 5 code in
    match str t h, str t oct with
    | Some h, Some oct =>
      match request_decoder (pmt_of t (pairs ol)) h with
      | RDec k => N.eqb odec (match k with KJson => 1 | KXml => 2 | KGob => 3 | KText => 4 end)
      | RUnsupported ct =>
        N.eqb odec 0 && beq ct oct && N.eqb (http_status (unsupported_error ct)) ost && negb (nz odecoded)
      end
    | _, _ => false
    end
  | EC _ p o =>
    match str t p, str t o with
    | Some p, Some o => beq (request_encoder_header p) o
    | _, _ => false
    end
  | PC _ s code m =>
    (* the modelled media type part against the real parser: accepted values and values
       refused only for their parameters must yield exactly the observed media type; a value
       refused with an empty media type is either refused by the model too or has parameters
       (duplicate names and RFC 2231 errors are the parameter oracle's) *)
    match str t s, str t m with
    | Some s, Some m =>
      match go_media_type (before_semi s) with
      | Some m' => if N.eqb code 2 then contains_semicolon s else beq m' m
      | None => N.eqb code 2
      end
    | _, _ => false
    end
  end.

Definition mismatches (t : table) (cs : list case) : list N :=
  flat_map (fun c => if case_ok t c then [] else [case_idx c]) cs.
