From Encoding Require Import Properties.
Goal True. idtac "@@THM has_suffix_means_suffix". exact I. Qed.
Print Assumptions has_suffix_means_suffix.
Goal True. idtac "@@THM encoder_decoder_switch_agree". exact I. Qed.
Print Assumptions encoder_decoder_switch_agree.
Goal True. idtac "@@THM resp_roundtrip_fresh". exact I. Qed.
Print Assumptions resp_roundtrip_fresh.
Goal True. idtac "@@THM resp_body_roundtrip_fresh". exact I. Qed.
Print Assumptions resp_body_roundtrip_fresh.
Goal True. idtac "@@THM resp_unknown_is_json". exact I. Qed.
Print Assumptions resp_unknown_is_json.
Goal True. idtac "@@THM resp_supported_preference". exact I. Qed.
Print Assumptions resp_supported_preference.
Goal True. idtac "@@THM resp_roundtrip_preset_partial". exact I. Qed.
Print Assumptions resp_roundtrip_preset_partial.
Goal True. idtac "@@THM resp_preset_suffix_refuted". exact I. Qed.
Print Assumptions resp_preset_suffix_refuted.
Goal True. idtac "@@THM resp_preset_params_refuted". exact I. Qed.
Print Assumptions resp_preset_params_refuted.
Goal True. idtac "@@THM designed_ct_total". exact I. Qed.
Print Assumptions designed_ct_total.
Goal True. idtac "@@THM text_only_strings". exact I. Qed.
Print Assumptions text_only_strings.
Goal True. idtac "@@THM request_unsupported_is_415". exact I. Qed.
Print Assumptions request_unsupported_is_415.
Goal True. idtac "@@THM request_roundtrip". exact I. Qed.
Print Assumptions request_roundtrip.
Goal True. idtac "@@END". exact I. Qed.
