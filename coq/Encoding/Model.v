(* Encoding engine — executable model of the content negotiation of
     http/encoding.go  RequestDecoder / ResponseEncoder (negotiate, ContentTypeKey branch) /
                       SetContentType / ResponseDecoder / RequestEncoder /
                       textEncoder / textDecoder / unsupportedDecoder
     http/error.go     ErrorResponse.StatusCode
     pkg/error.go      UnsupportedMediaTypeError
   Strings are byte lists (list N).  Go's mime.ParseMediaType enters as the Section
   variables [pmt] (media type when err == nil) and [pmt_err_mt] (the media type
   string Go returns TOGETHER with an error, e.g. ErrInvalidMediaParameter); the
   json/xml/gob codecs enter as Section variables too.  Definitions only. *)
From Coq Require Export List Bool NArith String Ascii.
Export ListNotations.
Open Scope N_scope.

Definition bytes := list N.

Definition bs (s : string) : bytes := map N_of_ascii (list_ascii_of_string s).

(* ---- the Go string operations the code uses ---- *)

(* a == b *)
Fixpoint beq (a b : bytes) : bool :=
  match a, b with
  | [], [] => true
  | x :: a', y :: b' => N.eqb x y && beq a' b'
  | _, _ => false
  end.

(* strings.HasSuffix(s, suf): len(s) >= len(suf) && s[len(s)-len(suf):] == suf *)
Definition has_suffix (suf s : bytes) : bool :=
  Nat.leb (List.length suf) (List.length s) && beq (skipn (List.length s - List.length suf)%nat s) suf.

(* strings.Contains(s, "+") *)
Definition contains_byte (c : N) (s : bytes) : bool := existsb (N.eqb c) s.
Definition contains_plus (s : bytes) : bool := contains_byte 43 s.
Definition contains_semicolon (s : bytes) : bool := contains_byte 59 s.

(* strings.Index(h, ";"): h[:i] and h[i:] for the first ';' (whole string / empty when there is none) *)
Fixpoint before_semi (s : bytes) : bytes :=
  match s with
  | [] => []
  | c :: r => if N.eqb 59 c then [] else c :: before_semi r
  end.
Fixpoint from_semi (s : bytes) : bytes :=
  match s with
  | [] => []
  | c :: r => if N.eqb 59 c then s else from_semi r
  end.

(* strings.TrimRight(s, " \t") *)
Definition is_sp_tab (c : N) : bool := N.eqb c 32 || N.eqb c 9.
Fixpoint trim_right (s : bytes) : bytes :=
  match s with
  | [] => []
  | c :: r => match trim_right r with
              | [] => if is_sp_tab c then [] else [c]
              | r' => c :: r'
              end
  end.

(* mt[:strings.LastIndex(mt, "+")] when there is a '+', mt otherwise *)
Fixpoint upto_last_plus (s : bytes) : option bytes :=
  match s with
  | [] => None
  | c :: r => match upto_last_plus r with
              | Some t => Some (c :: t)
              | None => if N.eqb 43 c then Some [] else None
              end
  end.
Definition strip_last_plus (s : bytes) : bytes :=
  match upto_last_plus s with Some t => t | None => s end.

(* the media type part of a pre-set header value as SetContentType takes it: everything in
   front of the first ';' without trailing SP/TAB, the whole value when there is no ';' *)
Definition media_part (h : bytes) : bytes :=
  if contains_semicolon h then trim_right (before_semi h) else h.

(* ---- literals ---- *)
Definition app_json   : bytes := Eval vm_compute in bs "application/json".
Definition app_xml    : bytes := Eval vm_compute in bs "application/xml".
Definition app_gob    : bytes := Eval vm_compute in bs "application/gob".
Definition text_html  : bytes := Eval vm_compute in bs "text/html".
Definition text_plain : bytes := Eval vm_compute in bs "text/plain".
Definition sfx_json   : bytes := Eval vm_compute in bs "+json".
Definition sfx_xml    : bytes := Eval vm_compute in bs "+xml".
Definition sfx_gob    : bytes := Eval vm_compute in bs "+gob".
Definition sfx_html   : bytes := Eval vm_compute in bs "+html".
Definition sfx_txt    : bytes := Eval vm_compute in bs "+txt".
Definition unsupported_media_type : bytes := Eval vm_compute in bs "unsupported_media_type".

(* the five media types the documentation of the four functions lists *)
Definition supported : list bytes := [app_json; app_xml; app_gob; text_html; text_plain].

(* which encoder / decoder object is returned *)
Inductive kind := KJson | KXml | KGob | KText.

(* what the documentation promises for each of the five types (specification side) *)
Definition kind_of_supported (c : bytes) : kind :=
  if beq c app_xml then KXml else if beq c app_gob then KGob
  else if beq c text_html || beq c text_plain then KText else KJson.

(* the switch of ResponseEncoder's ContentTypeKey branch *)
Definition enc_classify (mt : bytes) : kind :=
  if beq mt app_json || has_suffix sfx_json mt then KJson
  else if beq mt app_xml || has_suffix sfx_xml mt then KXml
  else if beq mt app_gob || has_suffix sfx_gob mt then KGob
  else if beq mt text_html || beq mt text_plain || has_suffix sfx_html mt || has_suffix sfx_txt mt then KText
  else KJson.

(* the switch of ResponseDecoder (a second, separately written switch in the code) *)
Definition dec_classify (ct : bytes) : kind :=
  if beq ct app_json || has_suffix sfx_json ct then KJson
  else if beq ct app_xml || has_suffix sfx_xml ct then KXml
  else if beq ct app_gob || has_suffix sfx_gob ct then KGob
  else if beq ct text_html || beq ct text_plain || has_suffix sfx_html ct || has_suffix sfx_txt ct then KText
  else KJson.

(* negotiate(a) inside ResponseEncoder: exact matches only; nil encoder = None *)
Definition negotiate (a : bytes) : option (kind * bytes) :=
  if beq a [] || beq a app_json then Some (KJson, app_json)
  else if beq a app_xml then Some (KXml, app_xml)
  else if beq a app_gob then Some (KGob, app_gob)
  else if beq a text_html || beq a text_plain then Some (KText, a)
  else None.

(* SetContentType(w, ct): the new value of the Content-Type header, given the value h
   that w.Header().Get returns before the call ([] = not set) *)
Definition set_content_type (h ct : bytes) : bytes :=
  if beq h [] then ct
  else if negb (beq ct app_json) && negb (beq ct app_xml) then ct
  else let sfx := if beq ct app_xml then sfx_xml else sfx_json in
       if has_suffix sfx (media_part h) then h                       (* agreeing suffix: untouched *)
       else strip_last_plus (media_part h) ++ sfx ++ from_semi h.    (* other suffix replaced, parameters kept *)

(* request side results *)
Inductive rdec := RDec (k : kind) | RUnsupported (ct : bytes).

(* *goa.ServiceError fields that decide the status *)
Record err := { ename : bytes; etimeout : bool; etemporary : bool; efault : bool }.

(* goa.UnsupportedMediaTypeError(ct) = PermanentError("unsupported_media_type", ...) *)
Definition unsupported_error (ct : bytes) : err :=
  {| ename := unsupported_media_type; etimeout := false; etemporary := false; efault := false |}.

(* ErrorResponse.StatusCode *)
Definition http_status (e : err) : N :=
  if beq (ename e) unsupported_media_type then 415
  else if efault e then 500
  else if etimeout e then (if etemporary e then 504 else 408)
  else if etemporary e then 503
  else 400.

(* values handed to Encode / shapes of the pointer handed to Decode *)
Inductive value := VStruct (id : N) | VString (s : bytes) | VStrPtr (s : bytes) | VBytes (b : bytes).
Inductive shape := SStruct | SString | SBytes.

Definition shape_of (v : value) : shape :=
  match v with VStruct _ => SStruct | VString _ | VStrPtr _ => SString | VBytes _ => SBytes end.
(* what a decoder can hand back: a *string is recovered as its string *)
Definition deref (v : value) : value := match v with VStrPtr s => VString s | _ => v end.
Definition is_struct (v : value) : bool := match v with VStruct _ => true | _ => false end.

(* textEncoder.Encode: string, *string, []byte are written verbatim, anything else is an error *)
Definition text_encode (v : value) : option bytes :=
  match v with
  | VString s | VStrPtr s => Some s
  | VBytes b => Some b
  | VStruct _ => None
  end.

(* textDecoder.Decode: *string and *[]byte receive the whole body, anything else is an error *)
Definition text_decode (sh : shape) (body : bytes) : option value :=
  match sh with
  | SString => Some (VString body)
  | SBytes => Some (VBytes body)
  | SStruct => None
  end.

Section Oracle.
  (* mime.ParseMediaType: Some mt when err == nil *)
  Variable pmt : bytes -> option bytes.
  (* the media type string returned together with a non-nil error *)
  Variable pmt_err_mt : bytes -> bytes.

  (* `if mediaType, _, err := mime.ParseMediaType(ct); err == nil { ct = mediaType }` *)
  Definition norm (s : bytes) : bytes := match pmt s with Some m => m | None => s end.

  (* ResponseEncoder(ctx, w): accept / ct are the context values ([] = absent or ""),
     preset is the Content-Type header already on w. Result: the encoder (None = the
     nil Encoder the code returns when the designed content type does not parse) and the
     Content-Type header after the call. *)
  Definition response_encoder (accept ct preset : bytes) : option kind * bytes :=
    if negb (beq ct []) then
      match pmt ct with
      | Some mt => (Some (enc_classify mt), set_content_type preset mt)
      | None => (None, set_content_type preset (pmt_err_mt ct))
      end
    else
      let r := match negotiate accept with
               | Some r => Some r
               | None => match pmt accept with Some mt => negotiate mt | None => None end
               end in
      let '(k, mt) := match r with Some r => r | None => (KJson, app_json) end in  (* negotiate("") *)
      (Some k, set_content_type preset mt).

  (* ResponseDecoder(resp): which decoder, given the Content-Type header *)
  Definition response_decoder (hdr : bytes) : kind :=
    if beq hdr [] then KJson else dec_classify (norm hdr).

  (* RequestDecoder(r) *)
  Definition request_decoder (hdr : bytes) : rdec :=
    let ct := if beq hdr [] then app_json else norm hdr in
    if beq ct app_json then RDec KJson
    else if beq ct app_gob then RDec KGob
    else if beq ct app_xml then RDec KXml
    else if beq ct text_html || beq ct text_plain then RDec KText
    else RUnsupported ct.

  (* RequestEncoder(r): the header after the call; the encoder is always JSON *)
  Definition request_encoder_header (preset : bytes) : bytes :=
    if beq preset [] then app_json else preset.
  Definition request_encoder_kind : kind := KJson.
End Oracle.

Section Codecs.
  (* encoding/json, encoding/xml, encoding/gob as oracles *)
  Variable cenc : kind -> value -> option bytes.
  Variable cdec : kind -> shape -> bytes -> option value.

  Definition encode (k : kind) (v : value) : option bytes :=
    match k with KText => text_encode v | _ => cenc k v end.
  Definition decode (k : kind) (sh : shape) (body : bytes) : option value :=
    match k with KText => text_decode sh body | _ => cdec k sh body end.

  (* Decode on what RequestDecoder returned *)
  Definition request_decode (d : rdec) (sh : shape) (body : bytes) : value + err :=
    match d with
    | RUnsupported ct => inr (unsupported_error ct)
    | RDec k => match decode k sh body with
                | Some v => inl v
                | None => inr {| ename := bs "decode_payload"; etimeout := false; etemporary := false; efault := false |}
                end
    end.

  (* the codecs decode what they encoded *)
  Definition codec_roundtrip : Prop :=
    forall k v b, k <> KText -> cenc k v = Some b -> cdec k (shape_of v) b = Some (deref v).
End Codecs.

(* ---- http.ResponseWriter, as far as status and Content-Type are concerned: headers are
        frozen by the first WriteHeader (or the first Write, which implies WriteHeader(200));
        what is set afterwards never reaches the client ---- *)
Record writer := { live : bytes;                  (* w.Header().Get("Content-Type") *)
                   sent : option (N * bytes) }.   (* status and Content-Type at the freeze *)
Definition w_new (preset : bytes) : writer := {| live := preset; sent := None |}.
Definition w_set_live (h : bytes) (w : writer) : writer := {| live := h; sent := sent w |}.
Definition w_write_header (st : N) (w : writer) : writer :=
  match sent w with
  | Some _ => w
  | None => {| live := live w; sent := Some (st, live w) |}
  end.
Definition w_write (w : writer) : writer := w_write_header 200 w.
(* what the client reads; a writer that froze without a Content-Type fills one in by itself
   (net/http sniffs the body; the recorder leaves it empty): [sniff] *)
Definition wire (sniff : bytes) (w : writer) : option (N * bytes) :=
  match sent w with
  | Some (st, h) => Some (st, if beq h [] then sniff else h)
  | None => None
  end.

(* errors handed to goahttp.ErrorEncoder: a ServiceError (possibly wrapped) or anything else,
   which NewErrorResponse turns into a fault *)
Inductive goerr := EService (e : err) | EPlain.
Definition fault_name : bytes := Eval vm_compute in bs "fault".
Definition error_response (g : goerr) : err :=
  match g with
  | EService e => e
  | EPlain => {| ename := fault_name; etimeout := false; etemporary := false; efault := true |}
  end.

Section Send.
  Variable pmt : bytes -> option bytes.
  Variable pmt_err_mt : bytes -> bytes.
  Variable cenc : kind -> value -> option bytes.

  (* the sequence of the generated response encoders and of goahttp.ErrorEncoder:
       enc := encoder(ctx, w); w.WriteHeader(status); enc.Encode(v)
     Result: encoder, body written (None: nil encoder or Encode error), writer afterwards *)
  Definition send (accept ct : bytes) (w : writer) (st : N) (v : value) : option kind * option bytes * writer :=
    let '(k, h) := response_encoder pmt pmt_err_mt accept ct (live w) in
    let w1 := w_write_header st (w_set_live h w) in
    match k with
    | None => (None, None, w1)
    | Some k' => match encode cenc k' v with
                 | Some b => (k, Some b, w_write w1)
                 | None => (k, None, w1)
                 end
    end.

  (* the same three steps with the status written first *)
  Definition send_status_first (accept ct : bytes) (w : writer) (st : N) (v : value) : option kind * option bytes * writer :=
    let w0 := w_write_header st w in
    let '(k, h) := response_encoder pmt pmt_err_mt accept ct (live w0) in
    let w1 := w_set_live h w0 in
    match k with
    | None => (None, None, w1)
    | Some k' => match encode cenc k' v with
                 | Some b => (k, Some b, w_write w1)
                 | None => (k, None, w1)
                 end
    end.

  (* goahttp.ErrorEncoder(encoder, nil)(ctx, w, err): the ErrorResponse is a struct *)
  Definition error_encoder (accept ct : bytes) (w : writer) (g : goerr) : option kind * option bytes * writer :=
    send accept ct w (http_status (error_response g)) (VStruct 0).

  (* the default muxer's NotFound handler (http/mux.go): Accept from the request, no designed
     type, nothing pre-set; enc := ResponseEncoder(ctx, w); w.WriteHeader(404);
     enc.Encode(NewErrorResponse(...)) with the Encode error discarded *)
  Definition mux_not_found (accept : bytes) : option kind * option bytes * writer :=
    send accept [] (w_new []) 404 (VStruct 0).
End Send.

(* ---- hypotheses on the parser oracle under which the round-trip theorems are stated;
        the harness checks each of them on every answer of the real parser it logs ---- *)
(* parsing a media type the parser itself returned does not change it *)
Definition parser_stable (pmt : bytes -> option bytes) : Prop :=
  forall s m, pmt s = Some m -> norm pmt m = m.
(* the five supported literals are not rewritten by the parser *)
Definition parser_fixes_supported (pmt : bytes -> option bytes) : Prop :=
  forall c, In c supported -> norm pmt c = c.
(* the media type is decided by what stands in front of the first ';' (blanks before the ';'
   do not count) and keeps a +json / +xml suffix standing there *)
Definition parser_keeps_suffix (pmt : bytes -> option bytes) : Prop :=
  forall b ws p m, contains_semicolon b = false -> forallb is_sp_tab ws = true ->
    (p = [] \/ exists r, p = 59 :: r) ->
    (pmt (b ++ sfx_json ++ ws ++ p) = Some m -> has_suffix sfx_json m = true) /\
    (pmt (b ++ sfx_xml ++ ws ++ p) = Some m -> has_suffix sfx_xml m = true).
(* a header field value made of visible ASCII, SP and TAB; for other bytes (CR, LF, U+00A0 ...)
   Go's parser trims more "white space" in front of the ';' than SetContentType does *)
Definition field_safe (h : bytes) : bool :=
  forallb (fun c => (N.leb 32 c && N.ltb c 127) || N.eqb c 9) h.
(* such a value with parameters that parses still parses once SetContentType has put the suffix in *)
Definition parser_accepts_suffixed (pmt : bytes -> option bytes) : Prop :=
  forall h m, field_safe h = true -> contains_semicolon h = true -> pmt h = Some m ->
    pmt (set_content_type h app_json) <> None /\ pmt (set_content_type h app_xml) <> None.

(* the hypothesis on a pre-set response header: nothing to say when the encoder is gob/text
   (SetContentType overwrites); otherwise absent, or without parameters (any '+' suffix is
   fine: an agreeing one is kept, another one replaced), or with parameters and a field-safe
   value the parser accepts. What stays outside: a pre-set value with a ';' that is not a
   media type at all. *)
Definition preset_ok (pmt : bytes -> option bytes) (k : kind) (preset : bytes) : Prop :=
  match k with
  | KGob | KText => True
  | _ => preset = []
         \/ contains_semicolon preset = false
         \/ (field_safe preset = true /\ pmt preset <> None)
  end.

(* ---- Go's mime.ParseMediaType, media type part (mime/mediatype.go): base, _, _ :=
        strings.Cut(v, ";"); mediatype = strings.TrimSpace(strings.ToLower(base));
        checkMediaTypeDisposition(mediatype). Bytewise (ASCII) model; the parameter parser
        (consumeMediaParam loop, RFC 2231 continuations, duplicate detection) stays an oracle
        [params_ok] that sees the text from the first ';' on. ---- *)
Definition is_ws (c : N) : bool :=     (* unicode.IsSpace on ASCII *)
  N.eqb c 32 || N.eqb c 9 || N.eqb c 10 || N.eqb c 11 || N.eqb c 12 || N.eqb c 13.
Definition lower (c : N) : N := if N.leb 65 c && N.leb c 90 then c + 32 else c.
Fixpoint trim_left_ws (s : bytes) : bytes :=
  match s with
  | [] => []
  | c :: r => if is_ws c then trim_left_ws r else s
  end.
Fixpoint trim_right_ws (s : bytes) : bytes :=
  match s with
  | [] => []
  | c :: r => match trim_right_ws r with
              | [] => if is_ws c then [] else [c]
              | r' => c :: r'
              end
  end.
Definition trim_space (s : bytes) : bytes := trim_left_ws (trim_right_ws s).

(* isTokenChar: above 0x20, below 0x7f, not a tspecial: parentheses, angle brackets, at,
   comma, semicolon, colon, backslash, double quote, slash, square brackets, question mark, equals *)
Definition is_tspecial (c : N) : bool :=
  existsb (N.eqb c) [40; 41; 60; 62; 64; 44; 59; 58; 92; 34; 47; 91; 93; 63; 61].
Definition is_token_char (c : N) : bool := N.ltb 32 c && N.ltb c 127 && negb (is_tspecial c).

(* consumeToken: the longest prefix of token characters and the rest *)
Fixpoint consume_token (s : bytes) : bytes * bytes :=
  match s with
  | [] => ([], [])
  | c :: r => if is_token_char c then let '(t, rest) := consume_token r in (c :: t, rest) else ([], s)
  end.

(* checkMediaTypeDisposition(s) == nil *)
Definition media_type_ok (s : bytes) : bool :=
  let '(typ, rest) := consume_token s in
  if beq typ [] then false
  else match rest with
       | [] => true
       | c :: rest' =>
         if N.eqb c 47 then
           let '(sub, rest'') := consume_token rest' in
           negb (beq sub []) && beq rest'' []
         else false
       end.

Definition go_media_type (base : bytes) : option bytes :=
  let m := trim_space (map lower base) in
  if media_type_ok m then Some m else None.

(* ParseMediaType with err == nil *)
Definition std_pmt (params_ok : bytes -> bool) (v : bytes) : option bytes :=
  match go_media_type (before_semi v) with
  | None => None
  | Some m => if beq (from_semi v) [] || params_ok (from_semi v) then Some m else None
  end.
