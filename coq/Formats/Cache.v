(* C17 — ValidatePattern and its process-wide cache of compiled patterns
   (pkg/validation.go: knownPatterns behind knownPatternsLock, an RWMutex) as a
   small-step concurrent system. Each thread executes a list of calls
   ValidatePattern(_, v, p); one call is the instruction sequence

     RLock; r,ok := cache[p]; RUnlock; if !ok { r = compile p; Lock; cache[p] = r; Unlock };
     verdict := matches r v

   A schedule is an arbitrary list of thread identifiers; a scheduled thread that
   cannot move (lock not available, nothing left to do, unknown identifier) leaves
   the state unchanged. compile and matches are parameters. Definitions only. *)
From Coq Require Export List Bool Arith.
Export ListNotations.

Inductive pc := PRLock | PRead | PRUnlock | PTest | PCompile | PLock | PWrite | PUnlock | PMatch.

Section Cache.
  Variables (P V R : Type).
  Variable P_eqb : P -> P -> bool.
  Variable compile : P -> R.
  Variable matches : R -> V -> bool.

  Record thread := {
    todo : list (P * V);              (* calls still to make; the head is the call in progress *)
    at_pc : pc;
    loc : option R;                   (* the local variable r (None: not found / not set) *)
    done : list (P * V * bool)        (* completed calls with their verdicts, latest first *)
  }.

  Record state := {
    cache : P -> option R;
    readers : nat;                    (* RWMutex: number of read holders *)
    writer : option nat;              (* RWMutex: the write holder *)
    threads : list thread
  }.

  Definition upd_cache (c : P -> option R) (p : P) (r : R) : P -> option R :=
    fun q => if P_eqb q p then Some r else c q.

  Fixpoint set_nth {A} (l : list A) (i : nat) (x : A) : list A :=
    match l, i with
    | [], _ => []
    | _ :: r, O => x :: r
    | a :: r, S i' => a :: set_nth r i' x
    end.

  Definition with_pc (th : thread) (k : pc) : thread :=
    {| todo := todo th; at_pc := k; loc := loc th; done := done th |}.
  Definition with_loc (th : thread) (k : pc) (l : option R) : thread :=
    {| todo := todo th; at_pc := k; loc := l; done := done th |}.

  (* one move of thread t, running call (p, v); None when t is blocked *)
  Definition move (t : nat) (st : state) (th : thread) (p : P) (v : V) : option (state * thread) :=
    match at_pc th with
    | PRLock =>
        match writer st with
        | None => Some ({| cache := cache st; readers := S (readers st); writer := None; threads := threads st |},
                        with_pc th PRead)
        | Some _ => None
        end
    | PRead => Some (st, with_loc th PRUnlock (cache st p))
    | PRUnlock => Some ({| cache := cache st; readers := pred (readers st); writer := writer st; threads := threads st |},
                        with_pc th PTest)
    | PTest => Some (st, with_pc th (match loc th with Some _ => PMatch | None => PCompile end))
    | PCompile => Some (st, with_loc th PLock (Some (compile p)))
    | PLock =>
        match writer st, readers st with
        | None, O => Some ({| cache := cache st; readers := O; writer := Some t; threads := threads st |},
                           with_pc th PWrite)
        | _, _ => None
        end
    | PWrite =>
        match loc th with
        | Some r => Some ({| cache := upd_cache (cache st) p r; readers := readers st; writer := writer st;
                             threads := threads st |}, with_pc th PUnlock)
        | None => None
        end
    | PUnlock => Some ({| cache := cache st; readers := readers st; writer := None; threads := threads st |},
                       with_pc th PMatch)
    | PMatch =>
        match loc th with
        | Some r => Some (st, {| todo := tl (todo th); at_pc := PRLock; loc := None;
                                 done := (p, v, matches r v) :: done th |})
        | None => None
        end
    end.

  Definition step (t : nat) (st : state) : state :=
    match nth_error (threads st) t with
    | None => st
    | Some th =>
        match todo th with
        | [] => st
        | (p, v) :: _ =>
            match move t st th p v with
            | None => st
            | Some (st', th') =>
                {| cache := cache st'; readers := readers st'; writer := writer st';
                   threads := set_nth (threads st') t th' |}
            end
        end
    end.

  Definition run (sched : list nat) (st : state) : state := fold_left (fun s t => step t s) sched st.

  Definition new_thread (calls : list (P * V)) : thread :=
    {| todo := calls; at_pc := PRLock; loc := None; done := [] |}.

  (* the process starts with whatever the cache holds after earlier use *)
  Definition init (c : P -> option R) (calls : list (list (P * V))) : state :=
    {| cache := c; readers := O; writer := None; threads := map new_thread calls |}.

  Definition cache_sound (c : P -> option R) : Prop := forall p r, c p = Some r -> r = compile p.

  Definition verdict (p : P) (v : V) : bool := matches (compile p) v.

  (* between RLock and RUnlock / between Lock and Unlock *)
  Definition in_rsec (th : thread) : bool :=
    match at_pc th with PRead | PRUnlock => true | _ => false end.
  Definition in_wsec (th : thread) : bool :=
    match at_pc th with PWrite | PUnlock => true | _ => false end.

  Fixpoint count {A} (f : A -> bool) (l : list A) : nat :=
    match l with [] => O | x :: r => (if f x then 1 else 0) + count f r end.

  (* the calls a thread was given: completed ones (oldest first) then the rest *)
  Definition calls_of (th : thread) : list (P * V) := rev (map fst (done th)) ++ todo th.
End Cache.

Arguments todo {P V R}. Arguments at_pc {P V R}. Arguments loc {P V R}. Arguments done {P V R}.
Arguments cache {P V R}. Arguments readers {P V R}. Arguments writer {P V R}. Arguments threads {P V R}.
Arguments step {P V R}. Arguments run {P V R}. Arguments init {P V R}. Arguments new_thread {P V R}.
Arguments cache_sound {P R}. Arguments verdict {P V R}. Arguments in_rsec {P V R}. Arguments in_wsec {P V R}.
Arguments move {P V R}. Arguments upd_cache {P R}. Arguments calls_of {P V R}. Arguments with_pc {P V R}. Arguments with_loc {P V R}.
