(* C17 — net.ParseIP as far as the ip / ipv4 / ipv6 formats need it, mirrored from
   net/netip (Go 1.23): ParseAddr dispatches on the first '.', ':' or '%' of the
   string; parseIPv4Fields is the byte loop below. Only the IPv6 text parser stays an
   oracle, and it is consulted only on strings whose first such byte is ':'.
   Definitions only. *)
From Formats Require Import Regex FormatModel.
Open Scope N_scope.

Inductive ip_kind := KV4 | KV6 | KNone.

(* netip.ParseAddr: the first '.', ':' or '%' decides *)
Fixpoint dispatch (s : word) : ip_kind :=
  match s with
  | [] => KNone
  | c :: r => if c =? 46 then KV4 else if c =? 58 then KV6 else if c =? 37 then KNone else dispatch r
  end.

(* netip.parseIPv4Fields: val, digLen (digits in the current octet), pos (octets done) *)
Fixpoint v4_loop (s : word) (val digLen pos : N) : bool :=
  match s with
  | [] => 3 <=? pos                                     (* pos < 3: address too short *)
  | c :: r =>
      if is_digit c then
        if (digLen =? 1) && (val =? 0) then false       (* octet with leading zero *)
        else if 255 <? val * 10 + (c - 48) then false   (* value > 255 *)
        else v4_loop r (val * 10 + (c - 48)) (digLen + 1) pos
      else if c =? 46 then
        if (digLen =? 0) || (match r with [] => true | _ => false end) then false   (* .1.2.3  1..2.3  1.2.3. *)
        else if pos =? 3 then false                     (* 1.2.3.4.5 *)
        else v4_loop r 0 0 (pos + 1)
      else false                                        (* unexpected character *)
  end.

Definition parse_v4 (s : word) : bool := v4_loop s 0 0 0.

Section IP.
  Variable parse_v6 : word -> bool.     (* netip.parseIPv6 succeeded and the address has no zone *)

  Definition parse_ip_model (s : word) : bool :=
    match dispatch s with KV4 => parse_v4 s | KV6 => parse_v6 s | KNone => false end.

  (* the three formats as goa decides them, with ParseIP modelled *)
  Definition ipm (s : word) : bool := ip parse_ip_model s.
  Definition ipv4m (s : word) : bool := ipv4 parse_ip_model s.
  Definition ipv6m (s : word) : bool := ipv6 parse_ip_model s.
End IP.

(* canonical text of an IPv4 address *)
Definition render_quad (a b c d : N) : word :=
  dec a ++ [46] ++ dec b ++ [46] ++ dec c ++ [46] ++ dec d.
