(* Correspondence glue: the cases the harness observed on the real code, evaluated
   on the model by vm_compute. Each function returns the indexes of the cases on
   which model and implementation disagree. *)
From Formats Require Import Regex FormatModel IPModel Cache.
Open Scope nat_scope.

Definition mkb (b : bool) (r : re) (e : bool) : branch := {| bol := b; body := r; eol := e |}.
Definition rep (r : re) (lo hi : nat) : re := Rep r lo (Some hi).
Definition repmin (r : re) (lo : nat) : re := Rep r lo None.

(* pattern stream: (index, pattern as syntax tree, pattern text given to goa, value,
   ValidatePattern returned nil). 2i+1: the model prints the tree differently from
   the text goa was given; 2i: the verified matcher and goa disagree. *)
Definition pattern_mismatches (cs : list (N * top * word * word * bool)) : list N :=
  flat_map (fun c => match c with (i, t, text, v, obs) =>
    (if word_eqb (pr_top t) text then [] else [2 * i + 1]%N) ++
    (if Bool.eqb (accepts t v) obs then [] else [2 * i]%N) end) cs.

(* format stream: the answers of the standard-library parsers on the same input
   are data of the case (oracles); (index, format, input, answers, ValidateFormat
   returned nil) *)
Record answers := ans {
  a_ip : bool; a_rfc3339 : bool; a_mail : bool; a_uri : bool; a_mac : bool; a_cidr : bool;
  a_regexp : bool; a_json : bool; a_rfc1123 : bool }.

Definition model_format (f : format) (s : word) (a : answers) : bool :=
  (* net.ParseIP is modelled (IPModel.v); its observed answer is used as the IPv6 text
     parser's answer, i.e. only when the first of . : % in the input is a colon *)
  validate_format (parse_ip_model (fun _ => a_ip a)) (fun _ => a_rfc3339 a) (fun _ => a_mail a) (fun _ => a_uri a)
                  (fun _ => a_mac a) (fun _ => a_cidr a) (fun _ => a_regexp a) (fun _ => a_json a)
                  (fun _ => a_rfc1123 a) f s.

Definition format_mismatches (cs : list (N * format * word * answers * bool)) : list N :=
  flat_map (fun c => match c with (i, f, s, a, obs) =>
    if Bool.eqb (model_format f s a) obs then [] else [i] end) cs.

(* histories: a pool of patterns, per thread the calls (pattern number, value) in
   program order, a schedule, and the verdicts each goroutine observed in order *)
Definition hist_model (pool : list top) (calls : list (list (nat * word))) (sched : list nat)
  : option (list (list bool)) :=
  let st := run Nat.eqb (fun i => search_re (nth i pool [])) matchb sched (init (fun _ => None) calls) in
  if forallb (fun th => match todo th with [] => true | _ => false end) (threads st)
  then Some (map (fun th => rev (map snd (done th))) (threads st))
  else None.

Definition verdicts_eq_dec (a b : option (list (list bool))) : {a = b} + {a <> b}.
Proof. decide equality. apply list_eq_dec. apply list_eq_dec. apply bool_dec. Defined.

Definition history_mismatches
  (cs : list (N * list top * list (list (nat * word)) * list nat * list (list bool))) : list N :=
  flat_map (fun c => match c with (i, pool, calls, sched, obs) =>
    if verdicts_eq_dec (hist_model pool calls sched) (Some obs) then [] else [i] end) cs.
