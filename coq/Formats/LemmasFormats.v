(* Proofs about the format recognisers. *)
From Formats Require Import Regex LemmasRegex FormatModel.
From Coq Require Import ZArith Lia ZifyBool ZifyNat ZifyN.
Open Scope N_scope.

Ltac Zify.zify_post_hook ::= Z.div_mod_to_equations.

(* ---------- bytes ---------- *)

Lemma is_digit_iff b : is_digit b = true <-> 48 <= b <= 57.
Proof. unfold is_digit, Regex.between. lia. Qed.

Lemma digit_render a : a < 10 -> is_digit (48 + a) = true /\ dval (48 + a) = a.
Proof. intros H. unfold is_digit, Regex.between, dval. lia. Qed.

(* ---------- date ---------- *)

Lemma date_fields_ok_iff y m d :
  date_fields_ok y m d = true <-> 1 <= m <= 12 /\ 1 <= d <= days_in_month y m.
Proof. unfold date_fields_ok. lia. Qed.

Lemma accept_render_date y m d :
  y < 10000 -> m < 100 -> d < 100 ->
  accept_date (render_date y m d) = date_fields_ok y m d.
Proof.
  intros Hy Hm Hd. unfold render_date, render4, render2. cbn [app].
  unfold accept_date.
  assert (A1 : y / 1000 < 10) by lia. assert (A2 : (y / 100) mod 10 < 10) by lia.
  assert (A3 : (y / 10) mod 10 < 10) by lia. assert (A4 : y mod 10 < 10) by lia.
  assert (B1 : m / 10 < 10) by lia. assert (B2 : m mod 10 < 10) by lia.
  assert (C1 : d / 10 < 10) by lia. assert (C2 : d mod 10 < 10) by lia.
  destruct (digit_render _ A1) as [D1 V1]. destruct (digit_render _ A2) as [D2 V2].
  destruct (digit_render _ A3) as [D3 V3]. destruct (digit_render _ A4) as [D4 V4].
  destruct (digit_render _ B1) as [D5 V5]. destruct (digit_render _ B2) as [D6 V6].
  destruct (digit_render _ C1) as [D7 V7]. destruct (digit_render _ C2) as [D8 V8].
  cbn [forallb]. rewrite D1, D2, D3, D4, D5, D6, D7, D8, V1, V2, V3, V4, V5, V6, V7, V8.
  rewrite N.eqb_refl. cbn [andb].
  f_equal; lia.
Qed.

Lemma date_accept_iff_l y m d :
  y < 10000 -> m < 100 -> d < 100 ->
  (accept_date (render_date y m d) = true <-> 1 <= m <= 12 /\ 1 <= d <= days_in_month y m).
Proof. intros. rewrite accept_render_date by assumption. apply date_fields_ok_iff. Qed.

Lemma accept_date_length s : accept_date s = true -> length s = 10%nat.
Proof.
  do 11 (destruct s as [|? s]; try discriminate). reflexivity.
Qed.

(* exactness: every accepted string is the rendering of a valid calendar date *)
Lemma render2_digits a b : a < 10 -> b < 10 -> render2 (a * 10 + b) = [48 + a; 48 + b].
Proof. intros. unfold render2. f_equal; [|f_equal]; lia. Qed.

Lemma render4_digits a b c e :
  a < 10 -> b < 10 -> c < 10 -> e < 10 ->
  render4 (a * 1000 + b * 100 + c * 10 + e) = [48 + a; 48 + b; 48 + c; 48 + e].
Proof. intros. unfold render4. repeat f_equal; lia. Qed.

Lemma digit_inv b : is_digit b = true -> dval b < 10 /\ b = 48 + dval b.
Proof. unfold is_digit, Regex.between, dval. lia. Qed.

Lemma accept_date_exact_l s :
  accept_date s = true <->
  exists y m d, y < 10000 /\ 1 <= m <= 12 /\ 1 <= d <= days_in_month y m /\ s = render_date y m d.
Proof.
  split.
  - intros H. pose proof (accept_date_length _ H) as L.
    destruct s as [|y1 [|y2 [|y3 [|y4 [|s1 [|m1 [|m2 [|s2 [|d1 [|d2 [|x s]]]]]]]]]]]; try discriminate. clear L.
    unfold accept_date in H. cbn [forallb] in H.
    repeat match goal with X : _ && _ = true |- _ => apply andb_prop in X; destruct X end.
    repeat match goal with X : is_digit _ = true |- _ => apply digit_inv in X; destruct X as [? ?] end.
    match goal with X : date_fields_ok _ _ _ = true |- _ => apply date_fields_ok_iff in X; destruct X as [Hm Hd] end.
    repeat match goal with X : (_ =? 45) = true |- _ => apply N.eqb_eq in X end.
    exists (dval y1 * 1000 + dval y2 * 100 + dval y3 * 10 + dval y4), (dval m1 * 10 + dval m2), (dval d1 * 10 + dval d2).
    split; [lia|]. split; [exact Hm|]. split; [exact Hd|].
    unfold render_date. rewrite render4_digits, !render2_digits by assumption. cbn [app].
    subst s1 s2. repeat f_equal; assumption.
  - intros (y & m & d & Hy & Hm & Hd & ->).
    assert (days_in_month y m <= 31).
    { unfold days_in_month. destruct (m =? 2); [destruct (leap y); lia|].
      destruct ((m =? 4) || (m =? 6) || (m =? 9) || (m =? 11)); lia. }
    apply date_accept_iff_l; [lia|lia|lia|tauto].
Qed.

(* corruptions of a rendered date *)
Lemma date_wrong_length_l s : length s <> 10%nat -> accept_date s = false.
Proof.
  intros H. destruct (accept_date s) eqn:E; [|reflexivity]. apply accept_date_length in E. congruence.
Qed.

Lemma set_at_length i b s : length (set_at i b s) = length s.
Proof. revert i; induction s as [|a s IH]; intros [|i]; simpl; auto. Qed.

Definition date_digit_pos : list nat := [0; 1; 2; 3; 5; 6; 8; 9]%nat.

Lemma date_nondigit_l s i b :
  In i date_digit_pos -> is_digit b = false -> accept_date (set_at i b s) = false.
Proof.
  intros Hi Hb. destruct (accept_date (set_at i b s)) eqn:E; [|reflexivity]. exfalso.
  pose proof (accept_date_length _ E) as L.
  assert (Ls : length s = 10%nat) by (rewrite set_at_length in L; exact L).
  do 11 (destruct s as [|? s]; try discriminate). clear L Ls.
  simpl in Hi.
  repeat (destruct Hi as [<-|Hi]; [cbn [set_at] in E; unfold accept_date in E; cbn [forallb] in E;
                                   rewrite Hb in E; rewrite ?andb_false_r in E; cbn [andb] in E; discriminate|]).
  destruct Hi.
Qed.

Lemma date_separator_l s i b :
  In i [4; 7]%nat -> b <> 45 -> accept_date (set_at i b s) = false.
Proof.
  intros Hi Hb. destruct (accept_date (set_at i b s)) eqn:E; [|reflexivity]. exfalso.
  pose proof (accept_date_length _ E) as L.
  assert (Ls : length s = 10%nat) by (rewrite set_at_length in L; exact L).
  do 11 (destruct s as [|? s]; try discriminate). clear L Ls.
  apply N.eqb_neq in Hb. simpl in Hi.
  repeat (destruct Hi as [<-|Hi]; [cbn [set_at] in E; unfold accept_date in E;
                                   rewrite Hb in E; rewrite ?andb_false_r in E; cbn [andb] in E; discriminate|]).
  destruct Hi.
Qed.

Lemma drop_at_length s i : (i < length s)%nat -> length (drop_at i s) = pred (length s).
Proof.
  revert i; induction s as [|a s IH]; intros [|i]; simpl; try lia. intros H.
  rewrite IH by lia. destruct s; simpl in *; lia.
Qed.

Lemma date_dropped_byte_l y m d i :
  (i < 10)%nat -> accept_date (drop_at i (render_date y m d)) = false.
Proof.
  intros Hi. apply date_wrong_length_l. rewrite drop_at_length; simpl; lia.
Qed.

(* ---------- ip / ipv4 / ipv6 ---------- *)

Lemma ip_xor_l (parse_ip : word -> bool) s :
  ip parse_ip s = ipv4 parse_ip s || ipv6 parse_ip s /\ ipv4 parse_ip s && ipv6 parse_ip s = false.
Proof. unfold ip, ipv4, ipv6. destruct (parse_ip s), (dotted_quad s); split; reflexivity. Qed.

(* a fully anchored single-branch pattern accepts exactly the language of its body *)
Lemma anchored_accepts r s :
  accepts [ {| bol := true; body := r; eol := true |} ] s = true <-> lang r s.
Proof.
  rewrite accepts_iff_search_l. unfold search_spec. split.
  - intros (br & [<-|[]] & pre & mid & post & -> & Hm & Hb & He). simpl in *.
    rewrite (Hb eq_refl), (He eq_refl), app_nil_r. exact Hm.
  - intros H. eexists. split; [left; reflexivity|]. exists [], s, []. simpl. rewrite app_nil_r. tauto.
Qed.

Definition quad_byte (c : N) : bool := is_digit c || (c =? 46).

Lemma dotted_quad_alphabet_l s : dotted_quad s = true -> Forall (fun c => quad_byte c = true) s.
Proof.
  unfold dotted_quad, ipv4_top. rewrite anchored_accepts. intros H.
  apply lang_alphabet in H. eapply Forall_impl; [|exact H]. intros c Hc.
  unfold ipv4_body, quad_field, c_09 in Hc. cbn [may_use] in Hc.
  unfold class_mem in Hc. rewrite !xorb_false_l in Hc. cbn [existsb] in Hc.
  unfold item_mem, Regex.between in Hc.
  unfold quad_byte, is_digit, Regex.between. lia.
Qed.

Lemma ipv4_foreign_byte_l (parse_ip : word -> bool) s c :
  In c s -> quad_byte c = false -> ipv4 parse_ip s = false.
Proof.
  intros Hin Hc. unfold ipv4. destruct (dotted_quad s) eqn:E; [|apply andb_false_r].
  apply dotted_quad_alphabet_l in E. rewrite Forall_forall in E. specialize (E _ Hin). congruence.
Qed.

(* ---------- host names ---------- *)

Lemma pow_class neg items n w :
  pow (lang (Class neg items)) n w <->
  length w = n /\ Forall (fun c => class_mem neg items c = true) w.
Proof.
  revert w; induction n as [|n IH]; intros w; simpl.
  - split; [intros ->; split; [reflexivity|constructor]|]. intros [H _]. now destruct w.
  - split.
    + intros (a & b & -> & (c & -> & Hc) & Hb). apply IH in Hb as [Hl Hf]. simpl. split; [congruence|].
      constructor; assumption.
    + intros [Hl Hf]. destruct w as [|c w]; [discriminate|]. inversion Hf as [|? ? Hc Hw]; subst.
      exists [c], w. split; [reflexivity|]. split; [exists c; tauto|]. apply IH. split; [simpl in Hl; congruence|assumption].
Qed.

Lemma alnum_class c : class_mem false [CNamed Alnum] c = is_alnum c.
Proof. unfold class_mem. rewrite xorb_false_l. simpl. apply orb_false_r. Qed.

Lemma alpha_class c : class_mem false [CNamed Alpha] c = is_alpha c.
Proof. unfold class_mem. rewrite xorb_false_l. simpl. apply orb_false_r. Qed.

Lemma ldh_class c : class_mem false [CNamed Alnum; CR 45 45] c = is_ldh c.
Proof.
  unfold class_mem, is_ldh. rewrite xorb_false_l. simpl. unfold Regex.between. rewrite orb_false_r.
  f_equal. lia.
Qed.

Lemma dashes_spec f s :
  dashes_then_alnum f s = true <->
  exists w b post, s = w ++ b :: post /\ (length w <= f)%nat /\ Forall (fun c => is_ldh c = true) w /\ is_alnum b = true.
Proof.
  split.
  - revert f; induction s as [|c r IH]; intros f; simpl; [intros H; discriminate H|].
    destruct (is_alnum c) eqn:Ea.
    + intros _. exists [], c, r. repeat split; [simpl; lia|constructor|assumption].
    + destruct (c =? 45) eqn:Ec; [|intros H; discriminate H]. destruct f as [|f]; [intros H; discriminate H|].
      intros H. destruct (IH _ H) as (w & b & post & -> & Hl & Hf & Hb).
      exists (c :: w), b, post. repeat split; [simpl; lia| |assumption].
      constructor; [unfold is_ldh; rewrite Ec; apply orb_true_r|assumption].
  - intros (w & b & post & -> & Hl & Hf & Hb). revert f Hl; induction w as [|c w IH]; intros f Hl; simpl.
    + now rewrite Hb.
    + inversion Hf as [|? ? Hc Hw]; subst. destruct (is_alnum c) eqn:Ea; [reflexivity|].
      unfold is_ldh in Hc. rewrite Ea in Hc. simpl in Hc. rewrite Hc.
      destruct f as [|f]; [simpl in Hl; lia|]. apply IH; [assumption|simpl in Hl; lia].
Qed.

Lemma hostname_lang_iff s :
  accept_hostname s = true <-> starts_ok s = true \/ ends_alpha s = true.
Proof.
  unfold accept_hostname. rewrite accepts_iff_search_l. unfold search_spec, hostname_top. split.
  - intros (br & [<-|[<-|[]]] & pre & mid & post & -> & Hm & Hb & He);
      cbn [bol body eol] in Hm, Hb, He; unfold c_alnum, c_alpha, c_alnum_dash in Hm; cbn [lang] in Hm.
    + left. rewrite (Hb eq_refl). cbn [app].
      destruct Hm as (x & y & -> & (a & -> & Ha) & w & z & -> & (n & _ & Hn & Hp) & (b & -> & Hbb)).
      rewrite alnum_class in Ha, Hbb. apply pow_class in Hp as [Hl Hf]. cbn [le_opt] in Hn.
      cbn [app starts_ok]. rewrite Ha. cbn [andb]. apply dashes_spec. exists w, b, post. rewrite <- app_assoc. cbn [app].
      split; [reflexivity|]. split; [lia|]. split; [|assumption].
      eapply Forall_impl; [|exact Hf]. intros c Hc. cbv beta in Hc. now rewrite ldh_class in Hc.
    + right. rewrite (He eq_refl), app_nil_r. destruct Hm as (b & -> & Hbb). rewrite alpha_class in Hbb.
      unfold ends_alpha. now rewrite last_last.
  - intros [H|H].
    + destruct s as [|a s']; [discriminate H|]. cbn [starts_ok] in H. apply andb_prop in H as [Ha Hd].
      apply dashes_spec in Hd as (w & b & post & -> & Hl & Hf & Hb).
      eexists. split; [left; reflexivity|]. exists [], (a :: w ++ [b]), post. cbn [bol body eol app].
      split; [rewrite <- app_assoc; reflexivity|]. split; [|split; [reflexivity|intros E; discriminate E]].
      unfold c_alnum, c_alnum_dash. cbn [lang].
      exists [a], (w ++ [b]). split; [reflexivity|]. split.
      * exists a. rewrite alnum_class. tauto.
      * exists w, [b]. split; [reflexivity|]. split.
        -- exists (length w). split; [lia|]. split; [cbn [le_opt]; lia|]. apply pow_class. split; [reflexivity|].
           eapply Forall_impl; [|exact Hf]. intros c Hc. cbv beta. now rewrite ldh_class.
        -- exists b. rewrite alnum_class. tauto.
    + unfold ends_alpha in H. assert (Hne : s <> []) by (intros ->; discriminate H).
      eexists. split; [right; left; reflexivity|]. exists (removelast s), [last s 0], []. cbn [bol body eol].
      split; [rewrite app_nil_r; now apply app_removelast_last|]. split; [|split; [intros E; discriminate E|reflexivity]].
      unfold c_alpha. cbn [lang]. exists (last s 0). rewrite alpha_class. tauto.
Qed.

Lemma hostname_char_l s : accept_hostname s = starts_ok s || ends_alpha s.
Proof.
  pose proof (hostname_lang_iff s) as H.
  destruct (accept_hostname s), (starts_ok s), (ends_alpha s); simpl; try reflexivity;
    (destruct H as [H1 H2]; try (destruct (H1 eq_refl); discriminate); try (now apply H2; auto)).
Qed.

Lemma join_dots_cons l ls : exists tail, join_dots (l :: ls) = l ++ tail.
Proof. destruct ls as [|l' ls]; [exists []; simpl; now rewrite app_nil_r|]. eexists. reflexivity. Qed.

Lemma dashes_label r tail f :
  r <> [] -> Forall (fun c => is_ldh c = true) r -> is_alnum (last r 0) = true -> (length r <= S f)%nat ->
  dashes_then_alnum f (r ++ tail) = true.
Proof.
  revert f; induction r as [|c r IH]; intros f Hne Hf Hlast Hlen; [congruence|].
  inversion Hf as [|? ? Hc Hr]; subst. simpl. destruct (is_alnum c) eqn:Ea; [reflexivity|].
  unfold is_ldh in Hc. rewrite Ea in Hc. simpl in Hc. rewrite Hc.
  destruct r as [|c' r'].
  - simpl in Hlast. congruence.
  - destruct f as [|f]; [simpl in Hlen; lia|]. apply IH; try assumption; [discriminate|simpl in *; lia].
Qed.

Lemma hostname_generated_l l ls :
  label_ok l = true -> Forall (fun x => label_ok x = true) ls ->
  (2 <= length l)%nat \/ ends_alpha (join_dots (l :: ls)) = true ->
  accept_hostname (join_dots (l :: ls)) = true.
Proof.
  intros Hl _ [H2|He]; rewrite hostname_char_l; [|rewrite He; apply orb_true_r].
  destruct (join_dots_cons l ls) as [tail ->].
  destruct l as [|a r]; [discriminate|]. unfold label_ok in Hl.
  repeat (apply andb_prop in Hl; destruct Hl as [Hl ?]).
  destruct r as [|c r]; [simpl in H2; lia|].
  assert (Ha : is_alnum a = true) by (unfold is_alnum; rewrite Hl; apply orb_true_r).
  change ((a :: c :: r) ++ tail) with (a :: ((c :: r) ++ tail)). cbn [starts_ok]. rewrite Ha. cbn [andb].
  rewrite dashes_label; [reflexivity|discriminate| | |].
  - apply Forall_forall. intros x Hx. rewrite forallb_forall in H1. now apply H1.
  - assumption.
  - apply Nat.leb_le in H. simpl in *. lia.
Qed.

(* ---------- uuid ---------- *)

Lemma uuid_wrong_length_l s :
  length s <> 36%nat -> length s <> 45%nat -> length s <> 38%nat -> length s <> 32%nat ->
  accept_uuid s = false.
Proof.
  intros H1 H2 H3 H4. unfold accept_uuid.
  apply Nat.eqb_neq in H1, H2, H3, H4. now rewrite H1, H2, H3, H4.
Qed.

Lemma nth_set_at_eq i b s : (i < length s)%nat -> nth i (set_at i b s) 0 = b.
Proof. revert i; induction s as [|a s IH]; intros [|i]; simpl; try lia; auto. intros H. apply IH. lia. Qed.

Lemma forallb_false_of {A} (f : A -> bool) l x : In x l -> f x = false -> forallb f l = false.
Proof.
  intros Hin Hx. destruct (forallb f l) eqn:E; [|reflexivity].
  rewrite forallb_forall in E. rewrite (E _ Hin) in Hx. discriminate.
Qed.

Lemma hex_pos_lt i : In i uuid_hex_pos -> (i < 36)%nat.
Proof. unfold uuid_hex_pos. simpl. intros H. repeat (destruct H as [<-|H]; [lia|]). destruct H. Qed.

Lemma dash_pos_lt i : In i uuid_dash_pos -> (i < 36)%nat.
Proof. unfold uuid_dash_pos. simpl. intros H. repeat (destruct H as [<-|H]; [lia|]). destruct H. Qed.

Lemma uuid_nonhex_l s i b :
  length s = 36%nat -> In i uuid_hex_pos -> is_xdigit b = false -> accept_uuid (set_at i b s) = false.
Proof.
  intros Hl Hi Hb. unfold accept_uuid. rewrite set_at_length, Hl. cbn [Nat.eqb].
  unfold uuid36_body. rewrite (forallb_false_of _ _ i Hi); [now rewrite andb_false_r|].
  unfold byte_at. rewrite nth_set_at_eq; [assumption|]. rewrite Hl. now apply hex_pos_lt.
Qed.

Lemma uuid_bad_dash_l s i b :
  length s = 36%nat -> In i uuid_dash_pos -> b <> 45 -> accept_uuid (set_at i b s) = false.
Proof.
  intros Hl Hi Hb. unfold accept_uuid. rewrite set_at_length, Hl. cbn [Nat.eqb].
  unfold uuid36_body. rewrite (forallb_false_of _ _ i Hi); [reflexivity|].
  unfold byte_at. rewrite nth_set_at_eq; [now apply N.eqb_neq|]. rewrite Hl. now apply dash_pos_lt.
Qed.

Lemma uuid36_body_app u x : length u = 36%nat -> uuid36_body (u ++ x) = uuid36_body u.
Proof.
  intros Hl. unfold uuid36_body, byte_at.
  assert (E : forall i, (i < 36)%nat -> nth i (u ++ x) 0 = nth i u 0) by (intros i Hi; apply app_nth1; lia).
  assert (F1 : forall f : N -> bool, forallb (fun i => f (nth i (u ++ x) 0)) uuid_dash_pos =
                                     forallb (fun i => f (nth i u 0)) uuid_dash_pos).
  { intros f. apply eq_true_iff_eq. rewrite !forallb_forall.
    split; intros H i Hi; specialize (H i Hi); [rewrite <- E|rewrite E]; auto using dash_pos_lt. }
  assert (F2 : forall f : N -> bool, forallb (fun i => f (nth i (u ++ x) 0)) uuid_hex_pos =
                                     forallb (fun i => f (nth i u 0)) uuid_hex_pos).
  { intros f. apply eq_true_iff_eq. rewrite !forallb_forall.
    split; intros H i Hi; specialize (H i Hi); [rewrite <- E|rewrite E]; auto using hex_pos_lt. }
  rewrite (F1 (fun c => c =? 45)), (F2 is_xdigit), E by lia. reflexivity.
Qed.

(* the 38-byte form: the first and last byte must be the braces *)
Lemma uuid_braces_l u b1 b2 :
  length u = 36%nat -> accept_uuid (b1 :: u ++ [b2]) = (b1 =? 123) && (b2 =? 125) && accept_uuid u.
Proof.
  intros Hl. unfold accept_uuid. cbn [length]. rewrite app_length, Hl. cbn [length Nat.add Nat.eqb skipn].
  rewrite (uuid36_body_app u [b2] Hl). unfold byte_at at 1 2. cbn [nth].
  rewrite app_nth2 by lia. rewrite Hl. cbn [Nat.sub nth]. reflexivity.
Qed.

(* every string of the generator's domain is accepted, in each of the four forms *)
Definition uuid36_shape (s : word) : Prop :=
  length s = 36%nat /\ (forall i, In i uuid_dash_pos -> byte_at s i = 45) /\
  (forall i, In i uuid_hex_pos -> is_xdigit (byte_at s i) = true) /\ variant_ok (byte_at s 19) = true.

Lemma uuid36_shape_body s : uuid36_shape s -> uuid36_body s = true.
Proof.
  intros (Hl & Hd & Hh & Hv). unfold uuid36_body. rewrite Hv, andb_true_r. apply andb_true_intro. split.
  - apply forallb_forall. intros i Hi. apply N.eqb_eq. now apply Hd.
  - apply forallb_forall. intros i Hi. now apply Hh.
Qed.

Lemma uuid_generated_l s :
  uuid36_shape s ->
  accept_uuid s = true /\ accept_uuid (123 :: s ++ [125]) = true /\
  forall p, length p = 9%nat -> map to_lower p = urn_prefix -> accept_uuid (p ++ s) = true.
Proof.
  intros Hs. pose proof (uuid36_shape_body _ Hs) as Hb. destruct Hs as (Hl & _).
  assert (H0 : accept_uuid s = true) by (unfold accept_uuid; rewrite Hl; exact Hb).
  split; [exact H0|]. split; [rewrite uuid_braces_l by exact Hl; rewrite H0; reflexivity|].
  intros p Hp Hu. unfold accept_uuid. rewrite app_length, Hp, Hl. cbn [Nat.add Nat.eqb].
  rewrite <- Hp at 1. rewrite firstn_app, firstn_all, Nat.sub_diag. cbn [firstn]. rewrite app_nil_r, Hu.
  rewrite <- Hp. rewrite skipn_app, skipn_all, Nat.sub_diag. cbn [skipn app].
  rewrite Hb. unfold word_eqb. destruct (list_eq_dec N.eq_dec urn_prefix urn_prefix); [reflexivity|congruence].
Qed.

Lemma uuid_raw_generated_l h :
  length h = 32%nat -> Forall (fun c => is_xdigit c = true) h -> variant_ok (byte_at h 16) = true ->
  accept_uuid h = true.
Proof.
  intros Hl Hf Hv. unfold accept_uuid. rewrite Hl. cbn [Nat.eqb]. rewrite Hv, andb_true_r.
  apply forallb_forall. now apply Forall_forall.
Qed.

(* ---------- witnesses of the recorded findings ---------- *)

(* exa!mple.com *)
Lemma hostname_corruption_refuted_l :
  exists l1 l2 i b, label_ok l1 = true /\ label_ok l2 = true /\ is_ldh b = false /\ b <> 46 /\
    (i < length (join_dots [l1; l2]))%nat /\
    accept_hostname (set_at i b (join_dots [l1; l2])) = true.
Proof.
  exists [101;120;97;109;112;108;101], [99;111;109], 3%nat, 33.
  split; [vm_compute; reflexivity|]. split; [vm_compute; reflexivity|]. split; [vm_compute; reflexivity|].
  split; [discriminate|]. split; [simpl; lia|vm_compute; reflexivity].
Qed.

(* a.b9 *)
Lemma hostname_generated_refuted_l :
  exists l1 l2, label_ok l1 = true /\ label_ok l2 = true /\ accept_hostname (join_dots [l1; l2]) = false.
Proof. exists [97], [98; 57]. repeat split; vm_compute; reflexivity. Qed.

(* a brace replaced by anything else: X6ba7b810-9dad-11d1-80b4-00c04fd430c8Y *)
Lemma uuid_brace_corruption_l u b1 b2 :
  length u = 36%nat -> b1 <> 123 \/ b2 <> 125 -> accept_uuid (b1 :: u ++ [b2]) = false.
Proof.
  intros Hl H. rewrite uuid_braces_l by exact Hl.
  destruct H as [H|H]; apply N.eqb_neq in H; rewrite H; [reflexivity|rewrite andb_false_r; reflexivity].
Qed.

Lemma uuid_brace_form_inner_l u i b b1 b2 :
  length u = 36%nat ->
  (In i uuid_hex_pos /\ is_xdigit b = false) \/ (In i uuid_dash_pos /\ b <> 45) ->
  accept_uuid (b1 :: set_at i b u ++ [b2]) = false.
Proof.
  intros Hl H. rewrite uuid_braces_l by (rewrite set_at_length; exact Hl).
  destruct H as [[Hi Hb]|[Hi Hb]]; [rewrite uuid_nonhex_l|rewrite uuid_bad_dash_l]; auto using andb_false_r.
Qed.

Lemma hostname_partial_l s : starts_ok s = false -> ends_alpha s = false -> accept_hostname s = false.
Proof. intros H1 H2. rewrite (hostname_char_l s), H1, H2. reflexivity. Qed.

Lemma uuid_partial_l u i b :
  length u = 36%nat ->
  (In i uuid_hex_pos /\ is_xdigit b = false) \/ (In i uuid_dash_pos /\ b <> 45) ->
  accept_uuid (set_at i b u) = false /\ forall b1 b2, accept_uuid (b1 :: set_at i b u ++ [b2]) = false.
Proof.
  intros Hl H. split; [|intros b1 b2; now apply uuid_brace_form_inner_l].
  destruct H as [[Hi Hb]|[Hi Hb]]; [now apply uuid_nonhex_l|now apply uuid_bad_dash_l].
Qed.
