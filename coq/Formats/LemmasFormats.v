(* Proofs about the format recognisers. *)
From Formats Require Import Regex LemmasRegex FormatModel.
From Coq Require Import ZArith Lia ZifyBool ZifyNat ZifyN.
Open Scope N_scope.

Ltac Zify.zify_post_hook ::= Z.div_mod_to_equations.

(* ---------- bytes ---------- *)

Lemma is_digit_iff b : is_digit b = true <-> 48 <= b <= 57.
Proof. unfold is_digit, Regex.between. lia. Qed.

Lemma digit_render a : a < 10 -> is_digit (48 + a) = true /\ dval (48 + a) = a.
Proof. intros H. unfold is_digit, Regex.between, dval. lia. Qed.

(* ---------- date ---------- *)

Lemma date_fields_ok_iff y m d :
  date_fields_ok y m d = true <-> 1 <= m <= 12 /\ 1 <= d <= days_in_month y m.
Proof. unfold date_fields_ok. lia. Qed.

Lemma accept_render_date y m d :
  y < 10000 -> m < 100 -> d < 100 ->
  accept_date (render_date y m d) = date_fields_ok y m d.
Proof.
  intros Hy Hm Hd. unfold render_date, render4, render2. cbn [app].
  unfold accept_date.
  assert (A1 : y / 1000 < 10) by lia. assert (A2 : (y / 100) mod 10 < 10) by lia.
  assert (A3 : (y / 10) mod 10 < 10) by lia. assert (A4 : y mod 10 < 10) by lia.
  assert (B1 : m / 10 < 10) by lia. assert (B2 : m mod 10 < 10) by lia.
  assert (C1 : d / 10 < 10) by lia. assert (C2 : d mod 10 < 10) by lia.
  destruct (digit_render _ A1) as [D1 V1]. destruct (digit_render _ A2) as [D2 V2].
  destruct (digit_render _ A3) as [D3 V3]. destruct (digit_render _ A4) as [D4 V4].
  destruct (digit_render _ B1) as [D5 V5]. destruct (digit_render _ B2) as [D6 V6].
  destruct (digit_render _ C1) as [D7 V7]. destruct (digit_render _ C2) as [D8 V8].
  cbn [forallb]. rewrite D1, D2, D3, D4, D5, D6, D7, D8, V1, V2, V3, V4, V5, V6, V7, V8.
  rewrite N.eqb_refl. cbn [andb].
  f_equal; lia.
Qed.

Lemma date_accept_iff_l y m d :
  y < 10000 -> m < 100 -> d < 100 ->
  (accept_date (render_date y m d) = true <-> 1 <= m <= 12 /\ 1 <= d <= days_in_month y m).
Proof. intros. rewrite accept_render_date by assumption. apply date_fields_ok_iff. Qed.

Lemma accept_date_length s : accept_date s = true -> length s = 10%nat.
Proof.
  do 11 (destruct s as [|? s]; try discriminate). reflexivity.
Qed.

(* exactness: every accepted string is the rendering of a valid calendar date *)
Lemma render2_digits a b : a < 10 -> b < 10 -> render2 (a * 10 + b) = [48 + a; 48 + b].
Proof. intros. unfold render2. f_equal; [|f_equal]; lia. Qed.

Lemma render4_digits a b c e :
  a < 10 -> b < 10 -> c < 10 -> e < 10 ->
  render4 (a * 1000 + b * 100 + c * 10 + e) = [48 + a; 48 + b; 48 + c; 48 + e].
Proof. intros. unfold render4. repeat f_equal; lia. Qed.

Lemma digit_inv b : is_digit b = true -> dval b < 10 /\ b = 48 + dval b.
Proof. unfold is_digit, Regex.between, dval. lia. Qed.

Lemma accept_date_exact_l s :
  accept_date s = true <->
  exists y m d, y < 10000 /\ 1 <= m <= 12 /\ 1 <= d <= days_in_month y m /\ s = render_date y m d.
Proof.
  split.
  - intros H. pose proof (accept_date_length _ H) as L.
    destruct s as [|y1 [|y2 [|y3 [|y4 [|s1 [|m1 [|m2 [|s2 [|d1 [|d2 [|x s]]]]]]]]]]]; try discriminate. clear L.
    unfold accept_date in H. cbn [forallb] in H.
    repeat match goal with X : _ && _ = true |- _ => apply andb_prop in X; destruct X end.
    repeat match goal with X : is_digit _ = true |- _ => apply digit_inv in X; destruct X as [? ?] end.
    match goal with X : date_fields_ok _ _ _ = true |- _ => apply date_fields_ok_iff in X; destruct X as [Hm Hd] end.
    repeat match goal with X : (_ =? 45) = true |- _ => apply N.eqb_eq in X end.
    exists (dval y1 * 1000 + dval y2 * 100 + dval y3 * 10 + dval y4), (dval m1 * 10 + dval m2), (dval d1 * 10 + dval d2).
    split; [lia|]. split; [exact Hm|]. split; [exact Hd|].
    unfold render_date. rewrite render4_digits, !render2_digits by assumption. cbn [app].
    subst s1 s2. repeat f_equal; assumption.
  - intros (y & m & d & Hy & Hm & Hd & ->).
    assert (days_in_month y m <= 31).
    { unfold days_in_month. destruct (m =? 2); [destruct (leap y); lia|].
      destruct ((m =? 4) || (m =? 6) || (m =? 9) || (m =? 11)); lia. }
    apply date_accept_iff_l; [lia|lia|lia|tauto].
Qed.

(* corruptions of a rendered date *)
Lemma date_wrong_length_l s : length s <> 10%nat -> accept_date s = false.
Proof.
  intros H. destruct (accept_date s) eqn:E; [|reflexivity]. apply accept_date_length in E. congruence.
Qed.

Lemma set_at_length i b s : length (set_at i b s) = length s.
Proof. revert i; induction s as [|a s IH]; intros [|i]; simpl; auto. Qed.

Definition date_digit_pos : list nat := [0; 1; 2; 3; 5; 6; 8; 9]%nat.

Lemma date_nondigit_l s i b :
  In i date_digit_pos -> is_digit b = false -> accept_date (set_at i b s) = false.
Proof.
  intros Hi Hb. destruct (accept_date (set_at i b s)) eqn:E; [|reflexivity]. exfalso.
  pose proof (accept_date_length _ E) as L.
  assert (Ls : length s = 10%nat) by (rewrite set_at_length in L; exact L).
  do 11 (destruct s as [|? s]; try discriminate). clear L Ls.
  simpl in Hi.
  repeat (destruct Hi as [<-|Hi]; [cbn [set_at] in E; unfold accept_date in E; cbn [forallb] in E;
                                   rewrite Hb in E; rewrite ?andb_false_r in E; cbn [andb] in E; discriminate|]).
  destruct Hi.
Qed.

Lemma date_separator_l s i b :
  In i [4; 7]%nat -> b <> 45 -> accept_date (set_at i b s) = false.
Proof.
  intros Hi Hb. destruct (accept_date (set_at i b s)) eqn:E; [|reflexivity]. exfalso.
  pose proof (accept_date_length _ E) as L.
  assert (Ls : length s = 10%nat) by (rewrite set_at_length in L; exact L).
  do 11 (destruct s as [|? s]; try discriminate). clear L Ls.
  apply N.eqb_neq in Hb. simpl in Hi.
  repeat (destruct Hi as [<-|Hi]; [cbn [set_at] in E; unfold accept_date in E;
                                   rewrite Hb in E; rewrite ?andb_false_r in E; cbn [andb] in E; discriminate|]).
  destruct Hi.
Qed.

Lemma drop_at_length s i : (i < length s)%nat -> length (drop_at i s) = pred (length s).
Proof.
  revert i; induction s as [|a s IH]; intros [|i]; simpl; try lia. intros H.
  rewrite IH by lia. destruct s; simpl in *; lia.
Qed.

Lemma date_dropped_byte_l y m d i :
  (i < 10)%nat -> accept_date (drop_at i (render_date y m d)) = false.
Proof.
  intros Hi. apply date_wrong_length_l. rewrite drop_at_length; simpl; lia.
Qed.

(* ---------- ip / ipv4 / ipv6 ---------- *)

Lemma ip_xor_l (parse_ip : word -> bool) s :
  ip parse_ip s = ipv4 parse_ip s || ipv6 parse_ip s /\ ipv4 parse_ip s && ipv6 parse_ip s = false.
Proof. unfold ip, ipv4, ipv6. destruct (parse_ip s), (dotted_quad s); split; reflexivity. Qed.

(* a fully anchored single-branch pattern accepts exactly the language of its body *)
Lemma anchored_accepts r s :
  accepts [ {| bol := true; body := r; eol := true |} ] s = true <-> lang r s.
Proof.
  rewrite accepts_iff_search_l. unfold search_spec. split.
  - intros (br & [<-|[]] & pre & mid & post & -> & Hm & Hb & He). simpl in *.
    rewrite (Hb eq_refl), (He eq_refl), app_nil_r. exact Hm.
  - intros H. eexists. split; [left; reflexivity|]. exists [], s, []. simpl. rewrite app_nil_r. tauto.
Qed.

Definition quad_byte (c : N) : bool := is_digit c || (c =? 46).

Lemma dotted_quad_alphabet_l s : dotted_quad s = true -> Forall (fun c => quad_byte c = true) s.
Proof.
  unfold dotted_quad, ipv4_top. rewrite anchored_accepts. intros H.
  apply lang_alphabet in H. eapply Forall_impl; [|exact H]. intros c Hc.
  unfold ipv4_body, quad_field, c_09 in Hc. cbn [may_use] in Hc.
  unfold class_mem in Hc. rewrite !xorb_false_l in Hc. cbn [existsb] in Hc.
  unfold item_mem, Regex.between in Hc.
  unfold quad_byte, is_digit, Regex.between. lia.
Qed.

Lemma ipv4_foreign_byte_l (parse_ip : word -> bool) s c :
  In c s -> quad_byte c = false -> ipv4 parse_ip s = false.
Proof.
  intros Hin Hc. unfold ipv4. destruct (dotted_quad s) eqn:E; [|apply andb_false_r].
  apply dotted_quad_alphabet_l in E. rewrite Forall_forall in E. specialize (E _ Hin). congruence.
Qed.
