(* Proofs about the modelled part of net.ParseIP and the ip / ipv4 / ipv6 formats. *)
From Formats Require Import Regex LemmasRegex FormatModel LemmasFormats IPModel.
From Coq Require Import ZArith Lia ZifyBool ZifyNat ZifyN.
Open Scope N_scope.

Ltac Zify.zify_post_hook ::= Z.div_mod_to_equations.

(* ---------- canonical decimals below 256 ---------- *)

Ltac leq := repeat (apply (f_equal2 (@cons N)); [lia|]); try reflexivity.

Lemma dec_cases n : n < 256 ->
  (n < 10 /\ dec n = [48 + n]) \/
  (10 <= n < 100 /\ dec n = [48 + n / 10; 48 + n mod 10]) \/
  (100 <= n /\ dec n = [48 + n / 100; 48 + (n / 10) mod 10; 48 + n mod 10]).
Proof.
  intros H. unfold dec.
  replace (1000 <=? n) with false by lia.
  destruct (100 <=? n) eqn:E1; destruct (10 <=? n) eqn:E2; try lia.
  - right; right. split; [lia|]. cbn [app]. leq.
  - right; left. split; [lia|]. cbn [app]. leq.
  - left. split; [lia|]. cbn [app]. leq.
Qed.

Lemma dec_1 d : d < 10 -> dec d = [48 + d].
Proof. intros H. destruct (dec_cases d) as [[_ E]|[[? _]|[? _]]]; try lia. exact E. Qed.

Lemma dec_2 d1 d2 : 1 <= d1 < 10 -> d2 < 10 -> dec (d1 * 10 + d2) = [48 + d1; 48 + d2].
Proof.
  intros H1 H2. destruct (dec_cases (d1 * 10 + d2)) as [[? _]|[[_ E]|[? _]]]; try lia.
  rewrite E. leq.
Qed.

Lemma dec_3 d1 d2 d3 :
  1 <= d1 < 10 -> d2 < 10 -> d3 < 10 -> (d1 * 10 + d2) * 10 + d3 < 256 ->
  dec ((d1 * 10 + d2) * 10 + d3) = [48 + d1; 48 + d2; 48 + d3].
Proof.
  intros H1 H2 H3 H. destruct (dec_cases _ H) as [[? _]|[[? _]|[_ E]]]; try lia.
  rewrite E. leq.
Qed.

Lemma dec_digits n : n < 256 -> Forall (fun c => is_digit c = true) (dec n) /\ (1 <= length (dec n) <= 3)%nat.
Proof.
  intros H. destruct (dec_cases n H) as [[? ->]|[[? ->]|[? ->]]]; (split; [|simpl; lia]);
    repeat constructor; unfold is_digit, Regex.between; lia.
Qed.

(* ---------- the byte loop ---------- *)

Lemma step_digit val dl pos d r :
  d < 10 -> (dl =? 1) && (val =? 0) = false -> val * 10 + d <= 255 ->
  v4_loop ((48 + d) :: r) val dl pos = v4_loop r (val * 10 + d) (dl + 1) pos.
Proof.
  intros Hd Hz Hv. cbn [v4_loop].
  replace (is_digit (48 + d)) with true by (unfold is_digit, Regex.between; lia).
  rewrite Hz. replace (48 + d - 48) with d by lia.
  replace (255 <? val * 10 + d) with false by lia. reflexivity.
Qed.

Lemma loop_dec n rest pos :
  n < 256 -> v4_loop (dec n ++ rest) 0 0 pos = v4_loop rest n (N.of_nat (length (dec n))) pos.
Proof.
  intros H. destruct (dec_cases n H) as [[H1 ->]|[[H1 ->]|[H1 ->]]]; cbn [app length].
  - rewrite step_digit by lia. f_equal; lia.
  - rewrite step_digit by lia. rewrite step_digit by lia. f_equal; lia.
  - rewrite step_digit by lia. rewrite step_digit by lia. rewrite step_digit by lia. f_equal; lia.
Qed.

Lemma step_dot n dl pos c r :
  dl <> 0 -> pos <> 3 -> v4_loop (46 :: c :: r) n dl pos = v4_loop (c :: r) 0 0 (pos + 1).
Proof.
  intros H1 H2. cbn [v4_loop]. change (is_digit 46) with false. cbn [N.eqb Pos.eqb].
  replace (dl =? 0) with false by lia. replace (pos =? 3) with false by lia. reflexivity.
Qed.

Lemma dec_cons n : n < 256 -> exists x l, dec n = x :: l.
Proof. intros H. destruct (dec_cases n H) as [[_ ->]|[[_ ->]|[_ ->]]]; eauto. Qed.

Lemma step_dot' n dl pos r :
  dl <> 0 -> pos <> 3 -> r <> [] -> v4_loop (46 :: r) n dl pos = v4_loop r 0 0 (pos + 1).
Proof. intros H1 H2 H3. destruct r as [|c r]; [congruence|]. now apply step_dot. Qed.

Lemma dec_app_ne n rest : n < 256 -> dec n ++ rest <> [].
Proof. intros H. destruct (dec_cons n H) as (x & l & ->). discriminate. Qed.

Lemma parse_v4_render a b c d :
  a < 256 -> b < 256 -> c < 256 -> d < 256 -> parse_v4 (render_quad a b c d) = true.
Proof.
  intros Ha Hb Hc Hd. unfold parse_v4, render_quad.
  pose proof (dec_digits a Ha) as [_ La]. pose proof (dec_digits b Hb) as [_ Lb]. pose proof (dec_digits c Hc) as [_ Lc].
  rewrite loop_dec by assumption. cbn [app].
  rewrite step_dot' by (try lia; now apply dec_app_ne).
  rewrite loop_dec by assumption.
  rewrite step_dot' by (try lia; now apply dec_app_ne).
  rewrite loop_dec by assumption.
  rewrite step_dot' by (try lia; destruct (dec_cons d Hd) as (x & l & ->); discriminate).
  rewrite <- (app_nil_r (dec d)). rewrite loop_dec by assumption. reflexivity.
Qed.

(* inversion of one step *)
Lemma loop_inv c r val dl pos :
  v4_loop (c :: r) val dl pos = true ->
  (exists d, d < 10 /\ c = 48 + d /\ (dl =? 1) && (val =? 0) = false /\ val * 10 + d <= 255 /\
             v4_loop r (val * 10 + d) (dl + 1) pos = true) \/
  (c = 46 /\ dl <> 0 /\ r <> [] /\ pos <> 3 /\ v4_loop r 0 0 (pos + 1) = true).
Proof.
  cbn [v4_loop]. destruct (is_digit c) eqn:Ed.
  - destruct ((dl =? 1) && (val =? 0)) eqn:Ez; [discriminate|].
    destruct (255 <? val * 10 + (c - 48)) eqn:Ev; [discriminate|]. intros H. left.
    exists (c - 48). unfold is_digit, Regex.between in Ed. repeat split; try lia; assumption.
  - destruct (c =? 46) eqn:Ec; [|discriminate].
    destruct ((dl =? 0) || match r with [] => true | _ :: _ => false end) eqn:E0; [discriminate|].
    destruct (pos =? 3) eqn:Ep; [discriminate|]. intros H. right.
    apply orb_false_elim in E0 as [E1 E2]. repeat split; try lia; try assumption.
    intros ->. discriminate.
Qed.

(* after the digits of one octet: end of input or a dot *)
Definition octet_end (tail : word) (pos : N) : Prop :=
  (tail = [] /\ pos = 3) \/
  (exists r, tail = 46 :: r /\ r <> [] /\ pos <> 3 /\ v4_loop r 0 0 (pos + 1) = true).

Lemma after_digits tail n dl pos :
  dl <> 0 -> pos <= 3 -> v4_loop tail n dl pos = true ->
  octet_end tail pos \/ exists d r, d < 10 /\ tail = (48 + d) :: r /\ (dl =? 1) && (n =? 0) = false /\
                                    n * 10 + d <= 255 /\ v4_loop r (n * 10 + d) (dl + 1) pos = true.
Proof.
  intros Hdl Hp H. destruct tail as [|c r].
  - left. left. cbn [v4_loop] in H. split; [reflexivity|lia].
  - destruct (loop_inv _ _ _ _ _ H) as [(d & Hd & -> & Hz & Hv & Hr)|(-> & _ & Hr & Hp3 & Hl)].
    + right. exists d, r. tauto.
    + left. right. exists r. tauto.
Qed.

Lemma octet_inv s pos :
  s <> [] -> pos <= 3 -> v4_loop s 0 0 pos = true ->
  exists n tail, n < 256 /\ s = dec n ++ tail /\ octet_end tail pos.
Proof.
  intros Hne Hp H. destruct s as [|c1 r1]; [congruence|].
  destruct (loop_inv _ _ _ _ _ H) as [(d1 & Hd1 & -> & _ & _ & H1)|(_ & Hdl & _)]; [|congruence].
  replace (0 * 10 + d1) with d1 in H1 by lia.
  destruct (after_digits r1 d1 (0 + 1) pos ltac:(lia) Hp H1) as [E|(d2 & r2 & Hd2 & -> & Hz2 & Hv2 & H2)].
  { exists d1, r1. rewrite dec_1 by assumption. repeat split; [lia|assumption]. }
  assert (Hd1' : 1 <= d1) by lia.
  destruct (after_digits r2 (d1 * 10 + d2) (0 + 1 + 1) pos ltac:(lia) Hp H2) as [E|(d3 & r3 & Hd3 & -> & Hz3 & Hv3 & H3)].
  { exists (d1 * 10 + d2), r2. rewrite dec_2 by lia. repeat split; [lia|assumption]. }
  destruct (after_digits r3 ((d1 * 10 + d2) * 10 + d3) (0 + 1 + 1 + 1) pos ltac:(lia) Hp H3) as [E|(d4 & r4 & Hd4 & -> & Hz4 & Hv4 & H4)].
  { exists ((d1 * 10 + d2) * 10 + d3), r3. rewrite dec_3 by lia. repeat split; [lia|assumption]. }
  lia.
Qed.

Lemma parse_v4_exact_l s :
  parse_v4 s = true <->
  exists a b c d, a < 256 /\ b < 256 /\ c < 256 /\ d < 256 /\ s = render_quad a b c d.
Proof.
  split.
  - unfold parse_v4. intros H.
    assert (Hne : s <> []) by (intros ->; discriminate H).
    destruct (octet_inv s 0 Hne ltac:(lia) H) as (a & t1 & Ha & -> & [[_ E]|(r1 & -> & Hr1 & _ & H1)]); [lia|].
    destruct (octet_inv r1 (0 + 1) Hr1 ltac:(lia) H1) as (b & t2 & Hb & -> & [[_ E]|(r2 & -> & Hr2 & _ & H2)]); [lia|].
    destruct (octet_inv r2 (0 + 1 + 1) Hr2 ltac:(lia) H2) as (c & t3 & Hc & -> & [[_ E]|(r3 & -> & Hr3 & _ & H3)]); [lia|].
    destruct (octet_inv r3 (0 + 1 + 1 + 1) Hr3 ltac:(lia) H3) as (d & t4 & Hd & -> & [[-> _]|(r4 & _ & _ & E & _)]); [|lia].
    exists a, b, c, d. unfold render_quad. rewrite app_nil_r. cbn [app]. tauto.
  - intros (a & b & c & d & Ha & Hb & Hc & Hd & ->). now apply parse_v4_render.
Qed.

(* ---------- dispatch and the dotted-quad expression ---------- *)

Lemma dispatch_digits l r : Forall (fun c => is_digit c = true) l -> dispatch (l ++ 46 :: r) = KV4.
Proof.
  induction 1 as [|c l Hc _ IH]; [reflexivity|]. cbn [app dispatch].
  unfold is_digit, Regex.between in Hc.
  replace (c =? 46) with false by lia. replace (c =? 58) with false by lia. replace (c =? 37) with false by lia.
  exact IH.
Qed.

Lemma dispatch_quad_bytes s : Forall (fun c => quad_byte c = true) s -> dispatch s <> KV6.
Proof.
  induction 1 as [|c l Hc _ IH]; [discriminate|]. cbn [dispatch].
  unfold quad_byte, is_digit, Regex.between in Hc.
  destruct (c =? 46) eqn:E; [discriminate|].
  replace (c =? 58) with false by lia. replace (c =? 37) with false by lia. exact IH.
Qed.

Lemma digit_class c : class_mem false [CR 48 57] c = is_digit c.
Proof. unfold class_mem. rewrite xorb_false_l. simpl. apply orb_false_r. Qed.

Lemma quad_field_dec n : n < 256 -> lang quad_field (dec n).
Proof.
  intros H. destruct (dec_digits n H) as [Hd Hl]. unfold quad_field, c_09. cbn [lang].
  exists (length (dec n)). split; [lia|]. split; [cbn [le_opt]; lia|]. apply pow_class. split; [reflexivity|].
  eapply Forall_impl; [|exact Hd]. intros c Hc. cbv beta. now rewrite digit_class.
Qed.

Lemma dotted_quad_render a b c d :
  a < 256 -> b < 256 -> c < 256 -> d < 256 -> dotted_quad (render_quad a b c d) = true.
Proof.
  intros Ha Hb Hc Hd. unfold dotted_quad, ipv4_top. apply anchored_accepts. unfold ipv4_body.
  assert (F : forall n, n < 256 -> lang (Cat quad_field (Byte 46)) (dec n ++ [46])).
  { intros n Hn. exists (dec n), [46]. split; [reflexivity|]. split; [now apply quad_field_dec|reflexivity]. }
  change (lang (Cat (Rep (Cat quad_field (Byte 46)) 3 (Some 3%nat)) quad_field) (render_quad a b c d))
    with (exists x y, render_quad a b c d = x ++ y /\ lang (Rep (Cat quad_field (Byte 46)) 3 (Some 3%nat)) x /\ lang quad_field y).
  exists ((dec a ++ [46]) ++ (dec b ++ [46]) ++ (dec c ++ [46]) ++ []), (dec d).
  split; [unfold render_quad; rewrite app_nil_r, <- !app_assoc; reflexivity|].
  split; [|now apply quad_field_dec].
  exists 3%nat. split; [lia|]. split; [cbn [le_opt]; lia|].
  exists (dec a ++ [46]), ((dec b ++ [46]) ++ (dec c ++ [46]) ++ []). split; [reflexivity|]. split; [now apply F|].
  exists (dec b ++ [46]), ((dec c ++ [46]) ++ []). split; [reflexivity|]. split; [now apply F|].
  exists (dec c ++ [46]), []. split; [reflexivity|]. split; [now apply F|reflexivity].
Qed.

Lemma dispatch_render a b c d : a < 256 -> dispatch (render_quad a b c d) = KV4.
Proof. intros Ha. unfold render_quad. cbn [app]. apply dispatch_digits. now apply dec_digits. Qed.

(* ---------- the formats ---------- *)

Lemma ipv4m_is_parse_v4_l (parse_v6 : word -> bool) s : ipv4m parse_v6 s = parse_v4 s.
Proof.
  unfold ipv4m, ipv4, parse_ip_model. destruct (parse_v4 s) eqn:E.
  - apply parse_v4_exact_l in E as (a & b & c & d & Ha & Hb & Hc & Hd & ->).
    rewrite dispatch_render by assumption. rewrite dotted_quad_render by assumption. reflexivity.
  - destruct (dotted_quad s) eqn:Q; [|apply andb_false_r].
    apply dotted_quad_alphabet_l, dispatch_quad_bytes in Q.
    destruct (dispatch s); try congruence; rewrite ?E; reflexivity.
Qed.

Lemma ipv4m_exact_l (parse_v6 : word -> bool) s :
  ipv4m parse_v6 s = true <->
  exists a b c d, a < 256 /\ b < 256 /\ c < 256 /\ d < 256 /\ s = render_quad a b c d.
Proof. rewrite ipv4m_is_parse_v4_l. apply parse_v4_exact_l. Qed.

Lemma ip_family_on_ipv4_l (parse_v6 : word -> bool) a b c d :
  a < 256 -> b < 256 -> c < 256 -> d < 256 ->
  ipm parse_v6 (render_quad a b c d) = true /\ ipv6m parse_v6 (render_quad a b c d) = false.
Proof.
  intros Ha Hb Hc Hd. unfold ipm, ipv6m, ip, ipv6, parse_ip_model.
  rewrite dispatch_render, parse_v4_render, dotted_quad_render by assumption. split; reflexivity.
Qed.

(* what is left to the IPv6 oracle: ipv6 accepts s exactly when the first of . : % in
   s is a colon and the IPv6 text parser accepts s *)
Lemma ipv6m_is_oracle_l (parse_v6 : word -> bool) s :
  ipv6m parse_v6 s = match dispatch s with KV6 => parse_v6 s | _ => false end.
Proof.
  unfold ipv6m, ipv6, parse_ip_model. destruct (dispatch s) eqn:D; try reflexivity.
  - destruct (parse_v4 s) eqn:E; [|reflexivity].
    apply parse_v4_exact_l in E as (a & b & c & d & Ha & Hb & Hc & Hd & ->).
    rewrite dotted_quad_render by assumption. reflexivity.
  - destruct (dotted_quad s) eqn:Q; [|apply andb_true_r].
    apply dotted_quad_alphabet_l, dispatch_quad_bytes in Q. congruence.
Qed.
