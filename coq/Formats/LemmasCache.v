(* Proofs about the pattern cache: under every schedule and any number of threads
   every completed call carries the verdict matches (compile p) v, the cache only
   ever maps p to compile p, calls complete in program order, and the RWMutex
   discipline keeps map writes exclusive. *)
From Formats Require Import Cache.
From Coq Require Import Lia.

Section Proofs.
  Variables (P V R : Type).
  Variable P_eqb : P -> P -> bool.
  Variable compile : P -> R.
  Variable matches : R -> V -> bool.
  Hypothesis P_eqb_eq : forall a b, P_eqb a b = true -> a = b.

  Notation thread := (thread P V R).
  Notation state := (state P V R).
  Notation step := (step P_eqb compile matches).
  Notation run := (run P_eqb compile matches).
  Notation move := (move P_eqb compile matches).
  Notation sound := (cache_sound compile).
  Notation verdict := (verdict compile matches).
  Notation calls_of := (@calls_of P V R).

  (* ---- lists ---- *)

  Lemma nth_error_set_nth_eq {A} (l : list A) i x y :
    nth_error l i = Some x -> nth_error (set_nth l i y) i = Some y.
  Proof.
    revert i; induction l as [|a l IH]; intros [|i]; simpl; try discriminate; auto.
  Qed.

  Lemma nth_error_set_nth_ne {A} (l : list A) i j y :
    i <> j -> nth_error (set_nth l i y) j = nth_error l j.
  Proof.
    revert i j; induction l as [|a l IH]; intros [|i] [|j] H; simpl; try reflexivity; try congruence.
    apply IH. congruence.
  Qed.

  Lemma nth_error_set_nth_inv {A} (l : list A) i j y z :
    nth_error (set_nth l i y) j = Some z ->
    (i = j /\ z = y /\ exists x, nth_error l i = Some x) \/ (i <> j /\ nth_error l j = Some z).
  Proof.
    intros H. destruct (Nat.eq_dec i j) as [->|Hne].
    - left. destruct (nth_error l j) as [x|] eqn:E.
      + rewrite (nth_error_set_nth_eq _ _ _ y E) in H. injection H as <-. eauto.
      + exfalso. revert j H E. induction l as [|a l IH]; intros [|j]; simpl; try discriminate; eauto.
    - right. split; [assumption|]. now rewrite nth_error_set_nth_ne in H.
  Qed.

  Lemma Forall_set_nth {A} (Q : A -> Prop) l i y : Forall Q l -> Q y -> Forall Q (set_nth l i y).
  Proof.
    intros HF Hy; revert i; induction HF as [|a l Ha HF IH]; intros [|i]; simpl; constructor; auto.
  Qed.

  Lemma map_set_nth_same {A B} (f : A -> B) l i x y :
    nth_error l i = Some x -> f y = f x -> map f (set_nth l i y) = map f l.
  Proof.
    revert i; induction l as [|a l IH]; intros [|i]; simpl; try discriminate.
    - intros [= ->] ->. reflexivity.
    - intros H E. f_equal. now apply IH.
  Qed.

  Lemma count_set_nth {A} (f : A -> bool) l i x y :
    nth_error l i = Some x ->
    count f (set_nth l i y) + (if f x then 1 else 0) = count f l + (if f y then 1 else 0).
  Proof.
    revert i; induction l as [|a l IH]; intros [|i]; simpl; try discriminate.
    - intros [= ->]. lia.
    - intros H. specialize (IH _ H). lia.
  Qed.

  Lemma count_ge1 {A} (f : A -> bool) l i x : nth_error l i = Some x -> f x = true -> 1 <= count f l.
  Proof.
    revert i; induction l as [|a l IH]; intros [|i]; simpl; try discriminate.
    - intros [= ->] ->. lia.
    - intros H E. specialize (IH _ H E). lia.
  Qed.

  Lemma count_ge2 {A} (f : A -> bool) l i j x y :
    i <> j -> nth_error l i = Some x -> nth_error l j = Some y -> f x = true -> f y = true -> 2 <= count f l.
  Proof.
    revert i j; induction l as [|a l IH]; intros [|i] [|j] Hne; simpl; try discriminate; try congruence.
    - intros [= ->] Hy -> Ey. pose proof (count_ge1 f l j y Hy Ey). lia.
    - intros Hx [= ->] Ex ->. pose proof (count_ge1 f l i x Hx Ex). lia.
    - intros Hx Hy Ex Ey. assert (i <> j) by congruence. specialize (IH i j H Hx Hy Ex Ey). lia.
  Qed.

  (* ---- verdicts ---- *)

  Definition tinv (th : thread) : Prop :=
    Forall (fun c => snd c = verdict (fst (fst c)) (snd (fst c))) (done th) /\
    match todo th with
    | [] => True
    | (p, _) :: _ =>
        match at_pc th with
        | PRLock | PRead | PCompile => True
        | PRUnlock | PTest => forall r, loc th = Some r -> r = compile p
        | PLock | PWrite | PUnlock | PMatch => loc th = Some (compile p)
        end
    end.

  Definition inv (st : state) : Prop := sound (cache st) /\ Forall tinv (threads st).

  Lemma upd_sound c p : sound c -> sound (upd_cache P_eqb c p (compile p)).
  Proof.
    intros Hc q r. unfold upd_cache. destruct (P_eqb q p) eqn:E.
    - intros [= <-]. apply P_eqb_eq in E. now subst.
    - apply Hc.
  Qed.

  Lemma move_inv t st th p v rest st' th' :
    sound (cache st) -> tinv th -> todo th = (p, v) :: rest ->
    move t st th p v = Some (st', th') ->
    sound (cache st') /\ tinv th' /\ threads st' = threads st /\ calls_of th' = calls_of th.
  Proof.
    intros Hc [Hd Hl] Et. rewrite Et in Hl. unfold move, calls_of, tinv.
    destruct (at_pc th) eqn:Epc.
    - destruct (writer st); [discriminate|]. intros [= <- <-]. simpl. rewrite Et.
      repeat split; assumption.
    - intros [= <- <-]. simpl. rewrite Et. repeat split; try assumption.
      intros r Hr. now apply Hc.
    - intros [= <- <-]. simpl. rewrite Et. repeat split; assumption.
    - intros [= <- <-]. simpl. rewrite Et.
      assert (Hloc : match (match loc th with Some _ => PMatch | None => PCompile end) with
                     | PRLock | PRead | PCompile => True
                     | PRUnlock | PTest => forall r, loc th = Some r -> r = compile p
                     | _ => loc th = Some (compile p) end).
      { destruct (loc th) as [r|] eqn:El; [|exact I]. f_equal. now apply Hl. }
      repeat split; assumption.
    - intros [= <- <-]. simpl. rewrite Et. repeat split; try assumption.
    - destruct (writer st); [discriminate|]. destruct (readers st); [|discriminate].
      intros [= <- <-]. simpl. rewrite Et. repeat split; assumption.
    - rewrite Hl. intros [= <- <-]. simpl. rewrite Et. repeat split; try assumption.
      now apply upd_sound.
    - intros [= <- <-]. simpl. rewrite Et. repeat split; assumption.
    - rewrite Hl. intros [= <- <-]. simpl. rewrite Et. simpl. repeat split; try assumption.
      + constructor; [reflexivity|assumption].
      + destruct rest as [|[q w] rest']; exact I.
      + rewrite <- app_assoc. reflexivity.
  Qed.

  Lemma step_inv t st :
    inv st -> inv (step t st) /\ map calls_of (threads (step t st)) = map calls_of (threads st).
  Proof.
    intros [Hc Ht]. unfold step.
    destruct (nth_error (threads st) t) as [th|] eqn:En; [|split; [split|]; auto].
    destruct (todo th) as [|[p v] rest] eqn:Et; [split; [split|]; auto|].
    destruct (move t st th p v) as [[st' th']|] eqn:Em; [|split; [split|]; auto].
    assert (Hth : tinv th) by (rewrite Forall_forall in Ht; apply Ht; eapply nth_error_In; eauto).
    destruct (move_inv _ _ _ _ _ _ _ _ Hc Hth Et Em) as (Hc' & Hth' & Eths & Ecalls).
    simpl. split; [split|].
    - exact Hc'.
    - apply Forall_set_nth; [rewrite Eths; exact Ht|exact Hth'].
    - rewrite Eths. eapply map_set_nth_same; eauto.
  Qed.

  Lemma run_inv sched : forall st,
    inv st -> inv (run sched st) /\ map calls_of (threads (run sched st)) = map calls_of (threads st).
  Proof.
    induction sched as [|t sched IH]; intros st Hi; simpl; [auto|].
    destruct (step_inv t st Hi) as [Hi' E']. destruct (IH _ Hi') as [Hi'' E'']. split; [assumption|congruence].
  Qed.

  Lemma init_inv c calls : sound c -> inv (init c calls).
  Proof.
    intros Hc. split; [exact Hc|]. simpl. apply Forall_forall. intros th Hin.
    apply in_map_iff in Hin as (cs & <- & _). split; simpl; [constructor|]. destruct cs as [|[p v] r]; exact I.
  Qed.

  Lemma init_calls c calls : map calls_of (threads (init c calls)) = calls.
  Proof. simpl. rewrite map_map. unfold calls_of. simpl. apply map_id. Qed.

  Theorem verdicts_l c calls sched :
    sound c ->
    let st := run sched (init c calls) in
    sound (cache st) /\
    forall t th, nth_error (threads st) t = Some th ->
      (forall p v b, In (p, v, b) (done th) -> b = matches (compile p) v) /\
      nth_error calls t = Some (rev (map fst (done th)) ++ todo th).
  Proof.
    intros Hc st. destruct (run_inv sched _ (init_inv c calls Hc)) as [[Hs Ht] Ec]. fold st in Hs, Ht, Ec.
    split; [exact Hs|]. intros t th En. split.
    - intros p v b Hin. rewrite Forall_forall in Ht. destruct (Ht th (nth_error_In _ _ En)) as [Hd _].
      rewrite Forall_forall in Hd. exact (Hd _ Hin).
    - rewrite init_calls in Ec. rewrite <- Ec. rewrite nth_error_map, En. reflexivity.
  Qed.

  Lemma independent_l c1 calls1 sched1 c2 calls2 sched2 t1 th1 t2 th2 p v b1 b2 :
    sound c1 -> sound c2 ->
    nth_error (threads (run sched1 (init c1 calls1))) t1 = Some th1 ->
    nth_error (threads (run sched2 (init c2 calls2))) t2 = Some th2 ->
    In (p, v, b1) (done th1) -> In (p, v, b2) (done th2) -> b1 = b2.
  Proof.
    intros H1 H2 E1 E2 I1 I2.
    destruct (verdicts_l c1 calls1 sched1 H1) as [_ A1]. destruct (verdicts_l c2 calls2 sched2 H2) as [_ A2].
    destruct (A1 _ _ E1) as [B1 _]. destruct (A2 _ _ E2) as [B2 _].
    rewrite (B1 _ _ _ I1), (B2 _ _ _ I2). reflexivity.
  Qed.

  (* ---- the lock discipline ---- *)

  Definition minv (st : state) : Prop :=
    readers st = count in_rsec (threads st) /\
    match writer st with
    | None => count in_wsec (threads st) = 0
    | Some t => readers st = 0 /\ count in_wsec (threads st) = 1 /\
                exists th, nth_error (threads st) t = Some th /\ in_wsec th = true
    end.

  Lemma step_minv t st : minv st -> minv (step t st).
  Proof.
    intros Hm. pose proof Hm as [Hr Hw]. unfold step.
    destruct (nth_error (threads st) t) as [th|] eqn:En; [|exact Hm].
    destruct (todo th) as [|[p v] rest] eqn:Et; [exact Hm|].
    pose proof (fun y => count_set_nth in_rsec (threads st) t th y En) as CR.
    pose proof (fun y => count_set_nth in_wsec (threads st) t th y En) as CW.
    pose proof (count_ge1 in_rsec (threads st) t th En) as GR.
    pose proof (count_ge1 in_wsec (threads st) t th En) as GW.
    assert (Hother : forall w th0 th', t <> w -> nth_error (threads st) w = Some th0 -> in_wsec th0 = true ->
              exists th1, nth_error (set_nth (threads st) t th') w = Some th1 /\ in_wsec th1 = true).
    { intros w th0 th' Hne En0 Hin0. exists th0. rewrite nth_error_set_nth_ne by assumption. tauto. }
    unfold move. unfold in_rsec, in_wsec in *.
    destruct (at_pc th) eqn:Epc.
    - destruct (writer st) eqn:Ew; [exact Hm|]. unfold minv, in_rsec, in_wsec; simpl.
      specialize (CR (with_pc th PRead)). specialize (CW (with_pc th PRead)).
      simpl in CR, CW. split; lia.
    - unfold minv, in_rsec, in_wsec; simpl.
      specialize (CR (with_loc th PRUnlock (cache st p))). specialize (CW (with_loc th PRUnlock (cache st p))).
      simpl in CR, CW. specialize (GR eq_refl).
      split; [lia|]. destruct (writer st) as [w|]; [|lia]. destruct Hw as (H0 & _). lia.
    - unfold minv, in_rsec, in_wsec; simpl.
      specialize (CR (with_pc th PTest)). specialize (CW (with_pc th PTest)).
      simpl in CR, CW. specialize (GR eq_refl).
      split; [lia|]. destruct (writer st) as [w|]; [|lia]. destruct Hw as (H0 & _). lia.
    - unfold minv, in_rsec, in_wsec; simpl.
      set (k := match loc th with Some _ => PMatch | None => PCompile end).
      assert (Hk : k = PMatch \/ k = PCompile) by (unfold k; destruct (loc th); tauto).
      specialize (CR (with_pc th k)). specialize (CW (with_pc th k)). simpl in CR, CW.
      split; [destruct Hk as [-> | ->]; lia|]. destruct (writer st) as [w|]; [|destruct Hk as [-> | ->]; lia].
      destruct Hw as (H0 & H1 & th0 & En0 & Hin0). split; [assumption|]. split; [destruct Hk as [-> | ->]; lia|].
      destruct (Nat.eq_dec t w) as [->|Hne]; [|eapply Hother; eauto].
      rewrite En in En0. injection En0 as <-. rewrite Epc in Hin0. discriminate.
    - unfold minv, in_rsec, in_wsec; simpl.
      specialize (CR (with_loc th PLock (Some (compile p)))). specialize (CW (with_loc th PLock (Some (compile p)))).
      simpl in CR, CW.
      split; [lia|]. destruct (writer st) as [w|]; [|lia].
      destruct Hw as (H0 & H1 & th0 & En0 & Hin0). split; [assumption|]. split; [lia|].
      destruct (Nat.eq_dec t w) as [->|Hne]; [|eapply Hother; eauto].
      rewrite En in En0. injection En0 as <-. rewrite Epc in Hin0. discriminate.
    - destruct (writer st) eqn:Ew; [exact Hm|].
      destruct (readers st) eqn:Erd; [|exact Hm].
      unfold minv, in_rsec, in_wsec; simpl.
      specialize (CR (with_pc th PWrite)). specialize (CW (with_pc th PWrite)).
      simpl in CR, CW.
      split; [lia|]. split; [reflexivity|]. split; [lia|].
      exists (with_pc th PWrite). split; [eapply nth_error_set_nth_eq; eauto|reflexivity].
    - destruct (loc th) as [r|]; [|exact Hm]. unfold minv, in_rsec, in_wsec; simpl.
      specialize (CR (with_pc th PUnlock)). specialize (CW (with_pc th PUnlock)).
      simpl in CR, CW. specialize (GW eq_refl).
      split; [lia|]. destruct (writer st) as [w|]; [|lia].
      destruct Hw as (H0 & H1 & th0 & En0 & Hin0). split; [assumption|]. split; [lia|].
      destruct (Nat.eq_dec t w) as [->|Hne]; [|eapply Hother; eauto].
      exists (with_pc th PUnlock). split; [eapply nth_error_set_nth_eq; eauto|reflexivity].
    - unfold minv, in_rsec, in_wsec; simpl.
      specialize (CR (with_pc th PMatch)). specialize (CW (with_pc th PMatch)).
      simpl in CR, CW. specialize (GW eq_refl).
      split; [lia|]. destruct (writer st) as [w|]; [|lia]. destruct Hw as (H0 & H1 & _). lia.
    - destruct (loc th) as [r|]; [|exact Hm]. unfold minv, in_rsec, in_wsec; simpl.
      set (th' := {| todo := tl (todo th); at_pc := PRLock; loc := None; done := (p, v, matches r v) :: done th |}).
      specialize (CR th'). specialize (CW th').
      simpl in CR, CW.
      split; [lia|]. destruct (writer st) as [w|]; [|lia].
      destruct Hw as (H0 & H1 & th0 & En0 & Hin0). split; [assumption|]. split; [lia|].
      destruct (Nat.eq_dec t w) as [->|Hne]; [|eapply Hother; eauto].
      rewrite En in En0. injection En0 as <-. rewrite Epc in Hin0. discriminate.
  Qed.

  Lemma run_minv sched : forall st, minv st -> minv (run sched st).
  Proof. induction sched as [|t s IH]; intros st H; simpl; [assumption|]. apply IH, step_minv, H. Qed.

  Lemma init_minv c calls : minv (init c calls).
  Proof.
    unfold minv; simpl. assert (H : forall f, (forall cs, f (new_thread cs) = false) ->
                                   count f (map (@new_thread P V R) calls) = 0).
    { intros f Hf. induction calls as [|cs l IH]; simpl; [reflexivity|]. rewrite Hf. exact IH. }
    split; [symmetry|]; apply H; reflexivity.
  Qed.

  Theorem exclusive_l c calls sched :
    let st := run sched (init c calls) in
    forall t1 t2 th1 th2, t1 <> t2 ->
      nth_error (threads st) t1 = Some th1 -> nth_error (threads st) t2 = Some th2 ->
      in_wsec th1 = true -> in_wsec th2 = false /\ in_rsec th2 = false.
  Proof.
    intros st t1 t2 th1 th2 Hne E1 E2 H1.
    destruct (run_minv sched _ (init_minv c calls)) as [Hr Hw]. fold st in Hr, Hw.
    pose proof (count_ge1 in_wsec _ _ _ E1 H1) as G1.
    destruct (writer st) as [w|]; [|lia]. destruct Hw as (H0 & Hc1 & _).
    split.
    - destruct (in_wsec th2) eqn:E; [|reflexivity].
      pose proof (count_ge2 in_wsec _ _ _ _ _ Hne E1 E2 H1 E). lia.
    - destruct (in_rsec th2) eqn:E; [|reflexivity].
      pose proof (count_ge1 in_rsec _ _ _ E2 E). lia.
  Qed.
End Proofs.
