(* The hand-written definitions the theorems are about, checked against what the
   translator read from pkg/validation.go on this run (Generated_formats.v). A
   source edit that changes a literal, a case of the switch, the polarity of a
   test or the lock discipline of ValidatePattern makes this file fail to compile. *)
From Formats Require Import Regex FormatModel Generated_formats.
From Coq Require Import String.

(* printing the model's expression gives the source literal, byte for byte *)
Lemma hostname_literal_tie : pr_top hostname_top = src_hostname_literal.
Proof. vm_compute. reflexivity. Qed.

Lemma ipv4_literal_tie : pr_top ipv4_top = src_ipv4_literal.
Proof. vm_compute. reflexivity. Qed.

(* each case of the switch does what validate_format models, in the same order *)
Lemma format_table_tie : src_format_table = expected_format_table.
Proof. vm_compute. reflexivity. Qed.

Lemma format_frame_tie : src_format_frame = expected_format_frame.
Proof. vm_compute. reflexivity. Qed.

Lemma uuid_steps_tie : src_uuid_steps = expected_uuid_steps.
Proof. vm_compute. reflexivity. Qed.

(* ValidatePattern is the instruction sequence of Cache.v: RLock, read cache[p],
   RUnlock, on a miss compile p outside the lock, Lock, write cache[p], Unlock,
   then the verdict is MatchString(val) *)
Lemma pattern_steps_tie : src_pattern_steps = expected_pattern_steps.
Proof. vm_compute. reflexivity. Qed.

Lemma pattern_decls_tie : src_pattern_decls = expected_pattern_decls.
Proof. vm_compute. reflexivity. Qed.
