(* C17 — property statements only. Every theorem is closed by a lemma of
   LemmasRegex.v / LemmasFormats.v / LemmasCache.v / Tie.v and followed by
   Print Assumptions. Standard-library parsers, regexp compilation and matching in
   the cache model are universally quantified (oracles), never assumed. *)
From Formats Require Import Regex FormatModel IPModel Cache Generated_formats LemmasRegex LemmasFormats LemmasIP LemmasCache Tie.
Open Scope N_scope.

(* ------------------------------------------------------------------ matcher *)

(* the derivative matcher decides the denotation, for every expression and string *)
Theorem matchb_iff_lang r s : matchb r s = true <-> lang r s.
Proof. exact (matchb_iff_lang_l r s). Qed.
Print Assumptions matchb_iff_lang.

(* Go's unanchored MatchString: some branch of the top-level alternation matches a
   substring, at the start if the branch begins with ^, up to the end if it ends
   with $ — (^A)|(B$), not ^(A|B)$ *)
Theorem accepts_iff_search t s : accepts t s = true <-> search_spec t s.
Proof. exact (accepts_iff_search_l t s). Qed.
Print Assumptions accepts_iff_search.

(* ------------------------------------------------- the model is the source *)

Theorem hostname_regex_is_source_literal : pr_top hostname_top = src_hostname_literal.
Proof. exact hostname_literal_tie. Qed.
Print Assumptions hostname_regex_is_source_literal.

Theorem ipv4_regex_is_source_literal : pr_top ipv4_top = src_ipv4_literal.
Proof. exact ipv4_literal_tie. Qed.
Print Assumptions ipv4_regex_is_source_literal.

(* every case of the switch in ValidateFormat calls what validate_format models *)
Theorem format_switch_is_source :
  src_format_table = map (fun f => (format_name f, format_does f)) all_formats /\
  src_format_frame = expected_format_frame /\ src_uuid_steps = expected_uuid_steps.
Proof. exact (conj format_table_tie (conj format_frame_tie uuid_steps_tie)). Qed.
Print Assumptions format_switch_is_source.

(* ValidatePattern is the instruction sequence of the cache model, locks included *)
Theorem validate_pattern_is_source :
  src_pattern_steps = expected_pattern_steps /\ src_pattern_decls = expected_pattern_decls.
Proof. exact (conj pattern_steps_tie pattern_decls_tie). Qed.
Print Assumptions validate_pattern_is_source.

(* --------------------------------------------------------------------- date *)

(* YYYY-MM-DD is accepted exactly when the month is 1..12 and the day exists in that
   month of that year (leap years as time.Parse computes them); four year digits is
   all the layout allows *)
Theorem date_accept_iff y m d :
  y < 10000 -> m < 100 -> d < 100 ->
  (accept_date (render_date y m d) = true <-> 1 <= m <= 12 /\ 1 <= d <= days_in_month y m).
Proof. exact (date_accept_iff_l y m d). Qed.
Print Assumptions date_accept_iff.

(* ... and nothing else is accepted: every accepted string is such a rendering *)
Theorem date_accepts_exactly s :
  accept_date s = true <->
  exists y m d, y < 10000 /\ 1 <= m <= 12 /\ 1 <= d <= days_in_month y m /\ s = render_date y m d.
Proof. exact (accept_date_exact_l s). Qed.
Print Assumptions date_accepts_exactly.

Theorem date_rejects_wrong_length s : length s <> 10%nat -> accept_date s = false.
Proof. exact (date_wrong_length_l s). Qed.
Print Assumptions date_rejects_wrong_length.

(* a digit position overwritten by anything that is not a digit *)
Theorem date_rejects_nondigit s i b :
  In i [0; 1; 2; 3; 5; 6; 8; 9]%nat -> is_digit b = false -> accept_date (set_at i b s) = false.
Proof. exact (date_nondigit_l s i b). Qed.
Print Assumptions date_rejects_nondigit.

Theorem date_rejects_bad_separator s i b :
  In i [4; 7]%nat -> b <> 45 -> accept_date (set_at i b s) = false.
Proof. exact (date_separator_l s i b). Qed.
Print Assumptions date_rejects_bad_separator.

(* any byte of a rendered date dropped (a separator in particular) *)
Theorem date_rejects_dropped_byte y m d i :
  (i < 10)%nat -> accept_date (drop_at i (render_date y m d)) = false.
Proof. exact (date_dropped_byte_l y m d i). Qed.
Print Assumptions date_rejects_dropped_byte.

(* ----------------------------------------------------------- ip, ipv4, ipv6 *)

(* for every ParseIP and every string: an ip is an ipv4 or an ipv6, never both *)
Theorem ip_is_v4_xor_v6 (parse_ip : word -> bool) s :
  ip parse_ip s = ipv4 parse_ip s || ipv6 parse_ip s /\ ipv4 parse_ip s && ipv6 parse_ip s = false.
Proof. exact (ip_xor_l parse_ip s). Qed.
Print Assumptions ip_is_v4_xor_v6.

(* whatever ParseIP says, ipv4 rejects a string containing a byte that is neither a
   digit nor a dot (digit -> letter, any separator other than the dot) *)
Theorem ipv4_rejects_foreign_byte (parse_ip : word -> bool) s c :
  In c s -> is_digit c || (c =? 46) = false -> ipv4 parse_ip s = false.
Proof. exact (ipv4_foreign_byte_l parse_ip s c). Qed.
Print Assumptions ipv4_rejects_foreign_byte.

(* net.ParseIP modelled (netip.ParseAddr dispatch + the parseIPv4Fields byte loop);
   only the IPv6 text parser remains an oracle *)

(* the IPv4 loop accepts exactly the canonical texts a.b.c.d, a b c d < 256 in decimal
   without leading zeros *)
Theorem parse_v4_accepts_exactly s :
  parse_v4 s = true <->
  exists a b c d, a < 256 /\ b < 256 /\ c < 256 /\ d < 256 /\ s = render_quad a b c d.
Proof. exact (parse_v4_exact_l s). Qed.
Print Assumptions parse_v4_accepts_exactly.

(* for every IPv6 parser and every string the ipv4 format (ParseIP and the dotted-quad
   expression) is the IPv4 loop alone: no oracle is left in ipv4 *)
Theorem ipv4_is_parse_v4 (parse_v6 : word -> bool) s : ipv4m parse_v6 s = parse_v4 s.
Proof. exact (ipv4m_is_parse_v4_l parse_v6 s). Qed.
Print Assumptions ipv4_is_parse_v4.

Theorem ipv4_accepts_exactly (parse_v6 : word -> bool) s :
  ipv4m parse_v6 s = true <->
  exists a b c d, a < 256 /\ b < 256 /\ c < 256 /\ d < 256 /\ s = render_quad a b c d.
Proof. exact (ipv4m_exact_l parse_v6 s). Qed.
Print Assumptions ipv4_accepts_exactly.

(* every IPv4 address is an ip and is not an ipv6, whatever the IPv6 parser does *)
Theorem ip_family_on_ipv4 (parse_v6 : word -> bool) a b c d :
  a < 256 -> b < 256 -> c < 256 -> d < 256 ->
  ipm parse_v6 (render_quad a b c d) = true /\ ipv6m parse_v6 (render_quad a b c d) = false.
Proof. exact (ip_family_on_ipv4_l parse_v6 a b c d). Qed.
Print Assumptions ip_family_on_ipv4.

(* ipv6 accepts s exactly when the first of . : % in s is a colon and the IPv6 text
   parser accepts s (so ::ffff:1.2.3.4 is an ipv6, 1.2.3.4 never is) *)
Theorem ipv6_is_colon_dispatch_and_parser (parse_v6 : word -> bool) s :
  ipv6m parse_v6 s = match dispatch s with KV6 => parse_v6 s | _ => false end.
Proof. exact (ipv6m_is_oracle_l parse_v6 s). Qed.
Print Assumptions ipv6_is_colon_dispatch_and_parser.

(* ---------------------------------------------------------------- host name *)

(* what the expression accepts, without regular expressions: the string begins with
   an alphanumeric, at most 61 hyphens and an alphanumeric — or it ends in a letter *)
Theorem hostname_accepts_exactly s : accept_hostname s = starts_ok s || ends_alpha s.
Proof. exact (hostname_char_l s). Qed.
Print Assumptions hostname_accepts_exactly.

(* FINDING (hostname/accepts-corrupted): "a valid host name with one byte replaced by
   a forbidden one is rejected" is false of the expression in the source — the
   alternation binds looser than the anchors; witness exa!mple.com *)
Theorem hostname_rejects_corruption_refuted :
  exists l1 l2 i b, label_ok l1 = true /\ label_ok l2 = true /\ is_ldh b = false /\ b <> 46 /\
    (i < length (join_dots [l1; l2]))%nat /\
    accept_hostname (set_at i b (join_dots [l1; l2])) = true.
Proof. exact hostname_corruption_refuted_l. Qed.
Print Assumptions hostname_rejects_corruption_refuted.

(* what remains true: any string (corrupted or not) that neither begins with
   alphanumeric, hyphens, alphanumeric nor ends in a letter is rejected — the
   hypothesis is the negation of the finding's signature *)
Theorem hostname_rejects_corruption_partial s :
  starts_ok s = false -> ends_alpha s = false -> accept_hostname s = false.
Proof. exact (hostname_partial_l s). Qed.
Print Assumptions hostname_rejects_corruption_partial.

(* FINDING (hostname/rejects-valid): not every RFC 1035 host name is accepted;
   witness a.b9 (one-byte first label, digit at the end) *)
Theorem hostname_accepts_generated_refuted :
  exists l1 l2, label_ok l1 = true /\ label_ok l2 = true /\ accept_hostname (join_dots [l1; l2]) = false.
Proof. exact hostname_generated_refuted_l. Qed.
Print Assumptions hostname_accepts_generated_refuted.

(* every RFC 1035 host name (any number of labels of 1..63 bytes: letter, letters
   digits hyphens, letter or digit) whose first label has two bytes or more, or
   which ends in a letter, is accepted *)
Theorem hostname_accepts_generated_partial l ls :
  label_ok l = true -> Forall (fun x => label_ok x = true) ls ->
  (2 <= length l)%nat \/ ends_alpha (join_dots (l :: ls)) = true ->
  accept_hostname (join_dots (l :: ls)) = true.
Proof. exact (hostname_generated_l l ls). Qed.
Print Assumptions hostname_accepts_generated_partial.

(* --------------------------------------------------------------------- uuid *)

(* the generator's domain: 36 bytes, hyphens at 8 13 18 23, hexadecimal digits of
   either case elsewhere, variant digit 8 9 a b; accepted as is, in braces, and
   behind urn:uuid: in any letter case *)
Theorem uuid_accepts_generated s :
  uuid36_shape s ->
  accept_uuid s = true /\ accept_uuid (123 :: s ++ [125]) = true /\
  forall p, length p = 9%nat -> map to_lower p = urn_prefix -> accept_uuid (p ++ s) = true.
Proof. exact (uuid_generated_l s). Qed.
Print Assumptions uuid_accepts_generated.

Theorem uuid_accepts_generated_raw h :
  length h = 32%nat -> Forall (fun c => is_xdigit c = true) h -> variant_ok (byte_at h 16) = true ->
  accept_uuid h = true.
Proof. exact (uuid_raw_generated_l h). Qed.
Print Assumptions uuid_accepts_generated_raw.

(* the 38-byte form is accepted exactly when the middle is and the first and last
   byte are the braces; so a brace replaced by anything else is rejected
   (X6ba7b810-9dad-11d1-80b4-00c04fd430c8Y) *)
Theorem uuid_braces_are_checked u b1 b2 :
  length u = 36%nat -> accept_uuid (b1 :: u ++ [b2]) = (b1 =? 123) && (b2 =? 125) && accept_uuid u.
Proof. exact (uuid_braces_l u b1 b2). Qed.
Print Assumptions uuid_braces_are_checked.

Theorem uuid_rejects_brace_corruption u b1 b2 :
  length u = 36%nat -> b1 <> 123 \/ b2 <> 125 -> accept_uuid (b1 :: u ++ [b2]) = false.
Proof. exact (uuid_brace_corruption_l u b1 b2). Qed.
Print Assumptions uuid_rejects_brace_corruption.

(* corruption anywhere else is rejected too: a hexadecimal position overwritten by a
   non-hexadecimal byte, a hyphen position by anything else, in the canonical and in
   the 38-byte form; and every length other than 32, 36, 38, 45 *)
Theorem uuid_rejects_corruption u i b :
  length u = 36%nat ->
  (In i uuid_hex_pos /\ is_xdigit b = false) \/ (In i uuid_dash_pos /\ b <> 45) ->
  accept_uuid (set_at i b u) = false /\ forall b1 b2, accept_uuid (b1 :: set_at i b u ++ [b2]) = false.
Proof. exact (uuid_partial_l u i b). Qed.
Print Assumptions uuid_rejects_corruption.

Theorem uuid_rejects_wrong_length s :
  length s <> 36%nat -> length s <> 45%nat -> length s <> 38%nat -> length s <> 32%nat ->
  accept_uuid s = false.
Proof. exact (uuid_wrong_length_l s). Qed.
Print Assumptions uuid_rejects_wrong_length.

(* ------------------------------------------------------------ pattern cache *)

Section PatternCache.
  Variables (P V R : Type) (P_eqb : P -> P -> bool) (compile : P -> R) (matches : R -> V -> bool).
  Hypothesis P_eqb_eq : forall a b, P_eqb a b = true -> a = b.

  (* for every compile and matches, any number of threads with any calls, any cache
     left by earlier use that maps patterns to their own compilation, and every
     schedule: the cache still maps p to compile p only; every completed call
     (p, v) carries the verdict matches (compile p) v; the completed calls of a
     thread followed by its pending ones are the calls it was given, in order *)
  Theorem pattern_verdict_is_match c calls sched :
    cache_sound compile c ->
    let st := run P_eqb compile matches sched (init c calls) in
    cache_sound compile (cache st) /\
    forall t th, nth_error (threads st) t = Some th ->
      (forall p v b, In (p, v, b) (done th) -> b = matches (compile p) v) /\
      nth_error calls t = Some (rev (map fst (done th)) ++ todo th).
  Proof. exact (verdicts_l P V R P_eqb compile matches P_eqb_eq c calls sched). Qed.

  (* while a thread is between Lock and Unlock (where it writes the map) no other
     thread is between Lock and Unlock or between RLock and RUnlock (where it reads it) *)
  Theorem pattern_cache_access_exclusive c calls sched :
    let st := run P_eqb compile matches sched (init c calls) in
    forall t1 t2 th1 th2, t1 <> t2 ->
      nth_error (threads st) t1 = Some th1 -> nth_error (threads st) t2 = Some th2 ->
      in_wsec th1 = true -> in_wsec th2 = false /\ in_rsec th2 = false.
  Proof. exact (exclusive_l P V R P_eqb compile matches c calls sched). Qed.

  (* no verdict depends on earlier calls, on the other threads or on the schedule:
     two completed calls with the same pattern and value, in any two runs, agree *)
  Theorem pattern_verdict_independent_of_history c1 calls1 sched1 c2 calls2 sched2 t1 th1 t2 th2 p v b1 b2 :
    cache_sound compile c1 -> cache_sound compile c2 ->
    nth_error (threads (run P_eqb compile matches sched1 (init c1 calls1))) t1 = Some th1 ->
    nth_error (threads (run P_eqb compile matches sched2 (init c2 calls2))) t2 = Some th2 ->
    In (p, v, b1) (done th1) -> In (p, v, b2) (done th2) -> b1 = b2.
  Proof.
    exact (independent_l P V R P_eqb compile matches P_eqb_eq c1 calls1 sched1 c2 calls2 sched2 t1 th1 t2 th2 p v b1 b2).
  Qed.
End PatternCache.
Print Assumptions pattern_verdict_is_match.
Print Assumptions pattern_cache_access_exclusive.
Print Assumptions pattern_verdict_independent_of_history.

(* ------------------------------------------------------------- non-vacuity *)

(* 2024-02-29 accepted, 2023-02-29 and 2024-2-29 not *)
Example date_examples :
  accept_date (render_date 2024 2 29) = true /\ accept_date (render_date 2023 2 29) = false /\
  accept_date [50;48;50;52;45;50;45;50;57] = false /\ accept_date (render_date 1900 2 29) = false /\
  accept_date (render_date 2000 2 29) = true.
Proof. vm_compute. repeat split. Qed.

(* the three recorded corrupted host names are accepted; a plain one too; "!9" is not *)
Example hostname_examples :
  accept_hostname [101;120;97;33;109;112;108;101;46;99;111;109] = true /\ accept_hostname [33;33;33;97] = true /\
  accept_hostname [45;97] = true /\ accept_hostname [103;111;97;46;100;101;115;105;103;110] = true /\
  accept_hostname [33;57] = false.
Proof. vm_compute. repeat split. Qed.

(* ^a|b$ is (^a)|(b$): "ax" and "xb" match, "xa" does not; ^(?:a|b)$ matches neither *)
Example anchors_example :
  let t1 := [ {| bol := true; body := Byte 97; eol := false |}; {| bol := false; body := Byte 98; eol := true |} ] in
  let t2 := [ {| bol := true; body := Alt (Byte 97) (Byte 98); eol := true |} ] in
  accepts t1 [97;120] = true /\ accepts t1 [120;98] = true /\ accepts t1 [120;97] = false /\
  accepts t2 [97;120] = false /\ accepts t2 [98] = true.
Proof. vm_compute. repeat split. Qed.

(* three threads, two patterns (numbers; compile = successor, matches = equality),
   an interleaved schedule: all seven calls complete with the expected verdicts and
   the cache ends up holding both patterns *)
Example cache_example :
  let calls := [[(1, 2); (1, 3); (5, 6)]; [(1, 2); (5, 5)]; [(5, 6); (1, 2)]]%nat in
  let sched := (concat (repeat [0; 1; 2; 2; 1; 0; 1] 20))%nat in
  let st := run Nat.eqb S Nat.eqb sched (init (fun _ => None) calls) in
  map (fun th => rev (map snd (done th))) (threads st) = [[true; false; true]; [true; false]; [true; true]] /\
  map (fun th => length (todo th)) (threads st) = [0; 0; 0]%nat /\
  cache st 1%nat = Some 2%nat /\ cache st 5%nat = Some 6%nat /\ cache st 7%nat = None.
Proof. vm_compute. repeat split. Qed.

(* 192.168.0.1 and 0.0.0.0 parse; 01.2.3.4, 1.2.3, 1.2.3.4., 1.2.3.256, 1..2.3 do not;
   ::ffff:1.2.3.4 is dispatched to the IPv6 parser *)
Example ipv4_examples :
  parse_v4 (render_quad 192 168 0 1) = true /\ parse_v4 (render_quad 0 0 0 0) = true /\
  parse_v4 [48;49;46;50;46;51;46;52] = false /\ parse_v4 [49;46;50;46;51] = false /\
  parse_v4 [49;46;50;46;51;46;52;46] = false /\ parse_v4 [49;46;50;46;51;46;50;53;54] = false /\
  parse_v4 [49;46;46;50;46;51] = false /\
  dispatch [58;58;102;102;102;102;58;49;46;50;46;51;46;52] = KV6 /\
  ipv4m (fun _ => true) (render_quad 10 0 0 255) = true /\ ipv6m (fun _ => true) (render_quad 10 0 0 255) = false.
Proof. vm_compute. repeat split. Qed.
