(* Proofs about the matcher: matchb decides lang; accepts decides search_spec. *)
From Formats Require Import Regex.
From Coq Require Import Lia.

(* ---------- pow / rng ---------- *)

Lemma pow_nil_of (L : word -> Prop) n : L [] -> pow L n [].
Proof.
  intros HL; induction n as [|n IH]; simpl; [reflexivity|].
  exists [], []. repeat split; assumption.
Qed.

Lemma pow_nil_inv (L : word -> Prop) n : pow L n [] -> n = O \/ L [].
Proof.
  destruct n as [|n]; [now left|]. simpl. intros (a & b & E & HL & _).
  symmetry in E. apply app_eq_nil in E as [-> _]. now right.
Qed.

Lemma pow_pad (L : word -> Prop) m b k : L [] -> pow L m b -> pow L (k + m) b.
Proof.
  intros HL HP; induction k as [|k IH]; simpl; [assumption|].
  exists [], b. repeat split; assumption.
Qed.

Lemma pow_cons (L : word -> Prop) n c s :
  pow L n (c :: s) ->
  exists m a b, (m < n)%nat /\ s = a ++ b /\ L (c :: a) /\ pow L m b /\ (L [] \/ S m = n).
Proof.
  revert s; induction n as [|n IH]; intros s; simpl; [discriminate|].
  intros (x & y & E & HL & HP). destruct x as [|c' x].
  - simpl in E; subst y. destruct (IH _ HP) as (m & a & b & Hm & Es & HLa & HPb & _).
    exists m, a, b. repeat split; try assumption; [lia|now left].
  - simpl in E. injection E as -> ->. exists n, x, y. repeat split; try assumption; [lia|now right].
Qed.

Lemma rng_nil (L : word -> Prop) lo hi :
  rng L lo hi [] <-> le_opt lo hi /\ (lo = O \/ L []).
Proof.
  split.
  - intros (n & Hlo & Hhi & HP). split.
    + destruct hi as [h|]; simpl in *; [lia|exact I].
    + destruct (pow_nil_inv _ _ HP) as [->|HL]; [left; lia|now right].
  - intros (Hhi & [->|HL]).
    + exists O. split; [lia|]. split; [destruct hi; simpl in *; [lia|exact I]|reflexivity].
    + exists lo. split; [lia|]. split; [assumption|now apply pow_nil_of].
Qed.

Lemma rng_cons (L : word -> Prop) lo hi c s :
  rng L lo hi (c :: s) <->
  hi <> Some O /\ exists a b, s = a ++ b /\ L (c :: a) /\ rng L (pred lo) (pred_opt hi) b.
Proof.
  split.
  - intros (n & Hlo & Hhi & HP).
    destruct (pow_cons _ _ _ _ HP) as (m & a & b & Hm & Es & HLa & HPb & Hor).
    assert (HP' : pow L (pred n) b).
    { destruct Hor as [HL|E]; [|subst n; exact HPb].
      replace (pred n) with ((pred n - m) + m)%nat by lia. now apply pow_pad. }
    split.
    + destruct hi as [h|]; [|discriminate]. simpl in Hhi. intros [= ->]. lia.
    + exists a, b. repeat split; try assumption. exists (pred n). repeat split; [lia| |assumption].
      destruct hi as [h|]; simpl in *; [lia|exact I].
  - intros (Hne & a & b & Es & HLa & m & Hlo & Hhi & HP).
    exists (S m). repeat split; [lia| |].
    + destruct hi as [h|]; simpl in *; [|exact I]. destruct h; [congruence|simpl in Hhi; lia].
    + simpl. exists (c :: a), b. subst s. repeat split; assumption.
Qed.

Lemma rng_zero_zero (L : word -> Prop) b : rng L 0 (Some O) b <-> b = [].
Proof.
  split.
  - intros (n & _ & Hhi & HP). simpl in Hhi. assert (n = O) by lia. subst n. exact HP.
  - intros ->. exists O. repeat split; simpl; lia.
Qed.

Lemma rng_ext (L1 L2 : word -> Prop) lo hi s :
  (forall x, L1 x <-> L2 x) -> rng L1 lo hi s <-> rng L2 lo hi s.
Proof.
  intros E. assert (HP : forall n x, pow L1 n x <-> pow L2 n x).
  { induction n as [|n IH]; intros x; simpl; [tauto|].
    split; intros (a & b & Ex & Ha & Hb); exists a, b; repeat split; try assumption;
      try (now apply E); now apply IH. }
  split; intros (n & H1 & H2 & H3); exists n; repeat split; try assumption; now apply HP.
Qed.

(* ---------- nullable ---------- *)

Lemma nullable_spec r : nullable r = true <-> lang r [].
Proof.
  induction r as [| |b|neg items|a IHa b IHb|a IHa b IHb|r IH|r IH|r IH|r IH lo hi]; simpl.
  - split; [discriminate|tauto].
  - tauto.
  - split; discriminate.
  - split; [discriminate|]. intros (b & E & _). discriminate.
  - rewrite andb_true_iff, IHa, IHb. split.
    + intros [Ha Hb]. exists [], []. repeat split; assumption.
    + intros (x & y & E & Hx & Hy). symmetry in E. apply app_eq_nil in E as [-> ->]. tauto.
  - rewrite orb_true_iff, IHa, IHb. tauto.
  - rewrite rng_nil. simpl. tauto.
  - rewrite rng_nil, IH. simpl. split; [intros H; split; [exact I|now right]|].
    intros [_ [E|H]]; [discriminate|assumption].
  - rewrite rng_nil. simpl. split; [intros _; split; [lia|now left]|reflexivity].
  - rewrite rng_nil, andb_true_iff, orb_true_iff, IH, Nat.eqb_eq.
    assert (Hl : leb_opt lo hi = true <-> le_opt lo hi).
    { destruct hi as [h|]; simpl; [apply Nat.leb_le|tauto]. }
    rewrite Hl. tauto.
Qed.

(* ---------- simplifying constructors ---------- *)

Lemma alts_spec r s : lang r s <-> exists x, In x (alts r) /\ lang x s.
Proof.
  induction r; simpl; try (split; [intros H; eexists; split; [left; reflexivity|exact H]|
                                   intros (x & [<-|[]] & H); exact H]).
  - split; [tauto|]. intros (x & [] & _).
  - rewrite IHr1, IHr2. split.
    + intros [(x & Hi & H)|(x & Hi & H)]; exists x; (split; [apply in_or_app; tauto|exact H]).
    + intros (x & Hi & H). apply in_app_or in Hi as [Hi|Hi]; [left|right]; exists x; tauto.
Qed.

Lemma build_alt_spec l s : lang (build_alt l) s <-> exists x, In x l /\ lang x s.
Proof.
  induction l as [|x l IH]; simpl.
  - split; [tauto|]. intros (x & [] & _).
  - destruct l as [|y l].
    + split; [intros H; exists x; tauto|]. intros (z & [<-|[]] & H). exact H.
    + change (lang (Alt x (build_alt (y :: l))) s) with (lang x s \/ lang (build_alt (y :: l)) s).
      rewrite IH. split.
      * intros [H|(z & Hi & H)]; [exists x; tauto|exists z; tauto].
      * intros (z & [<-|Hi] & H); [tauto|right; exists z; tauto].
Qed.

Lemma cname_eqb_eq a b : cname_eqb a b = true -> a = b.
Proof. destruct a, b; simpl; congruence. Qed.

Lemma citem_eqb_eq a b : citem_eqb a b = true -> a = b.
Proof.
  destruct a, b; simpl; try discriminate.
  - intros H. apply andb_prop in H as [H1 H2]. apply N.eqb_eq in H1, H2. congruence.
  - intros H. apply cname_eqb_eq in H. congruence.
Qed.

Lemma list_eqb_eq {A} (f : A -> A -> bool) (Hf : forall x y, f x y = true -> x = y) l1 l2 :
  list_eqb f l1 l2 = true -> l1 = l2.
Proof.
  revert l2; induction l1 as [|x r IH]; intros [|y r2]; simpl; try discriminate; [reflexivity|].
  intros H. apply andb_prop in H as [H1 H2]. f_equal; [now apply Hf|now apply IH].
Qed.

Lemma opt_nat_eqb_eq a b : opt_nat_eqb a b = true -> a = b.
Proof. destruct a, b; simpl; try discriminate; [|reflexivity]. intros H. apply Nat.eqb_eq in H. congruence. Qed.

Lemma re_eqb_eq a : forall b, re_eqb a b = true -> a = b.
Proof.
  induction a; intros b'; destruct b'; simpl; try discriminate; try reflexivity.
  - intros H. apply N.eqb_eq in H. congruence.
  - intros H. apply andb_prop in H as [H1 H2]. apply eqb_prop in H1.
    apply (list_eqb_eq _ citem_eqb_eq) in H2. congruence.
  - intros H. apply andb_prop in H as [H1 H2]. f_equal; auto.
  - intros H. apply andb_prop in H as [H1 H2]. f_equal; auto.
  - intros H. f_equal; auto.
  - intros H. f_equal; auto.
  - intros H. f_equal; auto.
  - intros H. apply andb_prop in H as [H12 H3]. apply andb_prop in H12 as [H1 H2].
    apply Nat.eqb_eq in H1. apply opt_nat_eqb_eq in H2. f_equal; auto.
Qed.

Lemma ex_in_cons (y : re) l s :
  (exists x, In x (y :: l) /\ lang x s) <-> lang y s \/ exists x, In x l /\ lang x s.
Proof.
  split.
  - intros (x & [<-|Hi] & H); [tauto|right; exists x; tauto].
  - intros [H|(x & Hi & H)]; [exists y; simpl; tauto|exists x; simpl; tauto].
Qed.

Lemma dedup_spec seen l s :
  (exists x, In x (dedup seen l) /\ lang x s) \/ (exists x, In x seen /\ lang x s) <->
  (exists x, In x l /\ lang x s) \/ (exists x, In x seen /\ lang x s).
Proof.
  revert seen; induction l as [|y r IH]; intros seen.
  - simpl. tauto.
  - cbn [dedup]. destruct (existsb (re_eqb y) seen) eqn:E.
    + rewrite IH, (ex_in_cons y r).
      assert (Hy : lang y s -> exists x, In x seen /\ lang x s).
      { intros H. apply existsb_exists in E as (z & Hz & Ezy). apply re_eqb_eq in Ezy. subst z. exists y. tauto. }
      tauto.
    + specialize (IH (y :: seen)). rewrite (ex_in_cons y seen) in IH.
      rewrite (ex_in_cons y (dedup (y :: seen) r)), (ex_in_cons y r). tauto.
Qed.

Lemma alt'_spec a b s : lang (alt' a b) s <-> lang a s \/ lang b s.
Proof.
  unfold alt'. rewrite build_alt_spec, (alts_spec a), (alts_spec b).
  pose proof (dedup_spec [] (alts a ++ alts b) s) as D. simpl in D.
  assert (N : ~ (exists x : re, False /\ lang x s)) by (intros (x & [] & _)).
  split.
  - intros H. destruct D as [D1 _]. destruct (D1 (or_introl H)) as [(x & Hi & Hl)|H']; [|tauto].
    apply in_app_or in Hi as [Hi|Hi]; [left|right]; exists x; tauto.
  - intros H. destruct D as [_ D2].
    assert (H' : exists x, In x (alts a ++ alts b) /\ lang x s).
    { destruct H as [(x & Hi & Hl)|(x & Hi & Hl)]; exists x; (split; [apply in_or_app; tauto|exact Hl]). }
    destruct (D2 (or_introl H')) as [H''|H'']; tauto.
Qed.

Lemma dedup_nil_spec l s :
  (exists x, In x (dedup [] l) /\ lang x s) <-> (exists x, In x l /\ lang x s).
Proof.
  pose proof (dedup_spec [] l s) as D. simpl in D.
  assert (N : ~ (exists x : re, False /\ lang x s)) by (intros (x & [] & _)). tauto.
Qed.

Lemma cat1_spec a b s : lang (cat1 a b) s <-> lang (Cat a b) s.
Proof.
  assert (Heps_l : forall x, lang x s <-> lang (Cat Eps x) s).
  { intros x; simpl; split.
    - intros H; exists [], s; repeat split; assumption.
    - intros (p & q & E & -> & H). simpl in E. now subst. }
  assert (Heps_r : forall x, lang x s <-> lang (Cat x Eps) s).
  { intros x; simpl; split.
    - intros H; exists s, []; rewrite app_nil_r; repeat split; assumption.
    - intros (p & q & E & H & ->). rewrite app_nil_r in E. now subst. }
  assert (Hemp_l : forall x, lang Empty s <-> lang (Cat Empty x) s).
  { intros x; simpl; split; [tauto|]. intros (p & q & _ & [] & _). }
  assert (Hemp_r : forall x, lang Empty s <-> lang (Cat x Empty) s).
  { intros x; simpl; split; [tauto|]. intros (p & q & _ & _ & []). }
  destruct a; try apply Hemp_l; try apply Heps_l;
    destruct b; try apply Hemp_r; try apply Heps_r; reflexivity.
Qed.

Lemma cat'_spec a b s : lang (cat' a b) s <-> lang (Cat a b) s.
Proof.
  unfold cat'. rewrite build_alt_spec, dedup_nil_spec. split.
  - intros (y & Hi & H). apply in_map_iff in Hi as (x & <- & Hx). apply cat1_spec in H.
    destruct H as (p & q & -> & Hp & Hq). exists p, q. split; [reflexivity|]. split; [|exact Hq].
    apply alts_spec. exists x. tauto.
  - intros (p & q & -> & Hp & Hq). apply alts_spec in Hp as (x & Hx & Hp).
    exists (cat1 x b). split; [apply in_map_iff; exists x; tauto|]. apply cat1_spec. exists p, q. tauto.
Qed.

(* ---------- derivative ---------- *)

Lemma cat_cons (A B : word -> Prop) (DA : word -> Prop) c s :
  (forall x, DA x <-> A (c :: x)) ->
  ((exists x y, c :: s = x ++ y /\ A x /\ B y) <->
   (exists x y, s = x ++ y /\ DA x /\ B y) \/ (A [] /\ B (c :: s))).
Proof.
  intros HD. split.
  - intros (x & y & E & HA & HB). destruct x as [|c' x].
    + simpl in E. subst y. right. tauto.
    + simpl in E. injection E as -> ->. left. exists x, y. repeat split; [now apply HD|assumption].
  - intros [(x & y & -> & HA & HB)|[HA HB]].
    + exists (c :: x), y. repeat split; [now apply HD|assumption].
    + exists [], (c :: s). repeat split; assumption.
Qed.

Lemma deriv_spec r : forall c s, lang (deriv c r) s <-> lang r (c :: s).
Proof.
  induction r as [| |b|neg items|a IHa b IHb|a IHa b IHb|r IH|r IH|r IH|r IH lo hi]; intros c s.
  - simpl; tauto.
  - simpl; split; [tauto|discriminate].
  - simpl. destruct (N.eqb_spec b c) as [->|Hne]; simpl.
    + split; [intros ->; reflexivity|intros [= ->]; reflexivity].
    + split; [tauto|intros [= E _]; congruence].
  - simpl. destruct (class_mem neg items c) eqn:Hm; simpl.
    + split; [intros ->; exists c; tauto|]. intros (b & [= -> ->] & _). reflexivity.
    + split; [tauto|]. intros (b & [= -> ->] & Hb). congruence.
  - change (lang (Cat a b) (c :: s)) with (exists x y, c :: s = x ++ y /\ lang a x /\ lang b y).
    rewrite (cat_cons (lang a) (lang b) (lang (deriv c a)) c s (IHa c)).
    simpl deriv. rewrite alt'_spec, cat'_spec. simpl.
    destruct (nullable a) eqn:Hn.
    + rewrite IHb. apply nullable_spec in Hn. tauto.
    + simpl. assert (~ lang a []) by (rewrite <- nullable_spec; congruence). tauto.
  - simpl deriv. rewrite alt'_spec, IHa, IHb. simpl. tauto.
  - simpl deriv. rewrite cat'_spec. simpl lang. rewrite rng_cons. simpl pred; simpl pred_opt.
    split.
    + intros (x & y & E & Hx & Hy). split; [discriminate|]. exists x, y. rewrite <- IH. tauto.
    + intros (_ & x & y & E & Hx & Hy). exists x, y. rewrite IH. tauto.
  - simpl deriv. rewrite cat'_spec. simpl lang. rewrite rng_cons. simpl pred; simpl pred_opt.
    split.
    + intros (x & y & E & Hx & Hy). split; [discriminate|]. exists x, y. rewrite <- IH. tauto.
    + intros (_ & x & y & E & Hx & Hy). exists x, y. rewrite IH. tauto.
  - simpl deriv. simpl lang. rewrite rng_cons. simpl pred; simpl pred_opt. rewrite IH. split.
    + intros H. split; [discriminate|]. exists s, []. rewrite app_nil_r.
      repeat split; [assumption|now apply rng_zero_zero].
    + intros (_ & x & y & E & Hx & Hy). apply rng_zero_zero in Hy. subst y.
      rewrite app_nil_r in E. now subst x.
  - simpl lang. rewrite rng_cons. destruct hi as [[|h]|].
    + simpl. split; [tauto|]. intros [H _]. congruence.
    + simpl deriv. rewrite cat'_spec. simpl lang. simpl pred_opt. split.
      * intros (x & y & E & Hx & Hy). split; [discriminate|]. exists x, y. rewrite <- IH. tauto.
      * intros (_ & x & y & E & Hx & Hy). exists x, y. rewrite IH. tauto.
    + simpl deriv. rewrite cat'_spec. simpl lang. simpl pred_opt. split.
      * intros (x & y & E & Hx & Hy). split; [discriminate|]. exists x, y. rewrite <- IH. tauto.
      * intros (_ & x & y & E & Hx & Hy). exists x, y. rewrite IH. tauto.
Qed.

Theorem matchb_iff_lang_l r s : matchb r s = true <-> lang r s.
Proof.
  revert r; induction s as [|c s IH]; intros r; simpl.
  - apply nullable_spec.
  - rewrite IH. apply deriv_spec.
Qed.

(* ---------- unanchored search ---------- *)

Lemma pow_any s : pow (lang anyb) (length s) s.
Proof.
  induction s as [|c s IH]; simpl; [reflexivity|].
  exists [c], s. repeat split; [|assumption]. exists c. split; reflexivity.
Qed.

Lemma star_any s : lang (Star anyb) s.
Proof. exists (length s). repeat split; [lia|apply pow_any]. Qed.

Lemma branch_re_spec br s :
  lang (branch_re br) s <->
  exists pre mid post, s = pre ++ mid ++ post /\ lang (body br) mid /\
    (bol br = true -> pre = []) /\ (eol br = true -> post = []).
Proof.
  unfold branch_re. split.
  - intros (pre & rest & -> & Hpre & mid & post & -> & Hmid & Hpost).
    exists pre, mid, post. repeat split; try assumption.
    + intros E. rewrite E in Hpre. exact Hpre.
    + intros E. rewrite E in Hpost. exact Hpost.
  - intros (pre & mid & post & -> & Hmid & Hb & He).
    exists pre, (mid ++ post). repeat split.
    + destruct (bol br); [now apply Hb|apply star_any].
    + exists mid, post. repeat split; [assumption|].
      destruct (eol br); [now apply He|apply star_any].
Qed.

Lemma search_re_spec t s : lang (search_re t) s <-> search_spec t s.
Proof.
  unfold search_spec. induction t as [|br t IH].
  - simpl. split; [tauto|]. intros (br & [] & _).
  - change (search_re (br :: t)) with (Alt (branch_re br) (search_re t)).
    change (lang (Alt (branch_re br) (search_re t)) s) with (lang (branch_re br) s \/ lang (search_re t) s).
    rewrite IH, branch_re_spec. split.
    + intros [H|(b & Hin & H)]; [exists br; split; [now left|exact H]|exists b; split; [now right|exact H]].
    + intros (b & [->|Hin] & H); [now left|right; exists b; tauto].
Qed.

Theorem accepts_iff_search_l t s : accepts t s = true <-> search_spec t s.
Proof. unfold accepts. rewrite matchb_iff_lang_l. apply search_re_spec. Qed.

(* every member of lang r only uses bytes that r can consume: used to show that a
   byte outside a pattern's alphabet makes a fully anchored match fail *)
Fixpoint may_use (r : re) (c : N) : bool :=
  match r with
  | Empty | Eps => false
  | Byte b => b =? c
  | Class neg items => class_mem neg items c
  | Cat a b | Alt a b => may_use a c || may_use b c
  | Star r0 | Plus r0 | Opt r0 | Rep r0 _ _ => may_use r0 c
  end.

Lemma pow_forall (L : word -> Prop) (Q : N -> Prop) n s :
  (forall x, L x -> Forall Q x) -> pow L n s -> Forall Q s.
Proof.
  intros HL; revert s; induction n as [|n IH]; intros s; simpl.
  - intros ->. constructor.
  - intros (a & b & -> & Ha & Hb). apply Forall_app. split; [now apply HL|now apply IH].
Qed.

Lemma lang_alphabet r : forall s, lang r s -> Forall (fun c => may_use r c = true) s.
Proof.
  induction r as [| |b|neg items|a IHa b IHb|a IHa b IHb|r IH|r IH|r IH|r IH lo hi]; intros s; simpl.
  - tauto.
  - intros ->. constructor.
  - intros ->. repeat constructor. apply N.eqb_refl.
  - intros (b & -> & Hb). repeat constructor. exact Hb.
  - intros (x & y & -> & Hx & Hy). apply Forall_app. split.
    + eapply Forall_impl; [|apply IHa, Hx]. simpl. intros c ->. reflexivity.
    + eapply Forall_impl; [|apply IHb, Hy]. simpl. intros c ->. apply orb_true_r.
  - intros [H|H].
    + eapply Forall_impl; [|apply IHa, H]. simpl. intros c ->. reflexivity.
    + eapply Forall_impl; [|apply IHb, H]. simpl. intros c ->. apply orb_true_r.
  - intros (n & _ & _ & HP). eapply pow_forall; [exact IH|exact HP].
  - intros (n & _ & _ & HP). eapply pow_forall; [exact IH|exact HP].
  - intros (n & _ & _ & HP). eapply pow_forall; [exact IH|exact HP].
  - intros (n & _ & _ & HP). eapply pow_forall; [exact IH|exact HP].
Qed.
