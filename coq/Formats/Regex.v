(* C17 — regular expressions over bytes (alphabet N): abstract syntax of the fragment
   of Go's RE2 syntax used by goa's format regexes and by the pattern generator,
   denotational semantics [lang], Brzozowski-derivative matcher [matchb], Go's
   unanchored MatchString as [accepts] over a top-level alternation of branches
   with optional leading ^ / trailing $, and a printer to Go concrete syntax.
   Definitions only; proofs are in LemmasRegex.v. *)
From Coq Require Export List Bool NArith Arith.
Export ListNotations.
Open Scope N_scope.

(* ---------- character classes ---------- *)

Inductive cname := Alnum | Alpha | Digit | Lower | Upper | Xdigit | Word.

Inductive citem :=
| CR (lo hi : N)            (* a byte or a range lo-hi *)
| CNamed (n : cname).       (* [:alnum:] ... inside a bracket expression *)

Definition between (lo hi b : N) : bool := (lo <=? b) && (b <=? hi).

Definition is_digit (b : N) : bool := between 48 57 b.
Definition is_upper (b : N) : bool := between 65 90 b.
Definition is_lower (b : N) : bool := between 97 122 b.
Definition is_alpha (b : N) : bool := is_upper b || is_lower b.
Definition is_alnum (b : N) : bool := is_digit b || is_alpha b.
Definition is_xdigit (b : N) : bool := is_digit b || between 65 70 b || between 97 102 b.

Definition cname_mem (n : cname) (b : N) : bool :=
  match n with
  | Alnum => is_alnum b
  | Alpha => is_alpha b
  | Digit => is_digit b
  | Lower => is_lower b
  | Upper => is_upper b
  | Xdigit => is_xdigit b
  | Word => is_alnum b || (b =? 95)
  end.

Definition item_mem (b : N) (i : citem) : bool :=
  match i with
  | CR lo hi => between lo hi b
  | CNamed n => cname_mem n b
  end.

Definition class_mem (neg : bool) (items : list citem) (b : N) : bool :=
  xorb neg (existsb (item_mem b) items).

(* ---------- syntax ---------- *)

Inductive re :=
| Empty                                  (* no string; only produced by derivatives *)
| Eps
| Byte (b : N)
| Class (neg : bool) (items : list citem)
| Cat (a b : re)
| Alt (a b : re)
| Star (r : re)
| Plus (r : re)
| Opt (r : re)
| Rep (r : re) (lo : nat) (hi : option nat).   (* r{lo,hi}; hi = None is r{lo,} *)

(* ---------- denotation ---------- *)

Definition word := list N.

Fixpoint pow (L : word -> Prop) (n : nat) (s : word) : Prop :=
  match n with
  | O => s = []
  | S n' => exists a b, s = a ++ b /\ L a /\ pow L n' b
  end.

Definition le_opt (n : nat) (hi : option nat) : Prop :=
  match hi with None => True | Some h => (n <= h)%nat end.

(* between lo and hi consecutive members of L *)
Definition rng (L : word -> Prop) (lo : nat) (hi : option nat) (s : word) : Prop :=
  exists n, (lo <= n)%nat /\ le_opt n hi /\ pow L n s.

Fixpoint lang (r : re) (s : word) : Prop :=
  match r with
  | Empty => False
  | Eps => s = []
  | Byte b => s = [b]
  | Class neg items => exists b, s = [b] /\ class_mem neg items b = true
  | Cat a b => exists x y, s = x ++ y /\ lang a x /\ lang b y
  | Alt a b => lang a s \/ lang b s
  | Star r0 => rng (lang r0) 0 None s
  | Plus r0 => rng (lang r0) 1 None s
  | Opt r0 => rng (lang r0) 0 (Some 1%nat) s
  | Rep r0 lo hi => rng (lang r0) lo hi s
  end.

(* ---------- matcher ---------- *)

Definition leb_opt (n : nat) (hi : option nat) : bool :=
  match hi with None => true | Some h => Nat.leb n h end.

Fixpoint nullable (r : re) : bool :=
  match r with
  | Empty => false
  | Eps => true
  | Byte _ => false
  | Class _ _ => false
  | Cat a b => nullable a && nullable b
  | Alt a b => nullable a || nullable b
  | Star _ => true
  | Plus r0 => nullable r0
  | Opt _ => true
  | Rep r0 lo hi => leb_opt lo hi && (Nat.eqb lo 0 || nullable r0)
  end.

(* syntactic equality of expressions *)
Definition cname_eqb (a b : cname) : bool :=
  match a, b with
  | Alnum, Alnum | Alpha, Alpha | Digit, Digit | Lower, Lower | Upper, Upper | Xdigit, Xdigit | Word, Word => true
  | _, _ => false
  end.

Definition citem_eqb (a b : citem) : bool :=
  match a, b with
  | CR l1 h1, CR l2 h2 => (l1 =? l2) && (h1 =? h2)
  | CNamed n1, CNamed n2 => cname_eqb n1 n2
  | _, _ => false
  end.

Fixpoint list_eqb {A} (f : A -> A -> bool) (l1 l2 : list A) : bool :=
  match l1, l2 with
  | [], [] => true
  | x :: r1, y :: r2 => f x y && list_eqb f r1 r2
  | _, _ => false
  end.

Definition opt_nat_eqb (a b : option nat) : bool :=
  match a, b with
  | None, None => true
  | Some x, Some y => Nat.eqb x y
  | _, _ => false
  end.

Fixpoint re_eqb (a b : re) : bool :=
  match a, b with
  | Empty, Empty => true
  | Eps, Eps => true
  | Byte x, Byte y => x =? y
  | Class n1 i1, Class n2 i2 => Bool.eqb n1 n2 && list_eqb citem_eqb i1 i2
  | Cat a1 a2, Cat b1 b2 => re_eqb a1 b1 && re_eqb a2 b2
  | Alt a1 a2, Alt b1 b2 => re_eqb a1 b1 && re_eqb a2 b2
  | Star x, Star y => re_eqb x y
  | Plus x, Plus y => re_eqb x y
  | Opt x, Opt y => re_eqb x y
  | Rep x l1 h1, Rep y l2 h2 => Nat.eqb l1 l2 && opt_nat_eqb h1 h2 && re_eqb x y
  | _, _ => false
  end.

(* simplifying constructors keep derivatives small *)
(* alternatives are kept as a flat, duplicate-free, right-nested list (associativity
   and idempotence of |), which keeps the set of derivatives small *)
Fixpoint alts (r : re) : list re :=
  match r with
  | Alt a b => alts a ++ alts b
  | Empty => []
  | _ => [r]
  end.

Fixpoint build_alt (l : list re) : re :=
  match l with
  | [] => Empty
  | [x] => x
  | x :: rest => Alt x (build_alt rest)
  end.

(* keep the first occurrence of every alternative *)
Fixpoint dedup (seen : list re) (l : list re) : list re :=
  match l with
  | [] => []
  | x :: r => if existsb (re_eqb x) seen then dedup seen r else x :: dedup (x :: seen) r
  end.

Definition alt' (a b : re) : re := build_alt (dedup [] (alts a ++ alts b)).

Definition cat1 (a b : re) : re :=
  match a with
  | Empty => Empty
  | Eps => b
  | _ => match b with Empty => Empty | Eps => a | _ => Cat a b end
  end.

(* concatenation distributes over the alternatives of its left operand, so that a
   derivative is always a flat list of products *)
Definition cat' (a b : re) : re := build_alt (dedup [] (map (fun x => cat1 x b) (alts a))).

Definition pred_opt (hi : option nat) : option nat :=
  match hi with None => None | Some h => Some (pred h) end.

Fixpoint deriv (c : N) (r : re) : re :=
  match r with
  | Empty => Empty
  | Eps => Empty
  | Byte b => if b =? c then Eps else Empty
  | Class neg items => if class_mem neg items c then Eps else Empty
  | Cat a b => alt' (cat' (deriv c a) b) (if nullable a then deriv c b else Empty)
  | Alt a b => alt' (deriv c a) (deriv c b)
  | Star r0 => cat' (deriv c r0) (Star r0)
  | Plus r0 => cat' (deriv c r0) (Star r0)
  | Opt r0 => deriv c r0
  | Rep r0 lo hi =>
      match hi with
      | Some O => Empty
      | _ => cat' (deriv c r0) (Rep r0 (pred lo) (pred_opt hi))
      end
  end.

Fixpoint matchb (r : re) (s : word) : bool :=
  match s with
  | [] => nullable r
  | c :: s' => matchb (deriv c r) s'
  end.

(* ---------- Go's MatchString: unanchored search ---------- *)

(* A pattern is a top-level alternation of branches; each branch may start with ^
   and may end with $ (no flags: $ is end of text). Alternation binds looser than
   the anchors: ^A|B$ is (^A)|(B$). *)
Record branch := { bol : bool; body : re; eol : bool }.
Definition top := list branch.

Definition anyb : re := Class true [].          (* every byte *)

Definition branch_re (br : branch) : re :=
  Cat (if bol br then Eps else Star anyb) (Cat (body br) (if eol br then Eps else Star anyb)).

Definition search_re (t : top) : re :=
  fold_right (fun br acc => Alt (branch_re br) acc) Empty t.

Definition accepts (t : top) (s : word) : bool := matchb (search_re t) s.

(* what MatchString means, stated without regular expressions *)
Definition search_spec (t : top) (s : word) : Prop :=
  exists br, In br t /\ exists pre mid post, s = pre ++ mid ++ post /\ lang (body br) mid /\
    (bol br = true -> pre = []) /\ (eol br = true -> post = []).

(* ---------- printer to Go syntax ---------- *)

Definition hexd (n : N) : N := if n <? 10 then 48 + n else 87 + n.

Definition esc (b : N) : word :=
  if is_alnum b || (b =? 95) then [b]
  else if between 33 126 b then [92; b]
  else [92; 120; hexd (b / 16); hexd (b mod 16)].

Definition dec (n : N) : word :=
  (if 1000 <=? n then [48 + (n / 1000) mod 10] else []) ++
  (if 100 <=? n then [48 + (n / 100) mod 10] else []) ++
  (if 10 <=? n then [48 + (n / 10) mod 10] else []) ++ [48 + n mod 10].

Definition cname_text (n : cname) : word :=
  match n with
  | Alnum => [97;108;110;117;109]
  | Alpha => [97;108;112;104;97]
  | Digit => [100;105;103;105;116]
  | Lower => [108;111;119;101;114]
  | Upper => [117;112;112;101;114]
  | Xdigit => [120;100;105;103;105;116]
  | Word => [119;111;114;100]
  end.

Definition pr_item (i : citem) : word :=
  match i with
  | CR lo hi => if lo =? hi then esc lo else esc lo ++ [45] ++ esc hi
  | CNamed n => [91;58] ++ cname_text n ++ [58;93]
  end.

Definition group (w : word) : word := [40;63;58] ++ w ++ [41].     (* (?:w) *)
Definition wrap_if (b : bool) (w : word) : word := if b then group w else w.

Definition is_alt (r : re) : bool := match r with Alt _ _ => true | _ => false end.
Definition is_atom (r : re) : bool :=
  match r with Byte _ => true | Class _ _ => true | _ => false end.

Definition empty_text : word :=    (* [^\x00-\x{10FFFF}] *)
  [91;94;92;120;48;48;45;92;120;123;49;48;70;70;70;70;125;93].
Definition any_text : word := [40;63;115;58;46;41].      (* (?s:.) *)

Definition pr_rep (lo : nat) (hi : option nat) : word :=
  [123] ++ dec (N.of_nat lo) ++
  match hi with
  | None => [44]
  | Some h => if Nat.eqb h lo then [] else [44] ++ dec (N.of_nat h)
  end ++ [125].

Fixpoint pr (r : re) : word :=
  match r with
  | Empty => empty_text
  | Eps => group []
  | Byte b => esc b
  | Class neg items =>
      match items with
      | [] => if neg then any_text else empty_text
      | _ => [91] ++ (if neg then [94] else []) ++ flat_map pr_item items ++ [93]
      end
  | Cat a b => wrap_if (is_alt a) (pr a) ++ wrap_if (is_alt b) (pr b)
  | Alt a b => pr a ++ [124] ++ pr b
  | Star r0 => wrap_if (negb (is_atom r0)) (pr r0) ++ [42]
  | Plus r0 => wrap_if (negb (is_atom r0)) (pr r0) ++ [43]
  | Opt r0 => wrap_if (negb (is_atom r0)) (pr r0) ++ [63]
  | Rep r0 lo hi => wrap_if (negb (is_atom r0)) (pr r0) ++ pr_rep lo hi
  end.

Definition pr_branch (br : branch) : word :=
  (if bol br then [94] else []) ++ wrap_if (is_alt (body br)) (pr (body br)) ++
  (if eol br then [36] else []).

Fixpoint pr_top (t : top) : word :=
  match t with
  | [] => []
  | [br] => pr_branch br
  | br :: rest => pr_branch br ++ [124] ++ pr_top rest
  end.
