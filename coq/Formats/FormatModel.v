(* C17 — format recognisers as goa's ValidateFormat decides them (pkg/validation.go).
   Modelled in Gallina: date (time.Parse "2006-01-02"), uuid (google/uuid Parse +
   RFC 4122 variant), hostname and the dotted-quad test as regular expressions,
   the ip / ipv4 / ipv6 family over a ParseIP oracle. The other formats delegate to
   standard-library parsers, which enter as oracles. Definitions only. *)
From Formats Require Import Regex.
From Coq Require Import String.
Open Scope N_scope.

(* ---------- the two regular expressions of pkg/validation.go ---------- *)

Definition c_alnum : re := Class false [CNamed Alnum].
Definition c_alnum_dash : re := Class false [CNamed Alnum; CR 45 45].
Definition c_alpha : re := Class false [CNamed Alpha].
Definition c_09 : re := Class false [CR 48 57].

(* ^[[:alnum:]][[:alnum:]\-]{0,61}[[:alnum:]]|[[:alpha:]]$ *)
Definition hostname_top : top :=
  [ {| bol := true; body := Cat c_alnum (Cat (Rep c_alnum_dash 0 (Some 61%nat)) c_alnum); eol := false |};
    {| bol := false; body := c_alpha; eol := true |} ].

(* ^(?:[0-9]{1,3}\.){3}[0-9]{1,3}$ *)
Definition quad_field : re := Rep c_09 1 (Some 3%nat).
Definition ipv4_body : re := Cat (Rep (Cat quad_field (Byte 46)) 3 (Some 3%nat)) quad_field.
Definition ipv4_top : top := [ {| bol := true; body := ipv4_body; eol := true |} ].

Definition accept_hostname (s : word) : bool := accepts hostname_top s.
Definition dotted_quad (s : word) : bool := accepts ipv4_top s.

(* what the hostname expression accepts, in elementary terms *)
Fixpoint dashes_then_alnum (fuel : nat) (s : word) {struct s} : bool :=
  match s with
  | [] => false
  | c :: s' =>
      if is_alnum c then true
      else if c =? 45 then match fuel with O => false | S f => dashes_then_alnum f s' end
      else false
  end.

Definition starts_ok (s : word) : bool :=
  match s with [] => false | a :: s' => is_alnum a && dashes_then_alnum 61 s' end.

Definition ends_alpha (s : word) : bool := is_alpha (last s 0).

(* RFC 1035 host names: labels letter [ldh* let-dig], joined by dots *)
Definition is_ldh (b : N) : bool := is_alnum b || (b =? 45).

Definition label_ok (l : word) : bool :=
  match l with
  | [] => false
  | a :: r => is_alpha a && forallb is_ldh r && is_alnum (last l 0) && Nat.leb (List.length l) 63
  end.

Fixpoint join_dots (ls : list word) : word :=
  match ls with
  | [] => []
  | [l] => l
  | l :: rest => l ++ [46] ++ join_dots rest
  end.

(* replace the byte at position i *)
Fixpoint set_at (i : nat) (b : N) (s : word) : word :=
  match s, i with
  | [], _ => []
  | _ :: r, O => b :: r
  | a :: r, S i' => a :: set_at i' b r
  end.

Fixpoint drop_at (i : nat) (s : word) : word :=
  match s, i with
  | [], _ => []
  | _ :: r, O => r
  | a :: r, S i' => a :: drop_at i' r
  end.

(* ---------- date: time.Parse("2006-01-02", s) ---------- *)

Definition dval (b : N) : N := b - 48.

Definition leap (y : N) : bool :=
  (y mod 4 =? 0) && (negb (y mod 100 =? 0) || (y mod 400 =? 0)).

Definition days_in_month (y m : N) : N :=
  if m =? 2 then (if leap y then 29 else 28)
  else if (m =? 4) || (m =? 6) || (m =? 9) || (m =? 11) then 30 else 31.

Definition date_fields_ok (y m d : N) : bool :=
  (1 <=? m) && (m <=? 12) && (1 <=? d) && (d <=? days_in_month y m).

Definition accept_date (s : word) : bool :=
  match s with
  | [y1; y2; y3; y4; s1; m1; m2; s2; d1; d2] =>
      forallb is_digit [y1; y2; y3; y4; m1; m2; d1; d2] && (s1 =? 45) && (s2 =? 45) &&
      date_fields_ok (dval y1 * 1000 + dval y2 * 100 + dval y3 * 10 + dval y4)
                     (dval m1 * 10 + dval m2) (dval d1 * 10 + dval d2)
  | _ => false
  end.

Definition render2 (n : N) : word := [48 + n / 10; 48 + n mod 10].
Definition render4 (n : N) : word :=
  [48 + n / 1000; 48 + (n / 100) mod 10; 48 + (n / 10) mod 10; 48 + n mod 10].
Definition render_date (y m d : N) : word := render4 y ++ [45] ++ render2 m ++ [45] ++ render2 d.

(* ---------- uuid: google/uuid.Parse + Variant() == RFC4122 ---------- *)

Definition hexval (b : N) : option N :=
  if is_digit b then Some (b - 48)
  else if between 97 102 b then Some (b - 87)
  else if between 65 70 b then Some (b - 55)
  else None.

Definition byte_at (s : word) (i : nat) : N := nth i s 0.

Definition variant_ok (b : N) : bool :=
  match hexval b with Some v => (8 <=? v) && (v <=? 11) | None => false end.

Definition uuid_dash_pos : list nat := [8; 13; 18; 23]%nat.
Definition uuid_hex_pos : list nat :=
  [0;1;2;3;4;5;6;7; 9;10;11;12; 14;15;16;17; 19;20;21;22; 24;25;26;27;28;29;30;31;32;33;34;35]%nat.

(* the checks made on s[0..35] once the length has selected a form *)
Definition uuid36_body (s : word) : bool :=
  forallb (fun i => byte_at s i =? 45) uuid_dash_pos &&
  forallb (fun i => is_xdigit (byte_at s i)) uuid_hex_pos &&
  variant_ok (byte_at s 19).

Definition to_lower (b : N) : N := if is_upper b then b + 32 else b.
Definition urn_prefix : word := [117;114;110;58;117;117;105;100;58].      (* urn:uuid: *)

Definition word_eqb (a b : word) : bool := if list_eq_dec N.eq_dec a b then true else false.

Definition accept_uuid (s : word) : bool :=
  let n := List.length s in
  if Nat.eqb n 36 then uuid36_body s
  else if Nat.eqb n 45 then word_eqb (map to_lower (firstn 9 s)) urn_prefix && uuid36_body (skipn 9 s)
  else if Nat.eqb n 38 then (byte_at s 0 =? 123) && (byte_at s 37 =? 125) && uuid36_body (skipn 1 s)   (* {...} *)
  else if Nat.eqb n 32 then forallb is_xdigit s && variant_ok (byte_at s 16)
  else false.

Definition hexd_l (n : N) : N := if n <? 10 then 48 + n else 87 + n.
(* canonical rendering of 16 bytes *)
Definition render_hex (b : N) : word := [hexd_l (b / 16); hexd_l (b mod 16)].
Definition render_uuid36 (u : list N) : word :=
  flat_map render_hex (firstn 4 u) ++ [45] ++ flat_map render_hex (firstn 2 (skipn 4 u)) ++ [45] ++
  flat_map render_hex (firstn 2 (skipn 6 u)) ++ [45] ++ flat_map render_hex (firstn 2 (skipn 8 u)) ++ [45] ++
  flat_map render_hex (skipn 10 u).

(* ---------- the format switch ---------- *)

Inductive format :=
| FDate | FDateTime | FUUID | FEmail | FHostname | FIPv4 | FIPv6 | FIP
| FURI | FMAC | FCIDR | FRegexp | FJSON | FRFC1123.

Section Switch.
  (* standard-library parsers the switch delegates to *)
  Variables parse_ip rfc3339 mail_addr request_uri parse_mac parse_cidr regexp_compile
            json_valid rfc1123 : word -> bool.

  Definition ip (s : word) : bool := parse_ip s.
  Definition ipv4 (s : word) : bool := parse_ip s && dotted_quad s.
  Definition ipv6 (s : word) : bool := parse_ip s && negb (dotted_quad s).

  Definition validate_format (f : format) (s : word) : bool :=
    match f with
    | FDate => accept_date s
    | FDateTime => rfc3339 s
    | FUUID => accept_uuid s
    | FEmail => mail_addr s
    | FHostname => accept_hostname s
    | FIPv4 => ipv4 s
    | FIPv6 => ipv6 s
    | FIP => ip s
    | FURI => request_uri s
    | FMAC => parse_mac s
    | FCIDR => parse_cidr s
    | FRegexp => regexp_compile s
    | FJSON => json_valid s
    | FRFC1123 => rfc1123 s
    end.
End Switch.

(* ---------- what the translator reads from pkg/validation.go ---------- *)

(* one row per `case` of the switch in ValidateFormat, in source order: the value
   of the Format constant and a canonical rendering of what the case does with val.
   [format_does f] is the source text that [validate_format _ f] models. *)
Definition all_formats : list format :=
  [FDate; FDateTime; FUUID; FEmail; FHostname; FIPv4; FIPv6; FIP; FURI; FMAC; FCIDR; FRegexp; FJSON; FRFC1123].

Definition format_name (f : format) : string :=
  match f with
  | FDate => "date" | FDateTime => "date-time" | FUUID => "uuid" | FEmail => "email"
  | FHostname => "hostname" | FIPv4 => "ipv4" | FIPv6 => "ipv6" | FIP => "ip" | FURI => "uri"
  | FMAC => "mac" | FCIDR => "cidr" | FRegexp => "regexp" | FJSON => "json" | FRFC1123 => "rfc1123"
  end%string.

Definition format_does (f : format) : string :=
  match f with
  | FDate => "err=time.Parse(time.DateOnly,val)"
  | FDateTime => "err=time.Parse(time.RFC3339,val)"
  | FUUID => "err=validateUUID(val)"
  | FEmail => "err=mail.ParseAddress(val)"
  | FHostname => "if !hostnameRegex.MatchString(val) err"
  | FIPv4 => "ip:=net.ParseIP(val); if ip==nil err; if !ipv4Regex.MatchString(val) err"
  | FIPv6 => "ip:=net.ParseIP(val); if ip==nil err; if ipv4Regex.MatchString(val) err"
  | FIP => "ip:=net.ParseIP(val); if ip==nil err"
  | FURI => "err=url.ParseRequestURI(val)"
  | FMAC => "err=net.ParseMAC(val)"
  | FCIDR => "err=net.ParseCIDR(val)"
  | FRegexp => "err=regexp.Compile(val)"
  | FJSON => "if !json.Valid([]byte(val)) err"
  | FRFC1123 => "err=time.Parse(time.RFC1123,val)"
  end%string.

Definition expected_format_table : list (string * string) :=
  map (fun f => (format_name f, format_does f)) all_formats.

(* err set <-> rejected *)
Definition expected_format_frame : list string :=
  [ "var err error"; "switch f"; "if err!=nil return InvalidFormatError(name,val,f,err)"; "return nil" ]%string.

(* validateUUID: google/uuid Parse, the braces of the 38-byte form, then the RFC 4122 variant test *)
Definition expected_uuid_steps : list string :=
  [ "u,err:=googleuuid.Parse(uuid)"; "if err!=nil return err";
    "if len(uuid)==38&&(uuid[0]!='{'||uuid[37]!='}') return err";
    "if u.Variant()!=googleuuid.RFC4122 return err"; "return nil" ]%string.

(* ValidatePattern: the statement sequence, locks included *)
Definition expected_pattern_steps : list string :=
  [ "knownPatternsLock.RLock()"; "r,ok:=knownPatterns[p]"; "knownPatternsLock.RUnlock()";
    "if !ok {"; "r=regexp.MustCompile(p)"; "knownPatternsLock.Lock()"; "knownPatterns[p]=r";
    "knownPatternsLock.Unlock()"; "}"; "if !r.MatchString(val) return InvalidPatternError(name,val,p)";
    "return nil" ]%string.

Definition expected_pattern_decls : list string :=
  [ "knownPatterns=make(map[string]*regexp.Regexp)"; "knownPatternsLock=&sync.RWMutex{}" ]%string.
