From Errors Require Import Model Lemmas Heap.
From Coq Require Import PeanoNat Lia.

Lemma join_msgs_app a b : a <> [] -> b <> [] ->
  join_msgs (a ++ b) = (join_msgs a ++ "; " ++ join_msgs b)%string.
Proof.
  intros Ha Hb. induction a as [|x a IH]; [congruence|].
  destruct a as [|y a].
  - simpl. destruct b; [congruence|reflexivity].
  - change ((x :: y :: a) ++ b)%list with (x :: ((y :: a) ++ b))%list.
    change (join_msgs (x :: (y :: a) ++ b)) with (x ++ "; " ++ join_msgs ((y :: a) ++ b))%string.
    rewrite IH by discriminate.
    change (join_msgs (x :: y :: a)) with (x ++ "; " ++ join_msgs (y :: a))%string.
    now rewrite !sapp_assoc.
Qed.

Lemma map_nonempty {A B} (f : A -> B) l : l <> [] -> map f l <> [].
Proof. destruct l; [congruence|discriminate]. Qed.

Lemma merge_obj_ok orig e o : obj_ok orig e -> obj_ok orig o -> obj_ok orig (merge_serr e o).
Proof.
  intros (He1 & He2 & He3 & He4 & He5) (Ho1 & Ho2 & Ho3 & Ho4 & Ho5).
  unfold obj_ok. rewrite history_merge. cbn [cur merge_serr cmsg ctimeout ctemporary cfault].
  repeat split.
  - apply Forall_app; split; assumption.
  - rewrite map_app, join_msgs_app by (apply map_nonempty, history_nonempty). now rewrite He2, Ho2.
  - now rewrite forallb_app, He3, Ho3.
  - now rewrite forallb_app, He4, Ho4.
  - now rewrite forallb_app, He5, Ho5.
Qed.

Lemma plain_obj_ok orig m z : In (plain_core m "") orig -> obj_ok orig (plain_serr m z).
Proof.
  intro H. unfold obj_ok, plain_serr, history; cbn. repeat split; auto.
Qed.

Lemma set_nth_length {A} (l : list A) n x : List.length (set_nth l n x) = List.length l.
Proof. revert n; induction l as [|a l IH]; intros [|n]; simpl; auto. Qed.

Lemma Forall_set_nth {A} (P : A -> Prop) l n x : Forall P l -> P x -> Forall P (set_nth l n x).
Proof.
  revert n; induction l as [|a l IH]; intros [|n] Hl Hx; simpl; auto.
  - inversion Hl; subst. constructor; assumption.
  - inversion Hl; subst. constructor; [assumption|]. apply IH; assumption.
Qed.

Lemma get_obj_ok orig h n : Forall (obj_ok orig) h -> n < List.length h -> obj_ok orig (get_obj h n).
Proof.
  intros H Hn. unfold get_obj. rewrite Forall_forall in H. apply H. apply nth_In; assumption.
Qed.

Lemma read_ref_ok orig h r s :
  Forall (obj_ok orig) h -> ref_ok orig h r -> read_ref h r = Some s -> obj_ok orig s.
Proof.
  intros Hh Hr E. destruct r as [|m z|n|n]; simpl in *; try discriminate; injection E as <-.
  - now apply plain_obj_ok.
  - now apply get_obj_ok.
  - now apply get_obj_ok.
Qed.

Lemma ref_ok_mono orig h h' r : List.length h <= List.length h' -> ref_ok orig h r -> ref_ok orig h' r.
Proof. destruct r; simpl; auto; lia. Qed.

Lemma nth_ref_ok orig h vs i : Forall (ref_ok orig h) vs -> ref_ok orig h (nth i vs RNil).
Proof.
  intro H. destruct (Nat.lt_ge_cases i (List.length vs)) as [Hi|Hi].
  - rewrite Forall_forall in H. apply H, nth_In, Hi.
  - rewrite nth_overflow by assumption. exact I.
Qed.

Lemma merge_refs_ok orig h a b h' r :
  Forall (obj_ok orig) h -> ref_ok orig h a -> ref_ok orig h b ->
  merge_refs h a b = (h', r) ->
  Forall (obj_ok orig) h' /\ ref_ok orig h' r /\ List.length h <= List.length h'.
Proof.
  intros Hh Ha Hb E. unfold merge_refs in E.
  destruct a as [|m z|n|n].
  - injection E as <- <-. auto.
  - destruct (read_ref h b) as [o|] eqn:Eb.
    + injection E as <- <-. pose proof (read_ref_ok _ _ _ _ Hh Hb Eb) as Ho.
      repeat split.
      * apply Forall_app; split; [assumption|]. constructor; [|constructor].
        apply merge_obj_ok; [apply plain_obj_ok; exact Ha|exact Ho].
      * simpl. rewrite app_length; simpl; lia.
      * rewrite app_length; simpl; lia.
    + injection E as <- <-. auto.
  - destruct (read_ref h b) as [o|] eqn:Eb.
    + injection E as <- <-. pose proof (read_ref_ok _ _ _ _ Hh Hb Eb) as Ho. simpl in Ha.
      repeat split.
      * apply Forall_set_nth; [assumption|]. apply merge_obj_ok; [now apply get_obj_ok|exact Ho].
      * simpl. now rewrite set_nth_length.
      * rewrite set_nth_length; lia.
    + injection E as <- <-. auto.
  - destruct (read_ref h b) as [o|] eqn:Eb.
    + injection E as <- <-. pose proof (read_ref_ok _ _ _ _ Hh Hb Eb) as Ho. simpl in Ha.
      repeat split.
      * apply Forall_set_nth; [assumption|]. apply merge_obj_ok; [now apply get_obj_ok|exact Ho].
      * simpl. now rewrite set_nth_length.
      * rewrite set_nth_length; lia.
    + injection E as <- <-. auto.
Qed.

Lemma step_ok orig st o : state_ok orig st -> state_ok orig (step st o).
Proof.
  intros [Hh Hv]. destruct o as [dst i j]. unfold step.
  destruct (merge_refs (heap st) (nth i (vars st) RNil) (nth j (vars st) RNil)) as [h' r] eqn:E.
  destruct (merge_refs_ok orig _ _ _ _ _ Hh (nth_ref_ok _ _ _ i Hv) (nth_ref_ok _ _ _ j Hv) E) as (H1 & H2 & H3).
  split; cbn [heap vars]; [assumption|].
  apply Forall_set_nth; [|assumption].
  eapply Forall_impl; [|exact Hv]. intros a Ha. eapply ref_ok_mono; eassumption.
Qed.

Lemma run_ok orig ops st : state_ok orig st -> state_ok orig (run ops st).
Proof. unfold run. revert st; induction ops as [|o ops IH]; intros st H; simpl; [assumption|]. apply IH, step_ok, H. Qed.

Lemma plain_cores_in vs m z : In (RPlain m z) vs -> In (plain_core m "") (plain_cores vs).
Proof.
  induction vs as [|r vs IH]; [intros []|]. intros [->|H]; simpl; [left; reflexivity|].
  destruct r; simpl; auto.
Qed.

Lemma init_ok st0 :
  unmerged st0 -> Forall (fun r => match r with RObj n | RWrap n => n < List.length (heap st0) | _ => True end) (vars st0) ->
  state_ok (originals st0) st0.
Proof.
  intros Hu Hv. unfold unmerged in Hu. split.
  - rewrite Forall_forall in *. intros s Hs. specialize (Hu s Hs).
    unfold obj_ok, history. rewrite Hu. cbn. repeat split; try (now rewrite andb_true_r).
    constructor; [|constructor]. unfold originals. apply in_or_app. left. now apply in_map.
  - rewrite Forall_forall in *. intros r Hr. specialize (Hv r Hr).
    destruct r as [|m z|n|n]; simpl; auto.
    unfold originals. apply in_or_app. right. eapply plain_cores_in, Hr.
Qed.

Lemma histories_keep_originals st0 ops :
  unmerged st0 -> Forall (fun r => match r with RObj n | RWrap n => n < List.length (heap st0) | _ => True end) (vars st0) ->
  Forall (obj_ok (originals st0)) (heap (run ops st0)).
Proof. intros Hu Hv. exact (proj1 (run_ok _ ops _ (init_ok _ Hu Hv))). Qed.
