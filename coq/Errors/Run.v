(* Correspondence glue: the observation the harness can make of a Go error value,
   the same observation computed from the model, and the comparison evaluated by
   vm_compute on the cases the harness wrote. *)
From Errors Require Import Model Heap.
From Coq Require Import PeanoNat NArith.

Definition mkc n i f m to te fa : core :=
  {| cname := n; cid := i; cfield := f; cmsg := m; ctimeout := to; ctemporary := te; cfault := fa |}.

Inductive obs :=
| ONil
| OPlain (msg : string) (causes : list nat)
| OWrapped (w : string) (c : core) (history : list core) (causes : list nat)
| OServ (c : core) (history : list core) (causes : list nat).

Definition obs_of_val (v : val) : obs :=
  match v with
  | VNil => ONil
  | VPlain m _ z => OPlain m [z]
  | VWrapped w s => OWrapped w (cur s) (history s) (causes s)
  | VServ s => OServ (cur s) (history s) (causes s)
  end.

Definition core_eq_dec (a b : core) : {a = b} + {a <> b}.
Proof. decide equality; try apply bool_dec; try apply string_dec. decide equality; apply string_dec. Defined.

Definition obs_eq_dec (a b : obs) : {a = b} + {a <> b}.
Proof.
  decide equality; try apply string_dec; try apply core_eq_dec;
    try (apply list_eq_dec; apply Nat.eq_dec); try (apply list_eq_dec; apply core_eq_dec).
Defined.

Definition mismatches (cs : list (N * tree * obs)) : list N :=
  flat_map (fun c => match c with (i, t, o) =>
     if obs_eq_dec (obs_of_val (merge_tree t)) o then [] else [i] end) cs.

Definition code_eq_dec (a b : grpc_code) : {a = b} + {a <> b}.
Proof. decide equality. Defined.

Definition status_mismatches (cs : list (N * val * nat * grpc_code * core)) : list N :=
  flat_map (fun c => match c with (i, v, st, code, back) =>
     let okst := match response_core v with Some c => Nat.eqb (http_status c) st | None => false end in
     let okcode := if code_eq_dec (grpc_code_of v) code then true else false in
     let okback := match response_core v with
                   | Some c => if core_eq_dec (core_of_resp (resp_of_core c)) back then true else false
                   | None => false end in
     if okst && okcode && okback then [] else [i] end) cs.

(* ---- histories of merges over variables (Heap.v) ---- *)
Inductive vobs :=
| VONil
| VOPlain (m : string)
| VOObj (wrapped : bool) (c : core) (h : list core) (cs : list nat).

Fixpoint insert_nodup (x : nat) (l : list nat) : list nat :=
  match l with
  | [] => [x]
  | y :: r => if Nat.ltb x y then x :: l else if Nat.eqb x y then l else y :: insert_nodup x r
  end.
Definition norm_causes (l : list nat) : list nat := fold_right insert_nodup [] l.

Definition obs_var (h : list serr) (r : ref) : vobs :=
  match r with
  | RNil => VONil
  | RPlain m _ => VOPlain m
  | RObj n => let s := get_obj h n in VOObj false (cur s) (history s) (norm_causes (causes s))
  | RWrap n => let s := get_obj h n in VOObj true (cur s) (history s) (norm_causes (causes s))
  end.

Definition vobs_eq_dec (a b : vobs) : {a = b} + {a <> b}.
Proof.
  decide equality; try apply string_dec; try apply bool_dec; try apply core_eq_dec;
    try (apply list_eq_dec; apply Nat.eq_dec); try (apply list_eq_dec; apply core_eq_dec).
Defined.

Definition heap_mismatches (cs : list (N * hstate * list op * list vobs)) : list N :=
  flat_map (fun c => match c with (i, st0, ops, observed) =>
     let st := run ops st0 in
     if list_eq_dec vobs_eq_dec (map (obs_var (heap st)) (vars st)) observed then [] else [i] end) cs.

Definition client_mismatches (cs : list (N * nat * bool * bool * bool)) : list N :=
  flat_map (fun c => match c with (i, code, to, te, fa) =>
     match client_flags code with (a, b, d) =>
       if Bool.eqb a to && Bool.eqb b te && Bool.eqb d fa then [] else [i] end end) cs.

(* ---- the error encoder (http.ErrorEncoder) and grpc.EncodeError on error shapes ---- *)
Definition mkr n i m to te fa : resp :=
  {| rname := n; rid := i; rmsg := m; rtimeout := to; rtemporary := te; rfault := fa |}.

(* the harness's formatters (harness/cmd/c18/encode.go teapotFormatter, bitsFormatter) *)
Inductive fmtsel := FDefault | FTeapot | FBits.

Definition teapot_formatter : formatter :=
  fun e => (418, mkr "teapot" "" ("custom: " ++ error_string e) false false false).

Definition bits_formatter : formatter :=
  fun e => match find_serr e with
           | Some c => (460 + (if ctimeout c then 1 else 0) + (if ctemporary c then 2 else 0) + (if cfault c then 4 else 0),
                        mkr ("x-" ++ cname c) (cid c) (cmsg c) (ctimeout c) (ctemporary c) (cfault c))
           | None => (599, mkr "x-none" "" (error_string e) false false false)
           end.

Definition formatter_of (s : fmtsel) : option formatter :=
  match s with FDefault => None | FTeapot => Some teapot_formatter | FBits => Some bits_formatter end.

Definition resp_eq_dec (a b : resp) : {a = b} + {a <> b}.
Proof. decide equality; try apply bool_dec; apply string_dec. Defined.

Definition writer_eq_dec (a b : writer) : {a = b} + {a <> b}.
Proof.
  decide equality; try apply Nat.eq_dec; try (apply list_eq_dec; apply resp_eq_dec).
  decide equality; apply Nat.eq_dec.
Defined.

(* identifiers drawn by NewErrorID are blanked by the harness: the model draws "" *)
Definition encode_mismatches (cs : list (N * fmtsel * eshape * writer)) : list N :=
  flat_map (fun c => match c with (i, f, e, observed) =>
     if writer_eq_dec (error_encoder (formatter_of f) "" e fresh_writer) observed then [] else [i] end) cs.

Definition grpcshape_mismatches (cs : list (N * eshape * grpc_code * string * core)) : list N :=
  flat_map (fun c => match c with (i, e, code, smsg, back) =>
     match grpc_encode "" e with (mc, mm, mr) =>
       if code_eq_dec mc code then
         if string_dec mm smsg then
           if core_eq_dec (core_of_resp mr) back then [] else [i]
         else [i]
       else [i] end end) cs.

(* ---- grpc.EncodeError in full, re-encoded k times ---- *)
Definition detail_eq_dec (a b : detail) : {a = b} + {a <> b}.
Proof. decide equality; [apply resp_eq_dec|apply string_dec]. Defined.

Definition gstatus_eq_dec (a b : gstatus) : {a = b} + {a <> b}.
Proof. decide equality; [apply (list_eq_dec detail_eq_dec)|apply string_dec|apply Nat.eq_dec]. Defined.

Definition mkg c m ds : gstatus := {| gcode := c; gmsg := m; gdetails := ds |}.

(* identifiers drawn by NewErrorID are blanked by the harness: the model draws "" *)
Definition odetail_eq_dec (a b : option detail) : {a = b} + {a <> b}.
Proof. decide equality; apply detail_eq_dec. Defined.

Definition grpcfull_mismatches (cs : list (N * eshape * nat * gstatus * option detail)) : list N :=
  flat_map (fun c => match c with (i, e, k, observed, dec) =>
     let s := Nat.iter k (reencode "") (grpc_encode_full "" e) in
     if gstatus_eq_dec s observed then
       if odetail_eq_dec (grpc_decode s) dec then [] else [i]
     else [i] end) cs.
