(* Errors engine — executable model of
     pkg/error.go   MergeErrors / History / asError
     http/error.go  NewErrorResponse / ErrorResponse.StatusCode
     grpc/error.go  EncodeError (code selection) / NewErrorResponse / NewServiceError
   Definitions only; proofs are in Lemmas.v, property statements in Properties.v. *)
From Coq Require Export List Bool String Ascii Arith.
From Coq Require Import DecimalString.
Export ListNotations.
Open Scope string_scope.

(* observable fields of a *goa.ServiceError *)
Record core := { cname : string; cid : string; cfield : option string; cmsg : string;
                 ctimeout : bool; ctemporary : bool; cfault : bool }.

(* a service error: current fields, the private history slice, and the original
   causes reachable through Unwrap (identified by a number the harness assigns) *)
Record serr := { cur : core; hist : list core; causes : list nat }.

(* what can be handed to MergeErrors *)
Inductive leaf :=
| LNil
| LService (c : core) (cause : option nat)                 (* *ServiceError, maybe built around a cause *)
| LWrapped (w : string) (c : core) (cause : option nat)    (* fmt.Errorf(w+": %w", serviceError) *)
| LPlain (msg : string) (id : string) (cause : nat).       (* any other error; id = the ID asError draws *)

(* Go values of type error that MergeErrors can return *)
Inductive val :=
| VNil
| VPlain (msg : string) (id : string) (cause : nat)
| VWrapped (w : string) (s : serr)
| VServ (s : serr).

Definition opt_list {A} (o : option A) : list A := match o with Some x => [x] | None => [] end.

Definition plain_core (m id : string) : core :=
  {| cname := "error"; cid := id; cfield := None; cmsg := m;
     ctimeout := false; ctemporary := false; cfault := true |}.

Definition val_of (l : leaf) : val :=
  match l with
  | LNil => VNil
  | LService c cz => VServ {| cur := c; hist := []; causes := opt_list cz |}
  | LWrapped w c cz => VWrapped w {| cur := c; hist := []; causes := opt_list cz |}
  | LPlain m id z => VPlain m id z
  end.

(* asError: errors.As to the inner *ServiceError, else a fresh "error" fault *)
Definition as_serr (v : val) : option serr :=
  match v with
  | VNil => None
  | VPlain m id z => Some {| cur := plain_core m id; hist := []; causes := [z] |}
  | VWrapped _ s => Some s
  | VServ s => Some s
  end.

(* ServiceError.History(): the history slice, or a one-element snapshot *)
Definition history (e : serr) : list core :=
  match hist e with [] => [cur e] | h => h end.

Definition merge_serr (e o : serr) : serr :=
  {| cur := {| cname := if String.eqb (cname (cur e)) "error" then cname (cur o) else cname (cur e);
               cid := cid (cur e);
               cfield := cfield (cur e);
               cmsg := cmsg (cur e) ++ "; " ++ cmsg (cur o);
               ctimeout := ctimeout (cur e) && ctimeout (cur o);
               ctemporary := ctemporary (cur e) && ctemporary (cur o);
               cfault := cfault (cur e) && cfault (cur o) |};
     hist := (history e ++ history o)%list;
     causes := (causes e ++ causes o)%list |}.

Definition merge (a b : val) : val :=
  match as_serr a, as_serr b with
  | None, _ => b
  | _, None => a
  | Some e, Some o => VServ (merge_serr e o)
  end.

Inductive tree := Leaf (l : leaf) | Node (l r : tree).

Fixpoint merge_tree (t : tree) : val :=
  match t with Leaf l => val_of l | Node l r => merge (merge_tree l) (merge_tree r) end.

Fixpoint leaves (t : tree) : list leaf :=
  match t with Leaf l => [l] | Node l r => (leaves l ++ leaves r)%list end.

(* ---- the specification side: what the merged error must look like, as a
        function of the sequence of original errors alone ---- *)

Definition is_nil (l : leaf) : bool := match l with LNil => true | _ => false end.
Definition nonnil (ls : list leaf) : list leaf := filter (fun l => negb (is_nil l)) ls.

Definition core_of (l : leaf) : core :=
  match l with
  | LNil => plain_core "" ""
  | LService c _ => c
  | LWrapped _ c _ => c
  | LPlain m id _ => plain_core m id
  end.

Definition causes_of (l : leaf) : list nat :=
  match l with
  | LNil => []
  | LService _ cz => opt_list cz
  | LWrapped _ _ cz => opt_list cz
  | LPlain _ _ z => [z]
  end.

Fixpoint join_msgs (ms : list string) : string :=
  match ms with
  | [] => ""
  | [m] => m
  | m :: r => m ++ "; " ++ join_msgs r
  end.

Fixpoint first_specific (ns : list string) : string :=
  match ns with
  | [] => "error"
  | n :: r => if String.eqb n "error" then first_specific r else n
  end.

Definition spec_serr (ls : list leaf) : serr :=     (* ls: the non-nil originals, at least two *)
  let cs := map core_of ls in
  {| cur := {| cname := first_specific (map cname cs);
               cid := cid (hd (plain_core "" "") cs);
               cfield := cfield (hd (plain_core "" "") cs);
               cmsg := join_msgs (map cmsg cs);
               ctimeout := forallb ctimeout cs;
               ctemporary := forallb ctemporary cs;
               cfault := forallb cfault cs |};
     hist := cs;
     causes := flat_map causes_of ls |}.

Definition spec (ls : list leaf) : val :=
  match nonnil ls with
  | [] => VNil
  | [l] => val_of l
  | nn => VServ (spec_serr nn)
  end.

(* ---- status mappings ---- *)

Definition unsupported_media_type := "unsupported_media_type".

(* http.ErrorResponse.StatusCode *)
Definition http_status (c : core) : nat :=
  if String.eqb (cname c) unsupported_media_type then 415
  else if cfault c then 500
  else if ctimeout c then (if ctemporary c then 504 else 408)
  else if ctemporary c then 503
  else 400.

(* the core NewErrorResponse (http and grpc) builds a response from *)
Definition response_core (v : val) : option core :=
  match v with
  | VNil => None
  | VPlain m _ _ => Some {| cname := "fault"; cid := ""; cfield := None; cmsg := m;
                           ctimeout := false; ctemporary := false; cfault := true |}
  | VWrapped _ s => Some (cur s)
  | VServ s => Some (cur s)
  end.

Inductive grpc_code := Unknown | Internal | DeadlineExceeded | Unavailable.

(* grpc.EncodeError for an error that is not already a gRPC status *)
Definition grpc_code_of (v : val) : grpc_code :=
  match v with
  | VNil | VPlain _ _ _ => Unknown
  | VWrapped _ s | VServ s =>
    let c := cur s in
    if ctemporary c then Unavailable
    else if ctimeout c then DeadlineExceeded
    else if cfault c then Internal
    else Unknown
  end.

(* goapb.ErrorResponse: six fields, no Field *)
Record resp := { rname : string; rid : string; rmsg : string;
                 rtimeout : bool; rtemporary : bool; rfault : bool }.
Definition resp_of_core (c : core) : resp :=
  {| rname := cname c; rid := cid c; rmsg := cmsg c;
     rtimeout := ctimeout c; rtemporary := ctemporary c; rfault := cfault c |}.
Definition core_of_resp (r : resp) : core :=
  {| cname := rname r; cid := rid r; cfield := None; cmsg := rmsg r;
     ctimeout := rtimeout r; ctemporary := rtemporary r; cfault := rfault r |}.
Definition drop_field (c : core) : core :=
  {| cname := cname c; cid := cid c; cfield := None; cmsg := cmsg c;
     ctimeout := ctimeout c; ctemporary := ctemporary c; cfault := cfault c |}.

(* http/client.go ErrInvalidResponse: the flags the generated client gives an error built
   from an unexpected status code *)
Definition client_flags (code : nat) : bool * bool * bool :=   (* timeout, temporary, fault *)
  (Nat.eqb code 408 || Nat.eqb code 504,
   Nat.eqb code 503 || Nat.eqb code 409 || Nat.eqb code 429 || Nat.eqb code 504,
   Nat.eqb code 500 || Nat.eqb code 501 || Nat.eqb code 502).

(* ---- errors as a service method hands them to the transport: any depth of wrapping ----
   http/encoding.go ErrorEncoder, http/error.go NewErrorResponse, grpc/error.go EncodeError
   all look for the *ServiceError with errors.As, i.e. depth first, left to right through
   Unwrap() error / Unwrap() []error. *)
(* a detail message attached to a gRPC status: goa's ErrorResponse, or any other message *)
Inductive detail := DResp (r : resp) | DOther (tag : string).

Inductive eshape :=
| EPlain (msg : string)              (* an error that neither is nor wraps a *ServiceError *)
| EStatus (code : nat) (msg : string) (dets : list detail)
                                     (* status.New(code, msg) with details, .Err(); code <> 0: the
                                        status of code OK is the nil error *)
| EServ (c : core)                   (* a *ServiceError (what it wraps itself is never looked at) *)
| EWrap (w : string) (e : eshape)    (* fmt.Errorf(w+": %w", e), or any type whose Unwrap() returns e *)
| EJoin (a b : eshape).              (* errors.Join(a, b) *)

Definition nl : string := String "010"%char EmptyString.

(* codes.Code.String() *)
Definition code_name (c : nat) : string :=
  match c with
  | 0 => "OK" | 1 => "Canceled" | 2 => "Unknown" | 3 => "InvalidArgument" | 4 => "DeadlineExceeded"
  | 5 => "NotFound" | 6 => "AlreadyExists" | 7 => "PermissionDenied" | 8 => "ResourceExhausted"
  | 9 => "FailedPrecondition" | 10 => "Aborted" | 11 => "OutOfRange" | 12 => "Unimplemented"
  | 13 => "Internal" | 14 => "Unavailable" | 15 => "DataLoss" | 16 => "Unauthenticated"
  | _ => "Code(" ++ NilZero.string_of_uint (Nat.to_uint c) ++ ")"
  end.

(* the Error() of a gRPC status error *)
Definition status_string (c : nat) (m : string) : string :=
  "rpc error: code = " ++ code_name c ++ " desc = " ++ m.

(* err.Error() *)
Fixpoint error_string (e : eshape) : string :=
  match e with
  | EPlain m => m
  | EStatus c m _ => status_string c m
  | EServ c => cmsg c
  | EWrap w e => w ++ ": " ++ error_string e
  | EJoin a b => error_string a ++ nl ++ error_string b
  end.

(* errors.As(err, &gerr) with gerr a *ServiceError *)
Fixpoint find_serr (e : eshape) : option core :=
  match e with
  | EPlain _ => None
  | EStatus _ _ _ => None
  | EServ c => Some c
  | EWrap _ e => find_serr e
  | EJoin a b => match find_serr a with Some c => Some c | None => find_serr b end
  end.

(* goa.Fault("%s", msg) with the identifier NewErrorID drew *)
Definition fault_core (m id : string) : core :=
  {| cname := "fault"; cid := id; cfield := None; cmsg := m;
     ctimeout := false; ctemporary := false; cfault := true |}.

(* http.NewErrorResponse: the six body fields. fid = the identifier drawn when the error
   holds no service error *)
Definition http_error_response (fid : string) (e : eshape) : resp :=
  match find_serr e with
  | Some c => resp_of_core c
  | None => resp_of_core (fault_core (error_string e) fid)
  end.

(* ErrorResponse.StatusCode *)
Definition resp_status (r : resp) : nat := http_status (core_of_resp r).

(* the http.ResponseWriter as the encoder uses it: the status line that went out (only the
   first WriteHeader counts; a body written first sends an implicit 200), the bodies
   encoded so far, the number of WriteHeader calls *)
Record writer := { wstatus : option nat; wbodies : list resp; wcalls : nat }.
Definition fresh_writer : writer := {| wstatus := None; wbodies := []; wcalls := 0 |}.
Definition write_header (s : nat) (w : writer) : writer :=
  {| wstatus := match wstatus w with None => Some s | Some x => Some x end;
     wbodies := wbodies w; wcalls := S (wcalls w) |}.
Definition write_body (b : resp) (w : writer) : writer :=
  {| wstatus := match wstatus w with None => Some 200 | Some x => Some x end;
     wbodies := (wbodies w ++ [b])%list; wcalls := wcalls w |}.

(* a formatter: error -> Statuser; what matters of a Statuser is its status code and what
   the body encoder writes for it *)
Definition formatter := eshape -> nat * resp.

Definition default_formatter (fid : string) : formatter :=
  fun e => let r := http_error_response fid e in (resp_status r, r).

(* http.ErrorEncoder(encoder, formatter)(ctx, w, err) *)
Definition error_encoder (f : option formatter) (fid : string) (e : eshape) (w : writer) : writer :=
  let fm := match f with Some g => g | None => default_formatter fid end in
  let r := fm e in
  write_body (snd r) (write_header (fst r) w).

(* grpc.EncodeError for an error that is not already a gRPC status: code, status message,
   ErrorResponse detail *)
Definition code_of_flags (c : core) : grpc_code :=
  if ctemporary c then Unavailable
  else if ctimeout c then DeadlineExceeded
  else if cfault c then Internal
  else Unknown.

Definition grpc_encode (fid : string) (e : eshape) : grpc_code * string * resp :=
  match find_serr e with
  | Some c => (code_of_flags c, error_string e, resp_of_core c)
  | None => (Unknown, error_string e, resp_of_core (fault_core (error_string e) fid))
  end.

(* ---- the specification side for the transport: the service errors an error holds, in
        the order errors.As meets them, as a function of the shape alone ---- *)
Fixpoint serrs (e : eshape) : list core :=
  match e with
  | EPlain _ => []
  | EStatus _ _ _ => []
  | EServ c => [c]
  | EWrap _ e => serrs e
  | EJoin a b => (serrs a ++ serrs b)%list
  end.

(* the error the wire must describe: the first service error held, whatever wraps it, or a
   fault carrying the whole error text when there is none *)
Definition encoded_core (fid : string) (e : eshape) : core :=
  match serrs e with
  | c :: _ => c
  | [] => fault_core (error_string e) fid
  end.

(* n wrappers around an error *)
Definition wrap_all (ws : list string) (e : eshape) : eshape := fold_right EWrap e ws.

(* ---- grpc.EncodeError in full: errors that already are (or wrap) a gRPC status ---- *)

(* the status a gRPC error carries: code, message, details *)
Record gstatus := { gcode : nat; gmsg : string; gdetails : list detail }.

(* errors.As(err, &grpcstatus) inside status.FromError: first status of the chain *)
Fixpoint find_status (e : eshape) : option gstatus :=
  match e with
  | EPlain _ => None
  | EStatus c m ds => Some {| gcode := c; gmsg := m; gdetails := ds |}
  | EServ _ => None
  | EWrap _ e => find_status e
  | EJoin a b => match find_status a with Some s => Some s | None => find_status b end
  end.

Definition is_status (e : eshape) : bool := match e with EStatus _ _ _ => true | _ => false end.

(* status.FromError: the error's own status when it is one; when it only wraps one, that
   status with the message replaced by err.Error() *)
Definition from_error (e : eshape) : option gstatus :=
  match find_status e with
  | Some s => Some {| gcode := gcode s; gmsg := if is_status e then gmsg s else error_string e; gdetails := gdetails s |}
  | None => None
  end.

Definition code_num (c : grpc_code) : nat :=
  match c with Unknown => 2 | Internal => 13 | DeadlineExceeded => 4 | Unavailable => 14 end.

(* grpc.NewErrorResponse *)
Definition grpc_error_response (fid : string) (e : eshape) : resp :=
  match find_serr e with
  | Some c => resp_of_core c
  | None => resp_of_core (fault_core (error_string e) fid)
  end.

(* grpc.EncodeError: a status keeps its code, message and details and gains the
   ErrorResponse as LAST detail; anything else gets the code of the table *)
Definition grpc_encode_full (fid : string) (e : eshape) : gstatus :=
  let er := DResp (grpc_error_response fid e) in
  match from_error e with
  | Some st => {| gcode := gcode st; gmsg := gmsg st; gdetails := (gdetails st ++ [er])%list |}
  | None => {| gcode := match find_serr e with Some c => code_num (code_of_flags c) | None => 2 end;
               gmsg := error_string e; gdetails := [er] |}
  end.

(* grpc.DecodeError: the FIRST detail *)
Definition grpc_decode (s : gstatus) : option detail := hd_error (gdetails s).

(* the error value st.Err() of an encoded status, as a shape *)
Definition shape_of_status (s : gstatus) : eshape := EStatus (gcode s) (gmsg s) (gdetails s).

(* spec side: the statuses a shape holds, in the order errors.As meets them *)
Fixpoint statuses (e : eshape) : list gstatus :=
  match e with
  | EPlain _ => []
  | EStatus c m ds => [{| gcode := c; gmsg := m; gdetails := ds |}]
  | EServ _ => []
  | EWrap _ e => statuses e
  | EJoin a b => (statuses a ++ statuses b)%list
  end.

(* well-formed shapes: no status of code OK (that one is the nil error) *)
Fixpoint wf_shape (e : eshape) : bool :=
  match e with
  | EPlain _ | EServ _ => true
  | EStatus c _ _ => negb (Nat.eqb c 0)
  | EWrap _ e => wf_shape e
  | EJoin a b => wf_shape a && wf_shape b
  end.

(* encoding an already encoded status again, as the error st.Err() it is *)
Definition reencode (fid : string) (s : gstatus) : gstatus := grpc_encode_full fid (shape_of_status s).
