(* Histories of merges over error VARIABLES: MergeErrors updates its first argument in
   place (when it is, or wraps, a *ServiceError) and returns it, so an error that was
   merged into another one can later be merged into again. This file models the Go
   objects with their identity: a heap of service errors, variables holding references,
   and the operation  vars[dst] := MergeErrors(vars[i], vars[j]). *)
From Errors Require Import Model.
From Coq Require Import PeanoNat.

Inductive ref :=
| RNil
| RPlain (msg : string) (cause : nat)      (* a non-ServiceError error value *)
| RObj (n : nat)                           (* pointer to heap object n *)
| RWrap (n : nat).                         (* fmt.Errorf("…: %w", object n): errors.As finds n *)

Record hstate := { heap : list serr; vars : list ref }.

Inductive op := OMerge (dst i j : nat).

Definition dummy_serr : serr := {| cur := plain_core "" ""; hist := []; causes := [] |}.
Definition get_obj (h : list serr) (n : nat) : serr := nth n h dummy_serr.

Fixpoint set_nth {A} (l : list A) (n : nat) (x : A) : list A :=
  match l, n with
  | [], _ => []
  | _ :: r, 0 => x :: r
  | a :: r, S k => a :: set_nth r k x
  end.

Definition plain_serr (m : string) (z : nat) : serr :=
  {| cur := plain_core m ""; hist := []; causes := [z] |}.

(* the value asError(other) reads (no allocation is observable for the right operand) *)
Definition read_ref (h : list serr) (r : ref) : option serr :=
  match r with
  | RNil => None
  | RPlain m z => Some (plain_serr m z)
  | RObj n | RWrap n => Some (get_obj h n)
  end.

(* MergeErrors(a, b) on references: returns the new heap and the returned reference *)
Definition merge_refs (h : list serr) (a b : ref) : list serr * ref :=
  match a, read_ref h b with
  | RNil, _ => (h, b)
  | _, None => (h, a)
  | RPlain m z, Some o =>
      (* asError allocates a fresh *ServiceError for the plain error and merges into it *)
      ((h ++ [merge_serr (plain_serr m z) o])%list, RObj (List.length h))
  | RObj n, Some o | RWrap n, Some o =>
      (set_nth h n (merge_serr (get_obj h n) o), RObj n)
  end.

Definition step (st : hstate) (o : op) : hstate :=
  match o with
  | OMerge dst i j =>
      let '(h', r) := merge_refs (heap st) (nth i (vars st) RNil) (nth j (vars st) RNil) in
      {| heap := h'; vars := set_nth (vars st) dst r |}
  end.

Definition run (ops : list op) (st : hstate) : hstate := fold_left step ops st.

(* the original errors of an initial state: its (unmerged) objects and its plain values *)
Fixpoint plain_cores (vs : list ref) : list core :=
  match vs with
  | [] => []
  | RPlain m _ :: r => plain_core m "" :: plain_cores r
  | _ :: r => plain_cores r
  end.

Definition originals (st0 : hstate) : list core :=
  (map cur (heap st0) ++ plain_cores (vars st0))%list.

Definition unmerged (st0 : hstate) : Prop := Forall (fun s => hist s = []) (heap st0).

(* what must hold of every object at every point of every history *)
Definition obj_ok (orig : list core) (s : serr) : Prop :=
  Forall (fun c => In c orig) (history s) /\
  cmsg (cur s) = join_msgs (map cmsg (history s)) /\
  ctimeout (cur s) = forallb ctimeout (history s) /\
  ctemporary (cur s) = forallb ctemporary (history s) /\
  cfault (cur s) = forallb cfault (history s).

Definition ref_ok (orig : list core) (h : list serr) (r : ref) : Prop :=
  match r with
  | RNil => True
  | RPlain m _ => In (plain_core m "") orig
  | RObj n | RWrap n => n < List.length h
  end.

Definition state_ok (orig : list core) (st : hstate) : Prop :=
  Forall (obj_ok orig) (heap st) /\ Forall (ref_ok orig (heap st)) (vars st).
