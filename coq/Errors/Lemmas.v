From Errors Require Import Model.

Lemma sapp_assoc (a b c : string) : ((a ++ b) ++ c = a ++ (b ++ c))%string.
Proof. induction a as [|x a IH]; simpl; [reflexivity| now rewrite IH]. Qed.

Lemma history_nonempty e : history e <> [].
Proof. unfold history; destruct (hist e) eqn:H; discriminate. Qed.

Lemma history_of_hist e : hist e <> [] -> history e = hist e.
Proof. unfold history; destruct (hist e); [congruence|reflexivity]. Qed.

Lemma app_nonempty_l {A} (x y : list A) : x <> [] -> (x ++ y)%list <> [].
Proof. destruct x; [congruence|discriminate]. Qed.

Lemma history_merge e o : history (merge_serr e o) = (history e ++ history o)%list.
Proof. apply history_of_hist. simpl. apply app_nonempty_l, history_nonempty. Qed.

Lemma merge_serr_assoc a b c : merge_serr (merge_serr a b) c = merge_serr a (merge_serr b c).
Proof.
  unfold merge_serr at 1 3. rewrite !history_merge. simpl.
  f_equal; [|now rewrite app_assoc|now rewrite app_assoc].
  f_equal.
  - destruct (String.eqb (cname (cur a)) "error") eqn:E; [reflexivity|]. now rewrite E.
  - now rewrite !sapp_assoc.
  - now rewrite andb_assoc.
  - now rewrite andb_assoc.
  - now rewrite andb_assoc.
Qed.

Lemma merge_nil_l v : merge VNil v = v.
Proof. reflexivity. Qed.

Lemma merge_nil_r v : merge v VNil = v.
Proof. destruct v; reflexivity. Qed.

Lemma as_serr_merge a b ea eb :
  as_serr a = Some ea -> as_serr b = Some eb -> merge a b = VServ (merge_serr ea eb).
Proof. intros Ha Hb. unfold merge. now rewrite Ha, Hb. Qed.

Lemma merge_assoc a b c : merge (merge a b) c = merge a (merge b c).
Proof.
  destruct (as_serr a) as [ea|] eqn:Ha.
  2:{ destruct a; try discriminate. reflexivity. }
  destruct (as_serr b) as [eb|] eqn:Hb.
  2:{ destruct b; try discriminate. now rewrite merge_nil_r, merge_nil_l. }
  destruct (as_serr c) as [ec|] eqn:Hc.
  2:{ destruct c; try discriminate. now rewrite !merge_nil_r. }
  rewrite (as_serr_merge a b ea eb Ha Hb).
  rewrite (as_serr_merge b c eb ec Hb Hc).
  unfold merge. rewrite Ha, Hc. simpl. now rewrite merge_serr_assoc.
Qed.

Definition fold_vals (ls : list leaf) : val := fold_right merge VNil (map val_of ls).

Lemma fold_vals_app a b : fold_vals (a ++ b) = merge (fold_vals a) (fold_vals b).
Proof.
  unfold fold_vals. induction a as [|x a IH]; simpl; [reflexivity|].
  now rewrite IH, merge_assoc.
Qed.

Lemma merge_tree_fold t : merge_tree t = fold_vals (leaves t).
Proof.
  induction t as [l|l IHl r IHr]; simpl.
  - unfold fold_vals; simpl. now rewrite merge_nil_r.
  - now rewrite fold_vals_app, IHl, IHr.
Qed.

Lemma fold_vals_nonnil ls : fold_vals ls = fold_vals (nonnil ls).
Proof.
  unfold fold_vals. induction ls as [|l ls IH]; simpl; [reflexivity|].
  destruct l; simpl; rewrite IH; reflexivity.
Qed.

(* the service error a non-nil leaf becomes under asError *)
Definition leaf_serr (l : leaf) : serr :=
  {| cur := core_of l; hist := []; causes := causes_of l |}.

Lemma as_serr_leaf l : is_nil l = false -> as_serr (val_of l) = Some (leaf_serr l).
Proof. destruct l; simpl; intro H; try discriminate; reflexivity. Qed.

Fixpoint sfold (l : leaf) (r : list leaf) : serr :=
  match r with
  | [] => leaf_serr l
  | l' :: r' => merge_serr (leaf_serr l) (sfold l' r')
  end.

Lemma first_specific_single n : first_specific [n] = n.
Proof. simpl. destruct (String.eqb n "error") eqn:E; [|reflexivity]. apply String.eqb_eq in E. now subst. Qed.

Lemma first_specific_cons n r : first_specific (n :: r) = if String.eqb n "error" then first_specific r else n.
Proof. reflexivity. Qed.

Lemma sfold_history l r : history (sfold l r) = map core_of (l :: r).
Proof.
  revert l; induction r as [|l' r IH]; intro l; simpl sfold.
  - reflexivity.
  - rewrite history_merge, IH. reflexivity.
Qed.

Lemma sfold_spec l l' r : sfold l (l' :: r) = spec_serr (l :: l' :: r).
Proof.
  revert l l'. induction r as [|l'' r IH]; intros l l'.
  - cbn [sfold]. unfold merge_serr, spec_serr. cbn [map hd cur hist causes leaf_serr history flat_map forallb].
    rewrite (first_specific_cons (cname (core_of l))), first_specific_single, !andb_true_r, app_nil_r. reflexivity.
  - cbn [sfold] in *. rewrite IH. clear IH.
    unfold merge_serr. rewrite (history_of_hist (spec_serr _)) by (unfold spec_serr; cbn [hist map]; discriminate).
    unfold spec_serr. cbn [map hd cur hist causes leaf_serr history flat_map forallb app].
    f_equal.
Qed.

Lemma all_nonnil_nonnil ls : forallb (fun l => negb (is_nil l)) (nonnil ls) = true.
Proof.
  unfold nonnil. induction ls as [|l ls IH]; simpl; [reflexivity|].
  destruct (is_nil l) eqn:E; simpl; [assumption|]. now rewrite E, IH.
Qed.

Lemma fold_vals_sfold l r :
  is_nil l = false -> forallb (fun l => negb (is_nil l)) r = true ->
  as_serr (fold_vals (l :: r)) = Some (sfold l r) /\
  (r <> [] -> fold_vals (l :: r) = VServ (sfold l r)).
Proof.
  revert l; induction r as [|l' r IH]; intros l Hl Hr.
  - unfold fold_vals; simpl. rewrite merge_nil_r. split; [now apply as_serr_leaf|congruence].
  - simpl in Hr. apply andb_prop in Hr as [Hl' Hr]. apply negb_true_iff in Hl'.
    destruct (IH l' Hl' Hr) as [IH1 _].
    change (fold_vals (l :: l' :: r)) with (merge (val_of l) (fold_vals (l' :: r))).
    rewrite (as_serr_merge _ _ _ _ (as_serr_leaf l Hl) IH1). simpl. split; [reflexivity|]. intros _. reflexivity.
Qed.

Lemma fold_vals_spec ls : fold_vals ls = spec ls.
Proof.
  rewrite fold_vals_nonnil. unfold spec.
  pose proof (all_nonnil_nonnil ls) as H.
  destruct (nonnil ls) as [|l [|l' r]]; [reflexivity| |].
  - unfold fold_vals; simpl. now rewrite merge_nil_r.
  - simpl in H. apply andb_prop in H as [Hl Hr]. apply negb_true_iff in Hl.
    destruct (fold_vals_sfold l (l' :: r) Hl Hr) as [_ E].
    rewrite E by discriminate. now rewrite sfold_spec.
Qed.

Lemma merge_tree_spec t : merge_tree t = spec (leaves t).
Proof. now rewrite merge_tree_fold, fold_vals_spec. Qed.

Lemma grouping_irrelevant t1 t2 : leaves t1 = leaves t2 -> merge_tree t1 = merge_tree t2.
Proof. intro H. now rewrite !merge_tree_spec, H. Qed.

(* consequences of the closed form, for two or more non-nil originals *)
Section Closed.
  Variables (t : tree) (a b : leaf) (r : list leaf).
  Hypothesis H : nonnil (leaves t) = a :: b :: r.
  Let ls := a :: b :: r.

  Lemma closed_form : merge_tree t = VServ (spec_serr ls).
  Proof. rewrite merge_tree_spec. unfold spec. now rewrite H. Qed.
End Closed.

Lemma forallb_flag (f : core -> bool) cs : forallb f cs = true <-> forall c, In c cs -> f c = true.
Proof. apply forallb_forall. Qed.

Lemma first_specific_spec ns :
  (first_specific ns = "error" /\ forall n, In n ns -> n = "error") \/
  (exists pre n post, ns = (pre ++ n :: post)%list /\ (forall m, In m pre -> m = "error") /\
                      n <> "error" /\ first_specific ns = n).
Proof.
  induction ns as [|n ns IH]; simpl.
  - left; split; [reflexivity|]. intros n [].
  - destruct (String.eqb n "error") eqn:E.
    + apply String.eqb_eq in E. subst n. destruct IH as [[H1 H2]|(pre & n & post & H1 & H2 & H3 & H4)].
      * left. split; [assumption|]. intros m [<-|Hm]; auto.
      * right. exists ("error" :: pre), n, post. subst ns. split; [reflexivity|].
        split; [intros m [<-|Hm]; auto|]. auto.
    + apply String.eqb_neq in E. right. exists [], n, ns. repeat split; auto. intros m [].
Qed.

(* status tables *)
Lemma http_status_range c : In (http_status c) [400; 408; 415; 500; 503; 504].
Proof.
  unfold http_status. destruct (String.eqb _ _), (cfault c), (ctimeout c), (ctemporary c); simpl; auto 10.
Qed.

Lemma grpc_roundtrip c : core_of_resp (resp_of_core c) = drop_field c.
Proof. reflexivity. Qed.

(* ---- error shapes through the transport encoders ---- *)

(* errors.As finds the first service error of the chain, depth first, left to right *)
Lemma find_serr_hd e : find_serr e = hd_error (serrs e).
Proof.
  induction e as [m|sc sm sd|c|w e IH|a IHa b IHb]; simpl; try reflexivity.
  - exact IH.
  - rewrite IHa, IHb. destruct (serrs a); reflexivity.
Qed.

(* wrappers, however many, change neither what is found nor the list of service errors *)
Lemma serrs_wrap_all ws e : serrs (wrap_all ws e) = serrs e.
Proof. induction ws as [|w ws IH]; simpl; [reflexivity|exact IH]. Qed.

Lemma find_serr_wrap_all ws e : find_serr (wrap_all ws e) = find_serr e.
Proof. induction ws as [|w ws IH]; simpl; [reflexivity|exact IH]. Qed.

Lemma http_error_response_spec fid e :
  http_error_response fid e = resp_of_core (encoded_core fid e).
Proof.
  unfold http_error_response, encoded_core. rewrite find_serr_hd.
  destruct (serrs e); reflexivity.
Qed.

Lemma resp_status_of_core c : resp_status (resp_of_core c) = http_status c.
Proof. reflexivity. Qed.

Lemma encoder_default fid e :
  error_encoder None fid e fresh_writer =
  {| wstatus := Some (http_status (encoded_core fid e));
     wbodies := [resp_of_core (encoded_core fid e)];
     wcalls := 1 |}.
Proof.
  unfold error_encoder, default_formatter. cbn [fst snd].
  rewrite http_error_response_spec, resp_status_of_core. reflexivity.
Qed.

Lemma encoder_custom (f : formatter) fid e :
  error_encoder (Some f) fid e fresh_writer =
  {| wstatus := Some (fst (f e)); wbodies := [snd (f e)]; wcalls := 1 |}.
Proof. reflexivity. Qed.

Lemma encoder_wrap_all ws fid c w :
  error_encoder None fid (wrap_all ws (EServ c)) w = error_encoder None fid (EServ c) w.
Proof.
  unfold error_encoder, default_formatter, http_error_response.
  rewrite find_serr_wrap_all. reflexivity.
Qed.

Lemma encoder_wrapped_service ws fid c :
  error_encoder None fid (wrap_all ws (EServ c)) fresh_writer =
  {| wstatus := Some (http_status c); wbodies := [resp_of_core c]; wcalls := 1 |}.
Proof. rewrite encoder_wrap_all. reflexivity. Qed.

Lemma encoder_no_service fid e :
  serrs e = [] ->
  error_encoder None fid e fresh_writer =
  {| wstatus := Some 500; wbodies := [resp_of_core (fault_core (error_string e) fid)]; wcalls := 1 |}.
Proof.
  intro H. rewrite encoder_default. unfold encoded_core. rewrite H. reflexivity.
Qed.

Lemma encoder_status_range fid e :
  exists s, wstatus (error_encoder None fid e fresh_writer) = Some s /\ In s [400; 408; 415; 500; 503; 504].
Proof.
  rewrite encoder_default. eexists; split; [reflexivity|]. apply http_status_range.
Qed.

Lemma grpc_encode_spec fid e :
  grpc_encode fid e =
  (match serrs e with [] => Unknown | c :: _ => code_of_flags c end,
   error_string e, resp_of_core (encoded_core fid e)).
Proof.
  unfold grpc_encode, encoded_core. rewrite find_serr_hd. destruct (serrs e); reflexivity.
Qed.

Lemma grpc_encode_back fid e :
  core_of_resp (snd (grpc_encode fid e)) = drop_field (encoded_core fid e).
Proof. rewrite grpc_encode_spec. reflexivity. Qed.

(* ---- grpc.EncodeError in full (status inputs) ---- *)

Lemma find_status_hd e : find_status e = hd_error (statuses e).
Proof.
  induction e as [m|sc sm sd|c|w e IH|a IHa b IHb]; simpl; try reflexivity.
  - exact IH.
  - rewrite IHa, IHb. destruct (statuses a); reflexivity.
Qed.

Lemma statuses_wrap_all ws e : statuses (wrap_all ws e) = statuses e.
Proof. induction ws as [|w ws IH]; simpl; [reflexivity|exact IH]. Qed.

Lemma grpc_error_response_spec fid e :
  grpc_error_response fid e = resp_of_core (encoded_core fid e).
Proof.
  unfold grpc_error_response, encoded_core. rewrite find_serr_hd. destruct (serrs e); reflexivity.
Qed.

Definition table_code (c : core) : nat :=
  if ctemporary c then 14 else if ctimeout c then 4 else if cfault c then 13 else 2.

Lemma code_num_flags c : code_num (code_of_flags c) = table_code c.
Proof. unfold code_of_flags, table_code. destruct (ctemporary c), (ctimeout c), (cfault c); reflexivity. Qed.

(* closed form of EncodeError over the spec-side lists *)
Definition grpc_full_closed (fid : string) (e : eshape) : gstatus :=
  let er := DResp (resp_of_core (encoded_core fid e)) in
  match statuses e with
  | s :: _ => {| gcode := gcode s; gmsg := if is_status e then gmsg s else error_string e;
                 gdetails := (gdetails s ++ [er])%list |}
  | [] => {| gcode := match serrs e with c :: _ => table_code c | [] => 2 end;
             gmsg := error_string e; gdetails := [er] |}
  end.

Lemma grpc_full_spec fid e : grpc_encode_full fid e = grpc_full_closed fid e.
Proof.
  unfold grpc_encode_full, grpc_full_closed, from_error.
  rewrite grpc_error_response_spec, find_status_hd, find_serr_hd.
  destruct (statuses e) as [|s r]; simpl.
  - destruct (serrs e) as [|c r']; simpl; [reflexivity|]. now rewrite code_num_flags.
  - reflexivity.
Qed.

Lemma grpc_full_extends fid e :
  statuses e = [] ->
  grpc_encode_full fid e =
  {| gcode := code_num (fst (fst (grpc_encode fid e))); gmsg := snd (fst (grpc_encode fid e));
     gdetails := [DResp (snd (grpc_encode fid e))] |}.
Proof.
  intro H. unfold grpc_encode_full, from_error, grpc_encode, grpc_error_response.
  rewrite find_status_hd, H. simpl. destruct (find_serr e); reflexivity.
Qed.


Lemma wf_find_status e s : wf_shape e = true -> find_status e = Some s -> gcode s <> 0.
Proof.
  revert s. induction e as [m|sc sm sd|c|w e IH|a IHa b IHb]; simpl; intros s W F; try discriminate.
  - injection F as <-. simpl. intro Z. subst sc. discriminate.
  - exact (IH s W F).
  - apply andb_prop in W. destruct W as [Wa Wb].
    destruct (find_status a) as [sa|] eqn:Fa.
    + injection F as <-. exact (IHa sa Wa eq_refl).
    + exact (IHb s Wb F).
Qed.

Lemma grpc_full_never_ok fid e : wf_shape e = true -> gcode (grpc_encode_full fid e) <> 0.
Proof.
  intro W. unfold grpc_encode_full, from_error.
  destruct (find_status e) as [s|] eqn:F; simpl.
  - exact (wf_find_status e s W F).
  - destruct (find_serr e) as [c|]; [|discriminate].
    rewrite code_num_flags. unfold table_code.
    destruct (ctemporary c), (ctimeout c), (cfault c); discriminate.
Qed.

Lemma grpc_full_decode fid e :
  grpc_decode (grpc_encode_full fid e) =
  match statuses e with
  | s :: _ => match gdetails s with d :: _ => Some d | [] => Some (DResp (resp_of_core (encoded_core fid e))) end
  | [] => Some (DResp (resp_of_core (encoded_core fid e)))
  end.
Proof.
  rewrite grpc_full_spec. unfold grpc_full_closed, grpc_decode.
  destruct (statuses e) as [|s r]; simpl; [reflexivity|]. destruct (gdetails s); reflexivity.
Qed.

Lemma grpc_full_roundtrip fid e :
  (forall s, hd_error (statuses e) = Some s -> gdetails s = []) ->
  grpc_decode (grpc_encode_full fid e) = Some (DResp (resp_of_core (encoded_core fid e))).
Proof.
  intro H. rewrite grpc_full_decode. destruct (statuses e) as [|s r]; [reflexivity|].
  rewrite (H s eq_refl). reflexivity.
Qed.

Definition refute_core : core :=
  {| cname := "not_found"; cid := "i1"; cfield := None; cmsg := "m";
     ctimeout := false; ctemporary := false; cfault := false |}.
Definition refute_shape : eshape := EJoin (EStatus 5 "missing" [DOther "x"]) (EServ refute_core).

Lemma grpc_full_roundtrip_fails :
  exists fid e, serrs e <> [] /\
    grpc_decode (grpc_encode_full fid e) <> Some (DResp (resp_of_core (encoded_core fid e))).
Proof. exists "", refute_shape. split; vm_compute; discriminate. Qed.

(* encoding an already encoded status again, any number of times *)

Lemma reencode_step fid s :
  reencode fid s =
  {| gcode := gcode s; gmsg := gmsg s;
     gdetails := (gdetails s ++ [DResp (resp_of_core (fault_core (status_string (gcode s) (gmsg s)) fid))])%list |}.
Proof. reflexivity. Qed.

Lemma hd_error_app_nonempty {A} (l r : list A) : l <> [] -> hd_error (l ++ r)%list = hd_error l.
Proof. destruct l; [congruence|reflexivity]. Qed.

Lemma grpc_full_details_nonempty fid e : gdetails (grpc_encode_full fid e) <> [].
Proof.
  unfold grpc_encode_full. destruct (from_error e); simpl; [|discriminate].
  intro H. apply app_eq_nil in H. destruct H as [_ H]. discriminate.
Qed.

Lemma reencode_iter fid n s :
  gdetails s <> [] ->
  let s' := Nat.iter n (reencode fid) s in
  gcode s' = gcode s /\ gmsg s' = gmsg s /\ grpc_decode s' = grpc_decode s /\ gdetails s' <> [].
Proof.
  intro H. induction n as [|n IH]; simpl.
  - repeat split; assumption.
  - destruct IH as (Hc & Hm & Hd & Hn). rewrite reencode_step. simpl.
    repeat split; try assumption.
    + unfold grpc_decode. simpl. rewrite hd_error_app_nonempty by assumption. exact Hd.
    + intro Z. apply app_eq_nil in Z. destruct Z as [Z _]. contradiction.
Qed.

Lemma grpc_full_reencode fid fid' n e :
  let s := grpc_encode_full fid e in
  let s' := Nat.iter n (reencode fid') s in
  gcode s' = gcode s /\ gmsg s' = gmsg s /\ grpc_decode s' = grpc_decode s.
Proof.
  intros s s'. destruct (reencode_iter fid' n s (grpc_full_details_nonempty fid e)) as (A & B & C & _).
  repeat split; assumption.
Qed.
