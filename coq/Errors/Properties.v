(* C18 — property statements only. Every theorem is closed by a lemma of
   Lemmas.v and followed by Print Assumptions. *)
From Errors Require Import Model Lemmas Heap HeapLemmas.

(* Merging gives the same result however the merges are grouped: any two merge
   trees over the same sequence of original errors yield the same value (name,
   id, field, message, flags, history, causes). *)
Theorem merge_grouping_irrelevant t1 t2 : leaves t1 = leaves t2 -> merge_tree t1 = merge_tree t2.
Proof. exact (grouping_irrelevant t1 t2). Qed.
Print Assumptions merge_grouping_irrelevant.

(* The result is a function of the non-nil originals in order: nothing for none,
   the error itself for one, and for two or more the service error whose message
   is the concatenation, whose flags are the conjunctions, whose name is the first
   specific name, whose history lists every original exactly once, unchanged, and
   whose causes are all the original causes. *)
Theorem merge_closed_form t : merge_tree t = spec (leaves t).
Proof. exact (merge_tree_spec t). Qed.
Print Assumptions merge_closed_form.

Theorem merge_history_exactly_once t a b r :
  nonnil (leaves t) = a :: b :: r ->
  exists e, merge_tree t = VServ e /\ hist e = map core_of (a :: b :: r).
Proof. intro H. eexists; split; [exact (closed_form t a b r H)|reflexivity]. Qed.
Print Assumptions merge_history_exactly_once.

Theorem merge_msg_concat t a b r :
  nonnil (leaves t) = a :: b :: r ->
  exists e, merge_tree t = VServ e /\ cmsg (cur e) = join_msgs (map cmsg (map core_of (a :: b :: r))).
Proof. intro H. eexists; split; [exact (closed_form t a b r H)|reflexivity]. Qed.
Print Assumptions merge_msg_concat.

Theorem merge_flags_conj t a b r :
  nonnil (leaves t) = a :: b :: r ->
  exists e, merge_tree t = VServ e /\
    (ctimeout (cur e) = true <-> forall c, In c (map core_of (a :: b :: r)) -> ctimeout c = true) /\
    (ctemporary (cur e) = true <-> forall c, In c (map core_of (a :: b :: r)) -> ctemporary c = true) /\
    (cfault (cur e) = true <-> forall c, In c (map core_of (a :: b :: r)) -> cfault c = true).
Proof.
  intro H. eexists; split; [exact (closed_form t a b r H)|].
  repeat split; try (apply forallb_flag); try (intro; apply forallb_flag; assumption).
Qed.
Print Assumptions merge_flags_conj.

Theorem merge_name_first_specific t a b r :
  nonnil (leaves t) = a :: b :: r ->
  exists e, merge_tree t = VServ e /\
    let ns := map cname (map core_of (a :: b :: r)) in
    (cname (cur e) = "error" /\ forall n, In n ns -> n = "error") \/
    (exists pre n post, ns = (pre ++ n :: post)%list /\ (forall m, In m pre -> m = "error") /\
                        n <> "error" /\ cname (cur e) = n).
Proof. intro H. eexists; split; [exact (closed_form t a b r H)|]. apply first_specific_spec. Qed.
Print Assumptions merge_name_first_specific.

Theorem merge_causes_reachable t a b r :
  nonnil (leaves t) = a :: b :: r ->
  exists e, merge_tree t = VServ e /\ causes e = flat_map causes_of (a :: b :: r).
Proof. intro H. eexists; split; [exact (closed_form t a b r H)|reflexivity]. Qed.
Print Assumptions merge_causes_reachable.

Theorem merge_nil_neutral v : merge VNil v = v /\ merge v VNil = v.
Proof. exact (conj (merge_nil_l v) (merge_nil_r v)). Qed.
Print Assumptions merge_nil_neutral.

Theorem merge_associative a b c : merge (merge a b) c = merge a (merge b c).
Proof. exact (merge_assoc a b c). Qed.
Print Assumptions merge_associative.

(* the default flag -> HTTP status mapping is total and follows the table *)
Theorem http_status_table c : http_status c =
  if String.eqb (cname c) "unsupported_media_type" then 415 else if cfault c then 500
  else if ctimeout c then (if ctemporary c then 504 else 408) else if ctemporary c then 503 else 400.
Proof. reflexivity. Qed.
Print Assumptions http_status_table.

Theorem http_status_total c : In (http_status c) [400; 408; 415; 500; 503; 504].
Proof. exact (http_status_range c). Qed.
Print Assumptions http_status_total.

Theorem grpc_code_table s :
  grpc_code_of (VServ s) =
    if ctemporary (cur s) then Unavailable else if ctimeout (cur s) then DeadlineExceeded
    else if cfault (cur s) then Internal else Unknown.
Proof. reflexivity. Qed.
Print Assumptions grpc_code_table.

(* encoded into a gRPC status and decoded back: same name, id, message, flags *)
Theorem grpc_error_roundtrip c : core_of_resp (resp_of_core c) = drop_field c.
Proof. exact (grpc_roundtrip c). Qed.
Print Assumptions grpc_error_roundtrip.

(* Histories of merges over error VARIABLES (MergeErrors updates its first argument in
   place, so an error already merged into another one can be merged into again): after
   ANY sequence of merges, every object's history consists of original errors only (an
   entry never shows a merged message or name), its message is the concatenation of its
   history's messages and its flags are their conjunctions. *)
Theorem histories_keep_originals_unchanged st0 ops :
  unmerged st0 ->
  Forall (fun r => match r with RObj n | RWrap n => n < List.length (heap st0) | _ => True end) (vars st0) ->
  Forall (obj_ok (originals st0)) (heap (run ops st0)).
Proof. exact (histories_keep_originals st0 ops). Qed.
Print Assumptions histories_keep_originals_unchanged.

(* the flags the generated client derives from a status are those the server-side table
   encodes in it: for every error core, whatever its flags *)
Theorem client_flags_follow_status_table c :
  client_flags (http_status c) =
    if String.eqb (cname c) "unsupported_media_type" then (false, false, false)
    else if cfault c then (false, false, true)
    else (ctimeout c, ctemporary c, false).
Proof.
  unfold http_status, unsupported_media_type.
  destruct (String.eqb (cname c) "unsupported_media_type"), (cfault c), (ctimeout c), (ctemporary c); reflexivity.
Qed.
Print Assumptions client_flags_follow_status_table.

(* ---- the path a server takes: an error returned by a method -> http.ErrorEncoder ->
        status line and body on the wire. Errors are arbitrary SHAPES: a service error
        under any number of wrappers (fmt.Errorf %w, types with Unwrap), joined with
        other errors (errors.Join), or no service error at all. ---- *)

(* With the default formatter, on a fresh response writer, for EVERY error shape: exactly
   one WriteHeader, whose status follows the documented table for the flags and name of
   the first service error the chain holds (a fault when it holds none), then exactly one
   body carrying that error's own name, id, message and flags. *)
Theorem encoder_default_follows_table fid e :
  error_encoder None fid e fresh_writer =
  let c := encoded_core fid e in
  {| wstatus := Some (if String.eqb (cname c) "unsupported_media_type" then 415 else if cfault c then 500
                      else if ctimeout c then (if ctemporary c then 504 else 408)
                      else if ctemporary c then 503 else 400);
     wbodies := [ {| rname := cname c; rid := cid c; rmsg := cmsg c;
                     rtimeout := ctimeout c; rtemporary := ctemporary c; rfault := cfault c |} ];
     wcalls := 1 |}.
Proof. exact (encoder_default fid e). Qed.
Print Assumptions encoder_default_follows_table.

(* the decision procedure of the code (errors.As) finds exactly the head of the list of
   service errors the shape holds, in depth-first left-to-right order *)
Theorem errors_as_finds_first_service_error e : find_serr e = hd_error (serrs e).
Proof. exact (find_serr_hd e). Qed.
Print Assumptions errors_as_finds_first_service_error.

(* wrapping is irrelevant, at ANY depth: a service error under n wrappers is encoded,
   from any writer state, exactly as the bare service error is *)
Theorem encoder_wrapping_irrelevant ws fid c w :
  error_encoder None fid (wrap_all ws (EServ c)) w = error_encoder None fid (EServ c) w.
Proof. exact (encoder_wrap_all ws fid c w). Qed.
Print Assumptions encoder_wrapping_irrelevant.

(* ... so it is mapped from its own flags and name and sent with its own fields *)
Theorem encoder_wrapped_service_error ws fid c :
  error_encoder None fid (wrap_all ws (EServ c)) fresh_writer =
  {| wstatus := Some (if String.eqb (cname c) "unsupported_media_type" then 415 else if cfault c then 500
                      else if ctimeout c then (if ctemporary c then 504 else 408)
                      else if ctemporary c then 503 else 400);
     wbodies := [ {| rname := cname c; rid := cid c; rmsg := cmsg c;
                     rtimeout := ctimeout c; rtemporary := ctemporary c; rfault := cfault c |} ];
     wcalls := 1 |}.
Proof. exact (encoder_wrapped_service ws fid c). Qed.
Print Assumptions encoder_wrapped_service_error.

(* an error that holds no service error anywhere is a permanent server fault: 500, name
   "fault", fault flag only, the whole error text as message, a new identifier *)
Theorem encoder_plain_error_is_fault fid e :
  serrs e = [] ->
  error_encoder None fid e fresh_writer =
  {| wstatus := Some 500;
     wbodies := [ {| rname := "fault"; rid := fid; rmsg := error_string e;
                     rtimeout := false; rtemporary := false; rfault := true |} ];
     wcalls := 1 |}.
Proof. exact (encoder_no_service fid e). Qed.
Print Assumptions encoder_plain_error_is_fault.

(* the default mapping is total on error shapes *)
Theorem encoder_status_total fid e :
  exists s, wstatus (error_encoder None fid e fresh_writer) = Some s /\ In s [400; 408; 415; 500; 503; 504].
Proof. exact (encoder_status_range fid e). Qed.
Print Assumptions encoder_status_total.

(* with a custom formatter — ANY formatter — the wire carries that formatter's status and
   body, for every error shape *)
Theorem encoder_custom_formatter_decides (f : formatter) fid e :
  error_encoder (Some f) fid e fresh_writer =
  {| wstatus := Some (fst (f e)); wbodies := [snd (f e)]; wcalls := 1 |}.
Proof. exact (encoder_custom f fid e). Qed.
Print Assumptions encoder_custom_formatter_decides.

(* gRPC, every error shape: code from the flags of the first service error held (Unknown
   when none), status message = the error text, detail = that error's fields; decoding
   the detail gives back name, id, message and flags *)
Theorem grpc_encode_follows_table fid e :
  grpc_encode fid e =
  (match serrs e with
   | [] => Unknown
   | c :: _ => if ctemporary c then Unavailable else if ctimeout c then DeadlineExceeded
               else if cfault c then Internal else Unknown
   end, error_string e, resp_of_core (encoded_core fid e)).
Proof. exact (grpc_encode_spec fid e). Qed.
Print Assumptions grpc_encode_follows_table.

Theorem grpc_encode_roundtrip fid e :
  core_of_resp (snd (grpc_encode fid e)) = drop_field (encoded_core fid e).
Proof. exact (grpc_encode_back fid e). Qed.
Print Assumptions grpc_encode_roundtrip.

(* ---- grpc.EncodeError in full: errors that already are, or wrap, a gRPC status ---- *)

(* status.FromError's search (errors.As) finds the head of the statuses a shape holds *)
Theorem from_error_finds_first_status e : find_status e = hd_error (statuses e).
Proof. exact (find_status_hd e). Qed.
Print Assumptions from_error_finds_first_status.

(* closed form for EVERY error shape: a held status keeps its code and details (message:
   its own when the error IS the status, the whole error text when it only wraps it) and
   gains the ErrorResponse as last detail; otherwise the code comes from the flag table
   (14 Unavailable, 4 DeadlineExceeded, 13 Internal, 2 Unknown) *)
Theorem grpc_encode_full_closed_form fid e :
  grpc_encode_full fid e =
  let er := DResp (resp_of_core (encoded_core fid e)) in
  match statuses e with
  | s :: _ => {| gcode := gcode s; gmsg := if is_status e then gmsg s else error_string e;
                 gdetails := (gdetails s ++ [er])%list |}
  | [] => {| gcode := match serrs e with
                      | c :: _ => if ctemporary c then 14 else if ctimeout c then 4 else if cfault c then 13 else 2
                      | [] => 2 end;
             gmsg := error_string e; gdetails := [er] |}
  end.
Proof. exact (grpc_full_spec fid e). Qed.
Print Assumptions grpc_encode_full_closed_form.

(* on errors that hold no status it is the table-only encoder of the theorems above *)
Theorem grpc_encode_full_extends fid e :
  statuses e = [] ->
  grpc_encode_full fid e =
  {| gcode := code_num (fst (fst (grpc_encode fid e))); gmsg := snd (fst (grpc_encode fid e));
     gdetails := [DResp (snd (grpc_encode fid e))] |}.
Proof. exact (grpc_full_extends fid e). Qed.
Print Assumptions grpc_encode_full_extends.

(* total: an error never becomes the OK status (the nil error), whatever its shape *)
Theorem grpc_encode_full_never_ok fid e : wf_shape e = true -> gcode (grpc_encode_full fid e) <> 0.
Proof. exact (grpc_full_never_ok fid e). Qed.
Print Assumptions grpc_encode_full_never_ok.

(* what DecodeError returns after EncodeError, every shape *)
Theorem grpc_decode_after_encode fid e :
  grpc_decode (grpc_encode_full fid e) =
  match statuses e with
  | s :: _ => match gdetails s with d :: _ => Some d | [] => Some (DResp (resp_of_core (encoded_core fid e))) end
  | [] => Some (DResp (resp_of_core (encoded_core fid e)))
  end.
Proof. exact (grpc_full_decode fid e). Qed.
Print Assumptions grpc_decode_after_encode.

(* round trip: the decoded message is the ErrorResponse carrying name, id, message and
   flags of the error — provided the first status held (if any) had no details of its own *)
Theorem grpc_full_roundtrip_partial fid e :
  (forall s, hd_error (statuses e) = Some s -> gdetails s = []) ->
  grpc_decode (grpc_encode_full fid e) = Some (DResp (resp_of_core (encoded_core fid e))).
Proof. exact (grpc_full_roundtrip fid e). Qed.
Print Assumptions grpc_full_roundtrip_partial.

(* ... and without that proviso it fails, even for an error that holds a service error:
   EncodeError APPENDS the ErrorResponse, DecodeError reads the FIRST detail
   (finding grpc-roundtrip-status-with-details) *)
Theorem grpc_full_roundtrip_refuted :
  exists fid e, serrs e <> [] /\
    grpc_decode (grpc_encode_full fid e) <> Some (DResp (resp_of_core (encoded_core fid e))).
Proof. exact grpc_full_roundtrip_fails. Qed.
Print Assumptions grpc_full_roundtrip_refuted.

(* encoding an encoded error again (interceptors, proxies), ANY number of times, changes
   neither the code, nor the message, nor what DecodeError returns *)
Theorem grpc_reencode_stable fid fid' n e :
  let s := grpc_encode_full fid e in
  let s' := Nat.iter n (reencode fid') s in
  gcode s' = gcode s /\ gmsg s' = gmsg s /\ grpc_decode s' = grpc_decode s.
Proof. exact (grpc_full_reencode fid fid' n e). Qed.
Print Assumptions grpc_reencode_stable.

(* non-vacuity: a wrapped NotFound status keeps its code, gets the whole text as message;
   re-encoded twice it still decodes to the first ErrorResponse *)
Example grpc_full_example :
  let e := EWrap "ctx" (EStatus 5 "missing" []) in
  let s := grpc_encode_full "n" e in
  gcode s = 5 /\ gmsg s = "ctx: rpc error: code = NotFound desc = missing" /\
  grpc_decode s = Some (DResp {| rname := "fault"; rid := "n"; rmsg := gmsg s; rtimeout := false; rtemporary := false; rfault := true |}) /\
  List.length (gdetails (Nat.iter 2 (reencode "k") s)) = 3 /\
  grpc_decode (Nat.iter 2 (reencode "k") s) = grpc_decode s /\
  code_name 77 = "Code(77)" /\
  gcode (grpc_encode_full "n" (EJoin (EPlain "p") (EServ {| cname := "t"; cid := "i"; cfield := None; cmsg := "m"; ctimeout := true; ctemporary := false; cfault := true |}))) = 4.
Proof. vm_compute. repeat split. Qed.

(* non-vacuity: a timeout service error under three wrappers and a join goes out as 408
   with its own fields; a header written after a body would not count *)
Example encoder_example :
  let c := {| cname := "slow"; cid := "i1"; cfield := Some "f"; cmsg := "too slow"; ctimeout := true; ctemporary := false; cfault := false |} in
  let e := EWrap "a" (EJoin (EPlain "p") (EWrap "b" (EWrap "c" (EServ c)))) in
  error_encoder None "new" e fresh_writer =
    {| wstatus := Some 408; wbodies := [ {| rname := "slow"; rid := "i1"; rmsg := "too slow"; rtimeout := true; rtemporary := false; rfault := false |} ]; wcalls := 1 |}
  /\ error_string e = "a: p" ++ nl ++ "b: c: too slow"
  /\ wstatus (write_header 408 (write_body (resp_of_core c) fresh_writer)) = Some 200.
Proof. vm_compute. repeat split. Qed.

Example history_reuse_example :
  (* all := Merge(a, b); then Merge(b, c): all's history still shows b's own message *)
  let mk n m := {| cur := {| cname := n; cid := ""; cfield := None; cmsg := m; ctimeout := false; ctemporary := false; cfault := false |}; hist := []; causes := [] |} in
  let st0 := {| heap := [mk "a" "ma"; mk "b" "mb"; mk "c" "mc"]; vars := [RObj 0; RObj 1; RObj 2; RNil] |} in
  let st := run [OMerge 3 0 1; OMerge 1 1 2] st0 in
  map cmsg (history (get_obj (heap st) 0)) = ["ma"; "mb"] /\ cmsg (cur (get_obj (heap st) 1)) = "mb; mc".
Proof. vm_compute. split; reflexivity. Qed.

(* non-vacuity: a tree with three non-nil originals, one nil, two groupings *)
Example grouping_example :
  let a := LService {| cname := "error"; cid := "i1"; cfield := None; cmsg := "ma"; ctimeout := true; ctemporary := true; cfault := false |} None in
  let b := LPlain "mb" "i2" 7 in
  let c := LService {| cname := "bad"; cid := "i3"; cfield := Some "f"; cmsg := "mc"; ctimeout := true; ctemporary := false; cfault := true |} (Some 9) in
  merge_tree (Node (Leaf a) (Node (Leaf LNil) (Node (Leaf b) (Leaf c)))) =
  merge_tree (Node (Node (Leaf a) (Leaf b)) (Node (Leaf LNil) (Leaf c))) /\
  exists e, merge_tree (Node (Leaf a) (Node (Leaf b) (Leaf c))) = VServ e /\
            cname (cur e) = "bad" /\ cmsg (cur e) = "ma; mb; mc" /\ ctimeout (cur e) = false /\ causes e = [7; 9].
Proof. split; [vm_compute; reflexivity|]. eexists; split; [vm_compute; reflexivity|]. repeat split. Qed.
