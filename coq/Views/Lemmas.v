(* Proofs about the Views model. Statements of the property are in Properties.v. *)
From Views Require Import Model.
From Coq Require Import Lia.
Open Scope list_scope.

Scheme itree_ind2 := Induction for itree Sort Prop
  with iflds_ind2 := Induction for iflds Sort Prop.
Combined Scheme itree_iflds_ind from itree_ind2, iflds_ind2.

Scheme val_ind3 := Induction for val Sort Prop
  with vflds_ind3 := Induction for vflds Sort Prop
  with vlist_ind3 := Induction for vlist Sort Prop.
Combined Scheme val_mutind from val_ind3, vflds_ind3, vlist_ind3.

(* ------------------------------------------------------------------ basics *)

Lemma key_eqb_eq k1 k2 : key_eqb k1 k2 = true <-> k1 = k2.
Proof.
  destruct k1 as [[c1 t1] v1], k2 as [[c2 t2] v2]. unfold key_eqb.
  rewrite !andb_true_iff, Bool.eqb_true_iff, !String.eqb_eq.
  split; [intros [[-> ->] ->]; reflexivity | intros H; inversion H; auto].
Qed.

Lemma key_eqb_refl k : key_eqb k k = true.
Proof. apply key_eqb_eq; reflexivity. Qed.

Lemma key_eqb_neq k1 k2 : key_eqb k1 k2 = false <-> k1 <> k2.
Proof.
  split.
  - intros H E. apply key_eqb_eq in E. congruence.
  - intros H. destruct (key_eqb k1 k2) eqn:E; [apply key_eqb_eq in E; contradiction | reflexivity].
Qed.

Lemma find_type_in e t r : find_type e t = Some r -> exists n, In (n, r) e.
Proof.
  induction e as [|[n r'] e IH]; simpl; [discriminate|].
  destruct (String.eqb n t); intros H.
  - inversion H; subst. exists n. now left.
  - destruct (IH H) as [m Hm]. exists m. now right.
Qed.

Lemma find_view_in_in vs v w : find_view_in vs v = Some w -> In w vs /\ v_name w = v.
Proof.
  induction vs as [|x vs IH]; simpl; [discriminate|].
  destruct (String.eqb (v_name x) v) eqn:E; intros H.
  - inversion H; subst. split; [now left | now apply String.eqb_eq].
  - destruct (IH H). split; [now right | assumption].
Qed.

Lemma find_view_in_none vs v : find_view_in vs v = None <-> ~ In v (map v_name vs).
Proof.
  induction vs as [|x vs IH]; simpl; [tauto|].
  destruct (String.eqb (v_name x) v) eqn:E.
  - apply String.eqb_eq in E. split; [discriminate | intros H; exfalso; apply H; now left].
  - apply String.eqb_neq in E. rewrite IH. tauto.
Qed.

Lemma norm_idem v : norm (norm v) = norm v.
Proof.
  unfold norm. destruct (String.eqb v "") eqn:E; [reflexivity|]. now rewrite E.
Qed.

(* the result-type reference of an attribute type *)
Definition rt_of (ty : atype) : option (bool * name) :=
  match ty with TLeaf _ => None | TRes t => Some (false, t) | TColl t => Some (true, t) end.

(* ------------------------------------------------ the memo: order and counting *)

Definition is_seen (m : list (key * nat)) (k : key) : bool :=
  match lookup m k with Some _ => true | None => false end.

Definition mono (m m' : list (key * nat)) : Prop :=
  forall k id, lookup m k = Some id -> lookup m' k = Some id.

Lemma mono_refl m : mono m m.
Proof. intros k id H; exact H. Qed.

Lemma mono_trans m1 m2 m3 : mono m1 m2 -> mono m2 m3 -> mono m1 m3.
Proof. intros A B k id H. apply B, A, H. Qed.

Lemma mono_cons m k id : lookup m k = None -> mono m ((k, id) :: m).
Proof.
  intros Hn k' id' H. simpl. destruct (key_eqb k k') eqn:E; [|exact H].
  apply key_eqb_eq in E. subst. congruence.
Qed.

Definition unseen (U : list key) (m : list (key * nat)) : nat :=
  List.length (filter (fun k => negb (is_seen m k)) U).

Lemma filter_len_le {A} (p q : A -> bool) (l : list A) :
  (forall x, q x = true -> p x = true) -> List.length (filter q l) <= List.length (filter p l).
Proof.
  intros H. induction l as [|x l IH]; simpl; [lia|].
  destruct (q x) eqn:Q.
  - rewrite (H x Q). simpl. lia.
  - destruct (p x); simpl; lia.
Qed.

Lemma filter_len_lt {A} (p q : A -> bool) (l : list A) (x0 : A) :
  (forall x, q x = true -> p x = true) -> In x0 l -> p x0 = true -> q x0 = false ->
  List.length (filter q l) < List.length (filter p l).
Proof.
  intros H. induction l as [|x l IH]; simpl; [tauto|].
  intros [->|Hin] P Q.
  - rewrite P, Q. simpl. pose proof (filter_len_le p q l H). lia.
  - specialize (IH Hin P Q). destruct (q x) eqn:Qx.
    + rewrite (H x Qx). simpl. lia.
    + destruct (p x); simpl; lia.
Qed.

Lemma unseen_mono U m m' : mono m m' -> unseen U m' <= unseen U m.
Proof.
  intros H. unfold unseen. apply filter_len_le. intros k. unfold is_seen.
  destruct (lookup m k) eqn:E; [rewrite (H _ _ E); discriminate | reflexivity].
Qed.

Lemma unseen_cons U m k id : In k U -> lookup m k = None -> unseen U ((k, id) :: m) < unseen U m.
Proof.
  intros Hin Hn. unfold unseen. apply filter_len_lt with (x0 := k); auto.
  - intros k'. unfold is_seen. simpl. destruct (key_eqb k k'); [discriminate|].
    destruct (lookup m k'); auto.
  - unfold is_seen. now rewrite Hn.
  - unfold is_seen. simpl. now rewrite key_eqb_refl.
Qed.

(* keys of a design *)
Lemma entry_keys_app r l1 l2 : entry_keys r (l1 ++ l2) = entry_keys r l1 ++ entry_keys r l2.
Proof. unfold entry_keys. apply flat_map_app. Qed.

Lemma all_keys_in e t r w :
  find_type e t = Some r -> In w (r_views r) -> incl (entry_keys r (v_attrs w)) (all_keys e).
Proof.
  intros Ht Hw k Hk. destruct (find_type_in _ _ _ Ht) as [n Hn].
  unfold all_keys. apply in_flat_map. exists (n, r). split; [exact Hn|].
  apply in_flat_map. exists w. split; assumption.
Qed.

(* --------------------------------------------------- more fuel changes nothing *)

Definition rec_le (rec rec' : name -> name -> st -> res (itree * st)) : Prop :=
  forall t v s x, rec t v s = x -> x <> Out -> rec' t v s = x.

Lemma iattr_le rec rec' c t u s x :
  rec_le rec rec' -> iattr rec c t u s = x -> x <> Out -> iattr rec' c t u s = x.
Proof.
  intros H. unfold iattr. destruct (lookup (memo s) (c, t, u)); [auto|].
  destruct (rec t u _) as [[tr s2]| |] eqn:E; intros <- Hx.
  - now rewrite (H _ _ _ _ E).
  - rewrite (H _ _ _ _ E); [reflexivity | discriminate].
  - congruence.
Qed.

Lemma nested_le rec rec' cont cont' a c t u s x :
  rec_le rec rec' ->
  (forall s y, cont s = y -> y <> Out -> cont' s = y) ->
  ifield_nested rec cont a c t u s = x -> x <> Out -> ifield_nested rec' cont' a c t u s = x.
Proof.
  intros H Hc. unfold ifield_nested.
  destruct (iattr rec c t u s) as [[[id [tr|]] s2]| |] eqn:E; intros Hx Hn.
  - rewrite (iattr_le _ _ _ _ _ _ _ H E) by discriminate.
    destruct (cont s2) as [[fs s3]| |] eqn:E2;
      [now rewrite (Hc _ _ E2) by discriminate | now rewrite (Hc _ _ E2) by discriminate | congruence].
  - rewrite (iattr_le _ _ _ _ _ _ _ H E) by discriminate.
    destruct (cont s2) as [[fs s3]| |] eqn:E2;
      [now rewrite (Hc _ _ E2) by discriminate | now rewrite (Hc _ _ E2) by discriminate | congruence].
  - rewrite (iattr_le _ _ _ _ _ _ _ H E) by discriminate. exact Hx.
  - congruence.
Qed.

Lemma leaf_le cont cont' a s x :
  (forall s y, cont s = y -> y <> Out -> cont' s = y) ->
  ifield_leaf cont a s = x -> x <> Out -> ifield_leaf cont' a s = x.
Proof.
  intros Hc. unfold ifield_leaf.
  destruct (cont s) as [[fs s3]| |] eqn:E2; intros Hx Hn;
    [now rewrite (Hc _ _ E2) by discriminate | now rewrite (Hc _ _ E2) by discriminate | congruence].
Qed.

Lemma ifields_le rec rec' r l :
  rec_le rec rec' -> forall s x, ifields rec r l s = x -> x <> Out -> ifields rec' r l s = x.
Proof.
  intros H. induction l as [|[a ov] l IH]; intros s x; simpl; [auto|].
  destruct (find_attr r a) as [at_|]; [|apply IH].
  destruct (a_ty at_) as [p|t'|t'].
  - apply leaf_le; exact IH.
  - apply nested_le; [exact H | exact IH].
  - apply nested_le; [exact H | exact IH].
Qed.

Lemma iproj_S f e : rec_le (iproj f e) (iproj (S f) e).
Proof.
  induction f as [|f IH]; intros t v s x; [simpl; intros <- H; congruence|].
  intros Hx Hn. change (iproj (S f) e t v s) with
    (match find_type e t with None => Err | Some r => match find_view r v with None => Err | Some w =>
       match ifields (iproj f e) r (v_attrs w) s with Ok (fs, s') => Ok (IObj t v fs (req_in_view r w), s') | Err => Err | Out => Out end end end) in Hx.
  change (iproj (S (S f)) e t v s) with
    (match find_type e t with None => Err | Some r => match find_view r v with None => Err | Some w =>
       match ifields (iproj (S f) e) r (v_attrs w) s with Ok (fs, s') => Ok (IObj t v fs (req_in_view r w), s') | Err => Err | Out => Out end end end).
  destruct (find_type e t) as [r|]; [|exact Hx].
  destruct (find_view r v) as [w|]; [|exact Hx].
  destruct (ifields (iproj f e) r (v_attrs w) s) as [[fs s']| |] eqn:E.
  - now rewrite (ifields_le _ _ _ _ IH _ _ E) by discriminate.
  - now rewrite (ifields_le _ _ _ _ IH _ _ E) by discriminate.
  - congruence.
Qed.

Lemma iproj_fuel_mono e f f' t v s x :
  f <= f' -> iproj f e t v s = x -> x <> Out -> iproj f' e t v s = x.
Proof.
  induction 1 as [|f' _ IH]; [auto|]. intros Hx Hn. apply iproj_S; auto.
Qed.

(* ------------------------------------------------------------- termination *)

Section Termination.
  Variable e : env.
  Local Notation U := (all_keys e).

  Definition term_rec (f : nat) (rec : name -> name -> st -> res (itree * st)) : Prop :=
    forall t v s, unseen U (memo s) < f ->
      rec t v s <> Out /\ forall tr s', rec t v s = Ok (tr, s') -> mono (memo s) (memo s').

  Lemma nested_term rec cont f a c t u s :
    term_rec f rec -> In (c, t, u) U -> unseen U (memo s) <= f ->
    (forall s2, mono (memo s) (memo s2) ->
       cont s2 <> Out /\ forall fs s3, cont s2 = Ok (fs, s3) -> mono (memo s2) (memo s3)) ->
    ifield_nested rec cont a c t u s <> Out /\
    forall fs s3, ifield_nested rec cont a c t u s = Ok (fs, s3) -> mono (memo s) (memo s3).
  Proof.
    intros Hrec Hin Hle Hc. unfold ifield_nested, iattr.
    destruct (lookup (memo s) (c, t, u)) as [id|] eqn:L.
    - destruct (Hc s (mono_refl _)) as [Hno Hm].
      destruct (cont s) as [[fs s3]| |] eqn:E; split; try discriminate; try congruence.
      intros fs' s3' H. inversion H; subst. eapply Hm; reflexivity.
    - set (s1 := mkSt (S (next s)) (((c, t, u), next s) :: memo s)).
      assert (Hlt : unseen U (memo s1) < f).
      { pose proof (unseen_cons U (memo s) (c, t, u) (next s) Hin L) as Hc1. subst s1. cbn [memo]. eapply Nat.lt_le_trans; [exact Hc1 | exact Hle]. }
      destruct (Hrec t u s1 Hlt) as [Hno Hm].
      assert (M1 : mono (memo s) (memo s1)) by (apply mono_cons; exact L).
      destruct (rec t u s1) as [[tr s2]| |] eqn:E; [|split; [discriminate|intros; discriminate]|congruence].
      assert (M2 : mono (memo s) (memo s2)) by (eapply mono_trans; [exact M1 | eapply Hm; reflexivity]).
      destruct (Hc s2 M2) as [Hno2 Hm2].
      destruct (cont s2) as [[fs s3]| |] eqn:E2; split; try discriminate; try congruence.
      intros fs' s3' H. inversion H; subst. eapply mono_trans; [exact M2 | eapply Hm2; reflexivity].
  Qed.

  Lemma ifields_term rec r f l :
    term_rec f rec -> incl (entry_keys r l) U ->
    forall s, unseen U (memo s) <= f ->
      ifields rec r l s <> Out /\ forall fs s', ifields rec r l s = Ok (fs, s') -> mono (memo s) (memo s').
  Proof.
    intros Hrec. induction l as [|[a ov] l IH]; intros Hin s Hle.
    - simpl. split; [discriminate|]. intros fs s' H. inversion H; subst. apply mono_refl.
    - assert (Hin' : incl (entry_keys r l) U).
      { intros k Hk. apply Hin. change ((a, ov) :: l) with ([(a, ov)] ++ l). rewrite entry_keys_app. apply in_or_app. now right. }
      assert (Hc : forall s2, mono (memo s) (memo s2) ->
                 ifields rec r l s2 <> Out /\ forall fs s3, ifields rec r l s2 = Ok (fs, s3) -> mono (memo s2) (memo s3)).
      { intros s2 M. apply IH; [exact Hin'|]. pose proof (unseen_mono U _ _ M). lia. }
      simpl. destruct (find_attr r a) as [at_|] eqn:Fa; [|apply (Hc s (mono_refl _))].
      destruct (a_ty at_) as [p|t'|t'] eqn:Ty.
      + unfold ifield_leaf. destruct (Hc s (mono_refl _)) as [Hno Hm].
        destruct (ifields rec r l s) as [[fs s3]| |] eqn:E; split; try discriminate; try congruence.
        intros fs' s3' H. inversion H; subst. eapply Hm; reflexivity.
      + apply nested_term with (f := f); auto. apply Hin. simpl. rewrite Fa, Ty. now left.
      + apply nested_term with (f := f); auto. apply Hin. simpl. rewrite Fa, Ty. now left.
  Qed.

  Lemma iproj_term f : term_rec f (iproj f e).
  Proof.
    induction f as [|f IH]; intros t v s Hlt; [lia|].
    simpl. destruct (find_type e t) as [r|] eqn:Ft; [|split; [discriminate|intros; discriminate]].
    destruct (find_view r v) as [w|] eqn:Fv; [|split; [discriminate|intros; discriminate]].
    assert (Hin : incl (entry_keys r (v_attrs w)) U).
    { apply all_keys_in with (t := t); [exact Ft|]. apply find_view_in_in in Fv. tauto. }
    destruct (ifields_term (iproj f e) r f (v_attrs w) IH Hin s) as [Hno Hm]; [lia|].
    destruct (ifields (iproj f e) r (v_attrs w) s) as [[fs s']| |] eqn:E; split; try discriminate; try congruence.
    intros tr s'' H. inversion H; subst. eapply Hm; reflexivity.
  Qed.

  Lemma unseen_le_all m : unseen U m <= List.length U.
  Proof. unfold unseen. generalize (all_keys e). intros l. induction l as [|x l IH]; simpl; [lia|]. destruct (negb (is_seen m x)); simpl; lia. Qed.

  Lemma iproject_not_out f t v : fuel_bound e <= f -> iproject f e t v <> Out.
  Proof.
    intros Hf. unfold iproject.
    destruct (iproj_term f t v init) as [Hno _].
    { pose proof (unseen_le_all (memo init)). unfold fuel_bound in Hf. lia. }
    destruct (iproj f e t v init) as [[tr s]| |]; congruence.
  Qed.
End Termination.

(* ------------------------------------------- closed designs never fail to project *)

Lemma closed_entries e t r w :
  closed e = true -> find_type e t = Some r -> In w (r_views r) ->
  forall en, In en (v_attrs w) -> closed_entry e r en = true.
Proof.
  intros Hc Ht Hw en Hen. destruct (find_type_in _ _ _ Ht) as [n Hn].
  unfold closed in Hc. rewrite forallb_forall in Hc. specialize (Hc _ Hn). simpl in Hc.
  rewrite forallb_forall in Hc. specialize (Hc _ Hw). rewrite forallb_forall in Hc. now apply Hc.
Qed.

Definition noerr_rec (e : env) (rec : name -> name -> st -> res (itree * st)) : Prop :=
  forall t v s, has_view e t v = true -> rec t v s <> Err.

Lemma ifields_noerr e rec r l :
  noerr_rec e rec -> (forall en, In en l -> closed_entry e r en = true) ->
  forall s, ifields rec r l s <> Err.
Proof.
  intros Hrec. induction l as [|[a ov] l IH]; intros Hcl s; simpl; [discriminate|].
  assert (IH' : forall s, ifields rec r l s <> Err) by (apply IH; intros en Hen; apply Hcl; now right).
  pose proof (Hcl (a, ov) (or_introl eq_refl)) as Hce. unfold closed_entry in Hce. simpl in Hce.
  destruct (find_attr r a) as [at_|]; [|apply IH'].
  assert (N : forall c t', has_view e t' (nested_view ov at_) = true ->
              ifield_nested rec (ifields rec r l) a c t' (nested_view ov at_) s <> Err).
  { intros c t' Hv. unfold ifield_nested, iattr.
    destruct (lookup (memo s) (c, t', nested_view ov at_)).
    - specialize (IH' s). destruct (ifields rec r l s) as [[fs s3]| |]; congruence.
    - pose proof (Hrec t' (nested_view ov at_) (mkSt (S (next s)) (((c, t', nested_view ov at_), next s) :: memo s)) Hv) as Hn.
      destruct (rec t' (nested_view ov at_) _) as [[tr s2]| |]; try congruence.
      specialize (IH' s2). destruct (ifields rec r l s2) as [[fs s3]| |]; congruence. }
  destruct (a_ty at_) as [p|t'|t'].
  - unfold ifield_leaf. specialize (IH' s). destruct (ifields rec r l s) as [[fs s3]| |]; congruence.
  - apply N, Hce.
  - apply N, Hce.
Qed.

Lemma iproj_noerr e f : closed e = true -> noerr_rec e (iproj f e).
Proof.
  intros Hc. induction f as [|f IH]; intros t v s Hv; simpl; [discriminate|].
  unfold has_view in Hv. destruct (find_type e t) as [r|] eqn:Ft; [|discriminate].
  destruct (find_view r v) as [w|] eqn:Fv; [|discriminate].
  assert (Hw : In w (r_views r)) by (apply find_view_in_in in Fv; tauto).
  pose proof (ifields_noerr e (iproj f e) r (v_attrs w) IH (closed_entries e t r w Hc Ft Hw) s) as Hn.
  destruct (ifields (iproj f e) r (v_attrs w) s) as [[fs s']| |]; congruence.
Qed.

Lemma iproject_total e t v :
  closed e = true -> has_view e t v = true -> exists tr, iproject (fuel_bound e) e t v = Ok tr.
Proof.
  intros Hc Hv. pose proof (iproject_not_out e (fuel_bound e) t v (le_n _)) as Hno.
  unfold iproject in *. pose proof (iproj_noerr e (fuel_bound e) Hc t v init Hv) as Hne.
  destruct (iproj (fuel_bound e) e t v init) as [[tr s]| |]; [eauto|congruence|congruence].
Qed.

(* --------------------------------------- what expr.Project builds is the projection *)

Definition root_key (tr : itree) : name * name := match tr with IObj t v _ _ => (t, v) end.

Section Correct.
  Variable e : env.

  (* every node lists exactly the attributes of its view; every nested attribute is
     registered in the memo G under (type, own view) and, when defined here, holds the
     node of that type and view *)
  Inductive node_ok (G : list (key * nat)) : itree -> Prop :=
  | NOk t v fs req r w :
      find_type e t = Some r -> find_view r v = Some w -> req = req_in_view r w ->
      flds_ok G r (v_attrs w) fs -> node_ok G (IObj t v fs req)
  with flds_ok (G : list (key * nat)) : rtype -> list (name * option name) -> iflds -> Prop :=
  | FOnil r : flds_ok G r [] FNil
  | FOskip r a ov l fs :
      find_attr r a = None -> flds_ok G r l fs -> flds_ok G r ((a, ov) :: l) fs
  | FOleaf r a ov l fs at_ p :
      find_attr r a = Some at_ -> a_ty at_ = TLeaf p -> flds_ok G r l fs ->
      flds_ok G r ((a, ov) :: l) (FLeafC a fs)
  | FOdef r a ov l fs at_ c t' id tr :
      find_attr r a = Some at_ -> rt_of (a_ty at_) = Some (c, t') ->
      lookup G (c, t', nested_view ov at_) = Some id ->
      root_key tr = (t', nested_view ov at_) -> node_ok G tr -> flds_ok G r l fs ->
      flds_ok G r ((a, ov) :: l) (FDefC a id c tr fs)
  | FOref r a ov l fs at_ c t' id :
      find_attr r a = Some at_ -> rt_of (a_ty at_) = Some (c, t') ->
      lookup G (c, t', nested_view ov at_) = Some id -> flds_ok G r l fs ->
      flds_ok G r ((a, ov) :: l) (FRefC a id fs).

  Scheme node_ok_min := Minimality for node_ok Sort Prop
    with flds_ok_min := Minimality for flds_ok Sort Prop.
  Combined Scheme node_flds_ok_ind from node_ok_min, flds_ok_min.

  Lemma ok_mono G G' :
    mono G G' ->
    (forall tr, node_ok G tr -> node_ok G' tr) /\
    (forall r l fs, flds_ok G r l fs -> flds_ok G' r l fs).
  Proof.
    intros M. apply node_flds_ok_ind; intros.
    - econstructor; eauto.
    - constructor.
    - apply FOskip; auto.
    - eapply FOleaf; eauto.
    - eapply FOdef; eauto.
    - eapply FOref; eauto.
  Qed.

  Definition wf (s : st) : Prop :=
    (forall k id, lookup (memo s) k = Some id -> id < next s) /\
    (forall k1 k2 id, lookup (memo s) k1 = Some id -> lookup (memo s) k2 = Some id -> k1 = k2).

  Lemma wf_init : wf init.
  Proof. split; simpl; intros; discriminate. Qed.

  Lemma wf_push s k : wf s -> lookup (memo s) k = None -> wf (mkSt (S (next s)) ((k, next s) :: memo s)).
  Proof.
    intros [Hlt Hinj] Hn. split; simpl.
    - intros k' id. destruct (key_eqb k k'); intros H; [inversion H; lia|]. specialize (Hlt _ _ H). lia.
    - intros k1 k2 id. destruct (key_eqb k k1) eqn:E1, (key_eqb k k2) eqn:E2; intros H1 H2.
      + apply key_eqb_eq in E1, E2. congruence.
      + inversion H1; subst. specialize (Hlt _ _ H2). lia.
      + inversion H2; subst. specialize (Hlt _ _ H1). lia.
      + eapply Hinj; eauto.
  Qed.

  Definition post (t v : name) (s : st) (tr : itree) (s' : st) : Prop :=
    wf s' /\ mono (memo s) (memo s') /\ next s <= next s' /\ root_key tr = (t, v) /\
    (forall G, mono (memo s') G -> node_ok G tr) /\
    (forall id, next s <= id < next s' -> find_def id tr <> None).

  Definition postf (r : rtype) (l : list (name * option name)) (s : st) (fs : iflds) (s' : st) : Prop :=
    wf s' /\ mono (memo s) (memo s') /\ next s <= next s' /\
    (forall G, mono (memo s') G -> flds_ok G r l fs) /\
    (forall id, next s <= id < next s' -> find_def_f id fs <> None).

  Definition good_rec (rec : name -> name -> st -> res (itree * st)) : Prop :=
    forall t v s tr s', wf s -> rec t v s = Ok (tr, s') -> post t v s tr s'.

  Lemma nested_good rec cont r a ov l at_ c t' s fs s3 :
    good_rec rec ->
    (forall s2 fs' s3, wf s2 -> cont s2 = Ok (fs', s3) -> postf r l s2 fs' s3) ->
    find_attr r a = Some at_ -> rt_of (a_ty at_) = Some (c, t') ->
    wf s -> ifield_nested rec cont a c t' (nested_view ov at_) s = Ok (fs, s3) ->
    postf r ((a, ov) :: l) s fs s3.
  Proof.
    intros Hrec Hcont Fa Rt Hwf. unfold ifield_nested, iattr.
    set (u := nested_view ov at_).
    destruct (lookup (memo s) (c, t', u)) as [id|] eqn:L.
    - destruct (cont s) as [[fs' s3']| |] eqn:E; try discriminate. intros H; inversion H; subst.
      destruct (Hcont _ _ _ Hwf E) as (W & M & N & F & D).
      refine (conj W (conj M (conj N (conj _ _)))).
      + intros G MG. eapply FOref; [exact Fa | exact Rt | apply MG, M, L | apply F, MG].
      + intros id' Hid. simpl. apply D, Hid.
    - set (s1 := mkSt (S (next s)) (((c, t', u), next s) :: memo s)).
      destruct (rec t' u s1) as [[tr s2]| |] eqn:E; try discriminate.
      assert (W1 : wf s1) by (apply wf_push; assumption).
      destruct (Hrec _ _ _ _ _ W1 E) as (W2 & M12 & N12 & RK & NOK & D12).
      destruct (cont s2) as [[fs' s3']| |] eqn:E2; try discriminate. intros H; inversion H; subst.
      destruct (Hcont _ _ _ W2 E2) as (W3 & M23 & N23 & F & D23).
      assert (M01 : mono (memo s) (memo s1)) by (apply mono_cons; exact L).
      refine (conj W3 (conj _ (conj _ (conj _ _)))).
      + eapply mono_trans; [exact M01|]. eapply mono_trans; eauto.
      + simpl in N12. lia.
      + intros G MG. eapply FOdef; [exact Fa | exact Rt | | exact RK | | apply F, MG].
        * apply MG, M23, M12. subst s1. cbn [memo lookup]. now rewrite key_eqb_refl.
        * apply NOK. eapply mono_trans; eauto.
      + intros id Hid. simpl. destruct (Nat.eqb (next s) id) eqn:Eq; [discriminate|].
        apply Nat.eqb_neq in Eq. simpl in N12.
        destruct (Nat.lt_ge_cases id (next s2)) as [Hlt|Hge].
        * assert (Hd : find_def id tr <> None) by (apply D12; simpl; lia).
          destruct (find_def id tr); [discriminate|congruence].
        * assert (Hd : find_def_f id fs' <> None) by (apply D23; lia).
          destruct (find_def id tr); [discriminate|exact Hd].
  Qed.

  Lemma ifields_good rec r l :
    good_rec rec -> forall s fs s', wf s -> ifields rec r l s = Ok (fs, s') -> postf r l s fs s'.
  Proof.
    intros Hrec. induction l as [|[a ov] l IH]; intros s fs s' Hwf; simpl.
    - intros H; inversion H; subst. refine (conj Hwf (conj (mono_refl _) (conj (le_n _) (conj _ _)))).
      + intros G _. constructor.
      + intros id Hid. lia.
    - destruct (find_attr r a) as [at_|] eqn:Fa.
      2:{ intros H. destruct (IH _ _ _ Hwf H) as (W & M & N & F & D).
          refine (conj W (conj M (conj N (conj _ D)))). intros G MG. apply FOskip; auto. }
      destruct (a_ty at_) as [p|t'|t'] eqn:Ty.
      + unfold ifield_leaf. destruct (ifields rec r l s) as [[fs' s3]| |] eqn:E; try discriminate.
        intros H; inversion H; subst. destruct (IH _ _ _ Hwf E) as (W & M & N & F & D).
        refine (conj W (conj M (conj N (conj _ _)))).
        * intros G MG. eapply FOleaf; eauto.
        * intros id Hid. simpl. apply D, Hid.
      + apply nested_good with (at_ := at_); auto. now rewrite Ty.
      + apply nested_good with (at_ := at_); auto. now rewrite Ty.
  Qed.

  Lemma iproj_good f : good_rec (iproj f e).
  Proof.
    induction f as [|f IH]; intros t v s tr s' Hwf; simpl; [discriminate|].
    destruct (find_type e t) as [r|] eqn:Ft; [|discriminate].
    destruct (find_view r v) as [w|] eqn:Fv; [|discriminate].
    destruct (ifields (iproj f e) r (v_attrs w) s) as [[fs s2]| |] eqn:E; try discriminate.
    intros H; inversion H; subst.
    destruct (ifields_good _ _ _ IH _ _ _ Hwf E) as (W & M & N & F & D).
    refine (conj W (conj M (conj N (conj eq_refl (conj _ D))))).
    intros G MG. econstructor; eauto.
  Qed.

  (* an attribute found in the graph holds the node of the key it is registered under *)
  Lemma find_def_sound G :
    (forall tr, node_ok G tr -> forall id c tr0, find_def id tr = Some (c, tr0) ->
       node_ok G tr0 /\ lookup G (c, fst (root_key tr0), snd (root_key tr0)) = Some id) /\
    (forall r l fs, flds_ok G r l fs -> forall id c tr0, find_def_f id fs = Some (c, tr0) ->
       node_ok G tr0 /\ lookup G (c, fst (root_key tr0), snd (root_key tr0)) = Some id).
  Proof.
    apply node_flds_ok_ind.
    - intros t v fs req r w _ _ _ _ IH id c tr0 H. simpl in H. eauto.
    - intros r id c tr0 H. discriminate.
    - intros r a ov l fs _ _ IH id c tr0 H. eauto.
    - intros r a ov l fs at_ p _ _ _ IH id c tr0 H. simpl in H. eauto.
    - intros r a ov l fs at_ c t' id tr _ _ L RK NOK IHtr _ IHfs id' c' tr0 H. simpl in H.
      destruct (Nat.eqb id id') eqn:Eq.
      + inversion H; subst. apply Nat.eqb_eq in Eq; subst. split; [exact NOK|]. now rewrite RK.
      + destruct (find_def id' tr) as [x|] eqn:Fd.
        * inversion H; subst. eapply IHtr; eauto.
        * eapply IHfs; eauto.
    - intros r a ov l fs at_ c t' id _ _ _ _ IH id' c' tr0 H. simpl in H. eauto.
  Qed.

  Lemma unfold_correct G root :
    node_ok G root ->
    (forall k1 k2 id, lookup G k1 = Some id -> lookup G k2 = Some id -> k1 = k2) ->
    (forall k id, lookup G k = Some id -> find_def id root <> None) ->
    forall n tr, node_ok G tr -> unfold n root tr = sproject n e (fst (root_key tr)) (snd (root_key tr)).
  Proof.
    intros Hroot Hinj Hdef. induction n as [|n IHn]; intros tr Hok; [reflexivity|].
    destruct Hok as [t v fs req r w Ft Fv Hreq Hfs]. simpl. rewrite Ft, Fv, Hreq. f_equal.
    clear Ft Fv Hreq. induction Hfs.
    - reflexivity.
    - simpl. rewrite H. exact IHHfs.
    - simpl. rewrite H, H0. now rewrite IHHfs.
    - simpl. rewrite H, IHHfs. rewrite (IHn tr H3), H2. simpl.
      destruct (a_ty at_) as [p|t1|t1]; simpl in H0; inversion H0; subst; reflexivity.
    - simpl. rewrite H, IHHfs.
      destruct (find_def id root) as [[c0 tr0]|] eqn:Fd; [|exfalso; eapply Hdef; eauto].
      destruct (proj1 (find_def_sound G) _ Hroot _ _ _ Fd) as [Hok0 L0].
      assert (Hk : (c0, fst (root_key tr0), snd (root_key tr0)) = (c, t', nested_view ov at_)) by (eapply Hinj; eauto).
      inversion Hk; subst. rewrite (IHn tr0 Hok0).
      destruct (a_ty at_) as [p|t1|t1]; simpl in H0; inversion H0; subst; simpl; congruence.
  Qed.

  Theorem iproject_exact f t v tr :
    iproject f e t v = Ok tr -> forall n, unfold n tr tr = sproject n e t v.
  Proof.
    unfold iproject. destruct (iproj f e t v init) as [[tr' s']| |] eqn:E; try discriminate.
    intros H; inversion H; subst. intros n.
    destruct (iproj_good f _ _ _ _ _ wf_init E) as (W & M & N & RK & NOK & D).
    pose proof (NOK (memo s') (mono_refl _)) as Hroot.
    rewrite (unfold_correct (memo s') tr Hroot (proj2 W)).
    - now rewrite RK.
    - intros k id L. apply D. simpl. split; [lia|]. eapply (proj1 W); eauto.
    - exact Hroot.
  Qed.
End Correct.

(* ----------------------------------------- the projection, attribute by attribute *)

Lemma sfields_names rec r l : pnames (sfields rec r l) = filter (has_attr r) (map fst l).
Proof.
  induction l as [|[a ov] l IH]; simpl; [reflexivity|]. unfold has_attr at 1.
  destruct (find_attr r a) as [at_|]; [|exact IH].
  destruct (a_ty at_); simpl; now rewrite IH.
Qed.

Lemma sfields_child rec r l a :
  pfind (sfields rec r l) a =
  match view_entry l a, find_attr r a with
  | Some ov, Some at_ => Some (child rec at_ ov)
  | _, _ => None
  end.
Proof.
  induction l as [|[b ov] l IH]; simpl; [reflexivity|].
  destruct (String.eqb b a) eqn:E.
  - apply String.eqb_eq in E; subst b. destruct (find_attr r a) as [at_|] eqn:Fa.
    + unfold child. destruct (a_ty at_); simpl; now rewrite String.eqb_refl.
    + rewrite IH. rewrite ?Fa. now destruct (view_entry l a).
  - destruct (find_attr r b) as [bt|]; [|exact IH].
    destruct (a_ty bt); simpl; rewrite E; exact IH.
Qed.

(* ------------------------------------------------------------- values at run time *)

Lemma vflds_simple_ind (P : vflds -> Prop) :
  P VFNil -> (forall a x r, P r -> P (VFCons a x r)) -> forall fs, P fs.
Proof. intros H0 H1. fix IH 1. intros [|a x r]; [exact H0 | apply H1, IH]. Qed.

Lemma has_field_restrict e r w fs a :
  has_field (restrict_f e r w fs) a = has_field fs a && in_view w a && has_attr r a.
Proof.
  induction fs as [|b x rest IH] using vflds_simple_ind; simpl.
  - reflexivity.
  - unfold in_view, has_attr in *.
    destruct (view_entry (v_attrs w) b) as [ov|] eqn:Vb.
    + destruct (find_attr r b) as [bt|] eqn:Fb.
      * simpl. rewrite IH. destruct (String.eqb b a) eqn:E; simpl; [|reflexivity].
        apply String.eqb_eq in E; subst. now rewrite Vb, Fb.
      * rewrite IH. destruct (String.eqb b a) eqn:E; simpl; [|reflexivity].
        apply String.eqb_eq in E; subst. rewrite Fb.
        destruct (has_field rest a); simpl; now rewrite ?andb_false_r.
    + rewrite IH. destruct (String.eqb b a) eqn:E; simpl; [|reflexivity].
      apply String.eqb_eq in E; subst. rewrite Vb.
      destruct (has_field rest a); simpl; now rewrite ?andb_false_r.
Qed.

Lemma keys_restrict e r w fs :
  keys (restrict_f e r w fs) = filter (fun a => in_view w a && has_attr r a) (keys fs).
Proof.
  induction fs as [|b x rest IH] using vflds_simple_ind; simpl.
  - reflexivity.
  - unfold in_view, has_attr in *.
    destruct (view_entry (v_attrs w) b) as [ov|]; [|exact IH].
    destruct (find_attr r b) as [bt|]; simpl; [now rewrite IH | exact IH].
Qed.

Section Runtime.
  Variable e : env.
  Hypothesis Hclosed : closed e = true.

  Lemma nested_has_view t r w a ov at_ c t' :
    find_type e t = Some r -> In w (r_views r) ->
    view_entry (v_attrs w) a = Some ov -> find_attr r a = Some at_ -> rt_of (a_ty at_) = Some (c, t') ->
    has_view e t' (nested_view ov at_) = true.
  Proof.
    intros Ft Hw Ve Fa Rt.
    assert (Hin : In (a, ov) (v_attrs w)).
    { clear -Ve. induction (v_attrs w) as [|[b o] l IH]; simpl in *; [discriminate|].
      destruct (String.eqb b a) eqn:E; [apply String.eqb_eq in E; inversion Ve; subst; now left | right; auto]. }
    pose proof (closed_entries e t r w Hclosed Ft Hw _ Hin) as Hc. unfold closed_entry in Hc. simpl in Hc.
    rewrite Fa in Hc. destruct (a_ty at_); simpl in Rt; inversion Rt; subst; exact Hc.
  Qed.

  (* the three statements are proved together over values, field lists and element lists;
     for field lists the enclosing type and view are given *)
  Definition okv (P : name -> name -> val -> Prop) (x : val) : Prop :=
    forall t v, has_view e t v = true -> P t v x.
  Definition okf (P : rtype -> view -> vflds -> Prop) (fs : vflds) : Prop :=
    forall t r w, find_type e t = Some r -> In w (r_views r) -> P r w fs.
  Definition okl (P : name -> name -> vlist -> Prop) (l : vlist) : Prop :=
    forall t v, has_view e t v = true -> P t v l.

  Lemma has_view_inv t v : has_view e t v = true ->
    exists r w, find_type e t = Some r /\ find_view r v = Some w /\ In w (r_views r).
  Proof.
    unfold has_view. destruct (find_type e t) as [r|]; [|discriminate].
    destruct (find_view r v) as [w|] eqn:Fv; [|discriminate]. intros _.
    exists r, w. repeat split; auto. apply find_view_in_in in Fv. tauto.
  Qed.

  (* wire keys are view attributes, nothing else, at every depth *)
  Lemma conforms_restrict :
    (forall x, okv (fun t v x => conforms e t v (restrict e t v x) = true) x) /\
    (forall fs, okf (fun r w fs => conforms_f e r w (restrict_f e r w fs) = true) fs) /\
    (forall l, okl (fun t v l => conforms_l e t v (restrict_l e t v l) = true) l).
  Proof.
    apply val_mutind; unfold okv, okf, okl.
    - reflexivity.
    - intros fs IH t v Hv. destruct (has_view_inv _ _ Hv) as (r & w & Ft & Fv & Hw).
      simpl. rewrite Ft, Fv. simpl. rewrite Ft, Fv. eapply IH; eauto.
    - intros l IH t v Hv. simpl. apply IH, Hv.
    - reflexivity.
    - intros a x IHx rest IHr t r w Ft Hw. simpl.
      destruct (view_entry (v_attrs w) a) as [ov|] eqn:Ve; [|eapply IHr; eauto].
      destruct (find_attr r a) as [at_|] eqn:Fa; [|eapply IHr; eauto].
      simpl. rewrite Ve, Fa. rewrite (IHr t r w Ft Hw), andb_true_r.
      destruct (a_ty at_) as [p|t'|t'] eqn:Ty; [reflexivity| |];
        apply IHx; eapply nested_has_view; eauto; rewrite Ty; reflexivity.
    - reflexivity.
    - intros x IHx r IHr t v Hv. simpl. now rewrite (IHx t v Hv), (IHr t v Hv).
  Qed.

  (* the client rebuilds exactly what the server rendered *)
  Lemma rebuild_restrict :
    (forall x, okv (fun t v x => rebuild e t v (restrict e t v x) = restrict e t v x) x) /\
    (forall fs, okf (fun r w fs => rebuild_f e r w (restrict_f e r w fs) = restrict_f e r w fs) fs) /\
    (forall l, okl (fun t v l => rebuild_l e t v (restrict_l e t v l) = restrict_l e t v l) l).
  Proof.
    apply val_mutind; unfold okv, okf, okl.
    - reflexivity.
    - intros fs IH t v Hv. destruct (has_view_inv _ _ Hv) as (r & w & Ft & Fv & Hw).
      simpl. rewrite Ft, Fv. simpl. rewrite Ft, Fv. f_equal. eapply IH; eauto.
    - intros l IH t v Hv. simpl. f_equal. apply IH, Hv.
    - reflexivity.
    - intros a x IHx rest IHr t r w Ft Hw. simpl.
      destruct (view_entry (v_attrs w) a) as [ov|] eqn:Ve; [|eapply IHr; eauto].
      destruct (find_attr r a) as [at_|] eqn:Fa; [|eapply IHr; eauto].
      simpl. rewrite Fa, Ve. rewrite (IHr t r w Ft Hw).
      destruct (a_ty at_) as [p|t'|t'] eqn:Ty.
      + unfold in_view. now rewrite Ve.
      + f_equal. apply IHx. eapply nested_has_view; eauto. rewrite Ty. reflexivity.
      + f_equal. apply IHx. eapply nested_has_view; eauto. rewrite Ty. reflexivity.
    - reflexivity.
    - intros x IHx r IHr t v Hv. simpl. now rewrite (IHx t v Hv), (IHr t v Hv).
  Qed.

  (* what a service returns (every required attribute set) validates under any view *)
  Lemma validate_restrict :
    (forall x, okv (fun t v x => full_valid e t x = true -> validate e t v (restrict e t v x) = true) x) /\
    (forall fs, okf (fun r w fs => full_valid_f e r fs = true -> validate_f e r w (restrict_f e r w fs) = true) fs) /\
    (forall l, okl (fun t v l => full_valid_l e t l = true -> validate_l e t v (restrict_l e t v l) = true) l).
  Proof.
    apply val_mutind; unfold okv, okf, okl.
    - reflexivity.
    - intros fs IH t v Hv. destruct (has_view_inv _ _ Hv) as (r & w & Ft & Fv & Hw).
      simpl. rewrite Ft, Fv. simpl. rewrite Ft, Fv. rewrite andb_true_iff. intros [Hreq Hf].
      rewrite andb_true_iff. split; [|eapply IH; eauto].
      rewrite forallb_forall in *. intros a Ha. unfold req_checked in Ha.
      apply in_map_iff in Ha. destruct Ha as (at_ & <- & Hat). apply filter_In in Hat.
      destruct Hat as [Hin Hq]. apply andb_true_iff in Hq. destruct Hq as [Hq _].
      apply andb_true_iff in Hq. destruct Hq as [Hq Hiv].
      rewrite has_field_restrict, Hiv.
      assert (Hfa : has_field fs (a_name at_) = true).
      { apply Hreq. apply in_map_iff. exists at_. split; [reflexivity|]. apply filter_In. tauto. }
      rewrite Hfa. simpl. unfold has_attr, find_attr.
      clear -Hin. induction (r_attrs r) as [|b l IHl]; simpl in *; [tauto|].
      destruct (String.eqb (a_name b) (a_name at_)) eqn:E; [reflexivity|].
      destruct Hin as [->|Hin]; [now rewrite String.eqb_refl in E | auto].
    - intros l IH t v Hv. simpl. apply IH, Hv.
    - reflexivity.
    - intros a x IHx rest IHr t r w Ft Hw. simpl.
      destruct (find_attr r a) as [at_|] eqn:Fa.
      2:{ intros Hf. destruct (view_entry (v_attrs w) a); eapply IHr; eauto. }
      rewrite andb_true_iff. intros [Hx Hrest].
      destruct (view_entry (v_attrs w) a) as [ov|] eqn:Ve; [|eapply IHr; eauto].
      simpl. rewrite Ve, Fa. rewrite (IHr t r w Ft Hw Hrest), andb_true_r.
      destruct (a_ty at_) as [p|t'|t'] eqn:Ty; [reflexivity| |];
        (apply IHx; [eapply nested_has_view; eauto; rewrite Ty; reflexivity | exact Hx]).
    - reflexivity.
    - intros x IHx r IHr t v Hv. simpl. rewrite andb_true_iff. intros [Hx Hr].
      now rewrite (IHx t v Hv Hx), (IHr t v Hv Hr).
  Qed.
End Runtime.

(* ------------------------------------------------------ statements, assembled *)

Lemma iproject_fuel_mono e f f' t v x :
  f <= f' -> iproject f e t v = x -> x <> Out -> iproject f' e t v = x.
Proof.
  intros Hle. unfold iproject.
  destruct (iproj f e t v init) as [[tr s]| |] eqn:E; intros <- Hn.
  - now rewrite (iproj_fuel_mono e f f' t v init _ Hle E) by discriminate.
  - now rewrite (iproj_fuel_mono e f f' t v init _ Hle E) by discriminate.
  - congruence.
Qed.

Lemma iproject_undefined e f t v tr : has_view e t v = false -> iproject f e t v <> Ok tr.
Proof.
  unfold iproject, has_view. destruct f as [|f]; simpl; [discriminate|].
  destruct (find_type e t) as [r|]; [|discriminate].
  destruct (find_view r v) as [w|]; [discriminate|discriminate].
Qed.

Lemma sproject_shape e n t v r w :
  find_type e t = Some r -> find_view r v = Some w ->
  exists fs, sproject (S n) e t v = PObj t v fs (req_in_view r w) /\
             pnames fs = filter (has_attr r) (map fst (v_attrs w)) /\
             forall a, pfind fs a =
                       match view_entry (v_attrs w) a, find_attr r a with
                       | Some ov, Some at_ => Some (child (sproject n e) at_ ov)
                       | _, _ => None
                       end.
Proof.
  intros Ft Fv. simpl. rewrite Ft, Fv. eexists. split; [reflexivity|].
  split; [apply sfields_names | intros a; apply sfields_child].
Qed.

Lemma restrict_keys e t v r w fs :
  find_type e t = Some r -> find_view r v = Some w ->
  exists fs', restrict e t v (VObj fs) = VObj fs' /\
              keys fs' = filter (fun a => in_view w a && has_attr r a) (keys fs).
Proof.
  intros Ft Fv. simpl. rewrite Ft, Fv. eexists. split; [reflexivity | apply keys_restrict].
Qed.

Definition selected (fixed : option name) (chosen : name) : name :=
  norm (match fixed with Some f => f | None => chosen end).

Lemma exchange_restricts e c t fixed chosen x :
  closed e = true -> has_view e t (selected fixed chosen) = true -> full_valid e t x = true ->
  exists h, server_respond e c t fixed chosen x = SResp h (restrict e t (selected fixed chosen) x) /\
            client_decode e t fixed h (restrict e t (selected fixed chosen) x)
            = COk (restrict e t (selected fixed chosen) x).
Proof.
  intros Hc Hv Hx. unfold selected in *. unfold server_respond, client_decode.
  destruct fixed as [f|].
  - rewrite Hv. exists None. split; [reflexivity|]. cbv zeta.
    rewrite (proj1 (validate_restrict e Hc) x _ _ Hv Hx).
    now rewrite (proj1 (rebuild_restrict e Hc) x _ _ Hv).
  - rewrite Hv. exists (Some (norm chosen)). split; [reflexivity|]. cbv zeta. rewrite norm_idem, ?Hv.
    rewrite (proj1 (validate_restrict e Hc) x _ _ Hv Hx).
    now rewrite (proj1 (rebuild_restrict e Hc) x _ _ Hv).
Qed.

Lemma has_view_false_iff e t r v :
  find_type e t = Some r -> (has_view e t v = false <-> ~ In v (map v_name (r_views r))).
Proof.
  intros Ft. unfold has_view. rewrite Ft. unfold find_view. rewrite <- find_view_in_none.
  destruct (find_view_in (r_views r) v); split; congruence.
Qed.

Lemma client_rejects_unknown e t r fixed h body :
  find_type e t = Some r -> fixed = None -> ~ In (norm h) (map v_name (r_views r)) ->
  client_decode e t fixed (Some h) body = CErr.
Proof.
  intros Ft -> Hn. unfold client_decode. cbv zeta.
  now rewrite (proj2 (has_view_false_iff e t r (norm h) Ft) Hn).
Qed.

Lemma server_unknown e t chosen x :
  has_view e t (norm chosen) = false ->
  server_respond e false t None chosen x = SPanic /\
  server_respond e true t None chosen x = SResp (Some "") (VList VLNil).
Proof. intros H. unfold server_respond. now rewrite H. Qed.

Lemma fixed_view_server e c t f chosen chosen' x h b :
  server_respond e c t (Some f) chosen x = SResp h b ->
  h = None /\ server_respond e c t (Some f) chosen' x = SResp h b.
Proof.
  unfold server_respond. destruct (has_view e t (norm f)); [|discriminate].
  intros H; inversion H; subst. split; reflexivity.
Qed.

Lemma fixed_view_client e t f h body :
  client_decode e t (Some f) h body = client_decode e t (Some f) None body.
Proof. reflexivity. Qed.
