(* Proofs about the Views model. Statements of the property are in Properties.v. *)
From Views Require Import Model.
From Coq Require Import Lia.
Open Scope list_scope.

Scheme itree_ind2 := Induction for itree Sort Prop
  with iflds_ind2 := Induction for iflds Sort Prop.
Combined Scheme itree_iflds_ind from itree_ind2, iflds_ind2.

Scheme val_ind3 := Induction for val Sort Prop
  with vflds_ind3 := Induction for vflds Sort Prop
  with vlist_ind3 := Induction for vlist Sort Prop.
Combined Scheme val_mutind from val_ind3, vflds_ind3, vlist_ind3.

(* ------------------------------------------------------------------ basics *)

Lemma mkey_eqb_eq k1 k2 : mkey_eqb k1 k2 = true <-> k1 = k2.
Proof.
  destruct k1 as [[c1 t1] v1], k2 as [[c2 t2] v2]. unfold mkey_eqb.
  rewrite !andb_true_iff, Nat.eqb_eq, !String.eqb_eq.
  split; [intros [[-> ->] ->]; reflexivity | intros H; inversion H; auto].
Qed.

Lemma mkey_eqb_refl k : mkey_eqb k k = true.
Proof. apply mkey_eqb_eq; reflexivity. Qed.

Lemma mkey_of_nkey w1 w2 k1 k2 : mkey_of w1 k1 = mkey_of w2 k2 -> k1 = k2.
Proof.
  destruct k1 as [[u1 t1] v1], k2 as [[u2 t2] v2]. unfold mkey_of. intros H. inversion H; subst.
  destruct u1, u2; try reflexivity; destruct w1, w2; discriminate.
Qed.

Lemma find_type_in e t r : find_type e t = Some r -> exists n, In (n, r) e.
Proof.
  induction e as [|[n r'] e IH]; simpl; [discriminate|].
  destruct (String.eqb n t); intros H.
  - inversion H; subst. exists n. now left.
  - destruct (IH H) as [m Hm]. exists m. now right.
Qed.

Lemma find_view_in_in vs v w : find_view_in vs v = Some w -> In w vs /\ v_name w = v.
Proof.
  induction vs as [|x vs IH]; simpl; [discriminate|].
  destruct (String.eqb (v_name x) v) eqn:E; intros H.
  - inversion H; subst. split; [now left | now apply String.eqb_eq].
  - destruct (IH H). split; [now right | assumption].
Qed.

Lemma find_view_in_none vs v : find_view_in vs v = None <-> ~ In v (map v_name vs).
Proof.
  induction vs as [|x vs IH]; simpl; [tauto|].
  destruct (String.eqb (v_name x) v) eqn:E.
  - apply String.eqb_eq in E. split; [discriminate | intros H; exfalso; apply H; now left].
  - apply String.eqb_neq in E. rewrite IH. tauto.
Qed.

Lemma find_attr_in_in l a x : find_attr_in l a = Some x -> In x l /\ a_name x = a.
Proof.
  induction l as [|y l IH]; simpl; [discriminate|].
  destruct (String.eqb (a_name y) a) eqn:E; intros H.
  - inversion H; subst. split; [now left | now apply String.eqb_eq].
  - destruct (IH H). split; [now right | assumption].
Qed.

Lemma view_entry_in l a ov : view_entry l a = Some ov -> In (a, ov) l.
Proof.
  induction l as [|[b o] l IH]; simpl; [discriminate|].
  destruct (String.eqb b a) eqn:E; intros H.
  - apply String.eqb_eq in E. inversion H; subst. now left.
  - right; auto.
Qed.

Lemma norm_idem v : norm (norm v) = norm v.
Proof.
  unfold norm. destruct (String.eqb v "") eqn:E; [reflexivity|]. now rewrite E.
Qed.

(* entries of a node, unpacked *)
Lemma entries_inv e k r l :
  entries e k = Some (r, l) ->
  find_type e (snd (fst k)) = Some r /\
  ((fst (fst k) = true /\ l = map (fun a => (a_name a, None)) (r_attrs r)) \/
   (fst (fst k) = false /\ exists w, find_view r (snd k) = Some w /\ l = v_attrs w)).
Proof.
  destruct k as [[usr t] v]. simpl. destruct (find_type e t) as [r'|]; [|discriminate].
  destruct usr.
  - intros H; inversion H; subst. split; [reflexivity|]. left; auto.
  - destruct (find_view r' v) as [w|] eqn:Fv; [|discriminate].
    intros H; inversion H; subst. split; [reflexivity|]. right. split; [reflexivity|]. eauto.
Qed.

(* ------------------------------------------------ the memo: order and counting *)

Definition is_seen (m : list (mkey * nat)) (k : mkey) : bool :=
  match lookup m k with Some _ => true | None => false end.

Definition mono (m m' : list (mkey * nat)) : Prop :=
  forall k id, lookup m k = Some id -> lookup m' k = Some id.

Lemma mono_refl m : mono m m.
Proof. intros k id H; exact H. Qed.

Lemma mono_trans m1 m2 m3 : mono m1 m2 -> mono m2 m3 -> mono m1 m3.
Proof. intros A B k id H. apply B, A, H. Qed.

Lemma mono_cons m k id : lookup m k = None -> mono m ((k, id) :: m).
Proof.
  intros Hn k' id' H. simpl. destruct (mkey_eqb k k') eqn:E; [|exact H].
  apply mkey_eqb_eq in E. subst. congruence.
Qed.

Definition unseen (U : list mkey) (m : list (mkey * nat)) : nat :=
  List.length (filter (fun k => negb (is_seen m k)) U).

Lemma filter_len_le {A} (p q : A -> bool) (l : list A) :
  (forall x, q x = true -> p x = true) -> List.length (filter q l) <= List.length (filter p l).
Proof.
  intros H. induction l as [|x l IH]; simpl; [lia|].
  destruct (q x) eqn:Q.
  - rewrite (H x Q). simpl. lia.
  - destruct (p x); simpl; lia.
Qed.

Lemma filter_len_lt {A} (p q : A -> bool) (l : list A) (x0 : A) :
  (forall x, q x = true -> p x = true) -> In x0 l -> p x0 = true -> q x0 = false ->
  List.length (filter q l) < List.length (filter p l).
Proof.
  intros H. induction l as [|x l IH]; simpl; [tauto|].
  intros [->|Hin] P Q.
  - rewrite P, Q. simpl. pose proof (filter_len_le p q l H). lia.
  - specialize (IH Hin P Q). destruct (q x) eqn:Qx.
    + rewrite (H x Qx). simpl. lia.
    + destruct (p x); simpl; lia.
Qed.

Lemma unseen_mono U m m' : mono m m' -> unseen U m' <= unseen U m.
Proof.
  intros H. unfold unseen. apply filter_len_le. intros k. unfold is_seen.
  destruct (lookup m k) eqn:E; [rewrite (H _ _ E); discriminate | reflexivity].
Qed.

Lemma unseen_cons U m k id : In k U -> lookup m k = None -> unseen U ((k, id) :: m) < unseen U m.
Proof.
  intros Hin Hn. unfold unseen. apply filter_len_lt with (x0 := k); auto.
  - intros k'. unfold is_seen. simpl. destruct (mkey_eqb k k'); [discriminate|].
    destruct (lookup m k'); auto.
  - unfold is_seen. now rewrite Hn.
  - unfold is_seen. simpl. now rewrite mkey_eqb_refl.
Qed.

Lemma unseen_le_all U m : unseen U m <= List.length U.
Proof.
  unfold unseen. induction U as [|x l IH]; simpl; [lia|]. destruct (negb (is_seen m x)); simpl; lia.
Qed.

(* the names a design uses *)
Lemma target_name_in e n r at_ v ov w k :
  In (n, r) e -> In at_ (r_attrs r) -> target v ov at_ = Some (w, k) -> In (snd (fst k)) (target_names e).
Proof.
  intros Hn Ha Ht. unfold target_names. apply in_flat_map. exists (n, r). split; [exact Hn|].
  apply in_flat_map. exists at_. split; [exact Ha|].
  unfold target in Ht. unfold attr_targets. destruct (a_ty at_); inversion Ht; subst; simpl; auto.
Qed.

Lemma meta_view_in e n r at_ v : In (n, r) e -> In at_ (r_attrs r) -> a_meta at_ = Some v -> In v (view_names e).
Proof.
  intros Hn Ha Hm. unfold view_names. right. apply in_flat_map. exists (n, r). split; [exact Hn|].
  apply in_or_app. left. apply in_flat_map. exists at_. split; [exact Ha|]. unfold attr_views. rewrite Hm. now left.
Qed.

Lemma view_name_in e n r w : In (n, r) e -> In w (r_views r) -> In (v_name w) (view_names e).
Proof.
  intros Hn Hw. unfold view_names. right. apply in_flat_map. exists (n, r). split; [exact Hn|].
  apply in_or_app. right. apply in_flat_map. exists w. split; [exact Hw|]. now left.
Qed.

Lemma override_in e n r w a v : In (n, r) e -> In w (r_views r) -> In (a, Some v) (v_attrs w) -> In v (view_names e).
Proof.
  intros Hn Hw Ha. unfold view_names. right. apply in_flat_map. exists (n, r). split; [exact Hn|].
  apply in_or_app. right. apply in_flat_map. exists w. split; [exact Hw|]. right.
  apply in_flat_map. exists (a, Some v). split; [exact Ha|]. now left.
Qed.

(* --------------------------------------------------- more fuel changes nothing *)

Definition rec_le (rec rec' : nkey -> st -> res (itree * st)) : Prop :=
  forall k s x, rec k s = x -> x <> Out -> rec' k s = x.

Lemma iattr_le rec rec' w k s x :
  rec_le rec rec' -> iattr rec w k s = x -> x <> Out -> iattr rec' w k s = x.
Proof.
  intros H. unfold iattr. destruct (lookup (memo s) (mkey_of w k)); [auto|].
  destruct (rec k _) as [[tr s2]| |] eqn:E; intros <- Hx.
  - now rewrite (H _ _ _ E).
  - rewrite (H _ _ _ E); [reflexivity | discriminate].
  - congruence.
Qed.

Lemma nested_le rec rec' cont cont' a w k s x :
  rec_le rec rec' ->
  (forall s y, cont s = y -> y <> Out -> cont' s = y) ->
  ifield_nested rec cont a w k s = x -> x <> Out -> ifield_nested rec' cont' a w k s = x.
Proof.
  intros H Hc. unfold ifield_nested.
  destruct (iattr rec w k s) as [[[id [tr|]] s2]| |] eqn:E; intros Hx Hn.
  - rewrite (iattr_le _ _ _ _ _ _ H E) by discriminate.
    destruct (cont s2) as [[fs s3]| |] eqn:E2;
      [now rewrite (Hc _ _ E2) by discriminate | now rewrite (Hc _ _ E2) by discriminate | congruence].
  - rewrite (iattr_le _ _ _ _ _ _ H E) by discriminate.
    destruct (cont s2) as [[fs s3]| |] eqn:E2;
      [now rewrite (Hc _ _ E2) by discriminate | now rewrite (Hc _ _ E2) by discriminate | congruence].
  - rewrite (iattr_le _ _ _ _ _ _ H E) by discriminate. exact Hx.
  - congruence.
Qed.

Lemma leaf_le cont cont' a s x :
  (forall s y, cont s = y -> y <> Out -> cont' s = y) ->
  ifield_leaf cont a s = x -> x <> Out -> ifield_leaf cont' a s = x.
Proof.
  intros Hc. unfold ifield_leaf.
  destruct (cont s) as [[fs s3]| |] eqn:E2; intros Hx Hn;
    [now rewrite (Hc _ _ E2) by discriminate | now rewrite (Hc _ _ E2) by discriminate | congruence].
Qed.

Lemma ifields_le rec rec' r v l :
  rec_le rec rec' -> forall s x, ifields rec r v l s = x -> x <> Out -> ifields rec' r v l s = x.
Proof.
  intros H. induction l as [|[a ov] l IH]; intros s x; simpl; [auto|].
  destruct (find_attr r a) as [at_|]; [|apply IH].
  destruct (target v ov at_) as [[w k]|].
  - apply nested_le; [exact H | exact IH].
  - apply leaf_le; exact IH.
Qed.

Lemma iproj_unfold f e n s :
  iproj (S f) e n s =
  match entries e n with
  | None => Err
  | Some (r, l) =>
    match ifields (iproj f e) r (snd n) l s with
    | Ok (fs, s') => Ok (INode n fs (req_in (fst (fst n)) r l), s')
    | Err => Err
    | Out => Out
    end
  end.
Proof. reflexivity. Qed.

Lemma iproj_S f e : rec_le (iproj f e) (iproj (S f) e).
Proof.
  induction f as [|f IH]; intros n s x; [simpl; intros <- H; congruence|].
  intros Hx Hn. rewrite iproj_unfold in Hx |- *.
  destruct (entries e n) as [[r l]|]; [|exact Hx].
  destruct (ifields (iproj f e) r (snd n) l s) as [[fs s']| |] eqn:E.
  - now rewrite (ifields_le _ _ _ _ _ IH _ _ E) by discriminate.
  - now rewrite (ifields_le _ _ _ _ _ IH _ _ E) by discriminate.
  - congruence.
Qed.

Lemma iproj_fuel_mono e f f' n s x :
  f <= f' -> iproj f e n s = x -> x <> Out -> iproj f' e n s = x.
Proof.
  induction 1 as [|f' _ IH]; [auto|]. intros Hx Hn. apply iproj_S; auto.
Qed.

(* ------------------------------------------------------------- termination *)

Section Termination.
  Variable e : env.
  Local Notation U := (all_keys e).

  Definition term_rec (f : nat) (rec : nkey -> st -> res (itree * st)) : Prop :=
    forall k s, (fst (fst k) = true -> In (snd k) (view_names e)) -> unseen U (memo s) < f ->
      rec k s <> Out /\ forall tr s', rec k s = Ok (tr, s') -> mono (memo s) (memo s').

  Lemma nested_term rec cont f a w k s :
    term_rec f rec -> In (mkey_of w k) U -> (fst (fst k) = true -> In (snd k) (view_names e)) ->
    unseen U (memo s) <= f ->
    (forall s2, mono (memo s) (memo s2) ->
       cont s2 <> Out /\ forall fs s3, cont s2 = Ok (fs, s3) -> mono (memo s2) (memo s3)) ->
    ifield_nested rec cont a w k s <> Out /\
    forall fs s3, ifield_nested rec cont a w k s = Ok (fs, s3) -> mono (memo s) (memo s3).
  Proof.
    intros Hrec Hin Hgood Hle Hc. unfold ifield_nested, iattr.
    destruct (lookup (memo s) (mkey_of w k)) as [id|] eqn:L.
    - destruct (Hc s (mono_refl _)) as [Hno Hm].
      destruct (cont s) as [[fs s3]| |] eqn:E; split; try discriminate; try congruence.
      intros fs' s3' H. inversion H; subst. eapply Hm; reflexivity.
    - set (s1 := mkSt (S (next s)) ((mkey_of w k, next s) :: memo s)).
      assert (Hlt : unseen U (memo s1) < f).
      { pose proof (unseen_cons U (memo s) (mkey_of w k) (next s) Hin L) as Hc1. subst s1. cbn [memo].
        eapply Nat.lt_le_trans; [exact Hc1 | exact Hle]. }
      destruct (Hrec k s1 Hgood Hlt) as [Hno Hm].
      assert (M1 : mono (memo s) (memo s1)) by (apply mono_cons; exact L).
      destruct (rec k s1) as [[tr s2]| |] eqn:E; [|split; [discriminate|intros; discriminate]|congruence].
      assert (M2 : mono (memo s) (memo s2)) by (eapply mono_trans; [exact M1 | eapply Hm; reflexivity]).
      destruct (Hc s2 M2) as [Hno2 Hm2].
      destruct (cont s2) as [[fs s3]| |] eqn:E2; split; try discriminate; try congruence.
      intros fs' s3' H. inversion H; subst. eapply mono_trans; [exact M2 | eapply Hm2; reflexivity].
  Qed.

  (* a list of entries of a type of the design, read under the view v *)
  Definition entries_ok (r : rtype) (v : name) (l : list (name * option name)) : Prop :=
    (exists n, In (n, r) e) /\ In v (view_names e) /\
    forall a v', In (a, Some v') l -> In v' (view_names e).

  Lemma target_key_in r v l a ov at_ w k :
    entries_ok r v l -> In (a, ov) l -> find_attr r a = Some at_ -> target v ov at_ = Some (w, k) ->
    In (mkey_of w k) U /\ (fst (fst k) = true -> In (snd k) (view_names e)).
  Proof.
    intros ([n Hn] & Hv & Hov) Hin Fa Ht. apply find_attr_in_in in Fa. destruct Fa as [Fa _].
    pose proof (target_name_in e n r at_ v ov w k Hn Fa Ht) as Hname.
    assert (Hview : In (snd k) (view_names e)).
    { unfold target in Ht.
      assert (Hnv : In (nested_view ov at_) (view_names e)).
      { unfold nested_view. destruct ov as [v'|]; [eapply Hov; eauto|].
        destruct (a_meta at_) as [v'|] eqn:Hm; [eapply meta_view_in; eauto | now left]. }
      destruct (a_ty at_); inversion Ht; subst; simpl; auto. }
    split; [|intros _; exact Hview].
    destruct k as [[usr t] v0]. cbn [fst snd] in Hname, Hview. unfold all_keys, mkey_of.
    apply in_prod; [apply in_prod|]; auto.
    destruct usr; [cbn; auto|]. destruct w; cbn; auto.
  Qed.

  Lemma ifields_term rec r v f l :
    term_rec f rec -> entries_ok r v l ->
    forall s, unseen U (memo s) <= f ->
      ifields rec r v l s <> Out /\ forall fs s', ifields rec r v l s = Ok (fs, s') -> mono (memo s) (memo s').
  Proof.
    intros Hrec. induction l as [|[a ov] l IH]; intros Hok s Hle.
    - simpl. split; [discriminate|]. intros fs s' H. inversion H; subst. apply mono_refl.
    - assert (Hok' : entries_ok r v l).
      { destruct Hok as (A & B & C). split; [exact A|]. split; [exact B|]. intros a0 v' H0. eapply C. right. exact H0. }
      assert (Hc : forall s2, mono (memo s) (memo s2) ->
                 ifields rec r v l s2 <> Out /\ forall fs s3, ifields rec r v l s2 = Ok (fs, s3) -> mono (memo s2) (memo s3)).
      { intros s2 M. apply IH; [exact Hok'|]. pose proof (unseen_mono U _ _ M). lia. }
      simpl. destruct (find_attr r a) as [at_|] eqn:Fa; [|apply (Hc s (mono_refl _))].
      destruct (target v ov at_) as [[w k]|] eqn:Ht.
      + destruct (target_key_in r v ((a, ov) :: l) a ov at_ w k Hok (or_introl eq_refl) Fa Ht) as [Hin Hgood].
        apply nested_term with (f := f); auto.
      + unfold ifield_leaf. destruct (Hc s (mono_refl _)) as [Hno Hm].
        destruct (ifields rec r v l s) as [[fs s3]| |] eqn:E; split; try discriminate; try congruence.
        intros fs' s3' H. inversion H; subst. eapply Hm; reflexivity.
  Qed.

  Lemma entries_entries_ok k r l :
    entries e k = Some (r, l) -> (fst (fst k) = true -> In (snd k) (view_names e)) -> entries_ok r (snd k) l.
  Proof.
    intros He Hgood. destruct (entries_inv _ _ _ _ He) as [Ft [[Hu ->]|[Hu (w & Fv & ->)]]].
    - destruct (find_type_in _ _ _ Ft) as [n Hn]. split; [eauto|]. split; [auto|].
      intros a v' Hin. apply in_map_iff in Hin. destruct Hin as (x & Hx & _). discriminate.
    - destruct (find_type_in _ _ _ Ft) as [n Hn]. apply find_view_in_in in Fv. destruct Fv as [Hw Hname].
      split; [eauto|]. split; [rewrite <- Hname; eapply view_name_in; eauto|].
      intros a v' Hin. eapply override_in; eauto.
  Qed.

  Lemma iproj_term f : term_rec f (iproj f e).
  Proof.
    induction f as [|f IH]; intros k s Hgood Hlt; [lia|].
    rewrite iproj_unfold. destruct (entries e k) as [[r l]|] eqn:He; [|split; [discriminate|intros; discriminate]].
    destruct (ifields_term (iproj f e) r (snd k) f l IH (entries_entries_ok k r l He Hgood) s) as [Hno Hm]; [lia|].
    destruct (ifields (iproj f e) r (snd k) l s) as [[fs s']| |] eqn:E; split; try discriminate; try congruence.
    intros tr s'' H. inversion H; subst. eapply Hm; reflexivity.
  Qed.

  Lemma iproject_not_out f t v : fuel_bound e <= f -> iproject f e t v <> Out.
  Proof.
    intros Hf. unfold iproject.
    destruct (iproj_term f (false, t, v) init) as [Hno _].
    { simpl. discriminate. }
    { pose proof (unseen_le_all U (memo init)). unfold fuel_bound in Hf. lia. }
    destruct (iproj f e (false, t, v) init) as [[tr s]| |]; congruence.
  Qed.
End Termination.

(* ------------------------------------------- closed designs never fail to project *)

Lemma closed_entry_view e r v v' en : closed_entry e r v en = closed_entry e r v' en.
Proof.
  unfold closed_entry. destruct (find_attr r (fst en)) as [at_|]; [|reflexivity].
  unfold target. destruct (a_ty at_); reflexivity.
Qed.

Lemma closed_entries e k r l :
  closed e = true -> entries e k = Some (r, l) ->
  forall en, In en l -> closed_entry e r (snd k) en = true.
Proof.
  intros Hc He en Hen. destruct (entries_inv _ _ _ _ He) as [Ft Hcase].
  destruct (find_type_in _ _ _ Ft) as [n Hn].
  unfold closed in Hc. rewrite forallb_forall in Hc. specialize (Hc _ Hn). simpl in Hc.
  unfold closed_type in Hc. apply andb_true_iff in Hc. destruct Hc as [Hc _].
  apply andb_true_iff in Hc. destruct Hc as [Hv Ha].
  destruct Hcase as [[_ ->]|[_ (w & Fv & ->)]].
  - apply in_map_iff in Hen. destruct Hen as (x & <- & Hx).
    rewrite forallb_forall in Ha. rewrite (closed_entry_view e r (snd k) "default"). now apply Ha.
  - apply find_view_in_in in Fv. destruct Fv as [Hw Hname].
    rewrite forallb_forall in Hv. specialize (Hv _ Hw). rewrite forallb_forall in Hv.
    rewrite <- Hname. now apply Hv.
Qed.

Definition noerr_rec (e : env) (rec : nkey -> st -> res (itree * st)) : Prop :=
  forall k s, has_node e k = true -> rec k s <> Err.

Lemma ifields_noerr e rec r v l :
  noerr_rec e rec -> (forall en, In en l -> closed_entry e r v en = true) ->
  forall s, ifields rec r v l s <> Err.
Proof.
  intros Hrec. induction l as [|[a ov] l IH]; intros Hcl s; simpl; [discriminate|].
  assert (IH' : forall s, ifields rec r v l s <> Err) by (apply IH; intros en Hen; apply Hcl; now right).
  pose proof (Hcl (a, ov) (or_introl eq_refl)) as Hce. unfold closed_entry in Hce. simpl in Hce.
  destruct (find_attr r a) as [at_|]; [|apply IH'].
  destruct (target v ov at_) as [[w k]|].
  - unfold ifield_nested, iattr. destruct (lookup (memo s) (mkey_of w k)).
    + specialize (IH' s). destruct (ifields rec r v l s) as [[fs s3]| |]; congruence.
    + pose proof (Hrec k (mkSt (S (next s)) ((mkey_of w k, next s) :: memo s)) Hce) as Hn.
      destruct (rec k _) as [[tr s2]| |]; try congruence.
      specialize (IH' s2). destruct (ifields rec r v l s2) as [[fs s3]| |]; congruence.
  - unfold ifield_leaf. specialize (IH' s). destruct (ifields rec r v l s) as [[fs s3]| |]; congruence.
Qed.

Lemma iproj_noerr e f : closed e = true -> noerr_rec e (iproj f e).
Proof.
  intros Hc. induction f as [|f IH]; intros k s Hv; [simpl; discriminate|]. rewrite iproj_unfold.
  unfold has_node in Hv. destruct (entries e k) as [[r l]|] eqn:He; [|discriminate].
  pose proof (ifields_noerr e (iproj f e) r (snd k) l IH (closed_entries e k r l Hc He) s) as Hn.
  destruct (ifields (iproj f e) r (snd k) l s) as [[fs s']| |]; congruence.
Qed.

Lemma iproject_total e t v :
  closed e = true -> has_view e t v = true -> exists tr, iproject (fuel_bound e) e t v = Ok tr.
Proof.
  intros Hc Hv. pose proof (iproject_not_out e (fuel_bound e) t v (le_n _)) as Hno.
  unfold iproject in *. pose proof (iproj_noerr e (fuel_bound e) Hc (false, t, v) init Hv) as Hne.
  destruct (iproj (fuel_bound e) e (false, t, v) init) as [[tr s]| |]; [eauto|congruence|congruence].
Qed.

(* --------------------------------------- what expr.Project builds is the projection *)

Definition root_key (tr : itree) : nkey := match tr with INode k _ _ => k end.

Section Correct.
  Variable e : env.

  (* every node lists exactly the entries of its view; every attribute that points to a node
     is registered in the memo G under (kind, type, own view) and, when defined here, holds
     the node of that type and view *)
  Inductive node_ok (G : list (mkey * nat)) : itree -> Prop :=
  | NOk k fs req r l :
      entries e k = Some (r, l) -> req = req_in (fst (fst k)) r l ->
      flds_ok G r (snd k) l fs -> node_ok G (INode k fs req)
  with flds_ok (G : list (mkey * nat)) : rtype -> name -> list (name * option name) -> iflds -> Prop :=
  | FOnil r v : flds_ok G r v [] FNil
  | FOskip r v a ov l fs :
      find_attr r a = None -> flds_ok G r v l fs -> flds_ok G r v ((a, ov) :: l) fs
  | FOleaf r v a ov l fs at_ :
      find_attr r a = Some at_ -> target v ov at_ = None -> flds_ok G r v l fs ->
      flds_ok G r v ((a, ov) :: l) (FLeafC a fs)
  | FOdef r v a ov l fs at_ w k id tr :
      find_attr r a = Some at_ -> target v ov at_ = Some (w, k) ->
      lookup G (mkey_of w k) = Some id -> root_key tr = k -> node_ok G tr -> flds_ok G r v l fs ->
      flds_ok G r v ((a, ov) :: l) (FDefC a id w tr fs)
  | FOref r v a ov l fs at_ w k id :
      find_attr r a = Some at_ -> target v ov at_ = Some (w, k) ->
      lookup G (mkey_of w k) = Some id -> flds_ok G r v l fs ->
      flds_ok G r v ((a, ov) :: l) (FRefC a id w fs).

  Scheme node_ok_min := Minimality for node_ok Sort Prop
    with flds_ok_min := Minimality for flds_ok Sort Prop.
  Combined Scheme node_flds_ok_ind from node_ok_min, flds_ok_min.

  Definition wf (s : st) : Prop :=
    (forall k id, lookup (memo s) k = Some id -> id < next s) /\
    (forall k1 k2 id, lookup (memo s) k1 = Some id -> lookup (memo s) k2 = Some id -> k1 = k2).

  Lemma wf_init : wf init.
  Proof. split; simpl; intros; discriminate. Qed.

  Lemma wf_push s k : wf s -> lookup (memo s) k = None -> wf (mkSt (S (next s)) ((k, next s) :: memo s)).
  Proof.
    intros [Hlt Hinj] Hn. split; simpl.
    - intros k' id. destruct (mkey_eqb k k'); intros H; [inversion H; lia|]. specialize (Hlt _ _ H). lia.
    - intros k1 k2 id. destruct (mkey_eqb k k1) eqn:E1, (mkey_eqb k k2) eqn:E2; intros H1 H2.
      + apply mkey_eqb_eq in E1, E2. congruence.
      + inversion H1; subst. specialize (Hlt _ _ H2). lia.
      + inversion H2; subst. specialize (Hlt _ _ H1). lia.
      + eapply Hinj; eauto.
  Qed.

  Definition post (k : nkey) (s : st) (tr : itree) (s' : st) : Prop :=
    wf s' /\ mono (memo s) (memo s') /\ next s <= next s' /\ root_key tr = k /\
    (forall G, mono (memo s') G -> node_ok G tr) /\
    (forall id, next s <= id < next s' -> find_def id tr <> None).

  Definition postf (r : rtype) (v : name) (l : list (name * option name)) (s : st) (fs : iflds) (s' : st) : Prop :=
    wf s' /\ mono (memo s) (memo s') /\ next s <= next s' /\
    (forall G, mono (memo s') G -> flds_ok G r v l fs) /\
    (forall id, next s <= id < next s' -> find_def_f id fs <> None).

  Definition good_rec (rec : nkey -> st -> res (itree * st)) : Prop :=
    forall k s tr s', wf s -> rec k s = Ok (tr, s') -> post k s tr s'.

  Lemma nested_good rec cont r v a ov l at_ w k s fs s3 :
    good_rec rec ->
    (forall s2 fs' s3, wf s2 -> cont s2 = Ok (fs', s3) -> postf r v l s2 fs' s3) ->
    find_attr r a = Some at_ -> target v ov at_ = Some (w, k) ->
    wf s -> ifield_nested rec cont a w k s = Ok (fs, s3) ->
    postf r v ((a, ov) :: l) s fs s3.
  Proof.
    intros Hrec Hcont Fa Rt Hwf. unfold ifield_nested, iattr.
    destruct (lookup (memo s) (mkey_of w k)) as [id|] eqn:L.
    - destruct (cont s) as [[fs' s3']| |] eqn:E; try discriminate. intros H; inversion H; subst.
      destruct (Hcont _ _ _ Hwf E) as (W & M & N & F & D).
      refine (conj W (conj M (conj N (conj _ _)))).
      + intros G MG. eapply FOref; [exact Fa | exact Rt | apply MG, M, L | apply F, MG].
      + intros id' Hid. simpl. apply D, Hid.
    - set (s1 := mkSt (S (next s)) ((mkey_of w k, next s) :: memo s)).
      destruct (rec k s1) as [[tr s2]| |] eqn:E; try discriminate.
      assert (W1 : wf s1) by (apply wf_push; assumption).
      destruct (Hrec _ _ _ _ W1 E) as (W2 & M12 & N12 & RK & NOK & D12).
      destruct (cont s2) as [[fs' s3']| |] eqn:E2; try discriminate. intros H; inversion H; subst.
      destruct (Hcont _ _ _ W2 E2) as (W3 & M23 & N23 & F & D23).
      assert (M01 : mono (memo s) (memo s1)) by (apply mono_cons; exact L).
      refine (conj W3 (conj _ (conj _ (conj _ _)))).
      + eapply mono_trans; [exact M01|]. eapply mono_trans; eauto.
      + simpl in N12. lia.
      + intros G MG. eapply FOdef; [exact Fa | exact Rt | | reflexivity | | apply F, MG].
        * apply MG, M23, M12. subst s1. cbn [memo lookup]. now rewrite mkey_eqb_refl.
        * apply NOK. eapply mono_trans; eauto.
      + intros id Hid. simpl. destruct (Nat.eqb (next s) id) eqn:Eq; [discriminate|].
        apply Nat.eqb_neq in Eq. simpl in N12.
        destruct (Nat.lt_ge_cases id (next s2)) as [Hlt|Hge].
        * assert (Hd : find_def id tr <> None) by (apply D12; simpl; lia).
          destruct (find_def id tr); [discriminate|congruence].
        * assert (Hd : find_def_f id fs' <> None) by (apply D23; lia).
          destruct (find_def id tr); [discriminate|exact Hd].
  Qed.

  Lemma ifields_good rec r v l :
    good_rec rec -> forall s fs s', wf s -> ifields rec r v l s = Ok (fs, s') -> postf r v l s fs s'.
  Proof.
    intros Hrec. induction l as [|[a ov] l IH]; intros s fs s' Hwf; simpl.
    - intros H; inversion H; subst. refine (conj Hwf (conj (mono_refl _) (conj (le_n _) (conj _ _)))).
      + intros G _. constructor.
      + intros id Hid. lia.
    - destruct (find_attr r a) as [at_|] eqn:Fa.
      2:{ intros H. destruct (IH _ _ _ Hwf H) as (W & M & N & F & D).
          refine (conj W (conj M (conj N (conj _ D)))). intros G MG. apply FOskip; auto. }
      destruct (target v ov at_) as [[w k]|] eqn:Ty.
      + apply nested_good with (at_ := at_); auto.
      + unfold ifield_leaf. destruct (ifields rec r v l s) as [[fs' s3]| |] eqn:E; try discriminate.
        intros H; inversion H; subst. destruct (IH _ _ _ Hwf E) as (W & M & N & F & D).
        refine (conj W (conj M (conj N (conj _ _)))).
        * intros G MG. eapply FOleaf; eauto.
        * intros id Hid. simpl. apply D, Hid.
  Qed.

  Lemma iproj_good f : good_rec (iproj f e).
  Proof.
    induction f as [|f IH]; intros k s tr s' Hwf; [simpl; discriminate|]. rewrite iproj_unfold.
    destruct (entries e k) as [[r l]|] eqn:He; [|discriminate].
    destruct (ifields (iproj f e) r (snd k) l s) as [[fs s2]| |] eqn:E; try discriminate.
    intros H; inversion H; subst.
    destruct (ifields_good _ _ _ _ IH _ _ _ Hwf E) as (W & M & N & F & D).
    refine (conj W (conj M (conj N (conj eq_refl (conj _ D))))).
    intros G MG. econstructor; eauto.
  Qed.

  (* an attribute found in the graph holds the node of the key it is registered under *)
  Lemma find_def_sound G :
    (forall tr, node_ok G tr -> forall id tr0, find_def id tr = Some tr0 ->
       node_ok G tr0 /\ exists w, lookup G (mkey_of w (root_key tr0)) = Some id) /\
    (forall r v l fs, flds_ok G r v l fs -> forall id tr0, find_def_f id fs = Some tr0 ->
       node_ok G tr0 /\ exists w, lookup G (mkey_of w (root_key tr0)) = Some id).
  Proof.
    apply node_flds_ok_ind.
    - intros k fs req r l _ _ _ IH id tr0 H. simpl in H. eauto.
    - intros r v id tr0 H. discriminate.
    - intros r v a ov l fs _ _ IH id tr0 H. eauto.
    - intros r v a ov l fs at_ _ _ _ IH id tr0 H. simpl in H. eauto.
    - intros r v a ov l fs at_ w k id tr _ _ L RK NOK IHtr _ IHfs id' tr0 H. simpl in H.
      destruct (Nat.eqb id id') eqn:Eq.
      + inversion H; subst. apply Nat.eqb_eq in Eq; subst. split; [exact NOK|]. eauto.
      + destruct (find_def id' tr) as [x|] eqn:Fd.
        * inversion H; subst. eapply IHtr; eauto.
        * eapply IHfs; eauto.
    - intros r v a ov l fs at_ w k id _ _ _ _ IH id' tr0 H. simpl in H. eauto.
  Qed.

  Lemma unfold_correct G root :
    node_ok G root ->
    (forall k1 k2 id, lookup G k1 = Some id -> lookup G k2 = Some id -> k1 = k2) ->
    (forall k id, lookup G k = Some id -> find_def id root <> None) ->
    forall n tr, node_ok G tr -> unfold n root tr = sproject n e (root_key tr).
  Proof.
    intros Hroot Hinj Hdef. induction n as [|n IHn]; intros tr Hok; [reflexivity|].
    destruct Hok as [k fs req r l He Hreq Hfs]. cbn [unfold sproject root_key]. rewrite He, Hreq. f_equal.
    clear He Hreq. induction Hfs.
    - reflexivity.
    - simpl. rewrite H. exact IHHfs.
    - simpl. rewrite H. unfold child. rewrite H0. now rewrite IHHfs.
    - simpl. rewrite H, IHHfs. unfold child. rewrite H0. rewrite (IHn tr H3), H2. reflexivity.
    - simpl. rewrite H, IHHfs. unfold child. rewrite H0.
      destruct (find_def id root) as [tr0|] eqn:Fd; [|exfalso; eapply Hdef; eauto].
      destruct (proj1 (find_def_sound G) _ Hroot _ _ Fd) as [Hok0 [w0 L0]].
      assert (Hk : root_key tr0 = k0) by (eapply mkey_of_nkey; eapply Hinj; eauto).
      rewrite (IHn tr0 Hok0), Hk. reflexivity.
  Qed.

  Theorem iproject_exact f t v tr :
    iproject f e t v = Ok tr -> forall n, unfold n tr tr = sproject n e (false, t, v).
  Proof.
    unfold iproject. destruct (iproj f e (false, t, v) init) as [[tr' s']| |] eqn:E; try discriminate.
    intros H; inversion H; subst. intros n.
    destruct (iproj_good f _ _ _ _ wf_init E) as (W & M & N & RK & NOK & D).
    pose proof (NOK (memo s') (mono_refl _)) as Hroot.
    rewrite (unfold_correct (memo s') tr Hroot (proj2 W)).
    - now rewrite RK.
    - intros k id L. apply D. simpl. split; [lia|]. eapply (proj1 W); eauto.
    - exact Hroot.
  Qed.
End Correct.

(* ----------------------------------------- the projection, attribute by attribute *)

Lemma sfields_names rec r v l : pnames (sfields rec r v l) = filter (has_attr r) (map fst l).
Proof.
  induction l as [|[a ov] l IH]; simpl; [reflexivity|]. unfold has_attr at 1.
  destruct (find_attr r a) as [at_|]; [|exact IH]. simpl. now rewrite IH.
Qed.

Lemma sfields_child rec r v l a :
  pfind (sfields rec r v l) a =
  match view_entry l a, find_attr r a with
  | Some ov, Some at_ => Some (child rec v at_ ov)
  | _, _ => None
  end.
Proof.
  induction l as [|[b ov] l IH]; simpl; [reflexivity|].
  destruct (String.eqb b a) eqn:E.
  - apply String.eqb_eq in E; subst b. destruct (find_attr r a) as [at_|] eqn:Fa.
    + simpl. now rewrite String.eqb_refl.
    + rewrite IH. rewrite ?Fa. now destruct (view_entry l a).
  - destruct (find_attr r b) as [bt|]; [|exact IH]. simpl. rewrite E. exact IH.
Qed.

(* ------------------------------------------------------------- values at run time *)

Lemma vflds_simple_ind (P : vflds -> Prop) :
  P VFNil -> (forall a x r, P r -> P (VFCons a x r)) -> forall fs, P fs.
Proof. intros H0 H1. fix IH 1. intros [|a x r]; [exact H0 | apply H1, IH]. Qed.

Lemma has_field_restrict e r v l fs a :
  has_field (restrict_f e r v l fs) a = has_field fs a && listed l a && has_attr r a.
Proof.
  induction fs as [|b x rest IH] using vflds_simple_ind; simpl.
  - reflexivity.
  - unfold listed, has_attr in *.
    destruct (view_entry l b) as [ov|] eqn:Vb.
    + destruct (find_attr r b) as [bt|] eqn:Fb.
      * simpl. rewrite IH. destruct (String.eqb b a) eqn:E; simpl; [|reflexivity].
        apply String.eqb_eq in E; subst. now rewrite Vb, Fb.
      * rewrite IH. destruct (String.eqb b a) eqn:E; simpl; [|reflexivity].
        apply String.eqb_eq in E; subst. rewrite Fb.
        destruct (has_field rest a); simpl; now rewrite ?andb_false_r.
    + rewrite IH. destruct (String.eqb b a) eqn:E; simpl; [|reflexivity].
      apply String.eqb_eq in E; subst. rewrite Vb.
      destruct (has_field rest a); simpl; now rewrite ?andb_false_r.
Qed.

Lemma keys_restrict e r v l fs :
  keys (restrict_f e r v l fs) = filter (fun a => listed l a && has_attr r a) (keys fs).
Proof.
  induction fs as [|b x rest IH] using vflds_simple_ind; simpl.
  - reflexivity.
  - unfold listed, has_attr in *.
    destruct (view_entry l b) as [ov|]; [|exact IH].
    destruct (find_attr r b) as [bt|]; simpl; [now rewrite IH | exact IH].
Qed.

Lemma listed_all (l : list attr) a :
  In a l -> listed (map (fun a => (a_name a, None)) l) (a_name a) = true.
Proof.
  unfold listed. induction l as [|b l IH]; simpl; [tauto|].
  destruct (String.eqb (a_name b) (a_name a)) eqn:E; [reflexivity|].
  intros [->|H]; [now rewrite String.eqb_refl in E | auto].
Qed.

Lemma find_attr_has r a : In a (r_attrs r) -> has_attr r (a_name a) = true.
Proof.
  unfold has_attr, find_attr. induction (r_attrs r) as [|b l IH]; simpl; [tauto|].
  destruct (String.eqb (a_name b) (a_name a)) eqn:E; [reflexivity|].
  intros [->|H]; [now rewrite String.eqb_refl in E | auto].
Qed.

(* what one attribute points to, for the four readers of the model *)
Lemma target_shapes v ov at_ :
  match a_ty at_ with
  | TLeaf _ => target v ov at_ = None /\ gtarget at_ = None /\ direct (a_ty at_) = None
  | _ => exists w k, target v ov at_ = Some (w, k) /\
                     exists gv, gtarget at_ = Some (fst (fst k), snd (fst k), gv)
  end.
Proof. unfold target, gtarget. destruct (a_ty at_); simpl; eauto 8. Qed.

Section Runtime.
  Variable e : env.
  Hypothesis Hclosed : closed e = true.

  Lemma child_node r v l a ov at_ w k :
    (forall en, In en l -> closed_entry e r v en = true) ->
    view_entry l a = Some ov -> find_attr r a = Some at_ -> target v ov at_ = Some (w, k) ->
    has_node e k = true.
  Proof.
    intros Hl Ve Fa Ht. pose proof (Hl _ (view_entry_in _ _ _ Ve)) as Hc.
    unfold closed_entry in Hc. simpl in Hc. now rewrite Fa, Ht in Hc.
  Qed.

  Lemma gtarget_node n r at_ k :
    In (n, r) e -> In at_ (r_attrs r) -> gtarget at_ = Some k -> has_node e k = true.
  Proof.
    intros Hn Ha Hg. pose proof Hclosed as Hc. unfold closed in Hc. rewrite forallb_forall in Hc.
    specialize (Hc _ Hn). simpl in Hc. unfold closed_type in Hc. apply andb_true_iff in Hc.
    destruct Hc as [_ Hc]. rewrite forallb_forall in Hc. specialize (Hc _ Ha). now rewrite Hg in Hc.
  Qed.

  Definition lclosed (r : rtype) (v : name) (l : list (name * option name)) : Prop :=
    forall en, In en l -> closed_entry e r v en = true.

  Lemma entries_lclosed k r l : entries e k = Some (r, l) -> lclosed r (snd k) l.
  Proof. intros He. exact (closed_entries e k r l Hclosed He). Qed.

  Lemma has_node_inv k : has_node e k = true -> exists r l, entries e k = Some (r, l).
  Proof. unfold has_node. destruct (entries e k) as [[r l]|]; [eauto|discriminate]. Qed.

  (* wire keys are view attributes, nothing else, at every depth *)
  Lemma conforms_restrict :
    (forall x k, has_node e k = true -> conforms e k (restrict e k x) = true) /\
    (forall fs r v l, lclosed r v l -> conforms_f e r v l (restrict_f e r v l fs) = true) /\
    (forall ls k, has_node e k = true -> conforms_l e k (restrict_l e k ls) = true).
  Proof.
    apply val_mutind.
    - reflexivity.
    - intros fs IH k Hk. destruct (has_node_inv _ Hk) as (r & l & He).
      cbn [restrict]. rewrite He. cbn [conforms]. rewrite He. apply IH. eapply entries_lclosed; eauto.
    - intros l IH k Hk. simpl. apply IH, Hk.
    - reflexivity.
    - intros a x IHx rest IHr r v l Hl. simpl.
      destruct (view_entry l a) as [ov|] eqn:Ve; [|apply IHr, Hl].
      destruct (find_attr r a) as [at_|] eqn:Fa; [|apply IHr, Hl].
      simpl. rewrite Ve, Fa. rewrite (IHr r v l Hl), andb_true_r.
      destruct (target v ov at_) as [[w k']|] eqn:Ht; [|reflexivity].
      apply IHx. eapply child_node; eauto.
    - reflexivity.
    - intros x IHx r IHr k Hk. simpl. now rewrite (IHx k Hk), (IHr k Hk).
  Qed.

  (* the client rebuilds exactly what the server rendered *)
  Lemma rebuild_restrict :
    (forall x t v, has_view e t v = true -> rebuild e t v (restrict e (false, t, v) x) = restrict e (false, t, v) x) /\
    (forall fs r v l, lclosed r v l -> rebuild_f e r l (restrict_f e r v l fs) = restrict_f e r v l fs) /\
    (forall ls t v, has_view e t v = true -> rebuild_l e t v (restrict_l e (false, t, v) ls) = restrict_l e (false, t, v) ls).
  Proof.
    apply val_mutind.
    - reflexivity.
    - intros fs IH t v Hv. destruct (has_node_inv _ Hv) as (r & l & He).
      cbn [restrict]. rewrite He. cbn [rebuild]. rewrite He. cbn [snd]. f_equal. apply IH.
      exact (entries_lclosed _ _ _ He).
    - intros l IH t v Hv. simpl. f_equal. apply IH, Hv.
    - reflexivity.
    - intros a x IHx rest IHr r v l Hl. simpl.
      destruct (view_entry l a) as [ov|] eqn:Ve; [|apply IHr, Hl].
      destruct (find_attr r a) as [at_|] eqn:Fa; [|apply IHr, Hl].
      simpl. rewrite Fa, Ve. rewrite (IHr r v l Hl).
      destruct (direct (a_ty at_)) as [t'|] eqn:Hd.
      + f_equal.
        assert (Ht : exists w, target v ov at_ = Some (w, (false, t', nested_view ov at_))).
        { unfold target, direct in *. destruct (a_ty at_); inversion Hd; subst; eauto. }
        destruct Ht as [w Ht]. rewrite Ht. apply IHx.
        eapply child_node; eauto.
      + unfold listed. now rewrite Ve.
    - reflexivity.
    - intros x IHx r IHr t v Hv. simpl. now rewrite (IHx t v Hv), (IHr t v Hv).
  Qed.

  (* ---- view-blind validation and the generic transform, inside the envelope ---- *)

  Hypothesis Hsafe : view_blind_safe e = true.

  Lemma container_req n r at_ :
    In (n, r) e -> In at_ (r_attrs r) -> is_container (a_ty at_) = true -> req_everywhere e = true.
  Proof.
    intros Hn Ha Hc. unfold view_blind_safe in Hsafe. apply orb_true_iff in Hsafe.
    destruct Hsafe as [Hno|Hre]; [|exact Hre]. exfalso.
    unfold no_containers in Hno. rewrite forallb_forall in Hno. specialize (Hno _ Hn). simpl in Hno.
    rewrite forallb_forall in Hno. specialize (Hno _ Ha). now rewrite Hc in Hno.
  Qed.

  Lemma req_listed n r w a :
    req_everywhere e = true -> In (n, r) e -> In w (r_views r) -> In a (r_attrs r) -> a_req a = true ->
    listed (v_attrs w) (a_name a) = true.
  Proof.
    intros Hre Hn Hw Ha Hq. unfold req_everywhere in Hre. rewrite forallb_forall in Hre.
    specialize (Hre _ Hn). simpl in Hre. rewrite forallb_forall in Hre. specialize (Hre _ Hw).
    rewrite forallb_forall in Hre. specialize (Hre _ Ha). now rewrite Hq in Hre.
  Qed.

  (* a required attribute is listed by any node of the type, once every view lists them *)
  Lemma req_listed_node k r l a :
    req_everywhere e = true -> entries e k = Some (r, l) -> In a (r_attrs r) -> a_req a = true ->
    listed l (a_name a) = true.
  Proof.
    intros Hre He Ha Hq. destruct (entries_inv _ _ _ _ He) as [Ft [[_ ->]|[_ (w & Fv & ->)]]].
    - now apply listed_all.
    - destruct (find_type_in _ _ _ Ft) as [n Hn]. apply find_view_in_in in Fv.
      eapply req_listed; eauto. tauto.
  Qed.

  Definition inv (k1 k2 : nkey) : Prop :=
    fst k1 = fst k2 /\ (req_everywhere e = true \/ (k1 = k2 /\ fst (fst k1) = false)).

  Lemma validate_restrict_gen :
    (forall x k1 k2, inv k1 k2 -> has_node e k1 = true -> has_node e k2 = true ->
       full_valid e (snd (fst k1)) x = true -> validate e k2 (restrict e k1 x) = true) /\
    (forall fs usr t r v1 l1 v2 l2,
       entries e (usr, t, v1) = Some (r, l1) -> entries e (usr, t, v2) = Some (r, l2) ->
       inv (usr, t, v1) (usr, t, v2) -> full_valid_f e r fs = true ->
       validate_f e usr r v2 l2 (restrict_f e r v1 l1 fs) = true) /\
    (forall ls k1 k2, inv k1 k2 -> has_node e k1 = true -> has_node e k2 = true ->
       full_valid_l e (snd (fst k1)) ls = true -> validate_l e k2 (restrict_l e k1 ls) = true).
  Proof.
    apply val_mutind.
    - reflexivity.
    - intros fs IH k1 k2 Hinv H1 H2 Hfv.
      destruct k1 as [[usr t] v1], k2 as [[usr2 t2] v2]. destruct Hinv as [Hfst Hcase]. simpl in Hfst.
      inversion Hfst; subst usr2 t2.
      destruct (has_node_inv _ H1) as (r & l1 & He1). destruct (has_node_inv _ H2) as (r2 & l2 & He2).
      assert (r2 = r).
      { destruct (entries_inv _ _ _ _ He1) as [F1 _]. destruct (entries_inv _ _ _ _ He2) as [F2 _]. simpl in *. congruence. }
      subst r2. simpl in Hfv. destruct (entries_inv _ _ _ _ He1) as [Ft _]. simpl in Ft. rewrite Ft in Hfv.
      apply andb_true_iff in Hfv. destruct Hfv as [Hreq Hf].
      cbn [restrict]. rewrite He1. cbn [validate]. rewrite He2. cbn [fst snd].
      apply andb_true_iff. split.
      + rewrite forallb_forall in *. intros a Ha. unfold req_checked in Ha. destruct usr; [destruct Ha|].
        apply in_map_iff in Ha. destruct Ha as (at_ & <- & Hat). apply filter_In in Hat.
        destruct Hat as [Hin Hq]. apply andb_true_iff in Hq. destruct Hq as [Hq _].
        apply andb_true_iff in Hq. destruct Hq as [Hq Hl2].
        rewrite has_field_restrict.
        rewrite (Hreq (a_name at_)) by (apply in_map_iff; exists at_; split; [reflexivity|]; apply filter_In; tauto).
        rewrite (find_attr_has r at_ Hin), andb_true_r. simpl.
        destruct Hcase as [Hre|[Heq _]].
        * eapply req_listed_node; eauto.
        * inversion Heq; subst. rewrite He1 in He2. inversion He2; subst. exact Hl2.
      + eapply IH; eauto. split; [reflexivity|exact Hcase].
    - intros l IH k1 k2 Hinv H1 H2 Hfv. simpl. apply IH; auto.
    - reflexivity.
    - intros a x IHx rest IHr usr t r v1 l1 v2 l2 He1 He2 Hinv Hfv. simpl in Hfv. simpl restrict_f.
      destruct (find_attr r a) as [at_|] eqn:Fa.
      2:{ destruct (view_entry l1 a); eapply IHr; eauto. }
      apply andb_true_iff in Hfv. destruct Hfv as [Hx Hrest].
      destruct (view_entry l1 a) as [ov1|] eqn:Ve1; [|eapply IHr; eauto].
      simpl. rewrite Fa. rewrite (IHr usr t r v1 l1 v2 l2 He1 He2 Hinv Hrest).
      destruct (view_entry l2 a) as [ov2|] eqn:Ve2; [|reflexivity]. rewrite andb_true_r.
      destruct (entries_inv _ _ _ _ He1) as [Ft _]. simpl in Ft. destruct (find_type_in _ _ _ Ft) as [n Hn].
      pose proof (find_attr_in_in _ _ _ Fa) as [Hain _].
      assert (Hl1 : lclosed r v1 l1) by (exact (entries_lclosed _ _ _ He1)).
      assert (Hl2 : lclosed r v2 l2) by (exact (entries_lclosed _ _ _ He2)).
      assert (Hdir : req_everywhere e = true \/ (usr = false /\ v1 = v2 /\ ov1 = ov2)).
      { destruct Hinv as [_ [Hre|[Heq Hu]]]; [left; exact Hre|]. right. inversion Heq; subst. simpl in Hu.
        rewrite He1 in He2. inversion He2; subst. rewrite Ve1 in Ve2. inversion Ve2; subst. auto. }
      unfold gtarget in Hx.
      destruct (a_ty at_) as [p|t'|t'|t'|t'|u] eqn:Ty; unfold vtarget, target; rewrite Ty.
      + reflexivity.
      + apply IHx.
        * split; [reflexivity|]. destruct Hdir as [Hre|(Hu & Hv & Ho)]; [left; exact Hre|].
          subst. right. split; reflexivity.
        * eapply (child_node r v1 l1 a ov1 at_); eauto. unfold target. rewrite Ty. reflexivity.
        * destruct usr.
          -- eapply gtarget_node; eauto. unfold gtarget. rewrite Ty. reflexivity.
          -- eapply (child_node r v2 l2 a ov2 at_); eauto. unfold target. rewrite Ty. reflexivity.
        * exact Hx.
      + apply IHx.
        * split; [reflexivity|]. destruct Hdir as [Hre|(Hu & Hv & Ho)]; [left; exact Hre|].
          subst. right. split; reflexivity.
        * eapply (child_node r v1 l1 a ov1 at_); eauto. unfold target. rewrite Ty. reflexivity.
        * destruct usr.
          -- eapply gtarget_node; eauto. unfold gtarget. rewrite Ty. reflexivity.
          -- eapply (child_node r v2 l2 a ov2 at_); eauto. unfold target. rewrite Ty. reflexivity.
        * exact Hx.
      + apply IHx.
        * split; [reflexivity|]. left. eapply container_req; eauto. rewrite Ty. reflexivity.
        * eapply (child_node r v1 l1 a ov1 at_); eauto. unfold target. rewrite Ty. reflexivity.
        * eapply gtarget_node; eauto. unfold gtarget. rewrite Ty. reflexivity.
        * exact Hx.
      + apply IHx.
        * split; [reflexivity|]. left. eapply container_req; eauto. rewrite Ty. reflexivity.
        * eapply (child_node r v1 l1 a ov1 at_); eauto. unfold target. rewrite Ty. reflexivity.
        * eapply gtarget_node; eauto. unfold gtarget. rewrite Ty. reflexivity.
        * exact Hx.
      + apply IHx.
        * split; [reflexivity|]. left. eapply container_req; eauto. rewrite Ty. reflexivity.
        * eapply (child_node r v1 l1 a ov1 at_); eauto. unfold target. rewrite Ty. reflexivity.
        * eapply (child_node r v2 l2 a ov2 at_); eauto. unfold target. rewrite Ty. reflexivity.
        * exact Hx.
    - reflexivity.
    - intros x IHx r IHr k1 k2 Hinv H1 H2 Hfv. simpl in *. apply andb_true_iff in Hfv. destruct Hfv as [Hx Hr].
      now rewrite (IHx k1 k2 Hinv H1 H2 Hx), (IHr k1 k2 Hinv H1 H2 Hr).
  Qed.

  (* the generic transform finds every attribute it dereferences *)
  Lemma gen_restrict :
    req_everywhere e = true ->
    (forall x k, has_node e k = true -> full_valid e (snd (fst k)) x = true ->
       gen_ok e (snd (fst k)) (restrict e k x) = true) /\
    (forall fs r v l, lclosed r v l -> (exists n, In (n, r) e) -> full_valid_f e r fs = true ->
       gen_ok_f e r (restrict_f e r v l fs) = true) /\
    (forall ls k, has_node e k = true -> full_valid_l e (snd (fst k)) ls = true ->
       gen_ok_l e (snd (fst k)) (restrict_l e k ls) = true).
  Proof.
    intros Hre. apply val_mutind.
    - reflexivity.
    - intros fs IH k Hk Hfv. destruct (has_node_inv _ Hk) as (r & l & He).
      destruct (entries_inv _ _ _ _ He) as [Ft _]. cbn [restrict]. rewrite He. cbn [gen_ok]. rewrite Ft.
      simpl in Hfv. rewrite Ft in Hfv. apply andb_true_iff in Hfv. destruct Hfv as [Hreq Hf].
      destruct (find_type_in _ _ _ Ft) as [n Hn].
      apply andb_true_iff. split.
      + rewrite forallb_forall in *. intros a Ha. unfold deref in Ha.
        apply in_map_iff in Ha. destruct Ha as (at_ & <- & Hat). apply filter_In in Hat.
        destruct Hat as [Hin Hq]. apply andb_true_iff in Hq. destruct Hq as [Hq _].
        rewrite has_field_restrict.
        rewrite (Hreq (a_name at_)) by (apply in_map_iff; exists at_; split; [reflexivity|]; apply filter_In; tauto).
        rewrite (find_attr_has r at_ Hin), andb_true_r. simpl. eapply req_listed_node; eauto.
      + apply IH; eauto. exact (entries_lclosed _ _ _ He).
    - intros l IH k Hk Hfv. simpl. apply IH; auto.
    - reflexivity.
    - intros a x IHx rest IHr r v l Hl Hin Hfv. simpl in Hfv. simpl restrict_f.
      destruct (find_attr r a) as [at_|] eqn:Fa.
      2:{ destruct (view_entry l a); apply IHr; auto. }
      apply andb_true_iff in Hfv. destruct Hfv as [Hx Hrest].
      destruct (view_entry l a) as [ov|] eqn:Ve; [|apply IHr; auto].
      simpl. rewrite Fa. rewrite (IHr r v l Hl Hin Hrest), andb_true_r.
      unfold gtarget in *. unfold target.
      destruct (a_ty at_) as [p|t'|t'|t'|t'|u] eqn:Ty; [reflexivity| | | | |];
        (apply (IHx (_, _, _)); [eapply (child_node r v l a ov at_); eauto; unfold target; rewrite Ty; reflexivity | exact Hx]).
    - reflexivity.
    - intros x IHx r IHr k Hk Hfv. simpl in *. apply andb_true_iff in Hfv. destruct Hfv as [Hx Hr].
      now rewrite (IHx k Hk Hx), (IHr k Hk Hr).
  Qed.

  (* no nil dereference while rebuilding what the server rendered *)
  Lemma rebuild_ok_restrict :
    (forall x t v, has_view e t v = true -> full_valid e t x = true ->
       rebuild_ok e t v (restrict e (false, t, v) x) = true) /\
    (forall fs r v l, lclosed r v l -> (exists n, In (n, r) e) -> full_valid_f e r fs = true ->
       rebuild_ok_f e r l (restrict_f e r v l fs) = true) /\
    (forall ls t v, has_view e t v = true -> full_valid_l e t ls = true ->
       rebuild_ok_l e t v (restrict_l e (false, t, v) ls) = true).
  Proof.
    apply val_mutind.
    - reflexivity.
    - intros fs IH t v Hv Hfv. destruct (has_node_inv _ Hv) as (r & l & He).
      destruct (entries_inv _ _ _ _ He) as [Ft _]. simpl in Ft.
      cbn [restrict]. rewrite He. cbn [rebuild_ok]. rewrite He. cbn [snd].
      simpl in Hfv. rewrite Ft in Hfv. apply andb_true_iff in Hfv. destruct Hfv as [_ Hf].
      apply IH; auto. exact (entries_lclosed _ _ _ He). eapply find_type_in; eauto.
    - intros l IH t v Hv Hfv. simpl. apply IH; auto.
    - reflexivity.
    - intros a x IHx rest IHr r v l Hl Hin Hfv. simpl in Hfv. simpl restrict_f.
      destruct (find_attr r a) as [at_|] eqn:Fa.
      2:{ destruct (view_entry l a); apply IHr; auto. }
      apply andb_true_iff in Hfv. destruct Hfv as [Hx Hrest].
      destruct (view_entry l a) as [ov|] eqn:Ve; [|apply IHr; auto].
      simpl. rewrite Fa. rewrite (IHr r v l Hl Hin Hrest), andb_true_r.
      destruct Hin as [n Hn]. pose proof (find_attr_in_in _ _ _ Fa) as [Hain _].
      unfold listed. rewrite Ve. unfold gtarget in *. unfold target, direct.
      destruct (a_ty at_) as [p|t'|t'|t'|t'|u] eqn:Ty; cbv zeta; rewrite ?andb_true_r.
      + reflexivity.
      + apply IHx; [|exact Hx]. eapply (child_node r v l a ov at_); eauto. unfold target. rewrite Ty. reflexivity.
      + apply IHx; [|exact Hx]. eapply (child_node r v l a ov at_); eauto. unfold target. rewrite Ty. reflexivity.
      + assert (Hre : req_everywhere e = true) by (eapply container_req; eauto; rewrite Ty; reflexivity).
        apply (proj1 (gen_restrict Hre) x (false, t', nested_view ov at_)); [|exact Hx].
        eapply (child_node r v l a ov at_); eauto. unfold target. rewrite Ty. reflexivity.
      + assert (Hre : req_everywhere e = true) by (eapply container_req; eauto; rewrite Ty; reflexivity).
        apply (proj1 (gen_restrict Hre) x (false, t', nested_view ov at_)); [|exact Hx].
        eapply (child_node r v l a ov at_); eauto. unfold target. rewrite Ty. reflexivity.
      + assert (Hre : req_everywhere e = true) by (eapply container_req; eauto; rewrite Ty; reflexivity).
        apply (proj1 (gen_restrict Hre) x (true, u, v)); [|exact Hx].
        eapply (child_node r v l a ov at_); eauto. unfold target. rewrite Ty. reflexivity.
    - reflexivity.
    - intros x IHx r IHr t v Hv Hfv. simpl in *. apply andb_true_iff in Hfv. destruct Hfv as [Hx Hr].
      now rewrite (IHx t v Hv Hx), (IHr t v Hv Hr).
  Qed.
End Runtime.

(* ------------------------------------------------------ statements, assembled *)

Lemma iproject_fuel_mono e f f' t v x :
  f <= f' -> iproject f e t v = x -> x <> Out -> iproject f' e t v = x.
Proof.
  intros Hle. unfold iproject.
  destruct (iproj f e (false, t, v) init) as [[tr s]| |] eqn:E; intros <- Hn.
  - now rewrite (iproj_fuel_mono e f f' _ init _ Hle E) by discriminate.
  - now rewrite (iproj_fuel_mono e f f' _ init _ Hle E) by discriminate.
  - congruence.
Qed.

Lemma iproject_undefined e f t v tr : has_view e t v = false -> iproject f e t v <> Ok tr.
Proof.
  unfold iproject, has_view, has_node. destruct f as [|f]; [simpl; discriminate|]. rewrite iproj_unfold.
  destruct (entries e (false, t, v)) as [[r l]|]; discriminate.
Qed.

Lemma sproject_shape e n k r l :
  entries e k = Some (r, l) ->
  exists fs, sproject (S n) e k = pnode k fs (req_in (fst (fst k)) r l) /\
             pnames fs = filter (has_attr r) (map fst l) /\
             forall a, pfind fs a =
                       match view_entry l a, find_attr r a with
                       | Some ov, Some at_ => Some (child (sproject n e) (snd k) at_ ov)
                       | _, _ => None
                       end.
Proof.
  intros He. simpl. rewrite He. eexists. split; [reflexivity|].
  split; [apply sfields_names | intros a; apply sfields_child].
Qed.

Lemma restrict_keys e k r l fs :
  entries e k = Some (r, l) ->
  exists fs', restrict e k (VObj fs) = VObj fs' /\
              keys fs' = filter (fun a => listed l a && has_attr r a) (keys fs).
Proof.
  intros He. cbn [restrict]. rewrite He. eexists. split; [reflexivity | apply keys_restrict].
Qed.

Definition selected (fixed : option name) (chosen : name) : name :=
  norm (match fixed with Some f => f | None => chosen end).

Lemma inv_refl e t v : inv e (false, t, v) (false, t, v).
Proof. split; [reflexivity|]. right. split; reflexivity. Qed.

Lemma exchange_restricts e c t fixed chosen x :
  closed e = true -> view_blind_safe e = true ->
  has_view e t (selected fixed chosen) = true -> full_valid e t x = true ->
  exists h, server_respond e c t fixed chosen x = SResp h (restrict e (false, t, selected fixed chosen) x) /\
            client_decode e t fixed h (restrict e (false, t, selected fixed chosen) x)
            = COk (restrict e (false, t, selected fixed chosen) x).
Proof.
  intros Hc Hs Hv Hx. unfold selected in *. unfold server_respond, client_decode.
  assert (Hval : forall v, has_view e t v = true -> validate e (false, t, v) (restrict e (false, t, v) x) = true).
  { intros v Hv'. apply (proj1 (validate_restrict_gen e Hc Hs) x (false, t, v) (false, t, v)); auto using inv_refl. }
  destruct fixed as [f|].
  - rewrite Hv. exists None. split; [reflexivity|]. cbv zeta.
    rewrite (Hval _ Hv), (proj1 (rebuild_ok_restrict e Hc Hs) x _ _ Hv Hx).
    now rewrite (proj1 (rebuild_restrict e Hc) x _ _ Hv).
  - rewrite Hv. exists (Some (norm chosen)). split; [reflexivity|]. cbv zeta. rewrite norm_idem, ?Hv.
    rewrite (Hval _ Hv), (proj1 (rebuild_ok_restrict e Hc Hs) x _ _ Hv Hx).
    now rewrite (proj1 (rebuild_restrict e Hc) x _ _ Hv).
Qed.

Lemma has_view_false_iff e t r v :
  find_type e t = Some r -> (has_view e t v = false <-> ~ In v (map v_name (r_views r))).
Proof.
  intros Ft. unfold has_view, has_node, entries. rewrite Ft. unfold find_view. rewrite <- find_view_in_none.
  destruct (find_view_in (r_views r) v); split; congruence.
Qed.

Lemma client_rejects_unknown e t r fixed h body :
  find_type e t = Some r -> fixed = None -> ~ In (norm h) (map v_name (r_views r)) ->
  client_decode e t fixed (Some h) body = CErr.
Proof.
  intros Ft -> Hn. unfold client_decode. cbv zeta.
  now rewrite (proj2 (has_view_false_iff e t r (norm h) Ft) Hn).
Qed.

Lemma server_unknown e c t chosen x :
  has_view e t (norm chosen) = false -> server_respond e c t None chosen x = SFault.
Proof. intros H. unfold server_respond. now rewrite H. Qed.

Lemma fixed_view_server e c t f chosen chosen' x h b :
  server_respond e c t (Some f) chosen x = SResp h b ->
  h = None /\ server_respond e c t (Some f) chosen' x = SResp h b.
Proof.
  unfold server_respond. destruct (has_view e t (norm f)); [|discriminate].
  intros H; inversion H; subst. split; reflexivity.
Qed.

Lemma fixed_view_client e t f h body :
  client_decode e t (Some f) h body = client_decode e t (Some f) None body.
Proof. reflexivity. Qed.

(* ------------------------------------------------ where the rendered attributes travel *)

Lemma vfind_hdr m fs a : vfind (hdr_f m fs) a = if mem_name a m then vfind fs a else None.
Proof.
  induction fs as [|b x rest IH] using vflds_simple_ind; simpl; [now destruct (mem_name a m)|].
  destruct (String.eqb b a) eqn:E.
  - apply String.eqb_eq in E; subst b. destruct (mem_name a m) eqn:M; simpl.
    + now rewrite String.eqb_refl.
    + rewrite IH. now rewrite ?M.
  - destruct (mem_name b m); simpl; [rewrite E|]; exact IH.
Qed.

Lemma vfind_body m fs a : vfind (body_f m fs) a = if mem_name a m then None else vfind fs a.
Proof.
  induction fs as [|b x rest IH] using vflds_simple_ind; simpl; [now destruct (mem_name a m)|].
  destruct (String.eqb b a) eqn:E.
  - apply String.eqb_eq in E; subst b. destruct (mem_name a m) eqn:M; simpl.
    + rewrite IH. now rewrite ?M.
    + now rewrite String.eqb_refl.
  - destruct (mem_name b m); simpl; [|rewrite E]; exact IH.
Qed.

Lemma keys_hdr m fs : keys (hdr_f m fs) = filter (fun a => mem_name a m) (keys fs).
Proof.
  induction fs as [|b x rest IH] using vflds_simple_ind; simpl; [reflexivity|].
  destruct (mem_name b m); simpl; now rewrite IH.
Qed.

Lemma keys_body m fs : keys (body_f m fs) = filter (fun a => negb (mem_name a m)) (keys fs).
Proof.
  induction fs as [|b x rest IH] using vflds_simple_ind; simpl; [reflexivity|].
  destruct (mem_name b m); simpl; now rewrite IH.
Qed.

Lemma has_field_vfind fs a : has_field fs a = match vfind fs a with Some _ => true | None => false end.
Proof.
  induction fs as [|b x rest IH] using vflds_simple_ind; simpl; [reflexivity|].
  destruct (String.eqb b a); simpl; [reflexivity|exact IH].
Qed.

Lemma body_has_no_carried m fs a : mem_name a m = true -> has_field (body_f m fs) a = false.
Proof. intros H. now rewrite has_field_vfind, vfind_body, H. Qed.

Lemma hdr_has_only_carried m fs a : mem_name a m = false -> has_field (hdr_f m fs) a = false.
Proof. intros H. now rewrite has_field_vfind, vfind_hdr, H. Qed.

Lemma split_loses_nothing m fs a :
  vfind fs a = if mem_name a m then vfind (hdr_f m fs) a else vfind (body_f m fs) a.
Proof. rewrite vfind_hdr, vfind_body. now destruct (mem_name a m). Qed.

Lemma server_wire_shape e c t fixed chosen m fs :
  has_view e t (selected fixed chosen) = true ->
  exists h fs', restrict e (false, t, selected fixed chosen) (VObj fs) = VObj fs' /\
    server_wire e c t fixed chosen m (VObj fs) = WResp h (hdr_f m fs') (VObj (body_f m fs')).
Proof.
  intros Hv. unfold server_wire, server_respond, selected in *.
  assert (Hr : exists fs', restrict e (false, t, norm match fixed with Some f => f | None => chosen end) (VObj fs) = VObj fs').
  { cbn [restrict]. destruct (entries e _) as [[r l]|]; eauto. }
  destruct Hr as [fs' Hr].
  destruct fixed as [f|]; rewrite Hv, Hr; eauto.
Qed.

Lemma wire_parts_in_view e k r l m fs fs' a :
  entries e k = Some (r, l) -> restrict e k (VObj fs) = VObj fs' ->
  In a (keys (hdr_f m fs') ++ keys (body_f m fs')) -> listed l a = true /\ has_attr r a = true.
Proof.
  intros He Hr Hin. cbn [restrict] in Hr. rewrite He in Hr. inversion Hr; subst fs'. clear Hr.
  rewrite keys_hdr, keys_body, !keys_restrict in Hin.
  apply in_app_or in Hin. destruct Hin as [Hin|Hin]; apply filter_In in Hin; destruct Hin as [Hin _];
    apply filter_In in Hin; destruct Hin as [_ Hp]; now apply andb_true_iff in Hp.
Qed.

(* --------------------------------------------------- the generated view constructors *)

Lemma find_attr_name r a at_ : find_attr r a = Some at_ -> a_name at_ = a.
Proof. intros H. apply find_attr_in_in in H. tauto. Qed.

Lemma ctor_plan_names e t v r l plan a :
  entries e (false, t, v) = Some (r, l) -> ctor_plan e t v = Some plan ->
  (In a (map fst plan) <-> listed l a = true /\ has_attr r a = true).
Proof.
  intros He Hp. unfold ctor_plan in Hp. rewrite He in Hp. inversion Hp; subst plan. clear Hp.
  rewrite in_map_iff. split.
  - intros ([a' call] & <- & Hin). apply in_flat_map in Hin. destruct Hin as (at0 & Hat & Hin).
    unfold listed, has_attr. destruct (view_entry l (a_name at0)) as [ov|] eqn:Ve; [|destruct Hin].
    destruct (find_attr r (a_name at0)) as [at_|] eqn:Fa; [|destruct Hin].
    destruct Hin as [Hin|[]]. inversion Hin; subst. simpl. now rewrite Ve, Fa.
  - intros [Hl Ha]. unfold listed in Hl. unfold has_attr in Ha.
    destruct (view_entry l a) as [ov|] eqn:Ve; [|discriminate].
    destruct (find_attr r a) as [at_|] eqn:Fa; [|discriminate].
    exists (a, ctor_call ov at_). split; [reflexivity|].
    apply in_flat_map. exists at_. pose proof (find_attr_in_in _ _ _ Fa) as [Hin Hn]. split; [exact Hin|].
    rewrite Hn, Ve, Fa. now left.
Qed.

Lemma ctor_plan_calls e n t v r l plan a c t' u :
  entries e (false, t, v) = Some (r, l) -> ctor_plan e t v = Some plan ->
  In (a, Some (c, t', u)) plan ->
  exists fs, sproject (S n) e (false, t, v) = PObj t v fs (req_in false r l) /\
             pfind fs a = Some (wrapw (if c then WColl else WNone) (sproject n e (false, t', u))).
Proof.
  intros He Hp Hin. unfold ctor_plan in Hp. rewrite He in Hp. inversion Hp; subst plan. clear Hp.
  apply in_flat_map in Hin. destruct Hin as (at0 & Hat & Hin).
  destruct (view_entry l (a_name at0)) as [ov|] eqn:Ve; [|destruct Hin].
  destruct (find_attr r (a_name at0)) as [at_|] eqn:Fa; [|destruct Hin].
  destruct Hin as [Hin|[]]. inversion Hin; subst a. clear Hin.
  destruct (sproject_shape e n (false, t, v) r l He) as (fs & Hs & _ & Hf).
  exists fs. split; [exact Hs|]. rewrite Hf, Ve, Fa. f_equal.
  unfold child, target. unfold ctor_call in H1. cbn [snd].
  destruct (a_ty at_); inversion H1; subst; reflexivity.
Qed.

Lemma client_resp_with_body e t fixed hdr m x :
  bodyless e t m = false -> client_decode_resp e t fixed hdr m x = client_decode e t fixed hdr x.
Proof. intros H. unfold client_decode_resp. now rewrite H. Qed.

Lemma client_resp_defined e t fixed hdr m x :
  has_view e t (norm (match fixed with Some f => f | None => match hdr with Some h => h | None => "" end end)) = true ->
  client_decode_resp e t fixed hdr m x = client_decode e t fixed hdr x.
Proof. intros H. unfold client_decode_resp. cbv zeta. rewrite H. now rewrite andb_false_r. Qed.
