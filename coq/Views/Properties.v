(* C08 — result views expose exactly the attributes of the selected view.
   Property statements only: every theorem is closed by a lemma of Lemmas.v and followed by
   Print Assumptions. The model is Model.v (iproject = expr.Project with its memo,
   sproject = the projection the property asks for, server_respond / client_decode = the
   generated server and client around a viewed result). Nodes are (plain user type?, type,
   view); attributes are leaves, result types, CollectionOf / ArrayOf / MapOf of result
   types, plain user types holding any of these. *)
From Views Require Import Model Lemmas.

(* ---- projection (expr.Project) ---- *)

(* Whatever the design (recursive, mutually recursive, through collections, arrays, maps and
   plain user types, any overrides and type-level view metas), whenever expr.Project returns
   a type, that type read back to ANY depth is the projection the property asks for. *)
Theorem project_attrs_exact e f t v tr :
  iproject f e t v = Ok tr -> forall n, unfold n tr tr = sproject n e (false, t, v).
Proof. exact (iproject_exact e f t v tr). Qed.
Print Assumptions project_attrs_exact.

(* ... and that projection lists, at a result type under view v, exactly the attributes of v
   that the type has, in the view's order (at a plain user type: all its attributes); the
   required attributes are those of the type that the view lists; each attribute is a leaf
   or — behind its collection / array / map wrapper — the projection of the node it points
   to: a nested result type under the override of the view entry, else the view meta of the
   type attribute, else "default"; a plain user type in full. *)
Theorem projection_lists_view_attributes e n k r l :
  entries e k = Some (r, l) ->
  exists fs, sproject (S n) e k = pnode k fs (req_in (fst (fst k)) r l) /\
             pnames fs = filter (has_attr r) (map fst l) /\
             forall a, pfind fs a =
                       match view_entry l a, find_attr r a with
                       | Some ov, Some at_ => Some (child (sproject n e) (snd k) at_ ov)
                       | _, _ => None
                       end.
Proof. exact (sproject_shape e n k r l). Qed.
Print Assumptions projection_lists_view_attributes.

(* The memoised recursion always ends: for ANY design (no hypothesis), a fuel computed from
   the design (kinds x type names referred to x view names in use, + 2) is enough. *)
Theorem project_terminates e f t v : fuel_bound e <= f -> iproject f e t v <> Out.
Proof. exact (iproject_not_out e f t v). Qed.
Print Assumptions project_terminates.

Theorem project_fuel_irrelevant e f f' t v x :
  f <= f' -> iproject f e t v = x -> x <> Out -> iproject f' e t v = x.
Proof. exact (iproject_fuel_mono e f f' t v x). Qed.
Print Assumptions project_fuel_irrelevant.

(* On a design the DSL accepts (nested views name views that exist, types exist, result
   types define "default") every defined view projects; an undefined view never does. *)
Theorem project_total e t v :
  closed e = true -> has_view e t v = true -> exists tr, iproject (fuel_bound e) e t v = Ok tr.
Proof. exact (iproject_total e t v). Qed.
Print Assumptions project_total.

Theorem project_undefined_view_fails e f t v tr : has_view e t v = false -> iproject f e t v <> Ok tr.
Proof. exact (iproject_undefined e f t v tr). Qed.
Print Assumptions project_undefined_view_fails.

(* ---- what crosses the wire ---- *)

(* every key of the rendered body, at every depth — through collections, arrays, maps and
   plain user types —, is an attribute the selected view (resp. the nested view) lists *)
Theorem render_only_view_attrs e t v x :
  closed e = true -> has_view e t v = true -> conforms e (false, t, v) (restrict e (false, t, v) x) = true.
Proof. intros Hc Hv. exact (proj1 (conforms_restrict e Hc) x (false, t, v) Hv). Qed.
Print Assumptions render_only_view_attrs.

(* and every attribute of the view that the value carries is rendered *)
Theorem render_keeps_view_attrs e k r l fs :
  entries e k = Some (r, l) ->
  exists fs', restrict e k (VObj fs) = VObj fs' /\
              keys fs' = filter (fun a => listed l a && has_attr r a) (keys fs).
Proof. exact (restrict_keys e k r l fs). Qed.
Print Assumptions render_keeps_view_attrs.

(* ---- end to end ---- *)

(* For a view the type defines (chosen by the service, "" meaning default, or fixed in the
   design), in the envelope view_blind_safe (no array / map / plain-user-type attribute in the
   design, or every view lists the required attributes of its type): the server answers with
   the restriction of the result to that view, labelled with the view (no label when the view
   is fixed), and the client validates it and hands back exactly that restriction: attributes
   outside the view unset, inside the view unchanged. The two hypotheses are the negations of
   the situation unknown_view_refused_by_server covers and of the signature of the known
   finding container-result-type-validated-under-default-view. *)
Theorem client_sees_restriction_partial e c t fixed chosen x :
  closed e = true -> view_blind_safe e = true ->
  has_view e t (selected fixed chosen) = true -> full_valid e t x = true ->
  exists h, server_respond e c t fixed chosen x = SResp h (restrict e (false, t, selected fixed chosen) x) /\
            client_decode e t fixed h (restrict e (false, t, selected fixed chosen) x)
            = COk (restrict e (false, t, selected fixed chosen) x).
Proof. exact (exchange_restricts e c t fixed chosen x). Qed.
Print Assumptions client_sees_restriction_partial.

(* without the envelope the full statement fails: below an array (map, plain user type) the
   generated client validates with the default-view validator and rebuilds with the generic
   transform. An array rendered under a view that lacks a required attribute of the default
   view is refused; when the default view itself lacks a required primitive the rebuild
   dereferences nil. Known finding container-result-type-validated-under-default-view. *)
Definition cx_inner (dflt : list (name * option name)) : rtype :=
  mkRT [mkAttr "i1" (TLeaf true) None true; mkAttr "i2" (TLeaf true) None false]
       [mkView "default" dflt; mkView "tiny" [("i2", None)]].
Definition cx_outer : rtype :=
  mkRT [mkAttr "a" (TLeaf true) None false; mkAttr "items" (TArr "Inner") None false]
       [mkView "default" [("a", None); ("items", Some "tiny")]].
Definition cx_val : val :=
  VObj (VFCons "a" (VLeaf 1) (VFCons "items" (VList (VLCons (VObj (VFCons "i1" (VLeaf 2) (VFCons "i2" (VLeaf 3) VFNil))) VLNil)) VFNil)).

Theorem client_sees_restriction_refuted :
  (exists e, closed e = true /\ full_valid e "Outer" cx_val = true /\
     exists b, server_respond e false "Outer" None "default" cx_val = SResp (Some "default") b /\
               conforms e (false, "Outer", "default") b = true /\
               client_decode e "Outer" None (Some "default") b = CErr) /\
  (exists e, closed e = true /\ full_valid e "Outer" cx_val = true /\
     exists b, server_respond e false "Outer" None "default" cx_val = SResp (Some "default") b /\
               client_decode e "Outer" None (Some "default") b = CPanic).
Proof.
  split.
  - exists [("Inner", cx_inner [("i1", None); ("i2", None)]); ("Outer", cx_outer)].
    split; [reflexivity|]. split; [reflexivity|]. eexists. repeat split.
  - exists [("Inner", cx_inner [("i2", None)]); ("Outer", cx_outer)].
    split; [reflexivity|]. split; [reflexivity|]. eexists. repeat split.
Qed.
Print Assumptions client_sees_restriction_refuted.

Theorem rebuild_render_is_restrict e t v x :
  closed e = true -> has_view e t v = true ->
  rebuild e t v (restrict e (false, t, v) x) = restrict e (false, t, v) x.
Proof. intros Hc Hv. exact (proj1 (rebuild_restrict e Hc) x t v Hv). Qed.
Print Assumptions rebuild_render_is_restrict.

(* the empty view name is the default view, on both sides *)
Theorem empty_view_is_default e c t x body :
  server_respond e c t None "" x = server_respond e c t None "default" x /\
  client_decode e t None (Some "") body = client_decode e t None (Some "default") body /\
  client_decode e t None None body = client_decode e t None (Some "default") body.
Proof. repeat split. Qed.
Print Assumptions empty_view_is_default.

(* a view fixed in the design: the service's choice plays no role, no goa-view header is
   sent, and the client applies the fixed view whatever header it receives *)
Theorem fixed_view_offers_no_choice e c t f chosen chosen' x h b body :
  (server_respond e c t (Some f) chosen x = SResp h b ->
     h = None /\ server_respond e c t (Some f) chosen' x = SResp h b) /\
  client_decode e t (Some f) h body = client_decode e t (Some f) None body.
Proof. split; [exact (fixed_view_server e c t f chosen chosen' x h b) | exact (fixed_view_client e t f h body)]. Qed.
Print Assumptions fixed_view_offers_no_choice.

(* client half of the refusal: for EVERY string that is not the name of a view of the type
   ("" standing for "default"), whatever the body, the client returns a validation error *)
Theorem unknown_view_rejected e t r h body :
  find_type e t = Some r -> ~ In (norm h) (map v_name (r_views r)) ->
  client_decode e t None (Some h) body = CErr.
Proof. intros Ft Hn. exact (client_rejects_unknown e t r None h body Ft eq_refl Hn). Qed.
Print Assumptions unknown_view_rejected.

(* ... as long as the response has a body type. When every attribute of the result is carried
   by headers / cookies the generated decoder skips the validation: an undefined view name is
   then answered with a nil result and NO error. Known finding
   undefined-view-accepted:bodyless-response. *)
Theorem unknown_view_rejected_partial e t r h m x :
  find_type e t = Some r -> ~ In (norm h) (map v_name (r_views r)) -> bodyless e t m = false ->
  client_decode_resp e t None (Some h) m x = CErr.
Proof.
  intros Ft Hn Hb. rewrite (client_resp_with_body e t None (Some h) m x Hb).
  exact (client_rejects_unknown e t r None h x Ft eq_refl Hn).
Qed.
Print Assumptions unknown_view_rejected_partial.

Theorem unknown_view_rejected_refuted :
  exists e t r h m x, find_type e t = Some r /\ ~ In (norm h) (map v_name (r_views r)) /\
    bodyless e t m = true /\ client_decode_resp e t None (Some h) m x = CNil.
Proof.
  exists [("R", mkRT [mkAttr "k" (TLeaf true) None true; mkAttr "n" (TLeaf true) None true]
                    [mkView "default" [("k", None); ("n", None)]; mkView "mid" [("k", None); ("n", None)]])],
         "R", (mkRT [mkAttr "k" (TLeaf true) None true; mkAttr "n" (TLeaf true) None true]
                    [mkView "default" [("k", None); ("n", None)]; mkView "mid" [("k", None); ("n", None)]]),
         "nope", ["k"; "n"], (VObj (VFCons "k" (VLeaf 1) (VFCons "n" (VLeaf 2) VFNil))).
  split; [reflexivity|]. split; [|split; reflexivity].
  simpl. intros [H|[H|[]]]; discriminate.
Qed.
Print Assumptions unknown_view_rejected_refuted.

(* a defined view is decoded the same way with or without a body *)
Theorem bodyless_defined_view_unaffected e t fixed hdr m x :
  has_view e t (norm (match fixed with Some f => f | None => match hdr with Some h => h | None => "" end end)) = true ->
  client_decode_resp e t fixed hdr m x = client_decode e t fixed hdr x.
Proof. exact (client_resp_defined e t fixed hdr m x). Qed.
Print Assumptions bodyless_defined_view_unaffected.

(* server half: for EVERY view name the type does not define ("" standing for "default"),
   returned by the service method, single result or collection, the generated server answers a
   fault and renders nothing *)
Theorem unknown_view_refused_by_server e c t v x :
  has_view e t (norm v) = false -> server_respond e c t None v x = SFault.
Proof. exact (server_unknown e c t v x). Qed.
Print Assumptions unknown_view_refused_by_server.

(* ---- where the rendered attributes travel ---- *)

(* A response that carries the attributes m in headers / cookies: for a defined view the
   server sends the restriction of the result, split in two: the carried part holds exactly the
   attributes of m, the body none of them, together they hold every attribute of the
   restriction with its value, and every key of either part is an attribute of the view. *)
Theorem response_split_exact e c t fixed chosen m fs :
  has_view e t (selected fixed chosen) = true ->
  exists h fs', restrict e (false, t, selected fixed chosen) (VObj fs) = VObj fs' /\
    server_wire e c t fixed chosen m (VObj fs) = WResp h (hdr_f m fs') (VObj (body_f m fs')) /\
    (forall a, vfind fs' a = if mem_name a m then vfind (hdr_f m fs') a else vfind (body_f m fs') a) /\
    (forall a, mem_name a m = true -> has_field (body_f m fs') a = false) /\
    (forall a, mem_name a m = false -> has_field (hdr_f m fs') a = false).
Proof.
  intros Hv. destruct (server_wire_shape e c t fixed chosen m fs Hv) as (h & fs' & Hr & Hw).
  exists h, fs'. split; [exact Hr|]. split; [exact Hw|]. split; [exact (split_loses_nothing m fs')|].
  split; [exact (body_has_no_carried m fs') | exact (hdr_has_only_carried m fs')].
Qed.
Print Assumptions response_split_exact.

Theorem wire_parts_only_view_attrs e k r l m fs fs' a :
  entries e k = Some (r, l) -> restrict e k (VObj fs) = VObj fs' ->
  In a (keys (hdr_f m fs') ++ keys (body_f m fs')) -> listed l a = true /\ has_attr r a = true.
Proof. exact (wire_parts_in_view e k r l m fs fs' a). Qed.
Print Assumptions wire_parts_only_view_attrs.

(* ---- the generated view constructors agree with the projected body types ---- *)

(* new<T>View<V> / new<T><V> touch exactly the attributes the view lists (that the type has),
   and the constructor they call for a result-type or collection attribute is the one of the
   very node the projection of T under V holds at that attribute: what the constructor fills
   is what the projected response body type can carry, at every attribute. *)
Theorem constructors_touch_view_attributes e t v r l plan a :
  entries e (false, t, v) = Some (r, l) -> ctor_plan e t v = Some plan ->
  (In a (map fst plan) <-> listed l a = true /\ has_attr r a = true).
Proof. exact (ctor_plan_names e t v r l plan a). Qed.
Print Assumptions constructors_touch_view_attributes.

Theorem constructors_agree_with_projection e n t v r l plan a c t' u :
  entries e (false, t, v) = Some (r, l) -> ctor_plan e t v = Some plan ->
  In (a, Some (c, t', u)) plan ->
  exists fs, sproject (S n) e (false, t, v) = PObj t v fs (req_in false r l) /\
             pfind fs a = Some (wrapw (if c then WColl else WNone) (sproject n e (false, t', u))).
Proof. exact (ctor_plan_calls e n t v r l plan a c t' u). Qed.
Print Assumptions constructors_agree_with_projection.

(* ---- non-vacuity ---- *)

Definition ex_inner : rtype :=
  mkRT [mkAttr "i1" (TLeaf true) None true; mkAttr "i2" (TLeaf true) None false; mkAttr "i3" (TLeaf false) None false]
       [mkView "default" [("i1", None); ("i2", None); ("i3", None)]; mkView "tiny" [("i1", None)]].
Definition ex_wrap : rtype :=   (* a plain user type holding a result type with a type-level view *)
  mkRT [mkAttr "x" (TRes "Inner") (Some "tiny") false; mkAttr "n" (TLeaf true) None false; mkAttr "w" (TUser "Wrap") None false] [].
Definition ex_outer : rtype :=
  mkRT [mkAttr "a" (TLeaf true) None true; mkAttr "inner" (TRes "Inner") None false;
        mkAttr "inner2" (TRes "Inner") (Some "tiny") false; mkAttr "list" (TColl "Inner") None false;
        mkAttr "arr" (TArr "Inner") None false; mkAttr "m" (TMap "Inner") None false; mkAttr "wrap" (TUser "Wrap") None false]
       [mkView "default" [("a", None); ("inner", None); ("inner2", None); ("list", None); ("arr", None); ("m", None); ("wrap", None)];
        mkView "tiny" [("a", None); ("inner", Some "tiny"); ("inner2", Some "default"); ("arr", Some "tiny"); ("m", Some "tiny"); ("wrap", None)]].
Definition ex_env : env := [("Inner", ex_inner); ("Wrap", ex_wrap); ("Outer", ex_outer)].

(* type-level view meta and per-view override combined; arrays, maps and a recursive plain
   user type; the second attribute of the same result type (the design on which the memo used
   to be consulted under the parent's view) *)
Example containers_and_overrides :
  closed ex_env = true /\
  exists tr, iproject (fuel_bound ex_env) ex_env "Outer" "tiny" = Ok tr /\
    unfold 3 tr tr =
    let tiny := PObj "Inner" "tiny" (PCons "i1" PLeaf PNil) ["i1"] in
    let dflt := PObj "Inner" "default" (PCons "i1" PLeaf (PCons "i2" PLeaf (PCons "i3" PLeaf PNil))) ["i1"] in
    PObj "Outer" "tiny"
      (PCons "a" PLeaf (PCons "inner" tiny (PCons "inner2" dflt (PCons "arr" (PArr tiny) (PCons "m" (PMap tiny)
        (PCons "wrap" (PUser "Wrap" (PCons "x" tiny (PCons "n" PLeaf (PCons "w" (PUser "Wrap" (PCons "x" PCut (PCons "n" PLeaf (PCons "w" PCut PNil)))) PNil)))) PNil))))))
      ["a"].
Proof. split; [reflexivity|]. eexists; split; vm_compute; reflexivity. Qed.

(* mutually recursive views with alternating overrides terminate (they used to overflow) *)
Definition ex_alt : env :=
  [("T", mkRT [mkAttr "x" (TLeaf true) None false; mkAttr "u" (TRes "U") None false]
             [mkView "default" [("x", None)]; mkView "a" [("x", None); ("u", Some "b")]; mkView "b" [("x", None)]]);
   ("U", mkRT [mkAttr "y" (TLeaf true) None false; mkAttr "t" (TRes "T") None false]
             [mkView "default" [("y", None)]; mkView "a" [("y", None)]; mkView "b" [("y", None); ("t", Some "a")]])].

Example alternating_views_terminate :
  exists tr, iproject (fuel_bound ex_alt) ex_alt "T" "a" = Ok tr /\ find_def 0 tr <> None /\
             unfold 3 tr tr = sproject 3 ex_alt (false, "T", "a") /\ sproject 3 ex_alt (false, "T", "a") <> PErr.
Proof. eexists; repeat split; try (vm_compute; reflexivity); vm_compute; discriminate. Qed.

Example exchange_example :
  let x := VObj (VFCons "a" (VLeaf 1) (VFCons "inner" (VObj (VFCons "i1" (VLeaf 2) (VFCons "i2" (VLeaf 3) VFNil)))
                (VFCons "list" (VList (VLCons (VObj (VFCons "i1" (VLeaf 4) VFNil)) VLNil))
                (VFCons "arr" (VList (VLCons (VObj (VFCons "i1" (VLeaf 5) (VFCons "i2" (VLeaf 6) VFNil))) VLNil)) VFNil)))) in
  server_respond ex_env false "Outer" None "tiny" x
    = SResp (Some "tiny") (VObj (VFCons "a" (VLeaf 1) (VFCons "inner" (VObj (VFCons "i1" (VLeaf 2) VFNil))
                                (VFCons "arr" (VList (VLCons (VObj (VFCons "i1" (VLeaf 5) VFNil)) VLNil)) VFNil)))) /\
  view_blind_safe ex_env = true /\
  client_decode ex_env "Outer" None (Some "Tiny") x = CErr /\
  server_respond ex_env false "Outer" None "Tiny" x = SFault /\
  server_respond ex_env true "Outer" None "nope" (VList (VLCons x VLNil)) = SFault.
Proof. repeat split; vm_compute; reflexivity. Qed.

Example split_and_constructors_example :
  let x := VObj (VFCons "a" (VLeaf 1) (VFCons "inner" (VObj (VFCons "i1" (VLeaf 2) (VFCons "i2" (VLeaf 3) VFNil))) VFNil)) in
  server_wire ex_env false "Outer" None "tiny" ["a"] x
    = WResp (Some "tiny") (VFCons "a" (VLeaf 1) VFNil) (VObj (VFCons "inner" (VObj (VFCons "i1" (VLeaf 2) VFNil)) VFNil)) /\
  ctor_plan ex_env "Outer" "tiny"
    = Some [("a", None); ("inner", Some (false, "Inner", "tiny")); ("inner2", Some (false, "Inner", "default"));
            ("arr", None); ("m", None); ("wrap", None)].
Proof. split; vm_compute; reflexivity. Qed.
