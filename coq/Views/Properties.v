(* C08 — result views expose exactly the attributes of the selected view.
   Property statements only: every theorem is closed by a lemma of Lemmas.v and followed by
   Print Assumptions. The model is Model.v (iproject = expr.Project with its memo,
   sproject = the projection the property asks for, server_respond / client_decode = the
   generated server and client around a viewed result). *)
From Views Require Import Model Lemmas.

(* ---- projection (expr.Project) ---- *)

(* Whatever the design (recursive, mutually recursive, any overrides), whenever expr.Project
   returns a type, that type read back to ANY depth is the projection the property asks
   for: at every node the attributes listed in the view, nested result types and collection
   elements under their own view (override of the view entry, else the view meta of the type
   attribute, else "default"). *)
Theorem project_attrs_exact e f t v tr :
  iproject f e t v = Ok tr -> forall n, unfold n tr tr = sproject n e t v.
Proof. exact (iproject_exact e f t v tr). Qed.
Print Assumptions project_attrs_exact.

(* ... and that projection lists exactly the attributes of the selected view that the type
   has, in the view's order; the required attributes are those of the type that the view
   lists; each attribute is a leaf, or the projection of the nested type under its own view. *)
Theorem projection_lists_view_attributes e n t v r w :
  find_type e t = Some r -> find_view r v = Some w ->
  exists fs, sproject (S n) e t v = PObj t v fs (req_in_view r w) /\
             pnames fs = filter (has_attr r) (map fst (v_attrs w)) /\
             forall a, pfind fs a =
                       match view_entry (v_attrs w) a, find_attr r a with
                       | Some ov, Some at_ => Some (child (sproject n e) at_ ov)
                       | _, _ => None
                       end.
Proof. exact (sproject_shape e n t v r w). Qed.
Print Assumptions projection_lists_view_attributes.

(* The memoised recursion always ends: for ANY design (no hypothesis), a fuel computed from
   the design (number of (type, view) pairs its views can name, + 2) is enough. *)
Theorem project_terminates e f t v : fuel_bound e <= f -> iproject f e t v <> Out.
Proof. exact (iproject_not_out e f t v). Qed.
Print Assumptions project_terminates.

Theorem project_fuel_irrelevant e f f' t v x :
  f <= f' -> iproject f e t v = x -> x <> Out -> iproject f' e t v = x.
Proof. exact (iproject_fuel_mono e f f' t v x). Qed.
Print Assumptions project_fuel_irrelevant.

(* On a design the DSL accepts (nested views name views that exist) every defined view
   projects; a view the type does not define never does. *)
Theorem project_total e t v :
  closed e = true -> has_view e t v = true -> exists tr, iproject (fuel_bound e) e t v = Ok tr.
Proof. exact (iproject_total e t v). Qed.
Print Assumptions project_total.

Theorem project_undefined_view_fails e f t v tr : has_view e t v = false -> iproject f e t v <> Ok tr.
Proof. exact (iproject_undefined e f t v tr). Qed.
Print Assumptions project_undefined_view_fails.

(* ---- what crosses the wire ---- *)

(* every key of the rendered body, at every depth, is an attribute of the selected view *)
Theorem render_only_view_attrs e t v x :
  closed e = true -> has_view e t v = true -> conforms e t v (restrict e t v x) = true.
Proof. intros Hc Hv. exact (proj1 (conforms_restrict e Hc) x t v Hv). Qed.
Print Assumptions render_only_view_attrs.

(* and every attribute of the view that the value carries is rendered *)
Theorem render_keeps_view_attrs e t v r w fs :
  find_type e t = Some r -> find_view r v = Some w ->
  exists fs', restrict e t v (VObj fs) = VObj fs' /\
              keys fs' = filter (fun a => in_view w a && has_attr r a) (keys fs).
Proof. exact (restrict_keys e t v r w fs). Qed.
Print Assumptions render_keeps_view_attrs.

(* ---- end to end ---- *)

(* For a view the type defines (chosen by the service, "" meaning default, or fixed in the
   design): the server answers with the restriction of the result to that view, labelled with
   the view (no label when the view is fixed), and the client validates it and hands back
   exactly that restriction: attributes outside the view unset, inside the view unchanged.
   This is also server_unknown_view's _partial: its hypothesis is the negation of the
   finding's signature. *)
Theorem client_sees_restriction e c t fixed chosen x :
  closed e = true -> has_view e t (selected fixed chosen) = true -> full_valid e t x = true ->
  exists h, server_respond e c t fixed chosen x = SResp h (restrict e t (selected fixed chosen) x) /\
            client_decode e t fixed h (restrict e t (selected fixed chosen) x)
            = COk (restrict e t (selected fixed chosen) x).
Proof. exact (exchange_restricts e c t fixed chosen x). Qed.
Print Assumptions client_sees_restriction.

Theorem rebuild_render_is_restrict e t v x :
  closed e = true -> has_view e t v = true -> rebuild e t v (restrict e t v x) = restrict e t v x.
Proof. intros Hc Hv. exact (proj1 (rebuild_restrict e Hc) x t v Hv). Qed.
Print Assumptions rebuild_render_is_restrict.

(* the empty view name is the default view, on both sides *)
Theorem empty_view_is_default e c t x body :
  server_respond e c t None "" x = server_respond e c t None "default" x /\
  client_decode e t None (Some "") body = client_decode e t None (Some "default") body /\
  client_decode e t None None body = client_decode e t None (Some "default") body.
Proof. repeat split. Qed.
Print Assumptions empty_view_is_default.

(* a view fixed in the design: the service's choice plays no role, no goa-view header is
   sent, and the client applies the fixed view whatever header it receives *)
Theorem fixed_view_offers_no_choice e c t f chosen chosen' x h b body :
  (server_respond e c t (Some f) chosen x = SResp h b ->
     h = None /\ server_respond e c t (Some f) chosen' x = SResp h b) /\
  client_decode e t (Some f) h body = client_decode e t (Some f) None body.
Proof. split; [exact (fixed_view_server e c t f chosen chosen' x h b) | exact (fixed_view_client e t f h body)]. Qed.
Print Assumptions fixed_view_offers_no_choice.

(* client half of the refusal: for EVERY string that is not the name of a view of the type
   ("" standing for "default"), whatever the body, the client returns a validation error *)
Theorem unknown_view_rejected e t r h body :
  find_type e t = Some r -> ~ In (norm h) (map v_name (r_views r)) ->
  client_decode e t None (Some h) body = CErr.
Proof. intros Ft Hn. exact (client_rejects_unknown e t r None h body Ft eq_refl Hn). Qed.
Print Assumptions unknown_view_rejected.

(* server half: a view name the type does not define, returned by the service, is not
   refused: the server sends nothing (single result: nil dereference, connection closed) or
   an empty list labelled "" whatever the elements were (collection). Known finding
   server-undefined-view-panic / server-undefined-view-empty-collection. *)
Theorem server_unknown_view_refuted :
  exists e t v x, full_valid e t x = true /\ closed e = true /\ has_view e t (norm v) = false /\
    server_respond e false t None v x = SPanic /\
    server_respond e true t None v (VList (VLCons x VLNil)) = SResp (Some "") (VList VLNil) /\
    client_decode e t None (Some "") (VList VLNil) = COk (VList VLNil).
Proof.
  exists [("T", mkRT [mkAttr "a" (TLeaf true) None true] [mkView "default" [("a", None)]; mkView "tiny" [("a", None)]])],
         "T", "nope", (VObj (VFCons "a" (VLeaf 1) VFNil)).
  repeat split.
Qed.
Print Assumptions server_unknown_view_refuted.

Theorem server_unknown_view_always e t v x :
  has_view e t (norm v) = false ->
  server_respond e false t None v x = SPanic /\
  server_respond e true t None v x = SResp (Some "") (VList VLNil).
Proof. exact (server_unknown e t v x). Qed.
Print Assumptions server_unknown_view_always.

(* ---- non-vacuity ---- *)

Definition ex_inner : rtype :=
  mkRT [mkAttr "i1" (TLeaf true) None true; mkAttr "i2" (TLeaf true) None false; mkAttr "i3" (TLeaf false) None false]
       [mkView "default" [("i1", None); ("i2", None); ("i3", None)]; mkView "tiny" [("i1", None)]].
Definition ex_outer : rtype :=
  mkRT [mkAttr "a" (TLeaf true) None true; mkAttr "inner" (TRes "Inner") None false;
        mkAttr "inner2" (TRes "Inner") None false; mkAttr "list" (TColl "Inner") None false]
       [mkView "default" [("a", None); ("inner", None); ("inner2", None); ("list", None)];
        mkView "tiny" [("a", None); ("inner", Some "tiny"); ("inner2", None)]].
Definition ex_env : env := [("Inner", ex_inner); ("Outer", ex_outer)].

(* two attributes of the same result type in one view, the first overridden with the
   parent's own view name: the second is projected under "default" (the design on which the
   memo used to be consulted under the parent's view) *)
Example sibling_views :
  closed ex_env = true /\
  exists tr, iproject (fuel_bound ex_env) ex_env "Outer" "tiny" = Ok tr /\
    unfold 2 tr tr =
    PObj "Outer" "tiny"
      (PCons "a" PLeaf
        (PCons "inner" (PObj "Inner" "tiny" (PCons "i1" PLeaf PNil) ["i1"])
          (PCons "inner2" (PObj "Inner" "default" (PCons "i1" PLeaf (PCons "i2" PLeaf (PCons "i3" PLeaf PNil))) ["i1"]) PNil)))
      ["a"].
Proof. split; [reflexivity|]. eexists; split; vm_compute; reflexivity. Qed.

(* mutually recursive views with alternating overrides terminate (they used to overflow) *)
Definition ex_alt : env :=
  [("T", mkRT [mkAttr "x" (TLeaf true) None false; mkAttr "u" (TRes "U") None false]
             [mkView "default" [("x", None)]; mkView "a" [("x", None); ("u", Some "b")]; mkView "b" [("x", None)]]);
   ("U", mkRT [mkAttr "y" (TLeaf true) None false; mkAttr "t" (TRes "T") None false]
             [mkView "default" [("y", None)]; mkView "a" [("y", None)]; mkView "b" [("y", None); ("t", Some "a")]])].

Example alternating_views_terminate :
  exists tr, iproject (fuel_bound ex_alt) ex_alt "T" "a" = Ok tr /\ find_def 0 tr <> None /\
             unfold 3 tr tr = sproject 3 ex_alt "T" "a" /\ sproject 3 ex_alt "T" "a" <> PErr.
Proof. eexists; repeat split; try (vm_compute; reflexivity); vm_compute; discriminate. Qed.

Example exchange_example :
  let x := VObj (VFCons "a" (VLeaf 1) (VFCons "inner" (VObj (VFCons "i1" (VLeaf 2) (VFCons "i2" (VLeaf 3) VFNil)))
                (VFCons "list" (VList (VLCons (VObj (VFCons "i1" (VLeaf 4) VFNil)) VLNil)) VFNil))) in
  server_respond ex_env false "Outer" None "tiny" x
    = SResp (Some "tiny") (VObj (VFCons "a" (VLeaf 1) (VFCons "inner" (VObj (VFCons "i1" (VLeaf 2) VFNil)) VFNil))) /\
  client_decode ex_env "Outer" None (Some "Tiny") x = CErr.
Proof. split; vm_compute; reflexivity. Qed.
