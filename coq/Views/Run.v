(* Correspondence glue: decidable comparisons and the functions evaluated by vm_compute on
   the cases the harness wrote (model vs what the real code did). *)
From Views Require Import Model.
From Coq Require Import NArith.

Fixpoint names_eqb (a b : list name) : bool :=
  match a, b with
  | [], [] => true
  | x :: a', y :: b' => String.eqb x y && names_eqb a' b'
  | _, _ => false
  end.

Fixpoint ptree_eqb (a b : ptree) : bool :=
  match a, b with
  | PLeaf, PLeaf => true
  | PCut, PCut => true
  | PErr, PErr => true
  | PColl x, PColl y => ptree_eqb x y
  | PArr x, PArr y => ptree_eqb x y
  | PMap x, PMap y => ptree_eqb x y
  | PUser u fs, PUser u' fs' => String.eqb u u' && pflds_eqb fs fs'
  | PObj t v fs rq, PObj t' v' fs' rq' =>
    String.eqb t t' && String.eqb v v' && pflds_eqb fs fs' && names_eqb rq rq'
  | _, _ => false
  end
with pflds_eqb (a b : pflds) : bool :=
  match a, b with
  | PNil, PNil => true
  | PCons n p r, PCons n' p' r' => String.eqb n n' && ptree_eqb p p' && pflds_eqb r r'
  | _, _ => false
  end.

Fixpoint val_eqb (a b : val) : bool :=
  match a, b with
  | VLeaf n, VLeaf m => Nat.eqb n m
  | VObj f, VObj g => vflds_eqb f g
  | VList l, VList m => vlist_eqb l m
  | _, _ => false
  end
with vflds_eqb (a b : vflds) : bool :=
  match a, b with
  | VFNil, VFNil => true
  | VFCons n x r, VFCons n' x' r' => String.eqb n n' && val_eqb x x' && vflds_eqb r r'
  | _, _ => false
  end
with vlist_eqb (a b : vlist) : bool :=
  match a, b with
  | VLNil, VLNil => true
  | VLCons x r, VLCons x' r' => val_eqb x x' && vlist_eqb r r'
  | _, _ => false
  end.

Definition oname_eqb (a b : option name) : bool :=
  match a, b with
  | None, None => true
  | Some x, Some y => String.eqb x y
  | _, _ => false
  end.

(* ---- tier A: expr.Project vs iproject (the memo model), unfolded to depth k ---- *)

Definition proj_item := (bool * name * name * option ptree)%type.   (* collection?, type, view, observed *)

Definition proj_ok (e : env) (k : nat) (it : proj_item) : bool :=
  match it with
  | (c, t, v, o) =>
    match iproject (fuel_bound e) e t v, o with
    | Ok tr, Some p => ptree_eqb (wrapw (if c then WColl else WNone) (unfold k tr tr)) p
    | Err, None => true
    | _, _ => false
    end
  end.

Definition proj_mismatches (cs : list (N * env * nat * list proj_item)) : list N :=
  flat_map (fun c => match c with (i, e, k, its) => if forallb (proj_ok e k) its then [] else [i] end) cs.

(* ---- tier B: generated server and client vs server_respond / client_decode ---- *)

Inductive cobs := OOk (x : val) | OErr | OPanic | ONoResp.

Record exch := mkExch {
  x_coll : bool; x_type : name; x_fixed : option name; x_chosen : name; x_val : val;
  x_tampered : bool;                      (* goa-view replaced below the client *)
  x_resp : option (option name * val);    (* header the client saw, body; None = no response *)
  x_client : cobs }.

Definition exch_ok (e : env) (x : exch) : bool :=
  match server_respond e (x_coll x) (x_type x) (x_fixed x) (x_chosen x) (x_val x), x_resp x with
  | SPanic, None => match x_client x with ONoResp => true | _ => false end
  | SFault, None => match x_client x with OErr => true | _ => false end
  | SResp h b, Some (h', b') =>
    (x_tampered x || oname_eqb h h') && val_eqb b b' &&
    match client_decode e (x_type x) (x_fixed x) h' b', x_client x with
    | COk y, OOk y' => val_eqb y y'
    | CErr, OErr => true
    | CPanic, OPanic => true
    | _, _ => false
    end
  | _, _ => false
  end.

Definition exch_mismatches (cs : list (N * env * list exch)) : list N :=
  flat_map (fun c => match c with (i, e, xs) => if forallb (exch_ok e) xs then [] else [i] end) cs.
