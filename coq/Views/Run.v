(* Correspondence glue: decidable comparisons and the functions evaluated by vm_compute on
   the cases the harness wrote (model vs what the real code did). *)
From Views Require Import Model.
From Coq Require Import NArith.

Fixpoint names_eqb (a b : list name) : bool :=
  match a, b with
  | [], [] => true
  | x :: a', y :: b' => String.eqb x y && names_eqb a' b'
  | _, _ => false
  end.

Fixpoint ptree_eqb (a b : ptree) : bool :=
  match a, b with
  | PLeaf, PLeaf => true
  | PCut, PCut => true
  | PErr, PErr => true
  | PColl x, PColl y => ptree_eqb x y
  | PArr x, PArr y => ptree_eqb x y
  | PMap x, PMap y => ptree_eqb x y
  | PUser u fs, PUser u' fs' => String.eqb u u' && pflds_eqb fs fs'
  | PObj t v fs rq, PObj t' v' fs' rq' =>
    String.eqb t t' && String.eqb v v' && pflds_eqb fs fs' && names_eqb rq rq'
  | _, _ => false
  end
with pflds_eqb (a b : pflds) : bool :=
  match a, b with
  | PNil, PNil => true
  | PCons n p r, PCons n' p' r' => String.eqb n n' && ptree_eqb p p' && pflds_eqb r r'
  | _, _ => false
  end.

Fixpoint val_eqb (a b : val) : bool :=
  match a, b with
  | VLeaf n, VLeaf m => Nat.eqb n m
  | VObj f, VObj g => vflds_eqb f g
  | VList l, VList m => vlist_eqb l m
  | _, _ => false
  end
with vflds_eqb (a b : vflds) : bool :=
  match a, b with
  | VFNil, VFNil => true
  | VFCons n x r, VFCons n' x' r' => String.eqb n n' && val_eqb x x' && vflds_eqb r r'
  | _, _ => false
  end
with vlist_eqb (a b : vlist) : bool :=
  match a, b with
  | VLNil, VLNil => true
  | VLCons x r, VLCons x' r' => val_eqb x x' && vlist_eqb r r'
  | _, _ => false
  end.

Definition oname_eqb (a b : option name) : bool :=
  match a, b with
  | None, None => true
  | Some x, Some y => String.eqb x y
  | _, _ => false
  end.

(* ---- tier A: expr.Project vs iproject (the memo model), unfolded to depth k ---- *)

Definition proj_item := (bool * name * name * option ptree)%type.   (* collection?, type, view, observed *)

Definition proj_ok (e : env) (k : nat) (it : proj_item) : bool :=
  match it with
  | (c, t, v, o) =>
    match iproject (fuel_bound e) e t v, o with
    | Ok tr, Some p => ptree_eqb (wrapw (if c then WColl else WNone) (unfold k tr tr)) p
    | Err, None => true
    | _, _ => false
    end
  end.

Definition proj_mismatches (cs : list (N * env * nat * list proj_item)) : list N :=
  flat_map (fun c => match c with (i, e, k, its) => if forallb (proj_ok e k) its then [] else [i] end) cs.

(* ---- tier B: generated server and client vs server_respond / client_decode ---- *)

Inductive cobs := OOk (x : val) | OErr | OPanic | ONil | ONoResp.

Record exch := mkExch {
  x_coll : bool; x_type : name; x_fixed : option name; x_chosen : name; x_val : val;
  x_mapped : list name;                   (* attributes the response carries in headers / cookies *)
  x_carried : vflds;                      (* what was read back from those headers / cookies *)
  x_tampered : bool;                      (* goa-view replaced below the client *)
  x_resp : option (option name * val);    (* header the client saw, body; None = no response *)
  x_client : cobs }.

Definition whole (e : env) (t : name) (carried : vflds) (body : val) : val :=
  match body, find_type e t with
  | VObj fs, Some r => VObj (reassemble r carried fs)
  | _, _ => body
  end.

Definition exch_ok (e : env) (x : exch) : bool :=
  match server_wire e (x_coll x) (x_type x) (x_fixed x) (x_chosen x) (x_mapped x) (x_val x), x_resp x with
  | WPanic, None => match x_client x with ONoResp => true | _ => false end
  | WFault, None => match x_client x with OErr => true | _ => false end
  | WResp h carried b, Some (h', b') =>
    (x_tampered x || oname_eqb h h') && vflds_eqb carried (x_carried x) && val_eqb b b' &&
    match client_decode_resp e (x_type x) (x_fixed x) h' (x_mapped x) (whole e (x_type x) (x_carried x) b'), x_client x with
    | COk y, OOk y' => val_eqb y y'
    | CErr, OErr => true
    | CPanic, OPanic => true
    | CNil, ONil => true
    | _, _ => false
    end
  | _, _ => false
  end.

Definition exch_mismatches (cs : list (N * env * list exch)) : list N :=
  flat_map (fun c => match c with (i, e, xs) => if forallb (exch_ok e) xs then [] else [i] end) cs.

(* ---- generated view constructors vs ctor_plan ---- *)

Definition call := option (bool * name * name).

Definition call_eqb (a b : call) : bool :=
  match a, b with
  | None, None => true
  | Some (c, t, v), Some (c', t', v') => Bool.eqb c c' && String.eqb t t' && String.eqb v v'
  | _, _ => false
  end.

Fixpoint plan_eqb (a b : list (name * call)) : bool :=
  match a, b with
  | [], [] => true
  | (n, c) :: a', (n', c') :: b' => String.eqb n n' && call_eqb c c' && plan_eqb a' b'
  | _, _ => false
  end.

Fixpoint plan_find (l : list (name * call)) (a : name) : option call :=
  match l with [] => None | (b, c) :: l' => if String.eqb b a then Some c else plan_find l' a end.

(* server constructor: exactly the plan; client constructor: the same call for every
   result-type / collection attribute of the plan *)
Definition ctor_item := (name * name * list (name * call) * list (name * call))%type.

Definition ctor_ok (e : env) (it : ctor_item) : bool :=
  match it with
  | (t, v, srv, cli) =>
    match ctor_plan e t v with
    | None => false
    | Some plan =>
      plan_eqb plan srv &&
      forallb (fun p => match snd p with
                        | None => true
                        | Some c => match plan_find cli (fst p) with Some c' => call_eqb (Some c) c' | None => false end
                        end) plan
    end
  end.

Definition ctor_mismatches (cs : list (N * env * list ctor_item)) : list N :=
  flat_map (fun c => match c with (i, e, its) => if forallb (ctor_ok e) its then [] else [i] end) cs.
