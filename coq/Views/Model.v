(* Views engine — executable model of goa's result-type views.

     expr/result_type.go      Project / project / projectSingle / projectCollection /
                              projectRecursive (the `seen` memo, keyed by the hash of the
                              attribute type and the view the attribute is rendered with)
     dsl/result_type.go       View / buildView (a view lists attributes of the type; a view
                              attribute may carry View("x"); else the `view` meta of the type
                              attribute; else "default")
     codegen/service          projected ("…View") types with one constructor per view
                              (new<T>View<V>, new<T><V>), Validate<T>View<V>, the viewed
                              result {Projected, View}, NewViewed<T> / New<T> (switch on the
                              view name, "" = "default", no default branch), Validate<T>
                              (default branch: InvalidEnumValueError)
     http/codegen             response encoder (sets goa-view unless the view is fixed in the
                              design, picks the body constructor by view, no default branch),
                              response decoder (reads goa-view, validates, rebuilds)

   Definitions only; proofs are in Lemmas.v, statements in Properties.v. *)
From Coq Require Export List Bool String Arith.
Export ListNotations.
Open Scope string_scope.

Definition name := string.

(* ---------------------------------------------------------------- designs *)

(* type of an attribute of a result type: anything without views below it (prim = stored
   without a pointer when required), a result type, a CollectionOf(result type) *)
Inductive atype := TLeaf (prim : bool) | TRes (t : name) | TColl (t : name).

Record attr := mkAttr { a_name : name; a_ty : atype; a_meta : option name; a_req : bool }.
(* a_meta: View("x") written on the attribute inside the type definition *)

Record view := mkView { v_name : name; v_attrs : list (name * option name) }.
(* (attribute, View("x") written on the attribute inside the view) *)

Record rtype := mkRT { r_attrs : list attr; r_views : list view }.

Definition env := list (name * rtype).

Fixpoint find_type (e : env) (t : name) : option rtype :=
  match e with [] => None | (n, r) :: e' => if String.eqb n t then Some r else find_type e' t end.

Fixpoint find_view_in (vs : list view) (v : name) : option view :=
  match vs with [] => None | w :: vs' => if String.eqb (v_name w) v then Some w else find_view_in vs' v end.
Definition find_view (r : rtype) (v : name) : option view := find_view_in (r_views r) v.

Fixpoint find_attr_in (l : list attr) (a : name) : option attr :=
  match l with [] => None | x :: l' => if String.eqb (a_name x) a then Some x else find_attr_in l' a end.
Definition find_attr (r : rtype) (a : name) : option attr := find_attr_in (r_attrs r) a.

Fixpoint view_entry (l : list (name * option name)) (a : name) : option (option name) :=
  match l with [] => None | (b, ov) :: l' => if String.eqb b a then Some ov else view_entry l' a end.

Definition in_view (w : view) (a : name) : bool :=
  match view_entry (v_attrs w) a with Some _ => true | None => false end.

(* the view a nested result-type attribute is rendered with *)
Definition nested_view (ov : option name) (a : attr) : name :=
  match ov with
  | Some v => v
  | None => match a_meta a with Some v => v | None => "default" end
  end.

(* "" means "default" wherever a view name is consumed at run time *)
Definition norm (v : name) : name := if String.eqb v "" then "default" else v.

(* rt.Validation.Required filtered by the view, in the order of the Required list *)
Definition req_in_view (r : rtype) (w : view) : list name :=
  map a_name (filter (fun a => a_req a && in_view w (a_name a)) (r_attrs r)).

(* -------------------------------------------- projected types, unfolded (the spec) *)

(* A projected type unfolded to a given depth: PCut where the depth budget ends. *)
Inductive ptree :=
| PLeaf
| PObj (t v : name) (fs : pflds) (req : list name)
| PColl (e : ptree)
| PCut
| PErr
with pflds := PNil | PCons (a : name) (p : ptree) (r : pflds).

Definition wrapc (c : bool) (p : ptree) : ptree := if c then PColl p else p.

(* fields of the projection of r under view entries l; rec projects a nested result type *)
Fixpoint sfields (rec : name -> name -> ptree) (r : rtype) (l : list (name * option name)) : pflds :=
  match l with
  | [] => PNil
  | (a, ov) :: l' =>
    match find_attr r a with
    | None => sfields rec r l'
    | Some at_ =>
      match a_ty at_ with
      | TLeaf _ => PCons a PLeaf (sfields rec r l')
      | TRes t' => PCons a (rec t' (nested_view ov at_)) (sfields rec r l')
      | TColl t' => PCons a (PColl (rec t' (nested_view ov at_))) (sfields rec r l')
      end
    end
  end.

(* the projection the property asks for: the attributes listed in the view (that the type
   has), nested result types and collections under their own view, recursively *)
Fixpoint sproject (k : nat) (e : env) (t v : name) : ptree :=
  match k with
  | 0 => PCut
  | S k' =>
    match find_type e t with
    | None => PErr
    | Some r =>
      match find_view r v with
      | None => PErr
      | Some w => PObj t v (sfields (sproject k' e) r (v_attrs w)) (req_in_view r w)
      end
    end
  end.

(* reading a projected node: its attribute names, one attribute, the projection of one
   attribute of the type under a view entry *)
Fixpoint pnames (fs : pflds) : list name :=
  match fs with PNil => [] | PCons a _ r => a :: pnames r end.

Fixpoint pfind (fs : pflds) (a : name) : option ptree :=
  match fs with PNil => None | PCons b p r => if String.eqb b a then Some p else pfind r a end.

Definition has_attr (r : rtype) (a : name) : bool :=
  match find_attr r a with Some _ => true | None => false end.

Definition child (rec : name -> name -> ptree) (at_ : attr) (ov : option name) : ptree :=
  match a_ty at_ with
  | TLeaf _ => PLeaf
  | TRes t' => rec t' (nested_view ov at_)
  | TColl t' => PColl (rec t' (nested_view ov at_))
  end.

(* ------------------------------------- expr.Project, with its memo (the implementation) *)

(* The value expr.Project builds is a graph: a memo hit returns the attribute created
   earlier (possibly still being filled in: cycles). FDef id = attribute allocated by this
   call and registered in the memo under id; FRef id = the attribute registered as id. *)
Inductive itree := IObj (t v : name) (fs : iflds) (req : list name)
with iflds :=
| FNil
| FLeafC (a : name) (r : iflds)
| FDefC (a : name) (id : nat) (coll : bool) (ty : itree) (r : iflds)
| FRefC (a : name) (id : nat) (r : iflds).

Definition key := (bool * name * name)%type.   (* collection?, type name, view *)

Definition key_eqb (k1 k2 : key) : bool :=
  match k1, k2 with (c1, t1, v1), (c2, t2, v2) => Bool.eqb c1 c2 && String.eqb t1 t2 && String.eqb v1 v2 end.

Record st := mkSt { next : nat; memo : list (key * nat) }.

Fixpoint lookup (m : list (key * nat)) (k : key) : option nat :=
  match m with [] => None | (k', id) :: m' => if key_eqb k' k then Some id else lookup m' k end.

Inductive res (A : Type) := Ok (a : A) | Err | Out.
Arguments Ok {A} a. Arguments Err {A}. Arguments Out {A}.

Definition init : st := mkSt 0 [].

(* projectRecursive on one attribute of result type (c, t') rendered with view u *)
Definition iattr (rec : name -> name -> st -> res (itree * st)) (c : bool) (t' u : name) (s : st)
  : res ((nat * option itree) * st) :=
  match lookup (memo s) (c, t', u) with
  | Some id => Ok ((id, None), s)
  | None =>
    let id := next s in
    match rec t' u (mkSt (S id) (((c, t', u), id) :: memo s)) with
    | Ok (tr, s2) => Ok ((id, Some tr), s2)
    | Err => Err
    | Out => Out
    end
  end.

(* one nested result-type attribute a of the view being projected, then the rest (cont) *)
Definition ifield_nested (rec : name -> name -> st -> res (itree * st)) (cont : st -> res (iflds * st))
           (a : name) (c : bool) (t' u : name) (s : st) : res (iflds * st) :=
  match iattr rec c t' u s with
  | Ok ((id, Some tr), s2) =>
    match cont s2 with Ok (fs, s3) => Ok (FDefC a id c tr fs, s3) | Err => Err | Out => Out end
  | Ok ((id, None), s2) =>
    match cont s2 with Ok (fs, s3) => Ok (FRefC a id fs, s3) | Err => Err | Out => Out end
  | Err => Err
  | Out => Out
  end.

Definition ifield_leaf (cont : st -> res (iflds * st)) (a : name) (s : st) : res (iflds * st) :=
  match cont s with Ok (fs, s3) => Ok (FLeafC a fs, s3) | Err => Err | Out => Out end.

(* the loop of projectSingle over the attributes the view lists, in the view's order *)
Fixpoint ifields (rec : name -> name -> st -> res (itree * st)) (r : rtype)
         (l : list (name * option name)) (s : st) : res (iflds * st) :=
  match l with
  | [] => Ok (FNil, s)
  | (a, ov) :: l' =>
    match find_attr r a with
    | None => ifields rec r l' s
    | Some at_ =>
      match a_ty at_ with
      | TLeaf _ => ifield_leaf (ifields rec r l') a s
      | TRes t' => ifield_nested rec (ifields rec r l') a false t' (nested_view ov at_) s
      | TColl t' => ifield_nested rec (ifields rec r l') a true t' (nested_view ov at_) s
      end
    end
  end.

(* projectSingle; fuel bounds the recursion depth *)
Fixpoint iproj (fuel : nat) (e : env) (t v : name) (s : st) : res (itree * st) :=
  match fuel with
  | 0 => Out
  | S f =>
    match find_type e t with
    | None => Err
    | Some r =>
      match find_view r v with
      | None => Err
      | Some w =>
        match ifields (iproj f e) r (v_attrs w) s with
        | Ok (fs, s') => Ok (IObj t v fs (req_in_view r w), s')
        | Err => Err
        | Out => Out
        end
      end
    end
  end.

(* expr.Project(rt, view) on a result type (c = false) or a collection of it (c = true):
   a fresh memo; projectCollection projects the element type with the same view *)
Definition iproject (fuel : nat) (e : env) (t v : name) : res itree :=
  match iproj fuel e t v init with Ok (tr, _) => Ok tr | Err => Err | Out => Out end.

(* looking an attribute id up in the graph *)
Fixpoint find_def (id : nat) (tr : itree) : option (bool * itree) :=
  match tr with IObj _ _ fs _ => find_def_f id fs end
with find_def_f (id : nat) (fs : iflds) : option (bool * itree) :=
  match fs with
  | FNil => None
  | FLeafC _ r => find_def_f id r
  | FRefC _ _ r => find_def_f id r
  | FDefC _ id' c ty r =>
    if Nat.eqb id' id then Some (c, ty)
    else match find_def id ty with Some x => Some x | None => find_def_f id r end
  end.

(* the graph read back as a tree, to depth k *)
Fixpoint unfold_f (uf : itree -> ptree) (root : itree) (fs : iflds) : pflds :=
  match fs with
  | FNil => PNil
  | FLeafC a r => PCons a PLeaf (unfold_f uf root r)
  | FDefC a _ c ty r => PCons a (wrapc c (uf ty)) (unfold_f uf root r)
  | FRefC a id r =>
    PCons a (match find_def id root with
             | Some (c, ty) => wrapc c (uf ty)
             | None => PErr
             end) (unfold_f uf root r)
  end.

Fixpoint unfold (k : nat) (root : itree) (tr : itree) : ptree :=
  match k with
  | 0 => PCut
  | S k' => match tr with IObj t v fs req => PObj t v (unfold_f (unfold k' root) root fs) req end
  end.

(* number of memo keys a design can ever produce *)
Definition entry_keys (r : rtype) (l : list (name * option name)) : list key :=
  flat_map (fun '(a, ov) =>
    match find_attr r a with
    | None => []
    | Some at_ =>
      match a_ty at_ with
      | TLeaf _ => []
      | TRes t' => [(false, t', nested_view ov at_)]
      | TColl t' => [(true, t', nested_view ov at_)]
      end
    end) l.

Definition all_keys (e : env) : list key :=
  flat_map (fun '(_, r) => flat_map (fun w => entry_keys r (v_attrs w)) (r_views r)) e.

Definition fuel_bound (e : env) : nat := S (S (List.length (all_keys e))).

(* ------------------------------------------------------------------- values *)

(* A result value as the service method returns it / as it appears in a JSON body / as
   the client hands it back: leaves are opaque (numbered by the harness), an object
   holds the attributes that are set. *)
Inductive val := VLeaf (n : nat) | VObj (fs : vflds) | VList (l : vlist)
with vflds := VFNil | VFCons (a : name) (x : val) (r : vflds)
with vlist := VLNil | VLCons (x : val) (r : vlist).

Definition has_view (e : env) (t v : name) : bool :=
  match find_type e t with
  | Some r => match find_view r v with Some _ => true | None => false end
  | None => false
  end.

(* new<T>View<V> then the response body constructor: keep the attributes the view lists,
   nested result types (and the elements of collections) under their own view *)
Fixpoint restrict (e : env) (t v : name) (x : val) : val :=
  match x with
  | VLeaf n => VLeaf n
  | VList l => VList (restrict_l e t v l)
  | VObj fs =>
    match find_type e t with
    | None => VObj VFNil
    | Some r =>
      match find_view r v with
      | None => VObj VFNil
      | Some w => VObj (restrict_f e r w fs)
      end
    end
  end
with restrict_f (e : env) (r : rtype) (w : view) (fs : vflds) : vflds :=
  match fs with
  | VFNil => VFNil
  | VFCons a x rest =>
    match view_entry (v_attrs w) a, find_attr r a with
    | Some ov, Some at_ =>
      VFCons a (match a_ty at_ with
                | TLeaf _ => x
                | TRes t' => restrict e t' (nested_view ov at_) x
                | TColl t' => restrict e t' (nested_view ov at_) x
                end) (restrict_f e r w rest)
    | _, _ => restrict_f e r w rest
    end
  end
with restrict_l (e : env) (t v : name) (l : vlist) : vlist :=
  match l with
  | VLNil => VLNil
  | VLCons x r => VLCons (restrict e t v x) (restrict_l e t v r)
  end.

(* ------------------------------------------------------------ generated server *)

(* what leaves the server: the goa-view header (absent when the view is fixed in the
   design) and the body; or nothing at all (handler panic, connection closed) *)
Inductive sresp := SResp (hdr : option name) (body : val) | SPanic.

(* fixed = view set in the design (Result(T, func(){ View(v) }), or a type with a single
   view); chosen = view name returned by the service method otherwise; c = the result is
   a collection. NewViewed<T> switches on the name with no default branch. An undefined
   name leaves the viewed result nil: the encoder dereferences it (single result: panic,
   connection closed) or, for a collection (a struct, not a pointer), sends the zero
   value: header "" and an empty list. *)
Definition server_respond (e : env) (c : bool) (t : name) (fixed : option name) (chosen : name) (x : val) : sresp :=
  match fixed with
  | Some f => if has_view e t (norm f) then SResp None (restrict e t (norm f) x) else SPanic
  | None =>
    if has_view e t (norm chosen) then SResp (Some (norm chosen)) (restrict e t (norm chosen) x)
    else if c then SResp (Some "") (VList VLNil) else SPanic
  end.

(* ------------------------------------------------------------ generated client *)

Fixpoint has_field (fs : vflds) (a : name) : bool :=
  match fs with VFNil => false | VFCons b _ r => String.eqb b a || has_field r a end.

(* the required attributes whose absence the client can see: the response body is first
   converted to the projected type, and that conversion allocates required arrays / maps
   (make([]T, len(nil))), so their absence goes unnoticed *)
Definition allocated (ty : atype) : bool := match ty with TLeaf false => true | _ => false end.

Definition req_checked (r : rtype) (w : view) : list name :=
  map a_name (filter (fun a => a_req a && in_view w (a_name a) && negb (allocated (a_ty a))) (r_attrs r)).

(* Validate<T>View<V>: the required attributes that the view lists are present; nested
   result types that are present validate under their own view *)
Fixpoint validate (e : env) (t v : name) (x : val) : bool :=
  match x with
  | VLeaf _ => true
  | VList l => validate_l e t v l
  | VObj fs =>
    match find_type e t with
    | None => false
    | Some r =>
      match find_view r v with
      | None => false
      | Some w => forallb (has_field fs) (req_checked r w) && validate_f e r w fs
      end
    end
  end
with validate_f (e : env) (r : rtype) (w : view) (fs : vflds) : bool :=
  match fs with
  | VFNil => true
  | VFCons a x rest =>
    match view_entry (v_attrs w) a, find_attr r a with
    | Some ov, Some at_ =>
      match a_ty at_ with
      | TLeaf _ => true
      | TRes t' => validate e t' (nested_view ov at_) x
      | TColl t' => validate e t' (nested_view ov at_) x
      end && validate_f e r w rest
    | _, _ => validate_f e r w rest
    end
  end
with validate_l (e : env) (t v : name) (l : vlist) : bool :=
  match l with
  | VLNil => true
  | VLCons x r => validate e t v x && validate_l e t v r
  end.

(* new<T><V>: plain attributes are copied when the view lists them; a result-type
   attribute that is present is rebuilt under the view the parent's view entry names
   ("default" when the parent's view does not list it) *)
Fixpoint rebuild (e : env) (t v : name) (x : val) : val :=
  match x with
  | VLeaf n => VLeaf n
  | VList l => VList (rebuild_l e t v l)
  | VObj fs =>
    match find_type e t with
    | None => VObj VFNil
    | Some r =>
      match find_view r v with
      | None => VObj VFNil
      | Some w => VObj (rebuild_f e r w fs)
      end
    end
  end
with rebuild_f (e : env) (r : rtype) (w : view) (fs : vflds) : vflds :=
  match fs with
  | VFNil => VFNil
  | VFCons a x rest =>
    match find_attr r a with
    | None => rebuild_f e r w rest
    | Some at_ =>
      let u := match view_entry (v_attrs w) a with Some ov => nested_view ov at_ | None => "default" end in
      match a_ty at_ with
      | TLeaf _ => if in_view w a then VFCons a x (rebuild_f e r w rest) else rebuild_f e r w rest
      | TRes t' => VFCons a (rebuild e t' u x) (rebuild_f e r w rest)
      | TColl t' => VFCons a (rebuild e t' u x) (rebuild_f e r w rest)
      end
    end
  end
with rebuild_l (e : env) (t v : name) (l : vlist) : vlist :=
  match l with
  | VLNil => VLNil
  | VLCons x r => VLCons (rebuild e t v x) (rebuild_l e t v r)
  end.

Inductive cres := COk (x : val) | CErr.

(* the response decoder: view = the one fixed in the design, else the goa-view header
   ("" when absent); Validate<T> rejects names the type does not define *)
Definition client_decode (e : env) (t : name) (fixed : option name) (hdr : option name) (body : val) : cres :=
  let v := norm (match fixed with Some f => f | None => match hdr with Some h => h | None => "" end end) in
  if has_view e t v then
    if validate e t v body then COk (rebuild e t v body) else CErr
  else CErr.

(* ---------------------------------------- what the property talks about (for statements) *)

(* x carries every attribute its type requires (what the service returns) *)
Fixpoint full_valid (e : env) (t : name) (x : val) : bool :=
  match x with
  | VLeaf _ => true
  | VList l => full_valid_l e t l
  | VObj fs =>
    match find_type e t with
    | None => false
    | Some r => forallb (has_field fs) (map a_name (filter a_req (r_attrs r))) && full_valid_f e r fs
    end
  end
with full_valid_f (e : env) (r : rtype) (fs : vflds) : bool :=
  match fs with
  | VFNil => true
  | VFCons a x rest =>
    match find_attr r a with
    | Some at_ =>
      match a_ty at_ with
      | TLeaf _ => true
      | TRes t' => full_valid e t' x
      | TColl t' => full_valid e t' x
      end && full_valid_f e r rest
    | None => full_valid_f e r rest
    end
  end
with full_valid_l (e : env) (t : name) (l : vlist) : bool :=
  match l with
  | VLNil => true
  | VLCons x r => full_valid e t x && full_valid_l e t r
  end.

(* every key of x, at every depth, is an attribute of the selected view *)
Fixpoint conforms (e : env) (t v : name) (x : val) : bool :=
  match x with
  | VLeaf _ => true
  | VList l => conforms_l e t v l
  | VObj fs =>
    match find_type e t with
    | None => false
    | Some r =>
      match find_view r v with
      | None => false
      | Some w => conforms_f e r w fs
      end
    end
  end
with conforms_f (e : env) (r : rtype) (w : view) (fs : vflds) : bool :=
  match fs with
  | VFNil => true
  | VFCons a x rest =>
    match view_entry (v_attrs w) a, find_attr r a with
    | Some ov, Some at_ =>
      match a_ty at_ with
      | TLeaf _ => true
      | TRes t' => conforms e t' (nested_view ov at_) x
      | TColl t' => conforms e t' (nested_view ov at_) x
      end && conforms_f e r w rest
    | _, _ => false
    end
  end
with conforms_l (e : env) (t v : name) (l : vlist) : bool :=
  match l with
  | VLNil => true
  | VLCons x r => conforms e t v x && conforms_l e t v r
  end.

Fixpoint keys (fs : vflds) : list name :=
  match fs with VFNil => [] | VFCons a _ r => a :: keys r end.

(* nested views name views that exist, nested types exist (what the DSL validates) *)
Definition closed_entry (e : env) (r : rtype) (en : name * option name) : bool :=
  match find_attr r (fst en) with
  | None => true
  | Some at_ =>
    match a_ty at_ with
    | TLeaf _ => true
    | TRes t' => has_view e t' (nested_view (snd en) at_)
    | TColl t' => has_view e t' (nested_view (snd en) at_)
    end
  end.

Definition closed (e : env) : bool :=
  forallb (fun '(_, r) => forallb (fun w => forallb (closed_entry e r) (v_attrs w)) (r_views r)) e.
