(* Views engine — executable model of goa's result-type views.

     expr/result_type.go      Project / project / projectSingle / projectCollection /
                              projectRecursive (result-type attributes, CollectionOf,
                              ArrayOf / MapOf of result types, plain user types holding
                              result types; the `seen` memo, keyed by the hash of the
                              attribute type and the view the attribute is rendered with)
     dsl/result_type.go       View / buildView (a view lists attributes of the type; a view
                              attribute may carry View("x"); else the `view` meta of the type
                              attribute; else "default")
     codegen/service          projected ("…View") types with one constructor per view
                              (new<T>View<V>, new<T><V>), Validate<T>View<V>, the viewed
                              result {Projected, View}, NewViewed<T> / New<T> (switch on the
                              view name, "" = "default", no default branch), Validate<T>
                              (default branch: InvalidEnumValueError); below a container that
                              is not itself a result type (array, map, plain user type) the
                              generated validators and constructors are view-blind
     http/codegen             response encoder (sets goa-view unless the view is fixed in the
                              design, picks the body constructor by view, no default branch; the
                              body types are expr.Project of the result type, one per view),
                              response decoder (reads goa-view, validates, rebuilds)

   Definitions only; proofs are in Lemmas.v, statements in Properties.v. *)
From Coq Require Export List Bool String Arith.
Export ListNotations.
Open Scope string_scope.

Definition name := string.

(* ---------------------------------------------------------------- designs *)

(* type of an attribute: anything without views below it (prim = stored without a pointer
   when required), a result type, CollectionOf(result type), ArrayOf(result type),
   MapOf(String, result type), a plain user type (which may hold any of these) *)
Inductive atype :=
| TLeaf (prim : bool) | TRes (t : name) | TColl (t : name)
| TArr (t : name) | TMap (t : name) | TUser (u : name).

Record attr := mkAttr { a_name : name; a_ty : atype; a_meta : option name; a_req : bool }.
(* a_meta: View("x") written on the attribute inside the type definition *)

Record view := mkView { v_name : name; v_attrs : list (name * option name) }.
(* (attribute, View("x") written on the attribute inside the view) *)

(* a result type (r_views non-empty) or a plain user type (no views) *)
Record rtype := mkRT { r_attrs : list attr; r_views : list view }.

Definition env := list (name * rtype).

Fixpoint find_type (e : env) (t : name) : option rtype :=
  match e with [] => None | (n, r) :: e' => if String.eqb n t then Some r else find_type e' t end.

Fixpoint find_view_in (vs : list view) (v : name) : option view :=
  match vs with [] => None | w :: vs' => if String.eqb (v_name w) v then Some w else find_view_in vs' v end.
Definition find_view (r : rtype) (v : name) : option view := find_view_in (r_views r) v.

Fixpoint find_attr_in (l : list attr) (a : name) : option attr :=
  match l with [] => None | x :: l' => if String.eqb (a_name x) a then Some x else find_attr_in l' a end.
Definition find_attr (r : rtype) (a : name) : option attr := find_attr_in (r_attrs r) a.

Fixpoint view_entry (l : list (name * option name)) (a : name) : option (option name) :=
  match l with [] => None | (b, ov) :: l' => if String.eqb b a then Some ov else view_entry l' a end.

Definition listed (l : list (name * option name)) (a : name) : bool :=
  match view_entry l a with Some _ => true | None => false end.

(* the view a nested result-type attribute is rendered with *)
Definition nested_view (ov : option name) (a : attr) : name :=
  match ov with
  | Some v => v
  | None => match a_meta a with Some v => v | None => "default" end
  end.

(* "" means "default" wherever a view name is consumed at run time *)
Definition norm (v : name) : name := if String.eqb v "" then "default" else v.

(* A node of a projection: a result type under one of its views (false, t, v), or a plain
   user type (true, u, v) where v is the view of the nearest enclosing result type (it plays
   no role in what the node lists; expr.Project keys its memo with it). *)
Definition nkey := (bool * name * name)%type.

Inductive wrap := WNone | WColl | WArr | WMap.

(* what an attribute points to from a node whose view is v, under the override ov of the
   node's entry: nothing (leaf), or a node behind a wrapper. Overrides and type-level view
   metas count for result types, collections, arrays and maps of result types; a plain user
   type is always listed in full. *)
Definition target (v : name) (ov : option name) (a : attr) : option (wrap * nkey) :=
  match a_ty a with
  | TLeaf _ => None
  | TRes t => Some (WNone, (false, t, nested_view ov a))
  | TColl t => Some (WColl, (false, t, nested_view ov a))
  | TArr t => Some (WArr, (false, t, nested_view ov a))
  | TMap t => Some (WMap, (false, t, nested_view ov a))
  | TUser u => Some (WNone, (true, u, v))
  end.

(* the entries a node lists: the attributes of the view, or every attribute of a plain type *)
Definition entries (e : env) (k : nkey) : option (rtype * list (name * option name)) :=
  match k with
  | (usr, t, v) =>
    match find_type e t with
    | None => None
    | Some r =>
      if usr then Some (r, map (fun a => (a_name a, None)) (r_attrs r))
      else match find_view r v with Some w => Some (r, v_attrs w) | None => None end
    end
  end.

Definition has_node (e : env) (k : nkey) : bool :=
  match entries e k with Some _ => true | None => false end.

Definition has_view (e : env) (t v : name) : bool := has_node e (false, t, v).

(* rt.Validation.Required filtered by the view, in the order of the Required list *)
Definition req_in (usr : bool) (r : rtype) (l : list (name * option name)) : list name :=
  if usr then [] else map a_name (filter (fun a => a_req a && listed l (a_name a)) (r_attrs r)).

(* -------------------------------------------- projected types, unfolded (the spec) *)

(* A projected type unfolded to a given depth: PCut where the depth budget ends. *)
Inductive ptree :=
| PLeaf
| PObj (t v : name) (fs : pflds) (req : list name)
| PUser (u : name) (fs : pflds)
| PColl (e : ptree) | PArr (e : ptree) | PMap (e : ptree)
| PCut
| PErr
with pflds := PNil | PCons (a : name) (p : ptree) (r : pflds).

Definition wrapw (w : wrap) (p : ptree) : ptree :=
  match w with WNone => p | WColl => PColl p | WArr => PArr p | WMap => PMap p end.

Definition pnode (k : nkey) (fs : pflds) (req : list name) : ptree :=
  match k with (usr, t, v) => if usr then PUser t fs else PObj t v fs req end.

(* the projection of one attribute under a view entry *)
Definition child (rec : nkey -> ptree) (v : name) (at_ : attr) (ov : option name) : ptree :=
  match target v ov at_ with None => PLeaf | Some (w, k) => wrapw w (rec k) end.

Fixpoint sfields (rec : nkey -> ptree) (r : rtype) (v : name) (l : list (name * option name)) : pflds :=
  match l with
  | [] => PNil
  | (a, ov) :: l' =>
    match find_attr r a with
    | None => sfields rec r v l'
    | Some at_ => PCons a (child rec v at_ ov) (sfields rec r v l')
    end
  end.

(* the projection the property asks for: the attributes listed in the view (that the type
   has), nested result types — direct, in collections, arrays, maps, inside plain user types —
   under their own view, recursively *)
Fixpoint sproject (k : nat) (e : env) (n : nkey) : ptree :=
  match k with
  | 0 => PCut
  | S k' =>
    match entries e n with
    | None => PErr
    | Some (r, l) => pnode n (sfields (sproject k' e) r (snd n) l) (req_in (fst (fst n)) r l)
    end
  end.

(* reading a projected node *)
Fixpoint pnames (fs : pflds) : list name :=
  match fs with PNil => [] | PCons a _ r => a :: pnames r end.

Fixpoint pfind (fs : pflds) (a : name) : option ptree :=
  match fs with PNil => None | PCons b p r => if String.eqb b a then Some p else pfind r a end.

Definition has_attr (r : rtype) (a : name) : bool :=
  match find_attr r a with Some _ => true | None => false end.

(* ------------------------------------- expr.Project, with its memo (the implementation) *)

(* The value expr.Project builds is a graph: a memo hit returns the attribute created
   earlier (possibly still being filled in: cycles). FDef id = attribute allocated by this
   call and registered in the memo under id; FRef id = the attribute registered as id. *)
Inductive itree := INode (k : nkey) (fs : iflds) (req : list name)
with iflds :=
| FNil
| FLeafC (a : name) (r : iflds)
| FDefC (a : name) (id : nat) (w : wrap) (ty : itree) (r : iflds)
| FRefC (a : name) (id : nat) (w : wrap) (r : iflds).

(* memo key: hash of the attribute type (0 result type — also the element of an array or a
   map —, 1 collection, 2 plain user type) and the view *)
Definition mkey := (nat * name * name)%type.

Definition mkey_of (w : wrap) (k : nkey) : mkey :=
  match k with (usr, t, v) => ((if usr then 2 else match w with WColl => 1 | _ => 0 end), t, v) end.

Definition mkey_eqb (k1 k2 : mkey) : bool :=
  match k1, k2 with (c1, t1, v1), (c2, t2, v2) => Nat.eqb c1 c2 && String.eqb t1 t2 && String.eqb v1 v2 end.

Record st := mkSt { next : nat; memo : list (mkey * nat) }.

Fixpoint lookup (m : list (mkey * nat)) (k : mkey) : option nat :=
  match m with [] => None | (k', id) :: m' => if mkey_eqb k' k then Some id else lookup m' k end.

Inductive res (A : Type) := Ok (a : A) | Err | Out.
Arguments Ok {A} a. Arguments Err {A}. Arguments Out {A}.

Definition init : st := mkSt 0 [].

(* projectRecursive on one attribute pointing to node k behind wrapper w *)
Definition iattr (rec : nkey -> st -> res (itree * st)) (w : wrap) (k : nkey) (s : st)
  : res ((nat * option itree) * st) :=
  match lookup (memo s) (mkey_of w k) with
  | Some id => Ok ((id, None), s)
  | None =>
    let id := next s in
    match rec k (mkSt (S id) ((mkey_of w k, id) :: memo s)) with
    | Ok (tr, s2) => Ok ((id, Some tr), s2)
    | Err => Err
    | Out => Out
    end
  end.

(* one attribute a that points to a node, then the rest (cont) *)
Definition ifield_nested (rec : nkey -> st -> res (itree * st)) (cont : st -> res (iflds * st))
           (a : name) (w : wrap) (k : nkey) (s : st) : res (iflds * st) :=
  match iattr rec w k s with
  | Ok ((id, Some tr), s2) =>
    match cont s2 with Ok (fs, s3) => Ok (FDefC a id w tr fs, s3) | Err => Err | Out => Out end
  | Ok ((id, None), s2) =>
    match cont s2 with Ok (fs, s3) => Ok (FRefC a id w fs, s3) | Err => Err | Out => Out end
  | Err => Err
  | Out => Out
  end.

Definition ifield_leaf (cont : st -> res (iflds * st)) (a : name) (s : st) : res (iflds * st) :=
  match cont s with Ok (fs, s3) => Ok (FLeafC a fs, s3) | Err => Err | Out => Out end.

(* the loop over the entries of a node (the attributes the view lists, in the view's order;
   the attributes of a plain user type) *)
Fixpoint ifields (rec : nkey -> st -> res (itree * st)) (r : rtype) (v : name)
         (l : list (name * option name)) (s : st) : res (iflds * st) :=
  match l with
  | [] => Ok (FNil, s)
  | (a, ov) :: l' =>
    match find_attr r a with
    | None => ifields rec r v l' s
    | Some at_ =>
      match target v ov at_ with
      | None => ifield_leaf (ifields rec r v l') a s
      | Some (w, k) => ifield_nested rec (ifields rec r v l') a w k s
      end
    end
  end.

(* projectSingle / the object branch of projectRecursive; fuel bounds the recursion depth *)
Fixpoint iproj (fuel : nat) (e : env) (n : nkey) (s : st) : res (itree * st) :=
  match fuel with
  | 0 => Out
  | S f =>
    match entries e n with
    | None => Err
    | Some (r, l) =>
      match ifields (iproj f e) r (snd n) l s with
      | Ok (fs, s') => Ok (INode n fs (req_in (fst (fst n)) r l), s')
      | Err => Err
      | Out => Out
      end
    end
  end.

(* expr.Project(rt, view): a fresh memo (projectCollection projects the element type with
   the same view) *)
Definition iproject (fuel : nat) (e : env) (t v : name) : res itree :=
  match iproj fuel e (false, t, v) init with Ok (tr, _) => Ok tr | Err => Err | Out => Out end.

(* looking an attribute id up in the graph *)
Fixpoint find_def (id : nat) (tr : itree) : option itree :=
  match tr with INode _ fs _ => find_def_f id fs end
with find_def_f (id : nat) (fs : iflds) : option itree :=
  match fs with
  | FNil => None
  | FLeafC _ r => find_def_f id r
  | FRefC _ _ _ r => find_def_f id r
  | FDefC _ id' _ ty r =>
    if Nat.eqb id' id then Some ty
    else match find_def id ty with Some x => Some x | None => find_def_f id r end
  end.

(* the graph read back as a tree, to depth k *)
Fixpoint unfold_f (uf : itree -> ptree) (root : itree) (fs : iflds) : pflds :=
  match fs with
  | FNil => PNil
  | FLeafC a r => PCons a PLeaf (unfold_f uf root r)
  | FDefC a _ w ty r => PCons a (wrapw w (uf ty)) (unfold_f uf root r)
  | FRefC a id w r =>
    PCons a (match find_def id root with
             | Some ty => wrapw w (uf ty)
             | None => PErr
             end) (unfold_f uf root r)
  end.

Fixpoint unfold (k : nat) (root : itree) (tr : itree) : ptree :=
  match k with
  | 0 => PCut
  | S k' => match tr with INode n fs req => pnode n (unfold_f (unfold k' root) root fs) req end
  end.

(* every memo key a design can produce: kinds x type names referred to x view names in use *)
Definition attr_targets (a : attr) : list name :=
  match a_ty a with TLeaf _ => [] | TRes t => [t] | TColl t => [t] | TArr t => [t] | TMap t => [t] | TUser u => [u] end.

Definition attr_views (a : attr) : list name :=
  match a_meta a with Some v => [v] | None => [] end.

Definition entry_views (en : name * option name) : list name :=
  match snd en with Some v => [v] | None => [] end.

Definition target_names (e : env) : list name :=
  flat_map (fun '(_, r) => flat_map attr_targets (r_attrs r)) e.

Definition view_names (e : env) : list name :=
  "default" :: flat_map (fun '(_, r) =>
     flat_map attr_views (r_attrs r) ++
     flat_map (fun w => v_name w :: flat_map entry_views (v_attrs w)) (r_views r))%list e.

Definition all_keys (e : env) : list mkey :=
  list_prod (list_prod [0; 1; 2] (target_names e)) (view_names e).

Definition fuel_bound (e : env) : nat := S (S (List.length (all_keys e))).

(* ------------------------------------------------------------------- values *)

(* A result value as the service method returns it / as it appears in a JSON body / as
   the client hands it back: leaves are opaque (numbered by the harness), an object holds
   the attributes that are set, a list holds the elements of a collection / array / map. *)
Inductive val := VLeaf (n : nat) | VObj (fs : vflds) | VList (l : vlist)
with vflds := VFNil | VFCons (a : name) (x : val) (r : vflds)
with vlist := VLNil | VLCons (x : val) (r : vlist).

(* new<T>View<V> then the response body constructor (whose type is expr.Project of the
   result type — of the per-response body type when the response carries some attributes in
   headers or cookies): keep the attributes the node lists, nested nodes under their own view.
   The value is what crosses the wire WHEREVER the response puts it: attributes mapped to a
   header / a cookie are read back from there by the harness (their transport encoding is the
   business of properties C02 / C03). *)
Fixpoint restrict (e : env) (k : nkey) (x : val) : val :=
  match x with
  | VLeaf n => VLeaf n
  | VList l => VList (restrict_l e k l)
  | VObj fs =>
    match entries e k with
    | None => VObj VFNil
    | Some (r, l) => VObj (restrict_f e r (snd k) l fs)
    end
  end
with restrict_f (e : env) (r : rtype) (v : name) (l : list (name * option name)) (fs : vflds) : vflds :=
  match fs with
  | VFNil => VFNil
  | VFCons a x rest =>
    match view_entry l a, find_attr r a with
    | Some ov, Some at_ =>
      VFCons a (match target v ov at_ with None => x | Some (_, k') => restrict e k' x end)
             (restrict_f e r v l rest)
    | _, _ => restrict_f e r v l rest
    end
  end
with restrict_l (e : env) (k : nkey) (l : vlist) : vlist :=
  match l with
  | VLNil => VLNil
  | VLCons x r => VLCons (restrict e k x) (restrict_l e k r)
  end.

(* ------------------------------------------------------------ generated server *)

(* what leaves the server: the goa-view header (absent when the view is fixed in the
   design) and the body; a fault (error response 500) when the endpoint refuses the view name
   the service method returned; or nothing at all (handler panic, connection closed) *)
Inductive sresp := SResp (hdr : option name) (body : val) | SFault | SPanic.

(* fixed = view set in the design (Result(T, func(){ View(v) }), or a type with a single
   view); chosen = view name returned by the service method otherwise. The generated
   endpoint checks the returned name against the views of the result type ("" standing for
   "default") and answers a fault otherwise; a fixed view is validated by the DSL (an
   undefined one would leave the viewed result nil: the encoder dereferences it). *)
Definition server_respond (e : env) (c : bool) (t : name) (fixed : option name) (chosen : name) (x : val) : sresp :=
  match fixed with
  | Some f => if has_view e t (norm f) then SResp None (restrict e (false, t, norm f) x) else SPanic
  | None =>
    if has_view e t (norm chosen) then SResp (Some (norm chosen)) (restrict e (false, t, norm chosen) x)
    else SFault
  end.

(* ------------------------------------------------------------ generated client *)

Fixpoint has_field (fs : vflds) (a : name) : bool :=
  match fs with VFNil => false | VFCons b _ r => String.eqb b a || has_field r a end.

(* the required attributes whose absence the client can see: the response body is first
   converted to the projected type, and that conversion allocates required arrays / maps
   (make([]T, len(nil))), so their absence goes unnoticed *)
Definition allocated (ty : atype) : bool :=
  match ty with TLeaf false => true | TArr _ => true | TMap _ => true | _ => false end.

Definition req_checked (usr : bool) (r : rtype) (l : list (name * option name)) : list name :=
  if usr then []
  else map a_name (filter (fun a => a_req a && listed l (a_name a) && negb (allocated (a_ty a))) (r_attrs r)).

(* the validator the generated code calls for an attribute: result types and collections
   listed by a result type validate under their own view; below an array, a map or a plain
   user type the validation code is view-blind: Validate<T>View, the default-view one (map
   values are validated since the recurseValidationCode repair of property C04) *)
Definition vtarget (usr : bool) (v : name) (ov : option name) (a : attr) : option nkey :=
  match a_ty a with
  | TLeaf _ => None
  | TRes t => Some (false, t, if usr then "default" else nested_view ov a)
  | TColl t => Some (false, t, if usr then "default" else nested_view ov a)
  | TArr t => Some (false, t, "default")
  | TMap t => Some (false, t, "default")
  | TUser u => Some (true, u, v)
  end.

Fixpoint validate (e : env) (k : nkey) (x : val) : bool :=
  match x with
  | VLeaf _ => true
  | VList l => validate_l e k l
  | VObj fs =>
    match entries e k with
    | None => false
    | Some (r, l) =>
      forallb (has_field fs) (req_checked (fst (fst k)) r l) && validate_f e (fst (fst k)) r (snd k) l fs
    end
  end
with validate_f (e : env) (usr : bool) (r : rtype) (v : name) (l : list (name * option name)) (fs : vflds) : bool :=
  match fs with
  | VFNil => true
  | VFCons a x rest =>
    match view_entry l a, find_attr r a with
    | Some ov, Some at_ =>
      match vtarget usr v ov at_ with None => true | Some k' => validate e k' x end
      && validate_f e usr r v l rest
    | _, _ => validate_f e usr r v l rest
    end
  end
with validate_l (e : env) (k : nkey) (l : vlist) : bool :=
  match l with
  | VLNil => true
  | VLCons x r => validate e k x && validate_l e k r
  end.

(* the generic transform used below arrays, maps and plain user types: copies what is there,
   dereferences every required primitive attribute of the types it walks (views play no
   role) — true when nothing it dereferences is missing *)
Definition gtarget (a : attr) : option nkey :=
  match a_ty a with
  | TLeaf _ => None
  | TRes t => Some (false, t, "default") | TColl t => Some (false, t, "default")
  | TArr t => Some (false, t, "default") | TMap t => Some (false, t, "default")
  | TUser u => Some (true, u, "default")
  end.

Definition deref (r : rtype) : list name :=
  map a_name (filter (fun a => a_req a && match a_ty a with TLeaf true => true | _ => false end) (r_attrs r)).

Fixpoint gen_ok (e : env) (t : name) (x : val) : bool :=
  match x with
  | VLeaf _ => true
  | VList l => gen_ok_l e t l
  | VObj fs =>
    match find_type e t with
    | None => true
    | Some r => forallb (has_field fs) (deref r) && gen_ok_f e r fs
    end
  end
with gen_ok_f (e : env) (r : rtype) (fs : vflds) : bool :=
  match fs with
  | VFNil => true
  | VFCons a x rest =>
    match find_attr r a with
    | Some at_ => match gtarget at_ with None => true | Some (_, t', _) => gen_ok e t' x end && gen_ok_f e r rest
    | None => gen_ok_f e r rest
    end
  end
with gen_ok_l (e : env) (t : name) (l : vlist) : bool :=
  match l with
  | VLNil => true
  | VLCons x r => gen_ok e t x && gen_ok_l e t r
  end.

(* new<T><V>: plain attributes, arrays, maps and plain user types are copied when the view
   lists them (the latter three by the generic transform); a result-type or collection
   attribute that is present is rebuilt under the view the parent's entry names ("default"
   when the parent's view does not list it) *)
Definition direct (ty : atype) : option name :=
  match ty with TRes t => Some t | TColl t => Some t | _ => None end.

Fixpoint rebuild (e : env) (t v : name) (x : val) : val :=
  match x with
  | VLeaf n => VLeaf n
  | VList l => VList (rebuild_l e t v l)
  | VObj fs =>
    match entries e (false, t, v) with
    | None => VObj VFNil
    | Some (r, l) => VObj (rebuild_f e r l fs)
    end
  end
with rebuild_f (e : env) (r : rtype) (l : list (name * option name)) (fs : vflds) : vflds :=
  match fs with
  | VFNil => VFNil
  | VFCons a x rest =>
    match find_attr r a with
    | None => rebuild_f e r l rest
    | Some at_ =>
      match direct (a_ty at_) with
      | Some t' =>
        let u := match view_entry l a with Some ov => nested_view ov at_ | None => "default" end in
        VFCons a (rebuild e t' u x) (rebuild_f e r l rest)
      | None => if listed l a then VFCons a x (rebuild_f e r l rest) else rebuild_f e r l rest
      end
    end
  end
with rebuild_l (e : env) (t v : name) (l : vlist) : vlist :=
  match l with
  | VLNil => VLNil
  | VLCons x r => VLCons (rebuild e t v x) (rebuild_l e t v r)
  end.

(* no nil dereference while rebuilding *)
Fixpoint rebuild_ok (e : env) (t v : name) (x : val) : bool :=
  match x with
  | VLeaf _ => true
  | VList l => rebuild_ok_l e t v l
  | VObj fs =>
    match entries e (false, t, v) with
    | None => true
    | Some (r, l) => rebuild_ok_f e r l fs
    end
  end
with rebuild_ok_f (e : env) (r : rtype) (l : list (name * option name)) (fs : vflds) : bool :=
  match fs with
  | VFNil => true
  | VFCons a x rest =>
    match find_attr r a with
    | None => rebuild_ok_f e r l rest
    | Some at_ =>
      match direct (a_ty at_) with
      | Some t' =>
        let u := match view_entry l a with Some ov => nested_view ov at_ | None => "default" end in
        rebuild_ok e t' u x && rebuild_ok_f e r l rest
      | None =>
        (if listed l a then match gtarget at_ with None => true | Some (_, t', _) => gen_ok e t' x end else true)
        && rebuild_ok_f e r l rest
      end
    end
  end
with rebuild_ok_l (e : env) (t v : name) (l : vlist) : bool :=
  match l with
  | VLNil => true
  | VLCons x r => rebuild_ok e t v x && rebuild_ok_l e t v r
  end.

Inductive cres := COk (x : val) | CErr | CPanic | CNil.   (* CNil: nil result and no error *)

(* the response decoder: view = the one fixed in the design, else the goa-view header
   ("" when absent); Validate<T> rejects names the type does not define *)
Definition client_decode (e : env) (t : name) (fixed : option name) (hdr : option name) (body : val) : cres :=
  let v := norm (match fixed with Some f => f | None => match hdr with Some h => h | None => "" end end) in
  if has_view e t v then
    if validate e (false, t, v) body then
      if rebuild_ok e t v body then COk (rebuild e t v body) else CPanic
    else CErr
  else CErr.

(* ---------------------------------------- what the property talks about (for statements) *)

(* x carries every attribute its type requires (what the service returns) *)
Fixpoint full_valid (e : env) (t : name) (x : val) : bool :=
  match x with
  | VLeaf _ => true
  | VList l => full_valid_l e t l
  | VObj fs =>
    match find_type e t with
    | None => false
    | Some r => forallb (has_field fs) (map a_name (filter a_req (r_attrs r))) && full_valid_f e r fs
    end
  end
with full_valid_f (e : env) (r : rtype) (fs : vflds) : bool :=
  match fs with
  | VFNil => true
  | VFCons a x rest =>
    match find_attr r a with
    | Some at_ => match gtarget at_ with None => true | Some (_, t', _) => full_valid e t' x end && full_valid_f e r rest
    | None => full_valid_f e r rest
    end
  end
with full_valid_l (e : env) (t : name) (l : vlist) : bool :=
  match l with
  | VLNil => true
  | VLCons x r => full_valid e t x && full_valid_l e t r
  end.

(* every key of x, at every depth, is an attribute the node lists *)
Fixpoint conforms (e : env) (k : nkey) (x : val) : bool :=
  match x with
  | VLeaf _ => true
  | VList l => conforms_l e k l
  | VObj fs =>
    match entries e k with
    | None => false
    | Some (r, l) => conforms_f e r (snd k) l fs
    end
  end
with conforms_f (e : env) (r : rtype) (v : name) (l : list (name * option name)) (fs : vflds) : bool :=
  match fs with
  | VFNil => true
  | VFCons a x rest =>
    match view_entry l a, find_attr r a with
    | Some ov, Some at_ =>
      match target v ov at_ with None => true | Some (_, k') => conforms e k' x end
      && conforms_f e r v l rest
    | _, _ => false
    end
  end
with conforms_l (e : env) (k : nkey) (l : vlist) : bool :=
  match l with
  | VLNil => true
  | VLCons x r => conforms e k x && conforms_l e k r
  end.

Fixpoint keys (fs : vflds) : list name :=
  match fs with VFNil => [] | VFCons a _ r => a :: keys r end.

(* nested views name views that exist, nested types exist (what the DSL validates) *)
Definition closed_entry (e : env) (r : rtype) (v : name) (en : name * option name) : bool :=
  match find_attr r (fst en) with
  | None => true
  | Some at_ => match target v (snd en) at_ with None => true | Some (_, k) => has_node e k end
  end.

Definition closed_type (e : env) (r : rtype) : bool :=
  forallb (fun w => forallb (closed_entry e r (v_name w)) (v_attrs w)) (r_views r) &&
  forallb (fun a => closed_entry e r "default" (a_name a, None)) (r_attrs r) &&
  (* every type an attribute refers to exists; result types define "default" *)
  forallb (fun a => match gtarget a with None => true | Some k => has_node e k end) (r_attrs r).

Definition closed (e : env) : bool := forallb (fun '(_, r) => closed_type e r) e.

(* the envelope in which view-blind validation below containers cannot be observed: the
   design has no array / map / plain-user-type attribute, or every view lists the required
   attributes of its type *)
Definition is_container (ty : atype) : bool :=
  match ty with TArr _ => true | TMap _ => true | TUser _ => true | _ => false end.

Definition no_containers (e : env) : bool :=
  forallb (fun '(_, r) => forallb (fun a => negb (is_container (a_ty a))) (r_attrs r)) e.

Definition req_everywhere (e : env) : bool :=
  forallb (fun '(_, r) => forallb (fun w => forallb (fun a => negb (a_req a) || listed (v_attrs w) (a_name a)) (r_attrs r)) (r_views r)) e.

Definition view_blind_safe (e : env) : bool := no_containers e || req_everywhere e.

(* ------------------------------------- where the rendered attributes travel (HTTP response) *)

(* A response may carry some attributes of the result in headers / cookies (Header("a:X-A"),
   Cookie(...)): buildHTTPResponseBody removes them from the body type (and from its views);
   the encoder sets a header only when the projected attribute is set. m = the mapped names. *)
Fixpoint mem_name (a : name) (m : list name) : bool :=
  match m with [] => false | b :: m' => String.eqb b a || mem_name a m' end.

Fixpoint vfind (fs : vflds) (a : name) : option val :=
  match fs with VFNil => None | VFCons b x r => if String.eqb b a then Some x else vfind r a end.

Fixpoint hdr_f (m : list name) (fs : vflds) : vflds :=
  match fs with
  | VFNil => VFNil
  | VFCons a x r => if mem_name a m then VFCons a x (hdr_f m r) else hdr_f m r
  end.

Fixpoint body_f (m : list name) (fs : vflds) : vflds :=
  match fs with
  | VFNil => VFNil
  | VFCons a x r => if mem_name a m then body_f m r else VFCons a x (body_f m r)
  end.

Inductive wire := WResp (view : option name) (carried : vflds) (body : val) | WFault | WPanic.

Definition server_wire (e : env) (c : bool) (t : name) (fixed : option name) (chosen : name)
           (m : list name) (x : val) : wire :=
  match server_respond e c t fixed chosen x with
  | SResp h (VObj fs) => WResp h (hdr_f m fs) (VObj (body_f m fs))
  | SResp h b => WResp h VFNil b
  | SFault => WFault
  | SPanic => WPanic
  end.

(* the client puts the carried attributes back next to the body's (order of the type) *)
Definition reassemble (r : rtype) (carried body : vflds) : vflds :=
  (fix go (l : list attr) : vflds :=
     match l with
     | [] => VFNil
     | a :: l' =>
       match vfind carried (a_name a) with
       | Some x => VFCons (a_name a) x (go l')
       | None => match vfind body (a_name a) with
                 | Some x => VFCons (a_name a) x (go l')
                 | None => go l'
                 end
       end
     end) (r_attrs r).

(* -------------------------------------------- the generated view constructors (codegen) *)

(* new<T>View<V> (service type -> projected type) and new<T><V> (back): the fields they
   touch and, for a result type or collection attribute, the constructor they call for it:
   new<T'>[Collection]View<U> with U the view the parent's view entry names *)
Definition ctor_call (ov : option name) (a : attr) : option (bool * name * name) :=
  match a_ty a with
  | TRes t' => Some (false, t', nested_view ov a)
  | TColl t' => Some (true, t', nested_view ov a)
  | _ => None
  end.

Definition ctor_plan (e : env) (t v : name) : option (list (name * option (bool * name * name))) :=
  match entries e (false, t, v) with
  | None => None
  | Some (r, l) =>
    Some (flat_map (fun a =>
            match view_entry l (a_name a), find_attr r (a_name a) with
            | Some ov, Some at_ => [(a_name a, ctor_call ov at_)]
            | _, _ => []
            end) (r_attrs r))
  end.

(* The response decoder validates the viewed result (view name included) only when the
   response HAS a body type: when every attribute of the result travels in headers / cookies
   the check is skipped, and New<T> (switch on the view, no default branch) hands back a nil
   result without an error for a view name the type does not define. *)
Definition bodyless (e : env) (t : name) (m : list name) : bool :=
  match find_type e t with
  | Some r => forallb (fun a => mem_name (a_name a) m) (r_attrs r)
  | None => false
  end.

Definition client_decode_resp (e : env) (t : name) (fixed : option name) (hdr : option name)
           (m : list name) (x : val) : cres :=
  let v := norm (match fixed with Some f => f | None => match hdr with Some h => h | None => "" end end) in
  if bodyless e t m && negb (has_view e t v) then CNil else client_decode e t fixed hdr x.
