(* C14 - the JSON-Schema fragment goa emits in openapi3.json, the schema goa builds for
   an attribute (model of http/codegen/openapi/v3/types.go schemafy, same validation
   mapping as openapi/json_schema.go initAttributeValidation), and the standard meaning
   of those schemas on JSON documents. Definitions only.

   JSON documents are represented by the value trees of Model.v: VObj with a VNull field
   = the key is absent; VMap = a JSON object with arbitrary keys; VBytes = a base64
   string. *)
From Coq Require Import QArith Qround.
From Validation Require Export Model.
Close Scope Q_scope.
Open Scope nat_scope.

Inductive jtype := JString | JInteger | JNumber | JBoolean | JArray | JObject | JAny.

Record skw := mkS {
  s_enum : option (list lit);
  s_format : option nat;
  s_pattern : option nat;
  s_minimum : option Q;
  s_maximum : option Q;
  s_xmin : option Q;            (* exclusiveMinimum, emitted as a number *)
  s_xmax : option Q;
  s_minlength : option nat;
  s_maxlength : option nat;
  s_minitems : option nat;
  s_maxitems : option nat }.

Inductive schema :=
| SRef (id : nat)                                   (* $ref: "#/components/schemas/<type id>" *)
| SNode (t : jtype) (k : skw)
        (required : list nat)                       (* positions of the required properties *)
        (props : list schema)                       (* properties, in attribute order *)
        (items : option schema)
        (addl : option schema).                     (* additionalProperties schema (None: any) *)

Definition jtype_of (p : prim) : jtype :=
  match p with
  | PBool => JBoolean
  | PNum KFloat32 | PNum KFloat64 => JNumber
  | PNum _ => JInteger
  | PString | PBytes => JString
  | PAny => JAny
  end.

(* initAttributeValidation / the validation block of schemafy: MinLength / MaxLength become
   minItems / maxItems for arrays and minLength / maxLength for everything else *)
Definition skw_of (is_array : bool) (vl : validation) : skw :=
  mkS (v_enum vl) (v_format vl) (v_pattern vl) (v_min vl) (v_max vl) (v_xmin vl) (v_xmax vl)
      (if is_array then None else v_minlen vl) (if is_array then None else v_maxlen vl)
      (if is_array then v_minlen vl else None) (if is_array then v_maxlen vl else None).

Fixpoint required_positions (i : nat) (fs : list (nat * bool * att)) : list nat :=
  match fs with
  | [] => []
  | (_, r, _) :: fs' => (if r then [i] else []) ++ required_positions (S i) fs'
  end.

Definition is_string_key (E : env) (k : att) : bool :=
  match k with
  | APrim _ _ PString => true
  | _ => false
  end.
Definition is_any (a : att) : bool := match a with APrim _ _ PAny => true | _ => false end.

Fixpoint schema_of (E : env) (a : att) : schema :=
  match a with
  | APrim vl _ p => SNode (jtype_of p) (skw_of false vl) [] [] None None
  | AAlias id => let '(p, vl) := alias_def E id in SNode (jtype_of p) (skw_of false vl) [] [] None None
  | AArray vl e => SNode JArray (skw_of true vl) [] [] (Some (schema_of E e)) None
  | AMap vl k e =>
      SNode JObject (skw_of false vl) [] [] None
            (if is_string_key E k && negb (is_any e) then Some (schema_of E e) else None)
  | AObject fs =>
      SNode JObject (skw_of false no_validation) (required_positions 0 fs)
            ((fix props (fs : list (nat * bool * att)) : list schema :=
                match fs with [] => [] | (_, _, fa) :: fs' => schema_of E fa :: props fs' end) fs)
            None None
  | AUser id => SRef id
  end.

Definition component (E : env) (id : nat) : schema := schema_of E (user_body E id).

(* ---------------------------------------------------------------- meaning *)
(* whether a JSON number is integral is settled when the document is decoded into the
   typed value tree (a fractional number for an integer attribute does not decode) *)
Definition type_ok (t : jtype) (v : value) : bool :=
  match t, v with
  | JAny, _ => true
  | JString, VStr _ | JString, VBytes _ => true
  | JInteger, VNum _ => true
  | JNumber, VNum _ => true
  | JBoolean, VBool _ => true
  | JArray, VArr _ => true
  | JObject, VObj _ | JObject, VMap _ => true
  | _, _ => false
  end.

Definition opt_all {A} (o : option A) (f : A -> bool) : bool := match o with Some x => f x | None => true end.

(* base64 (padded) length of n bytes *)
Definition b64len (n : nat) : nat := 4 * ((n + 2) / 3).

Section Meaning.
Variable fmt_ok pat_ok : nat -> str -> bool.

(* keyword assertions of JSON Schema: each applies to instances of its own kind only *)
Definition skw_ok (k : skw) (v : value) : bool :=
  opt_all (s_enum k) (fun l => existsb (lit_matches v) l) &&
  match v with
  | VStr s =>
      opt_all (s_format k) (fun f => fmt_ok f s) && opt_all (s_pattern k) (fun p => pat_ok p s) &&
      opt_all (s_minlength k) (fun n => n <=? rune_count s) && opt_all (s_maxlength k) (fun n => rune_count s <=? n)
  | VBytes s =>
      opt_all (s_minlength k) (fun n => n <=? b64len (length s)) && opt_all (s_maxlength k) (fun n => b64len (length s) <=? n)
  | VNum q =>
      opt_all (s_minimum k) (fun m => qle m q) && opt_all (s_maximum k) (fun m => qle q m) &&
      opt_all (s_xmin k) (fun m => qlt m q) && opt_all (s_xmax k) (fun m => qlt q m)
  | VArr l => opt_all (s_minitems k) (fun n => n <=? length l) && opt_all (s_maxitems k) (fun n => length l <=? n)
  | _ => true
  end.

Fixpoint accepts (E : env) (ref : nat -> value -> bool) (s : schema) (v : value) {struct s} : bool :=
  match s with
  | SRef id => ref id v
  | SNode t k req props items addl =>
      type_ok t v && skw_ok k v &&
      match v with
      | VArr l => match items with Some it => forallb (accepts E ref it) l | None => true end
      | VMap l => match addl with Some ad => forallb (fun kv => accepts E ref ad (snd kv)) l | None => true end
      | VObj l =>
          forallb (fun i => negb (is_null (nth i l VNull))) req &&
          (fix each (ps : list schema) (l : list value) : bool :=
             match ps, l with
             | ps1 :: ps', x :: l' => (if is_null x then true else accepts E ref ps1 x) && each ps' l'
             | _, _ => true
             end) props l
      | _ => true
      end
  end.

Fixpoint accepts_user (E : env) (n : nat) (id : nat) (v : value) : bool :=
  match n with
  | O => true
  | S m => accepts E (accepts_user E m) (component E id) v
  end.

Definition schema_accepts (E : env) (n : nat) (a : att) (v : value) : bool :=
  accepts E (accepts_user E n) (schema_of E a) v.
End Meaning.

(* ---------------------------------------------------------------- where schema and validation part *)
(* attributes on which the documented schema and the design's validations say the same:
   no map carries MinLength / MaxLength (they are documented as string lengths, which do
   not apply to objects), no map key carries validations (keys are not documented), no
   byte string carries lengths (documented lengths count base64 characters), integers
   are integral *)
Fixpoint schema_faithful (E : env) (a : att) : bool :=
  match a with
  | APrim vl _ PBytes => match v_minlen vl, v_maxlen vl with None, None => true | _, _ => false end
  | APrim _ _ _ => true
  | AAlias _ => true
  | AArray _ e => schema_faithful E e
  | AMap vl k e =>
      match v_minlen vl, v_maxlen vl with None, None => true | _, _ => false end &&
      match k with APrim kvl _ PString => vl_empty kvl | _ => false end &&
      negb (is_any e) && schema_faithful E e
  | AObject fs => forallb (fun f => schema_faithful E (snd f)) fs
  | AUser _ => true
  end.

Definition env_schema_faithful (E : env) : bool := forallb (fun ua => schema_faithful E (snd ua)) (e_users E).

(* no JSON null among array elements / map values (a null property is an absent one) *)
Fixpoint dense (v : value) : bool :=
  match v with
  | VArr l => forallb (fun x => negb (is_null x) && dense x) l
  | VMap l => forallb (fun kv => negb (is_null (snd kv)) && dense (snd kv)) l
  | VObj l => forallb dense l
  | _ => true
  end.
